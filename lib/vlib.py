"""Shared runner library for /verif checks.

A check is a python module checks/<ID>.py with

    LEVEL = "model_checking" | "fault_enumeration" | "exploration" | ...
    def run(ctx) -> None

It uses ctx.tlc(...) to run TLC on modules from /verif/spec, ctx.vh(...) to run
the Go harness (built from /repo's *current* working tree, tag `verif`), and
reports through ctx.diverge(...) / ctx.cover(...).  The runner classifies the
divergences against /verif/known-findings.json, writes the evidence file and
prints KNOWN-FINDING / VIOLATION lines.

Exit codes: 0 held (or only known findings), 1 new violation, 2 tooling error.
"""
import json
import os
import re
import shutil
import subprocess
import sys
import tempfile
import time

ROOT = os.path.dirname(os.path.dirname(os.path.abspath(__file__)))
REPO = os.environ.get("VERIF_REPO", "/repo")
SPEC = os.path.join(ROOT, "spec")
HARNESS = os.path.join(ROOT, "harness")
# VERIF_REPO=<scratch worktree> runs a check against a mutated copy of go-git (self-tests of the
# machinery); build output and evidence of such runs are kept apart from the real ones.
if os.path.realpath(REPO) == "/repo":
    BUILD = os.path.join(ROOT, "build")
    EVID = os.path.join(ROOT, "evidence")
else:
    _key = re.sub(r"[^A-Za-z0-9]+", "_", os.path.realpath(REPO)).strip("_")
    BUILD = os.path.join(ROOT, "build", "alt", _key)
    EVID = os.path.join(BUILD, "evidence")
TLA_JAR = "/opt/veriftools/tla/tla2tools.jar"
CM_JAR = None


class ToolingError(Exception):
    pass


def goenv():
    env = dict(os.environ)
    env["GOFLAGS"] = "-mod=mod"
    env["GOPROXY"] = "off"
    env.pop("GOTOOLCHAIN", None)  # auto: /repo needs go1.26.0 via toolchain switch
    env.pop("GOSUMDB", None)
    return env


def gen_gomod():
    """harness/go.mod = /repo's require blocks + replace => /repo (measured necessary)."""
    src = open(os.path.join(REPO, "go.mod")).read()
    reqs = re.findall(r"require \((.*?)\)", src, re.S)
    single = re.findall(r"^require ([^\(\n]+)$", src, re.M)
    gov = re.search(r"^go (\S+)", src, re.M).group(1)
    out = ["module verifharness", "go " + gov,
           "require github.com/go-git/go-git/v6 v6.0.0",
           "require pgregory.net/rapid v1.3.0",
           "require ("]
    for r in reqs:
        out.append(r)
    for s in single:
        out.append("\t" + s)
    out.append(")")
    out.append("replace github.com/go-git/go-git/v6 => " + REPO)
    txt = "\n".join(out) + "\n"
    os.makedirs(BUILD, exist_ok=True)
    p = os.path.join(BUILD, "go.mod")
    old = open(p).read() if os.path.exists(p) else None
    if old != txt:
        open(p, "w").write(txt)
    # go.sum: /repo's plus any extras we keep for cached helper modules
    sums = open(os.path.join(REPO, "go.sum")).read()
    extra = os.path.join(HARNESS, "go.sum.extra")
    if os.path.exists(extra):
        sums += open(extra).read()
    ps = os.path.join(BUILD, "go.sum")
    olds = open(ps).read() if os.path.exists(ps) else None
    if olds != sums:
        open(ps, "w").write(sums)


def build_harness(race=False, pkg="vh"):
    os.makedirs(BUILD, exist_ok=True)
    gen_gomod()
    out = os.path.join(BUILD, pkg + ("-race" if race else ""))
    cmd = ["go", "build", "-modfile", os.path.join(BUILD, "go.mod"), "-tags", "verif", "-o", out]
    if race:
        cmd.insert(2, "-race")
    cmd.append("./cmd/" + pkg)
    t0 = time.time()
    p = subprocess.run(cmd, cwd=HARNESS, env=goenv(), capture_output=True, text=True)
    if p.returncode != 0:
        raise ToolingError("harness build failed:\n" + p.stdout + p.stderr)
    return out, time.time() - t0


class TLCResult:
    def __init__(self):
        self.stdout = ""
        self.generated = 0
        self.distinct = 0
        self.depth = 0
        self.rc = 0
        self.violated = None   # name of violated invariant / property, if any
        self.dir = None
        self.wall = 0.0
        self.coverage = {}


class Ctx:
    def __init__(self, pid, tier, seed, replay=None):
        self.pid = pid
        self.tier = tier
        self.seed = seed
        self.replay = replay
        self.scratch = tempfile.mkdtemp(prefix="verif-%s-" % pid)
        self.t0 = time.time()
        self.divs = []          # divergences: dict(sig, what, case)
        self.cov = {"states": 0, "transitions": 0, "traces_validated_against_impl": 0,
                    "evaluations": 0, "distinct_nontrivial": 0, "samples": [], "rule": "",
                    "tlc_runs": [], "bounds": {}, "exhaustive": False}
        self.assumptions = []
        self.notes = []
        self.bins = {}
        self.thorough = tier == "thorough"

    # ---------------------------------------------------------------- TLC
    def specdir(self, name="tla"):
        """Flat copy of every module under spec/ (TLC resolves modules in one dir)."""
        d = os.path.join(self.scratch, name)
        if not os.path.isdir(d):
            os.makedirs(d)
            for base, _, files in os.walk(SPEC):
                for f in files:
                    if f.endswith(".tla") or f.endswith(".cfg"):
                        shutil.copy(os.path.join(base, f), os.path.join(d, f))
        return d

    def tlc(self, module, cfg=None, cfg_text=None, consts=None, mode="bfs", workers=None,
            depth=None, num=None, timeout=600, files=None, expect_violation=False,
            coverage=False, extra=None, dirname="tla", heap="4g", dfs=False, count=True):
        d = self.specdir(dirname)
        if files:
            for k, v in files.items():
                if isinstance(v, bytes):
                    open(os.path.join(d, k), "wb").write(v)
                else:
                    open(os.path.join(d, k), "w").write(v)
        cfgname = cfg or (module + "_gen.cfg")
        if cfg_text is not None:
            open(os.path.join(d, cfgname), "w").write(cfg_text)
        meta = tempfile.mkdtemp(prefix="meta-", dir=self.scratch)
        if workers is None:
            workers = "auto" if mode == "bfs" else 1
        cmd = ["java", "-Xss512m", "-Xmx" + heap, "-XX:+UseParallelGC"]
        if dfs:
            cmd.append("-Dtlc2.tool.queue.IStateQueue=StateDeque")
        cmd += ["-cp", TLA_JAR + ":" + cm_jar(), "tlc2.TLC", "-metadir", meta,
                "-config", cfgname, "-workers", str(workers), "-noGenerateSpecTE"]
        if mode == "simulate":
            cmd += ["-simulate", "num=%d" % (num or 100), "-depth", str(depth or 10),
                    "-seed", str(self.seed)]
        elif mode == "bfs":
            if depth:
                pass
        if coverage:
            cmd += ["-coverage", "1"]
        if extra:
            cmd += extra
        cmd.append(module)
        t0 = time.time()
        try:
            # time limits are tooling limits, not verdicts: the thorough tier gets a load safety factor
            if self.thorough:
                timeout = timeout * 3
            p = subprocess.run(cmd, cwd=d, capture_output=True, text=True, timeout=timeout)
        except subprocess.TimeoutExpired:
            raise ToolingError("TLC timeout (%ds) on %s/%s" % (timeout, module, cfgname))
        r = TLCResult()
        r.stdout = p.stdout + p.stderr
        r.rc = p.returncode
        r.dir = d
        r.wall = time.time() - t0
        m = re.findall(r"(\d+) states generated, (\d+) distinct states found", r.stdout)
        if m:
            r.generated, r.distinct = int(m[-1][0]), int(m[-1][1])
        m = re.search(r"depth of the complete state graph search is (\d+)", r.stdout)
        if m:
            r.depth = int(m.group(1))
        m = re.search(r"Invariant (\S+) is violated", r.stdout)
        if m:
            r.violated = m.group(1)
        m2 = re.search(r"(Temporal properties were violated|Action property .* violated|property (\S+) is violated)", r.stdout)
        if m2 and not r.violated:
            r.violated = m2.group(0)
        shutil.rmtree(meta, ignore_errors=True)
        ok_codes = (0,)
        if r.violated and not expect_violation:
            raise ToolingError("TLC reports %s violated in %s/%s (model-level failure, not a verdict):\n%s"
                               % (r.violated, module, cfgname, tail(r.stdout)))
        if r.rc not in ok_codes and not r.violated:
            # rc 12 = safety violation, 13 = liveness; others = errors
            raise ToolingError("TLC failed rc=%d on %s/%s:\n%s" % (r.rc, module, cfgname, tail(r.stdout)))
        if count:
            self.cov["states"] += r.distinct
            self.cov["transitions"] += r.generated
        self.cov["tlc_runs"].append({"module": module, "cfg": cfgname, "mode": mode,
                                     "generated": r.generated, "distinct": r.distinct,
                                     "depth": r.depth, "wall_s": round(r.wall, 2)})
        return r

    def printed_json(self, r, tag=None):
        """Yield JSON values printed by PrintT(ToJson(x)) lines in TLC stdout."""
        out = []
        for line in r.stdout.splitlines():
            line = line.strip()
            if line.startswith('"') and line.endswith('"') and len(line) > 2:
                # PrintT of a string prints it quoted with TLA escapes
                try:
                    s = json.loads(line)
                except Exception:
                    s = line[1:-1].replace('\\"', '"').replace("\\\\", "\\")
                try:
                    out.append(json.loads(s))
                except Exception:
                    pass
            elif line[:1] in "[{":
                try:
                    out.append(json.loads(line))
                except Exception:
                    pass
        return out

    # ------------------------------------------------------------- harness
    def build(self, race=False, pkg="vh"):
        key = (pkg, race)
        if key not in self.bins:
            b, w = build_harness(race, pkg)
            self.bins[key] = b
            self.cov["harness_build_s"] = round(self.cov.get("harness_build_s", 0) + w, 1)
        return self.bins[key]

    def vh(self, sub, args=None, stdin=None, timeout=3600, race=False, env=None, pkg="vh"):
        """Run a harness subcommand of harness/cmd/<pkg>; returns parsed JSON report (dict)."""
        b = self.build(race=race, pkg=pkg)
        cmd = [b, sub] + [str(a) for a in (args or [])]
        e = goenv()
        e["VERIF_SEED"] = str(self.seed)
        e["VERIF_TIER"] = self.tier
        e["VERIF_SCRATCH"] = self.scratch
        if env:
            e.update(env)
        try:
            if self.thorough:
                timeout = timeout * 3
            p = subprocess.run(cmd, input=stdin, capture_output=True, text=True, timeout=timeout,
                               env=e, cwd=self.scratch)
        except subprocess.TimeoutExpired:
            raise ToolingError("harness %s timed out after %ds" % (sub, timeout))
        if p.returncode != 0:
            raise ToolingError("harness %s rc=%d\n%s\n%s" % (sub, p.returncode, tail(p.stdout), tail(p.stderr)))
        # last line of stdout is the JSON report
        lines = [l for l in p.stdout.splitlines() if l.strip()]
        if not lines:
            raise ToolingError("harness %s produced no report\n%s" % (sub, tail(p.stderr)))
        try:
            rep = json.loads(lines[-1])
        except Exception:
            raise ToolingError("harness %s: unparsable report: %s" % (sub, lines[-1][:400]))
        self.absorb(rep)
        return rep

    def absorb(self, rep):
        """Merge a harness report {evaluations, distinct, divergences[], samples[], traces, spec_errors[]}."""
        self.cov["evaluations"] += int(rep.get("evaluations", 0))
        self.cov["distinct_nontrivial"] += int(rep.get("distinct", 0))
        self.cov["traces_validated_against_impl"] += int(rep.get("traces", 0))
        for s in rep.get("samples", [])[:5]:
            if len(self.cov["samples"]) < 12:
                self.cov["samples"].append(s)
        for d in rep.get("divergences", []):
            self.diverge(d.get("sig", "?"), d.get("what", ""), d.get("case"))
        se = rep.get("spec_errors", [])
        if se:
            os.makedirs(BUILD, exist_ok=True)
            json.dump(se, open(os.path.join(BUILD, "spec_errors_%s.json" % self.pid), "w"), indent=1)
            raise ToolingError("SPEC-ERROR: spec disagrees with git on %d cases, e.g. %s"
                               % (len(se), json.dumps(se[:5])[:1500]))
        for k, v in rep.get("extra", {}).items():
            self.cov[k] = v

    def diverge(self, sig, what, case=None):
        self.divs.append({"sig": sig, "what": what, "case": case})

    def path(self, name):
        return os.path.join(self.scratch, name)

    def write(self, name, data):
        p = self.path(name)
        with open(p, "w") as f:
            if isinstance(data, str):
                f.write(data)
            else:
                json.dump(data, f)
        return p

    def cleanup(self):
        shutil.rmtree(self.scratch, ignore_errors=True)


_cm = None


def cm_jar():
    global _cm
    if _cm is None:
        cands = []
        for base, _, files in os.walk("/opt/veriftools/tla"):
            for f in files:
                if f.endswith(".jar") and "ommunity" in f:
                    cands.append(os.path.join(base, f))
        _cm = ":".join(cands) if cands else ""
    return _cm


def tail(s, n=40):
    return "\n".join(s.splitlines()[-n:])


def load_known():
    p = os.path.join(ROOT, "known-findings.json")
    k = {"findings": [], "fixed": []}
    if os.path.exists(p):
        k = json.load(open(p))
    d = os.path.join(ROOT, "known-findings.d")
    if os.path.isdir(d):
        for f in sorted(os.listdir(d)):
            if f.endswith(".json"):
                x = json.load(open(os.path.join(d, f)))
                k["findings"] += x.get("findings", [])
                k["fixed"] += x.get("fixed", [])
    return k


def finish(ctx, level, err=None):
    """Classify divergences, write evidence, print verdict lines, return exit code."""
    known = load_known()
    kn = {}
    for f in known.get("findings", []):
        if f["property"] == ctx.pid:
            kn[f["sig"]] = f
    hit, new = {}, {}
    for d in ctx.divs:
        if d["sig"] in kn:
            hit.setdefault(d["sig"], []).append(d)
        else:
            new.setdefault(d["sig"], []).append(d)
    os.makedirs(os.path.join(EVID, "replays"), exist_ok=True)
    if not ctx.replay:
        for f in os.listdir(os.path.join(EVID, "replays")):
            if f.startswith(ctx.pid + "-"):
                os.remove(os.path.join(EVID, "replays", f))
    rc = 0
    lines = []
    for sig, ds in sorted(hit.items()):
        lines.append("KNOWN-FINDING: property=%s %s [%s] (%d cases)" % (ctx.pid, kn[sig]["what"], sig, len(ds)))
    replays = []
    for sig, ds in sorted(new.items()):
        safe = re.sub(r"[^A-Za-z0-9_.-]+", "_", sig)[:80]
        rp = os.path.join(EVID, "replays", "%s-%s.json" % (ctx.pid, safe))
        json.dump({"property": ctx.pid, "sig": sig, "tier": ctx.tier, "seed": ctx.seed,
                   "cases": ds[:20]}, open(rp, "w"), indent=1)
        replays.append(rp)
        lines.append("VIOLATION property=%s replay=%s" % (ctx.pid, rp))
        lines.append("  sig=%s : %s (%d cases)" % (sig, ds[0]["what"][:300], len(ds)))
        rc = 1
    stale = sorted(set(kn) - set(hit))
    cov = ctx.cov
    cov["known_findings_hit"] = sorted(hit)
    cov["stale_known"] = stale if not ctx.replay else []
    cov["new_signatures"] = sorted(new)
    if not cov["samples"]:
        cov["samples"] = [{"note": "no sample recorded"}]
    if not cov.get("rule"):
        cov["rule"] = "see DESIGN.md section for %s" % ctx.pid
    if err:
        cov["tooling_error"] = str(err)[:2000]
    ev = {"property_id": ctx.pid, "tier": ctx.tier, "seed": ctx.seed, "level": level,
          "coverage": cov, "assumptions": ctx.assumptions, "wall_s": round(time.time() - ctx.t0, 2),
          "violations": len(new)}
    if not ctx.replay:
        os.makedirs(EVID, exist_ok=True)
        json.dump(ev, open(os.path.join(EVID, ctx.pid + ".json"), "w"), indent=1, default=str)
    for l in lines:
        print(l)
    return rc
