"""C07 Packs go-git writes contain exactly the requested objects (Engine A scenarios + Engine B record validation)."""
import json
import os
import vlib

LEVEL = "model_checking"
MANIFEST = {
    "engine": "tlc PackRequest scenarios + vhpack c07 + tlc PackRecord validation",
    "technique": "TLC enumerates encoder requests (object families x repeated ids x window x delta kind x source storage) and computes the Requested set; go-git's packfile.Encoder output is parsed by the harness' own pack reader into one record per pack and a TLA+ acceptance predicate (PackRecord over PackGraph: well-formed delta graph, ids(Resolve) = Requested, no duplicates, count, trailer) is evaluated by TLC on every record; git index-pack --strict / verify-pack -v judge a seeded sample",
    "text": "Every request over the 17-object universe (chain of 5 similar blobs, near-equal trio, empty blob/tree, similar trees, commit, tag, two >64KiB blobs, and apart from the product a 17 MiB / 12 MiB pair whose shared run reaches beyond offset 16 MiB; family combinations sampled 1/48 in quick, 1/4 in thorough, by seed) x repeated ids {none, first, all} x window {0,1,10,50} x {ofs,ref} x source {memory, loose filesystem, git-packed filesystem with delta reuse}; SHA-1 on all, SHA-256 on a seeded quarter.",
    "note": "The structure of the pack is decided in TLA+; inflating, delta application and hashing in the harness reader are cross-checked against git verify-pack on the sampled packs (a disagreement is a tooling error). Compressed bytes are git's leg only. Thin packs are not produced by Encoder and are outside this check.",
}

REQ_CFG = """CONSTANTS
 Windows = {0, 1, 10, 50}
 Kinds = {"ofs", "ref"}
 Sources = {"memory", "fs-loose", "fs-packed"}
 HugeWindows = %s
 HugeKinds = %s
 SelMod = %d
 SelSel = %d
 Emit = TRUE
INIT Init
NEXT Next
INVARIANTS Q_NoLoss Q_DupLonger Q_Injective EmitRow
CHECK_DEADLOCK FALSE
"""

REC_CFG = """CONSTANTS
 MinN = 1
 MaxN = 1
 Rots = {0}
 MaxCorr = 0
 PairMod = 1
 PairSel = 0
 DeepMod = 1
 DeepSel = 0
 DepthLimit = 50
 ThinOn = FALSE
 Emit = "none"
 RecFile = "%s"
 ExternalOK = FALSE
 DupOK = FALSE
INIT RInit
NEXT RNext
INVARIANTS R_AcceptedIsValid EmitBad
CHECK_DEADLOCK FALSE
"""


def run(ctx):
    mod = 4 if ctx.thorough else 48
    sel = ctx.seed % mod
    # the huge similar pair (copy offsets >= 16 MiB): one representative in quick, the 2 x 2 matrix in thorough
    if ctx.thorough:
        hw, hk = "{0, 10}", '{"ofs", "ref"}'
    else:
        hw, hk = "{10}", '{"%s"}' % ("ofs" if ctx.seed % 2 else "ref")
    r = ctx.tlc("PackRequest", cfg_text=REQ_CFG % (hw, hk, mod, sel), timeout=1500)
    rows = ctx.printed_json(r)
    rows.sort(key=lambda x: json.dumps(x, sort_keys=True))   # parallel BFS prints in scheduling order
    if len(rows) != r.distinct or not rows:
        raise vlib.ToolingError("PackRequest: %d rows printed for %d states" % (len(rows), r.distinct))
    scn = ctx.path("c07_scenarios.ndjson")
    with open(scn, "w") as f:
        for row in rows:
            f.write(json.dumps(row) + "\n")
    total_bad = 0
    # the records are judged in chunks (one TLC run each) to bound memory
    recfile = os.path.join(ctx.specdir(), "c07_records.ndjson")
    ctx.vh("c07", [scn, recfile], pkg="vhpack", timeout=3000)
    recs = [json.loads(l) for l in open(recfile)]
    chunk = 8000
    for k in range(0, len(recs), chunk):
        part = recs[k:k + chunk]
        name = "c07_records_%d.ndjson" % k
        with open(os.path.join(ctx.specdir(), name), "w") as f:
            for rec in part:
                f.write(json.dumps(rec) + "\n")
        rr = ctx.tlc("PackRecord", cfg_text=REC_CFG % name, cfg="PackRecord_%d.cfg" % k, timeout=1500)
        if rr.distinct != len(part):
            raise vlib.ToolingError("PackRecord judged %d of %d records" % (rr.distinct, len(part)))
        for b in ctx.printed_json(rr):
            rec = part[b["i"] - 1]
            m = rec["meta"]
            total_bad += 1
            for why in b["why"]:
                ctx.diverge("Encoder|%s|%s" % (why, m["key"]),
                            "the pack go-git wrote for request %s (window %d, %s-delta, source %s, %s) fails the PackRecord predicate: %s"
                            % (m["req_symbols"], m["window"], m["kind"], m["src"], m["format"], ", ".join(b["why"])),
                            {"scenario": m, "reasons": b["why"],
                             "entries": [{k2: e[k2] for k2 in ("off", "kind", "neg", "baseid", "id", "type", "size")} for e in rec["es"]],
                             "requested": rec["req"]})
    ctx.cov["traces_validated_against_impl"] = len(recs)
    ctx.cov["records_rejected_by_spec"] = total_bad
    ctx.cov["bounds"] = {"universe_objects": 19, "family_selection": "1/%d (seeded)" % mod, "scenarios": len(rows),
                         "windows": [0, 1, 10, 50], "kinds": ["ofs", "ref"], "sources": ["memory", "fs-loose", "fs-packed"]}
    ctx.cov["exhaustive"] = True
    ctx.cov["rule"] = ("one case = one TLC state of PackRequest (family combination x repetition x window x kind x source) x object format; "
                       "every encoded pack becomes one record = one TLC state of PackRecord; non-trivial: requests of 1..34 ids, packs with full, ofs and ref entries (see entry_kinds)")
    ctx.assumptions += [
        "the harness reader's inflate / delta application / hashing is trusted for the unsampled packs; on the sampled packs it must agree with git verify-pack",
        "git index-pack --strict runs inside a repository that contains the whole universe, so links of commits/trees/tags resolve",
    ]
