"""C45 Unified patches apply with git and reproduce the target (Engine B batch trace validation + git)."""
import json
import vlib
LEVEL = "model_checking"
MANIFEST = {
    "engine": "tlc Unified case generation + vhfmt c45 + tlc UnifiedCheck (batch trace validation)",
    "technique": "TLC enumerates pairs of abstract files / trees; go-git's Tree.Patch + UnifiedEncoder output is tokenised into abstract patch records and TLC evaluates the TLA+ predicates of git apply / git diff on every record (hunk well-formedness, ApplyPatch(old) = new over trees incl. create/delete/mode/rename/type change/binary, statistics = minimal-diff counts); a sample is cross-checked with git apply and with git's own patch judged by the same predicates",
    "text": "Exhaustive within the bound: every ordered pair of text files with <= 2 (quick) / <= 3 (thorough) lines over {x,y,z} x final-newline flags x context {0,1,3}; a 12-line template with 1 (quick) / <= 2 (thorough) edits x context {0,1,3} (hunk splitting / merging); all transitions of one path between 14 entry states (absent, empty, text, +x, no final newline, symlink, binary), rename scenarios over two paths, and 150 two-file patches (family M: a file with 10/7/4/3/0 unchanged trailing lines followed by a file changed at line 1/2/6, added, deleted, binary, mode-only) for which the multi-file patch must be the concatenation of the single-file patches. Every go-git patch is validated by TLC; the spec itself is validated against git (git apply outcome, git's own -U<n> patch and --numstat) on a sample.",
    "note": "Line contents are symbols (no CRLF / whitespace / very long lines); git apply needs --unidiff-zero for context 0 and takes binary post-images from the object database; the harness tokeniser of patch text is trusted; rename detection thresholds are not enumerated.",
}
CFG = """CONSTANTS MaxLen = %d  LongEdits = %d  Emit = TRUE
INIT Init
NEXT Next
INVARIANTS TextCase Identity StatBounds Compositional
CHECK_DEADLOCK FALSE
"""
CFG2 = """CONSTANTS MaxLen = 0  LongEdits = 0  Emit = FALSE
INIT CInit
NEXT CNext
INVARIANTS Out
CHECK_DEADLOCK FALSE
"""
# problems git apply does not care about (not compared with the git apply leg)
# a wrong new-side start makes git apply search from the wrong place: it may still find the right spot,
# apply at a wrong matching spot, or give up - the outcome is not a function of the patch class
FRAGILE = {"new-start"}
STYLE = {"context-exceeds-request", "not-minimal", "stats-differ", "stats-missing-file", "binary-marker-on-text", "old-mode-inexact",
         "state-leaks-between-files", "unusable-solo-patch"}


def run(ctx):
    ml, le = (3, 2) if ctx.thorough else (2, 1)
    r = ctx.tlc("Unified", cfg_text=CFG % (ml, le), timeout=1800)
    recs = ctx.path("uni_recs.ndjson")
    import time
    t_h = time.time()
    ctx.vh("c45", [r.dir + "/uni_cases.ndjson", recs], pkg="vhfmt", timeout=3000)
    ctx.cov["phase_wall_s"] = {"tlc_generate": round(r.wall, 1), "harness_incl_git_leg": round(time.time() - t_h, 1)}
    r2 = ctx.tlc("UnifiedCheck", cfg_text=CFG2, files={"uni_recs.ndjson": open(recs).read()}, timeout=3000, dirname="tla2")
    ctx.cov["phase_wall_s"]["tlc_validate"] = round(r2.wall, 1)
    verdicts = {v["id"]: v for v in ctx.printed_json(r2) if isinstance(v, dict) and "id" in v}
    n = 0
    spec_errors = []
    for line in open(recs):
        rec = json.loads(line)
        n += 1
        v = verdicts.get(rec["id"])
        if v is None:
            raise vlib.ToolingError("no verdict for record %d" % rec["id"])
        classify(ctx, rec, v, spec_errors)
    if n == 0:
        raise vlib.ToolingError("no records")
    ctx.cov["bounds"] = {"max_lines_pairs": ml, "alphabet": 3, "contexts": [0, 1, 3], "template_lines": 12, "template_edits": le,
                         "entry_states": 14, "records": n}
    ctx.cov["exhaustive"] = True
    ctx.cov["rule"] = ("one case = (old tree, new tree, context) from Unified.tla families P (all small file pairs), L (template edits), T (entry state transitions), R (renames); "
                       "each case yields one patch record validated by UnifiedCheck.tla; distinct = distinct cases; every case has old != new")
    ctx.assumptions += ["git apply is run with --unidiff-zero on context-0 patches (as git requires for its own -U0 output)",
                        "a wrong new-side hunk start is judged by the spec alone: git apply's outcome for it depends on where identical lines happen to be",
                        "git apply --unidiff-zero misapplies git diff -U0's own output when a hunk only deletes a last line that lacks its newline (hand-confirmed); patches of that class (UnifiedCheck!GitApplyQuirk) are judged by the spec alone and counted in git_apply_leg_skipped_quirk",
                        "statistics are compared with the minimal-diff counts computed by the spec (LCS), which git diff --numstat matched on every sampled pair"]
    if spec_errors:
        ctx.write("spec_errors.json", spec_errors)
        raise vlib.ToolingError("SPEC-ERROR: spec disagrees with git on %d cases, e.g. %s" % (len(spec_errors), json.dumps(spec_errors[:4])[:3000]))


def classify(ctx, rec, v, spec_errors):
    probs = set(v["probs"])
    hard = probs - STYLE - FRAGILE
    c = rec["c"]
    brief = {"id": rec["id"], "fam": c["fam"], "ctx": c["ctx"], "old": c["old"], "new": c["new"], "problems": sorted(probs),
             "patch": rec["fps"], "err": rec["err"], "git_apply": rec.get("gitapply"), "git_err": rec.get("giterr")}
    if rec["hasgit"]:
        gp = set(v["gprobs"])
        if gp:
            spec_errors.append({"what": "the spec rejects git's own patch", "problems": sorted(gp), "case": brief, "git_patch": rec["gfps"], "gstats": rec["gstats"]})
        git_ok = rec["gitapply"] == "ok"
        if v["quirk"]:
            # class of patches on which git apply fails on git diff's own output (see GitApplyQuirk)
            ctx.cov["git_apply_leg_skipped_quirk"] = ctx.cov.get("git_apply_leg_skipped_quirk", 0) + 1
        elif not (probs & FRAGILE) and git_ok != (not hard):
            spec_errors.append({"what": "git apply and the spec disagree about go-git's patch", "spec_problems": sorted(hard), "case": brief})
            return
    for p in sorted(probs):
        ctx.diverge("Patch|%s|%s" % (p, v["key"]), "go-git's unified patch violates the spec predicate %s" % p, brief)
