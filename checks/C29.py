"""C29 A refused porcelain operation changes nothing (Repo.tla rule table replayed on real repositories)."""
from checks import repo_common

LEVEL = "model_checking"
MANIFEST = {
    "engine": "tlc Repo rule table + vh repo C29",
    "technique": "explicit TLA+ three-tree specification (Repo.tla) enumerated exhaustively by TLC over bounded universes; every row is materialised as a real repository and worktree, the go-git operation is run and the projected post-state compared with the specification's allowed outcome",
    "text": "whenever one of the porcelain operations (checkout and reset in every mode, add, remove, move, clean, commit, pull by fast-forward, reference-only fast-forward merge, resets to HEAD itself, and 11 calls that must be refused outright: merge of a branch that does not descend from HEAD, unsupported merge strategy, invalid sparse directories, missing commit, missing branch, branch name taken, branch and hash together) returns an error, HEAD, both branches, the index (entries and flags) and every tracked worktree file are exactly as before the call. Universes: one path with regular/executable/symlink entries (all 625 H/I/W/T combinations), a directory/file conflict pair, two independent paths.",
    "note": "Bounded universes (<= 2 paths, 2 blob contents); submodules, sparse cones (C32) and linked worktrees (C33) are separate; the git leg is sampled within the process budget.",
}
ALL = ["pull", "merge-ff", "merge-nonff", "merge-unsupported", "reset-merge-head", "reset-keep-head", "reset-hard-badsparse", "reset-merge-badsparse", "reset-keep-badsparse", "reset-mixed-badsparse",
       "reset-hard-missing", "checkout-create-existing", "checkout-missing-branch", "checkout-branch-and-hash", "checkout-force-missing-hash",
       "reset-hard", "checkout-force", "checkout-force-create", "checkout", "checkout-twin", "checkout-create", "reset-merge", "reset-keep", "add", "add-all", "remove", "move", "clean", "commit"]


def run(ctx):
    ops = None or ALL
    repo_common.run_prop(ctx, "C29", ["one-path-all-kinds+r", "dir-file-conflict+r"], ["one-path-all-kinds+r", "dir-file-conflict+r", "two-paths+r"], ops, 1500)
