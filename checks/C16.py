"""C16 Reference updates are atomic compare-and-swap (TLC schedules on the impl model + gated real code + TLC trace validation)."""
import json
import random
import vlib

LEVEL = "model_checking"
MANIFEST = {
    "engine": "tlc RefStoreFS schedules + vh c16 (gated filesystem) + tlc TraceRefHist",
    "technique": "TLC explores every interleaving of the key filesystem steps of the implementation-level TLA+ model RefStoreFS; one schedule per distinct terminal (state, history) plus seeded fine-grained random schedules are executed on real filesystem.Storage instances through a gated billy filesystem; TLC then decides linearizability of every recorded call history against the RefRegister spec (batch trace validation)",
    "text": "Exhaustive at the model level for 11 scenarios of 2-3 processes (CAS/CAS, CAS/set, CAS with PackRefs, CAS with RemoveReference, a refused CAS racing a good one, packed-only and loose initial layouts); every model-predicted outcome is replayed on the real code and its real history judged by the property-level spec; real histories that differ from the model's prediction are counted as spec drift, never as violations.",
    "note": "Goroutines in one process with flock emulated by the scheduler (the lock is the one go-git takes; OS-process interleavings are not driven); one reference name; 2-3 processes with at most two calls each.",
}

OPS = {
    "cas": lambda o, n: {"op": "cas", "old": o, "new": n},
    "set": lambda n: {"op": "set", "old": "", "new": n},
    "read": lambda: {"op": "read", "old": "", "new": ""},
    "remove": lambda: {"op": "remove", "old": "", "new": ""},
    "pack": lambda: {"op": "pack", "old": "", "new": ""},
}
C, S, R, D, P = OPS["cas"], OPS["set"], OPS["read"], OPS["remove"], OPS["pack"]

SCENARIOS = [
    ("S1-cas-cas-read-stalepacked", "h1", "h0", {1: [C("h1", "h2")], 2: [C("h1", "h3")], 3: [R()]}),
    ("S2-cas-read-read", "h1", "none", {1: [C("h1", "h2")], 2: [R()], 3: [R()]}),
    ("S3-packedonly-cas-cas-read", "none", "h1", {1: [C("h1", "h2")], 2: [C("h1", "h3")], 3: [R()]}),
    ("S4-set-cas-read", "h1", "none", {1: [S("h2")], 2: [C("h1", "h3")], 3: [R()]}),
    ("S5-cas-pack-read", "h1", "h0", {1: [C("h1", "h2")], 2: [P()], 3: [R()]}),
    ("S6-cas-remove-read", "h1", "h0", {1: [C("h1", "h2")], 2: [D()], 3: [R()]}),
    ("S7-chain-cas", "h1", "none", {1: [C("h1", "h2"), C("h2", "h3")], 2: [C("h2", "h4")], 3: [R()]}),
    ("S8-create-cas-read", "none", "none", {1: [S("h1")], 2: [C("h1", "h2")], 3: [R()]}),
    ("S9-cas-pack-cas", "h1", "none", {1: [C("h1", "h2")], 2: [P()], 3: [C("h2", "h3")]}),
    # a conditional set that must be refused (wrong expected value) racing a good one on a packed-only reference,
    # and on a loose one; the reader reads twice so that one read can follow both writers
    ("S10-packedonly-cas-badcas-read", "none", "h1", {1: [C("h1", "h2")], 2: [C("h0", "h3")], 3: [R(), R()]}),
    ("S11-cas-badcas-read", "h1", "none", {1: [C("h1", "h2")], 2: [C("h0", "h3")], 3: [R(), R()]}),
]


def tla_rec(o):
    return '[op |-> "%s", old |-> "%s", new |-> "%s"]' % (o["op"], o["old"], o["new"])


def mc_module(name, procs):
    prog = " @@ ".join("(%d :> <<%s>>)" % (p, ", ".join(tla_rec(o) for o in ops)) for p, ops in sorted(procs.items()))
    return ("---- MODULE %s ----\nEXTENDS RefStoreFS\nMCProcs == {%s}\nMCProg == %s\n====\n"
            % (name, ", ".join(str(p) for p in sorted(procs)), prog))


CFG = """CONSTANTS Procs <- MCProcs  Prog <- MCProg  InitLoose = "%s"  InitPacked = "%s"  EmitSched = TRUE
INIT Init
NEXT Next
VIEW View
INVARIANTS TypeOK LockExclusive NoDeadlock EmitTerminal
CHECK_DEADLOCK FALSE
"""


def overlapping(log, i_inv, i_res, p):
    kinds = set()
    open_inv = {}
    for j, e in enumerate(log):
        if e["p"] == p:
            continue
        if e["ev"] == "inv":
            open_inv[e["p"]] = j
        else:
            s = open_inv.pop(e["p"], None)
            if s is not None and s < i_res and j > i_inv and e["op"] != "read":
                kinds.add(e["op"])
    return "+".join(sorted(kinds)) or "nothing"


FINAL_READER = 9   # the harness appends a read after quiescence (not part of the model's program)


def results_vector(log):
    """Per-process sequence of (op, result): the order-free summary of an observable history."""
    per = {}
    for e in log:
        if e["p"] == FINAL_READER:
            continue
        if e["ev"] == "res":
            per.setdefault(e["p"], []).append("%s=%s" % (e["op"], "error" if e["val"].startswith("error") else e["val"]))
    return tuple((p, tuple(v)) for p, v in sorted(per.items()))


def classify(h, verdict):
    """Signature of a rejected history (the accept/reject decision itself is TLC's)."""
    log = h["log"]
    errs = [e for e in log if e["ev"] == "res" and e["val"].startswith("error")]
    if errs:
        e = errs[0]
        return "spurious-error|%s|%s" % (e["op"], e["val"][6:][:60])
    if verdict["weak"]:
        # the updates are consistent; some read returned a value no linearization explains
        sigs = set()
        inv = {}
        for j, e in enumerate(log):
            if e["ev"] == "inv":
                inv[e["p"]] = j
            elif e["op"] == "read":
                kind = "absent" if e["val"] == "none" else "stale-or-wrong"
                sigs.add("read|%s|during=%s" % (kind, overlapping(log, inv[e["p"]], j, e["p"])))
        # a history with several reads: keep those concurrent with a writer; deterministic choice
        cands = sorted(s for s in sigs if not s.endswith("during=nothing")) or sorted(sigs)
        return cands[0]
    ups = sorted("%s:%s" % (e["op"], e["val"]) for e in log if e["ev"] == "res" and e["op"] != "read")
    return "update|non-linearizable|" + "+".join(ups)


def run(ctx):
    rnd = random.Random(ctx.seed)
    cap_bad = 400 if ctx.thorough else 16
    cap_ok = 200 if ctx.thorough else 6
    nrand = 300 if ctx.thorough else 16
    scen_json = []
    predicted = {}
    model_bad = 0
    from concurrent.futures import ThreadPoolExecutor

    def model(sc):
        name, il, ip, procs = sc
        mod = "MC_" + name.split("-")[0]
        r = ctx.tlc(mod, cfg_text=CFG % (il, ip), cfg=mod + ".cfg", files={mod + ".tla": mc_module(mod, procs)},
                    workers=1, timeout=900, heap="2g")
        return ctx.printed_json(r)

    ctx.specdir()
    with ThreadPoolExecutor(max_workers=5) as ex:
        all_terms = list(ex.map(model, SCENARIOS))
    admitted = {}
    for (name, il, ip, procs), terms in zip(SCENARIOS, all_terms):
        if not terms:
            raise vlib.ToolingError("RefStoreFS produced no terminal state for " + name)
        bad = [t for t in terms if not t["lin"]]
        ok = [t for t in terms if t["lin"]]
        model_bad += len(bad)
        admitted[name] = set(results_vector(t["obs"]) for t in bad)
        bad.sort(key=lambda t: json.dumps(t["sched"]))
        ok.sort(key=lambda t: json.dumps(t["sched"]))
        rnd.shuffle(bad)
        rnd.shuffle(ok)
        # the schedules the model calls linearizable: one representative per interleaving class of the WRITERS
        # (the schedule with the steps of read-only processes dropped) comes first, so that every way the
        # writers' key steps can interleave is run at least once while the budget lasts; scenarios in which the
        # model predicts few violations pass their unused budget on
        readers = set(p for p, ops in procs.items() if all(o["op"] == "read" for o in ops))
        seen_cls, first, later = set(), [], []
        for t in ok:
            cls = tuple(x for x in t["sched"] if x not in readers)
            if cls in seen_cls:
                later.append(t)
            else:
                seen_cls.add(cls)
                first.append(t)
        budget_ok = cap_ok + 4 * max(0, cap_bad - len(bad))
        chosen = bad[:cap_bad] + (first + later)[:budget_ok]
        ctx.cov.setdefault("writer_interleaving_classes", {})[name] = {"classes": len(seen_cls), "run": min(len(first), budget_ok)}
        for t in chosen:
            predicted[(name, tuple(t["sched"]))] = t
        scen_json.append({"id": name, "init_loose": il, "init_packed": ip,
                          "procs": {str(p): ops for p, ops in procs.items()},
                          "schedules": [t["sched"] for t in chosen], "random": nrand})
        ctx.cov.setdefault("model_terminal_states", {})[name] = {"total": len(terms), "non_linearizable_in_model": len(bad)}
    sp = ctx.write("scenarios.json", scen_json)
    hp = ctx.path("refhist.ndjson")
    ctx.vh("c16", [sp, hp], timeout=3000)
    hists = [json.loads(l) for l in open(hp)]
    # conformance of the implementation-level model: does the real history equal the predicted one?
    drift = 0
    # property-level verdicts by TLC
    r = ctx.tlc("TraceRefHist", cfg="TraceRefHist.cfg", files={"refhist.ndjson": open(hp).read()}, timeout=1800, dirname="tla-trace")
    verdicts = {}
    for l in open(r.dir + "/refhist_verdicts.ndjson"):
        v = json.loads(l)
        verdicts[v["id"]] = v
    if len(verdicts) != len(hists):
        raise vlib.ToolingError("TraceRefHist judged %d of %d histories" % (len(verdicts), len(hists)))
    rejected = 0
    by_pred = {(n, tuple(t["sched"])): t for (n, _s), t in predicted.items()}
    idx = {}
    for sc in scen_json:
        idx[sc["id"]] = list(sc["schedules"])
    seen_per_scen = {}
    for h in hists:
        v = verdicts[h["id"]]
        if h["kind"] == "tlc":
            k = seen_per_scen.get(h["scen"], 0)
            seen_per_scen[h["scen"]] = k + 1
            req = idx[h["scen"]][k]
            t = predicted.get((h["scen"], tuple(req)))
            if t is not None:
                mine = [(e["p"], e["ev"], e["op"], ("error" if e["val"].startswith("error") else e["val"]) if e["ev"] == "res" else "") for e in h["log"] if e["p"] != FINAL_READER]
                theirs = [(e["p"], e["ev"], e["op"], e["val"] if e["ev"] == "res" else "") for e in t["obs"]]
                if mine != theirs:
                    drift += 1
                    dd = ctx.cov.setdefault("spec_drift_examples", [])
                    if len(dd) < 40:
                        dd.append({"scen": h["scen"], "sched": req, "real": mine, "model": theirs, "keys": h.get("keys")})
        if not v["acc"]:
            rejected += 1
            detail = classify(h, v)
            # A rejected history whose per-process results equal those of a terminal state that the
            # implementation-level model RefStoreFS itself marks non-linearizable is explained by the
            # recorded design-level deviation (in-place rewrite / packed fallback windows); anything
            # else is a different violation and keeps its detailed signature.
            if results_vector(h["log"]) in admitted.get(h["scen"], ()):
                sig = "admitted-by-RefStoreFS|" + detail.split("|")[0]
            else:
                sig = "not-in-model|" + detail
            ctx.diverge(sig, "history not linearizable against RefRegister: " +
                        " ".join("%d:%s%s(%s)" % (e["p"], e["op"], "" if e["ev"] == "inv" else "=" + e["val"], e["ev"]) for e in h["log"]),
                        {"scenario": h["scen"], "kind": h["kind"], "sched": h["sched"], "log": h["log"], "key_steps": h.get("keys")})
    ctx.cov["rejected_histories"] = rejected
    ctx.cov["model_predicted_non_linearizable"] = model_bad
    ctx.cov["spec_drift"] = drift
    ctx.cov["bounds"] = {"scenarios": len(SCENARIOS), "processes": 3, "tlc_schedules_per_scenario": [cap_bad, cap_ok], "random_schedules_per_scenario": nrand}
    ctx.cov["rule"] = ("per scenario: TLC explores all key-step interleavings of RefStoreFS (VIEW hides the schedule) and prints one schedule per distinct terminal (state, history); "
                       "those predicted non-linearizable (all, capped) + a sample of the others + seeded random fine-grained schedules are run on real storages; "
                       "distinct = distinct (scenario, observable history); every history has >= 2 concurrent processes")
    ctx.assumptions += ["flock is emulated by the scheduler keyed by inode (same exclusion as the real flock the code takes)",
                        "a TLC schedule entry = one key filesystem step plus the following non-key steps of that process"]
