"""C17 All storage backends behave like the same abstract repository (Engine A: behaviour replay)."""
import json
import vlib

LEVEL = "model_checking"
MANIFEST = {
    "engine": "tlc StorerModel histories + vh c17",
    "technique": "TLC enumerates every history of storage API calls (refs set/CAS/remove/pack, objects, index, shallow, config) over the abstract StorerModel spec; each is replayed on memory storage and on filesystem storage under several option combinations, and after every call a complete read-back (every lookup, typed lookup, size, type iteration, listing, index, shallow, config) plus a fresh re-open is compared with the state and error kind the spec computed",
    "text": "Exhaustive over all operation sequences of length 2 (thorough 3) from 2 initial states over 35 operations, plus all re-packing histories of length 4 (reference operation / PackRefs alternating) and simulated histories of length 6; each backend is compared with the spec itself (not only with the other backends), so a common bug is still caught.",
    "note": "Small universe (3 ref names, 2 hashes, 5 objects, 2 indexes, 3 shallow sets, 2 configs); reflogs and modules are not in the model; packed-object initial layouts are covered by C11/C18 rather than here.",
}
HIDDEN = "TypeOK FailedChangesNothing ObjectsOnlyGrow FrameRefs FrameObjs ShallowReplaces EmitHist"
CFG = """CONSTANTS Names <- MCNames Hashes <- MCHashes SymOK <- MCSymOK NoRemove <- MCNoRemove Objects <- MCObjects PackSets <- MCPackSets
 IdxVals <- MCIdxVals ShallowSets <- MCShallowSets CfgVals <- MCCfgVals Inits <- MCInits Focus = "%s" MaxOps = %d EmitAll = TRUE
INIT Init
NEXT Next
INVARIANTS """ + HIDDEN + """
CHECK_DEADLOCK FALSE
"""


def histories(ctx, depth, sim_depth, num):
    hists = []
    r = ctx.tlc("MCStorerModel", cfg_text=CFG % ("all", depth), workers=1, timeout=2400)
    hists += ctx.printed_json(r)
    # re-packing histories: a reference operation, PackRefs, a reference operation, PackRefs (exhaustive),
    # so that lookups meet a packed-refs file written by go-git's own PackRefs more than once
    r = ctx.tlc("MCStorerModel", cfg_text=CFG % ("packalt", 4), workers=1, timeout=2400, dirname="tla-packalt")
    hists += ctx.printed_json(r)
    n_ex = len(hists)
    r2 = ctx.tlc("MCStorerModel", cfg_text=CFG % ("all", sim_depth), mode="simulate", depth=sim_depth + 1, num=num, workers=1, timeout=2400)
    hists += ctx.printed_json(r2)
    r3 = ctx.tlc("MCStorerModel", cfg_text=CFG % ("packalt", sim_depth), mode="simulate", depth=sim_depth + 1, num=num, workers=1, timeout=2400, dirname="tla-packalt-sim")
    hists += ctx.printed_json(r3)
    seen, uniq = set(), []
    for h in hists:
        k = json.dumps(h, sort_keys=True)
        if k not in seen:
            seen.add(k)
            uniq.append(h)
    if not uniq:
        raise vlib.ToolingError("TLC printed no histories")
    p = ctx.path("sm_hist.ndjson")
    with open(p, "w") as f:
        for h in uniq:
            f.write(json.dumps(h) + "\n")
    return p, n_ex, len(uniq) - n_ex


def run(ctx):
    depth = 3 if ctx.thorough else 2
    p, n_ex, n_sim = histories(ctx, depth, 6, 1500 if ctx.thorough else 60)
    ctx.vh("c17", [p], timeout=3400)
    ctx.cov["traces_validated_against_impl"] = ctx.cov["evaluations"]
    ctx.cov["bounds"] = {"exhaustive_depth": depth, "exhaustive_histories": n_ex, "simulated_depth": 6, "simulated_histories": n_sim}
    ctx.cov["exhaustive"] = True
    ctx.cov["rule"] = ("every StorerModel history of length %d from 2 initial states (exhaustive) + simulated histories of length 6; evaluations = history x backend replays; "
                       "distinct = distinct histories; all non-trivial (mutations followed by complete read-back)" % depth)
    ctx.assumptions += ["symbols are interpreted as fixed real objects / hashes (harness/cmd/vh/storerreplay.go)"]
