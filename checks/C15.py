"""C15 Reference store behaves like a map and packing preserves it (Engine A: behaviour replay)."""
import json
LEVEL = "model_checking"
MANIFEST = {
    "engine": "tlc RefMap histories + vh c15",
    "technique": "TLC enumerates every history of set/CAS/remove/pack over the abstract RefMap spec; each history is replayed on real filesystem storage (memfs, osfs; loose/packed/mixed initial layouts written by git) and every Reference/IterReferences observation plus git's own view is compared with the map the spec computed",
    "text": "Exhaustive over all operation sequences up to the depth bound (quick 2, thorough 3 + simulated depth 6) on 4 names x 2 hashes x symbolic values x 3 initial maps x 3 on-disk layouts; the abstract invariants (failed CAS changes nothing, pack is a stutter) are TLC invariants and the replay checks that the implementation refines the map after every step.",
    "note": "Bounded universe (4 names incl. HEAD and a symbolic remote HEAD, 2 hashes); directory/file name conflicts are outside the generated alphabet; git leg observes a seeded sample of final states on osfs.",
}

CFG = """CONSTANTS
 Names <- MCNames
 Hashes <- MCHashes
 SymOK <- MCSymOK
 NoRemove <- MCNoRemove
 Inits <- MCInits
 MaxOps = %d
 EmitAll = TRUE
INIT Init
NEXT Next
INVARIANTS TypeOK LastConsistent CASFrame PackStutter EmitHist
CHECK_DEADLOCK FALSE
"""


def run(ctx):
    depth = 3 if ctx.thorough else 2
    hists = []
    r = ctx.tlc("MCRefMap", cfg_text=CFG % depth, workers=1, timeout=1800)
    hists += ctx.printed_json(r)
    # deeper behaviours by simulation (hidden implementation state needs longer histories)
    sd = 6
    num = 4000 if ctx.thorough else 300  # TLC evaluates the invariant on every generated successor: ~30 histories per num
    r2 = ctx.tlc("MCRefMap", cfg_text=CFG % sd, mode="simulate", depth=sd + 1, num=num, workers=1, timeout=1800)
    sim = ctx.printed_json(r2)
    hists += sim
    seen, uniq = set(), []
    for h in hists:
        k = json.dumps(h, sort_keys=True)
        if k not in seen:
            seen.add(k)
            uniq.append(h)
    hists = uniq
    if not hists:
        raise __import__("vlib").ToolingError("TLC printed no histories")
    p = ctx.path("hist.ndjson")
    with open(p, "w") as f:
        for h in hists:
            f.write(json.dumps(h) + "\n")
    ctx.cov["bounds"] = {"names": 4, "hashes": 2, "inits": 3, "layouts": 3, "exhaustive_depth": depth,
                         "simulated_depth": sd, "simulated_behaviours": len(sim)}
    ctx.cov["exhaustive"] = True
    ctx.cov["rule"] = ("every RefMap history of length %d (exhaustive) plus %d simulated histories of length %d; each replayed on 3 initial on-disk layouts; "
                       "distinct = distinct (init, layout, op sequence); every history is non-trivial (>=2 mutating ops followed by full read-back)" % (depth, len(sim), sd))
    ctx.vh("c15", [p], timeout=3000)
    ctx.cov["traces_validated_against_impl"] = ctx.cov["evaluations"]
    ctx.assumptions += ["hash symbols h1,h2 are interpreted as two real commits created by git",
                        "reflogs are not part of this model (C52)"]
