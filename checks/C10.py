"""C10 Pack index lookups agree across implementations and with a map model (Engine A over IdxMap)."""
import json
from concurrent.futures import ThreadPoolExecutor

import vlib

LEVEL = "model_checking"
MANIFEST = {
    "engine": "tlc MCIdxMap + vhbytes c10",
    "technique": "pack index specified in TLA+ as a finite map with its full query table; TLC enumerates every map within the bound and checks the map theorems; each map is written with idxfile.Writer/Encode + revfile.Encode and the same queries are asked of MemoryIndex (written and decoded), LazyIndex (with/without fd pool) and the mmap PackScanner; named corruption classes are applied to the files",
    "text": "Size class: maps of b*k+r entries (b = 1024, 8192 [, 16384]) with 64-bit offsets placed by block position (first/last block, head and tail of the second-to-last block, every 5th, all but the first) must be answered identically (all entries, both iteration orders, count) by MemoryIndex, LazyIndex, the mmap scanner and git show-index. Exhaustive within the bound: every well-formed map of <= 2 (quick) / 3 (thorough) entries over 11 ids (first bytes 00/01/7f/fe/ff, shared 2- and 3-byte prefixes, ids differing only in the last byte) x injective offset assignments over {12, 2^31-1, 2^31, 2^32+5, 2^40} is a TLC state; Contains/MayContain/FindOffset/FindCRC32 for every id of the universe, FindHash for every offset, Count, Entries, EntriesByOffset and EntriesWithPrefix for 20 prefixes (length 0..3, incl. absent buckets, ff.., greater than every id) must equal the table TLC computed in every implementation; 10 corruption classes must never yield a different answer without an error (6 strict classes must always be noticed).",
    "note": "ids are determined by their first three and last byte (the 16 bytes between are constant); the mmap PackScanner (FindOffset/FindHash only, needs real files) sees a seeded 1/8 (quick) or 1/2 (thorough) of the maps; corruption classes are applied to a seeded quarter of the maps in the quick tier; a non-empty index always contains offset 12 (as every real pack does; git's own idx size check depends on it).",
}

CFG = """CONSTANTS Ids <- MCIds
 Offs <- MCOffs
 Crcs <- MCCrcs
 PrefixSet <- MCPrefixSet
 Corruptions <- MCCorruptions
 Strict <- MCStrict
 MaxN = %d
 Emit = TRUE
INIT Init
NEXT Next
INVARIANTS Sorted OffSorted SameEntries OffInverse PrefixRun EmitHist
CHECK_DEADLOCK FALSE
"""

# size class "several read blocks with a partial last block" (IdxBlocks.tla): n = b*k + r entries, 64-bit offsets by block position
BLK = """CONSTANTS Blocks = %s
 Ks = %s
 Rs = %s
 Places = {"none","first-block","last-block","pen-tail","pen-head","every-5th","all-but-first"}
 MaxN = %d
 Emit = TRUE
INIT Init
NEXT Next
INVARIANTS AtMostNminus1 Permutation Ordered PenNeedsTwo EmitHist
CHECK_DEADLOCK FALSE
"""


def run(ctx):
    maxn = 3 if ctx.thorough else 2
    th = ctx.thorough
    # block layouts: 8192 entries = one 32 KiB read of the 4-byte offset table, 1024 = one 4 KiB page (16384 = 64 KiB in thorough)
    blk_runs = [("blk8k", BLK % ("{8192}", "{1}", "{1,808}", 9100)),
                ("blk1k", BLK % ("{1024}", "{1,2}", "{1,500}", 3100))]
    if th:
        blk_runs = [("blk8k", BLK % ("{8192}", "{1,2}", "{0,1,808,8191}", 25000)),
                    ("blk16k", BLK % ("{16384}", "{1}", "{1,808,8191}", 25000)),
                    ("blk1k", BLK % ("{1024}", "{0,1,2,3}", "{0,1,5,500,1023}", 4100))]

    def one(item):
        name, text = item
        return ctx.tlc("IdxBlocks", cfg="IdxBlocks_%s.cfg" % name, cfg_text=text, dirname="t_" + name, workers=1, timeout=3000)

    with ThreadPoolExecutor(max_workers=4) as ex:
        fut = [ex.submit(one, it) for it in blk_runs]
        r = ctx.tlc("MCIdxMap", cfg_text=CFG % maxn, workers=1, timeout=3000)
        blk = []
        for f in fut:
            blk += ctx.printed_json(f.result())
    hs = ctx.printed_json(r)
    if not hs or not blk:
        raise vlib.ToolingError("TLC printed no maps (%d) / layouts (%d)" % (len(hs), len(blk)))
    pb = ctx.path("idx_blocks.ndjson")
    with open(pb, "w") as f:
        for h in blk:
            f.write(json.dumps(h) + "\n")
    p = ctx.path("idx_hist.ndjson")
    with open(p, "w") as f:
        for h in hs:
            f.write(json.dumps(h) + "\n")
    ctx.vh("c10", [p], pkg="vhbytes", timeout=3000)
    ctx.vh("c10blocks", [pb], pkg="vhbytes", timeout=3000)
    ctx.cov["traces_validated_against_impl"] = len(hs) + len(blk)
    ctx.cov["bounds"] = {"ids": 11, "offsets": ["12", "2^31-1", "2^31", "2^32+5", "2^40"], "max_entries": maxn, "maps": len(hs),
                         "prefixes": 20, "corruption_classes": 10,
                         "block_layouts": len(blk), "block_sizes": [1024, 8192, 16384] if th else [1024, 8192],
                         "block_layout_entries": "b*k + r, r in {0,1,5,500/808,b-1}, 64-bit offsets placed by block position (7 placements)",
                         "implementations": ["MemoryIndex(written)", "MemoryIndex(decoded)", "LazyIndex", "LazyIndex+fdpool(1)", "PackScanner(mmap)"]}
    ctx.cov["exhaustive"] = True
    ctx.cov["rule"] = ("every well-formed map within the bound is one TLC state carrying its complete answer table; distinct = distinct map; "
                       "each map is non-trivial by construction (all ids of the universe and all offsets are probed, present and absent)")
    ctx.assumptions += ["sha1 object format only",
                        "block layouts: ids, crcs and offsets of entry p are rendered by fixed formulas (small = 12+64p, big = 2^31+262144(p-1)); git reads the "
                        "written idx with `git show-index` on a seeded third of the layouts (no pack exists for these offsets)", "the pack file handed to the mmap scanner is an empty dummy pack (only index lookups are exercised)"]
