"""C10 Pack index lookups agree across implementations and with a map model (Engine A over IdxMap)."""
import json

import vlib

LEVEL = "model_checking"
MANIFEST = {
    "engine": "tlc MCIdxMap + vhbytes c10",
    "technique": "pack index specified in TLA+ as a finite map with its full query table; TLC enumerates every map within the bound and checks the map theorems; each map is written with idxfile.Writer/Encode + revfile.Encode and the same queries are asked of MemoryIndex (written and decoded), LazyIndex (with/without fd pool) and the mmap PackScanner; named corruption classes are applied to the files",
    "text": "Exhaustive within the bound: every well-formed map of <= 2 (quick) / 3 (thorough) entries over 11 ids (first bytes 00/01/7f/fe/ff, shared 2- and 3-byte prefixes, ids differing only in the last byte) x injective offset assignments over {12, 2^31-1, 2^31, 2^32+5, 2^40} is a TLC state; Contains/MayContain/FindOffset/FindCRC32 for every id of the universe, FindHash for every offset, Count, Entries, EntriesByOffset and EntriesWithPrefix for 20 prefixes (length 0..3, incl. absent buckets, ff.., greater than every id) must equal the table TLC computed in every implementation; 10 corruption classes must never yield a different answer without an error (6 strict classes must always be noticed).",
    "note": "ids are determined by their first three and last byte (the 16 bytes between are constant); the mmap PackScanner (FindOffset/FindHash only, needs real files) sees a seeded 1/8 (quick) or 1/2 (thorough) of the maps; corruption classes are applied to a seeded quarter of the maps in the quick tier; a non-empty index always contains offset 12 (as every real pack does; git's own idx size check depends on it).",
}

CFG = """CONSTANTS Ids <- MCIds
 Offs <- MCOffs
 Crcs <- MCCrcs
 PrefixSet <- MCPrefixSet
 Corruptions <- MCCorruptions
 Strict <- MCStrict
 MaxN = %d
 Emit = TRUE
INIT Init
NEXT Next
INVARIANTS Sorted OffSorted SameEntries OffInverse PrefixRun EmitHist
CHECK_DEADLOCK FALSE
"""


def run(ctx):
    maxn = 3 if ctx.thorough else 2
    r = ctx.tlc("MCIdxMap", cfg_text=CFG % maxn, workers=1, timeout=3000)
    hs = ctx.printed_json(r)
    if not hs:
        raise vlib.ToolingError("TLC printed no maps")
    p = ctx.path("idx_hist.ndjson")
    with open(p, "w") as f:
        for h in hs:
            f.write(json.dumps(h) + "\n")
    ctx.vh("c10", [p], pkg="vhbytes", timeout=3000)
    ctx.cov["traces_validated_against_impl"] = len(hs)
    ctx.cov["bounds"] = {"ids": 11, "offsets": ["12", "2^31-1", "2^31", "2^32+5", "2^40"], "max_entries": maxn, "maps": len(hs),
                         "prefixes": 20, "corruption_classes": 10,
                         "implementations": ["MemoryIndex(written)", "MemoryIndex(decoded)", "LazyIndex", "LazyIndex+fdpool(1)", "PackScanner(mmap)"]}
    ctx.cov["exhaustive"] = True
    ctx.cov["rule"] = ("every well-formed map within the bound is one TLC state carrying its complete answer table; distinct = distinct map; "
                       "each map is non-trivial by construction (all ids of the universe and all offsets are probed, present and absent)")
    ctx.assumptions += ["sha1 object format only", "the pack file handed to the mmap scanner is an empty dummy pack (only index lookups are exercised)"]
