"""C43 History traversal visits each reachable commit exactly once, in an order satisfying the order's contract
(Engine B, batch: the harness records traversals, TLC evaluates the TLA+ predicates on every record)."""
import json
LEVEL = "model_checking"
MANIFEST = {
    "engine": "tlc LogOrder (gen) + vhdag c43 (recorder) + tlc LogOrder (check: batch trace validation)",
    "technique": "TLC enumerates every commit graph with ordered parents and every weak order of committer times; the harness records what Repository.Log (6 orders, since/until/to limits, --all over every ref set), the commit-graph node walkers (object- and commit-graph-backed) and git rev-list yield; a TLA+ module loaded by TLC judges every record: Set(output) = Expected, NoDup, order contract",
    "text": "All graphs with ordered parents on <= 4 commits (<= 3 parents; quick: <= 2 parents) x weak orders of committer times (quick: 6 per graph, thorough: all 75; plus 5-commit graphs sampled in thorough): every record of every order / limit / ref set is validated against Expected (Reach, first-parent chain, git's --since/--until/range semantics), NoDup and the order's contract (DFS pre-order, BFS distance, newest-of-frontier, topological, newest-of-ready). git's own output is validated by the same predicates (a failure there is a spec error, not a verdict).",
    "note": "Contracts are the documented promises, not the exact implementation order; limits are judged as sets only; path filters (FileName/PathFilter) are not covered; the commit-graph index is built with go-git's MemoryIndex/encoder from generation numbers the harness computes the way git's writer does (a git-written file is used in the hand reproductions).",
}

GEN = """CONSTANTS N = %d  K = %d  Mode = "gen"
INIT Init
NEXT Next
INVARIANTS GenTheorems Report
CHECK_DEADLOCK FALSE
"""
CHECK = """CONSTANTS N = %d  K = %d  Mode = "check"
INIT Init
NEXT Next
INVARIANTS Report
CHECK_DEADLOCK FALSE
"""


def limit_of(r):
    if r["all"]:
        return "all"
    if r["since"]:
        return "since"
    if r["until"]:
        return "until"
    if r["to"]:
        return "to"
    return "none"


def run(ctx):
    import vlib
    if ctx.thorough:
        passes = [(4, 3, ["-tsample", "0", "-git", "1600"]), (5, 2, ["-tsample", "2", "-git", "800", "-minn", "5"])]
    else:
        passes = [(4, 2, ["-tsample", "6", "-git", "320"])]
    total_records = 0
    bounds = []
    for pi, (n, k, hargs) in enumerate(passes):
        g = ctx.tlc("LogOrder", cfg_text=GEN % (n, k), timeout=1500, dirname="tla-gen%d" % pi)
        rec = g.dir + "/log_records.ndjson"
        rep = ctx.vh("c43", hargs + [g.dir + "/log_scen.ndjson", g.dir + "/log_times_", rec], pkg="vhdag", timeout=2400)
        nrec = rep.get("extra", {}).get("records", 0)
        total_records += nrec
        # batch trace validation in chunks (a TLC run holds all its records in memory as TLA+ values)
        CH = 30000
        fails = {}
        with open(rec) as f:
            lines = f.readlines()
        if len(lines) != nrec:
            raise vlib.ToolingError("records file has %d lines, harness reported %d" % (len(lines), nrec))
        for ci in range(0, len(lines), CH):
            chunk = lines[ci:ci + CH]
            c = ctx.tlc("LogOrder", cfg_text=CHECK % (n, k), cfg="LogOrder_check.cfg", timeout=3000,
                        dirname="tla-chk%d-%d" % (pi, ci // CH), files={"log_records.ndjson": "".join(chunk)}, heap="6g")
            if c.distinct != len(chunk):
                raise vlib.ToolingError("trace validation judged %d records of a chunk of %d" % (c.distinct, len(chunk)))
            for x in ctx.printed_json(c):
                if isinstance(x, dict) and "i" in x and "fails" in x:
                    fails[ci + x["i"]] = sorted(x["fails"])
        spec_errors = []
        if fails:
            if True:
                for i, line in enumerate(lines, 1):
                    if i not in fails:
                        continue
                    r = json.loads(line)
                    cls = "+".join(fails[i])
                    if r["backend"] == "git":
                        spec_errors.append({"record": r, "fails": fails[i]})
                        continue
                    kind = {"log": "Log", "node": "NodeWalk"}.get(r["kind"], r["kind"])
                    sig = "%s|%s|%s|limit=%s|backend=%s" % (kind, r["order"], cls, limit_of(r), r["backend"])
                    what = ("%s order=%s backend=%s limit=%s yields %s on graph %s with committer instants %s%s: %s"
                            % (kind, r["order"], r["backend"], limit_of(r), r["out"], r["pseq"], r["tm"],
                               (" refs %s" % r["refs"]) if r["all"] else "", cls))
                    ctx.diverge(sig, what, r)
        if spec_errors:
            raise vlib.ToolingError("SPEC-ERROR: LogOrder.tla rejects git rev-list's own output on %d records, e.g. %s"
                                    % (len(spec_errors), json.dumps(spec_errors[:3])[:1500]))
        bounds.append({"commits": n, "max_parents": k, "graphs": g.distinct, "records": nrec, "harness_args": hargs,
                       "records_failing": len(fails)})
    ctx.cov["traces_validated_against_impl"] = total_records
    ctx.cov["bounds"] = {"passes": bounds}
    ctx.cov["exhaustive"] = True
    ctx.cov["rule"] = ("one TLC state per graph with ordered parents (gen) and one TLC state per recorded traversal (check); "
                       "a record = (graph, committer times, order, start / ref set, limit, backend, output); distinct = (graph, times) scenarios built; "
                       "non-trivial: every record is judged on set equality, duplicates and (unlimited walks) the order contract")
    ctx.assumptions += [
        "walks start at the highest-numbered commit (graphs on fewer commits stand for walks from lower commits); --all uses HEAD plus every subset of branch refs",
        "order contracts are judged on unlimited single-start walks; since/until/to/--all records are judged as sets and for duplicates",
        "Since is specified as git's --since (--max-age: the walk stops below an older commit), Until as a filter, To as the range tail..from plus the tail",
        "author date = committer date in the generated commits (the author-date walker is judged by the committer-date contract)",
    ]
