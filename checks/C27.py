"""C27 Status agrees with git status (Repo.tla rule table replayed on real repositories)."""
import json
import vlib
from checks import repo_common

LEVEL = "model_checking"
MANIFEST = {
    "engine": "tlc Repo rule table + vh repo C27",
    "technique": "explicit TLA+ three-tree specification (Repo.tla) enumerated exhaustively by TLC over bounded universes; every row is materialised as a real repository and worktree, the go-git operation is run and the projected post-state compared with the specification's allowed outcome",
    "text": "Worktree.Status() per path equals the porcelain XY code the specification derives from (HEAD tree, index, worktree); the derivation itself is checked against git status --porcelain on a sample (spec disagreeing with git = tooling error). Universes: one path with regular/executable/symlink entries (all 625 H/I/W/T combinations), a directory/file conflict pair, two independent paths.",
    "text2": "core.autocrlf leg: StatusEOL.tla rule table (autocrlf true/input/false x worktree LF/CRLF x edited x line-ending layouts incl. a CR on, before and after multiples of 4096) with git status as witness on every row.",
    "note": "Bounded universes (<= 2 paths, 2 blob contents); submodules, sparse cones (C32) and linked worktrees (C33) are separate; the git leg is sampled within the process budget.",
}
ALL = ["reset-hard", "checkout-force", "checkout", "reset-merge", "reset-keep", "add", "add-all", "remove", "move", "clean", "commit"]


EOL_CFG = """CONSTANTS AutoCRLF = {"true", "input", "false"}  WtEol = {"lf", "crlf"}
 Layouts = {%s}
INIT Init
NEXT Next
INVARIANTS LayoutIrrelevant EditReported LfCopyClean CrlfCleanIffConverting Emit
CHECK_DEADLOCK FALSE
"""


def run(ctx):
    ops = ['status'] or ALL
    repo_common.run_prop(ctx, "C27", ["one-path-all-kinds", "dir-file-conflict"], ["one-path-all-kinds", "dir-file-conflict", "two-paths"], ops, 700)
    # core.autocrlf leg: StatusEOL rule table (line-ending layouts x autocrlf x worktree line endings x edited)
    layouts = ["small", "large", "cr@4094", "cr@4095", "cr@4096", "cr@8191"]
    if ctx.thorough:
        layouts += ["cr@12287", "cr@16383", "cr@32767", "cr@65535", "cr@8190", "cr@8192"]
    r = ctx.tlc("StatusEOL", cfg_text=EOL_CFG % ", ".join('"%s"' % l for l in layouts), workers=1, timeout=600, dirname="tla-eol")
    rows = ctx.printed_json(r)
    if not rows:
        raise vlib.ToolingError("StatusEOL produced no rows")
    p = ctx.path("eol_rows.ndjson")
    with open(p, "w") as f:
        for row in rows:
            f.write(json.dumps(row) + "\n")
    ctx.vh("c27eol", [p], timeout=1800)
    ctx.cov["autocrlf_rows"] = len(rows)
