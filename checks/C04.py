"""C04 Trees are decoded like git and only fsck-clean trees are written (Engine C: rule table, three-way)."""
LEVEL = "model_checking"
MANIFEST = {
    "engine": "tlc rule table + vhtree c04",
    "technique": "TLA+ transcription of git's tree parser, mode canonicalisation, fsck_tree rules (incl. verify_ordered) and canonical sort, evaluated by TLC over a bounded set of raw trees; every row replayed into Tree.Decode / Tree.Encode / TreeEntrySorter and into git ls-tree, fsck --strict and mktree",
    "text": "Exhaustive within the bound: every one-entry tree over 57 names (dot/.git/HFS/NTFS/.gitmodules families, control chars, slash, long names) x 19 raw mode strings x {id, null id} (quick: the reduced product, see spec) and every sequence of <= 3 (quick; gitlinks only in pairs) / <= 4 (thorough) entries over 6 names that sort around '/' x {file, dir, gitlink}, incl. unsorted and duplicate ones, plus malformed tails. TLC computes git's listing, the fsck message ids, the must-accept verdict and the canonical order; go-git and git are each compared with it. Spec theorems (git's stateful ordering check = declarative sortedness + duplicate freedom; must-accept sets are fsck-silent once sorted; clean trees are canonical; canonicalisation idempotent) are TLC invariants.",
    "note": "Trusts the token abstraction of names (bytes chosen by the harness keep the token order) and git 2.39.5 as second witness. go-git's documented producer gate (control characters, backslash-separated dot components, names over 4096 bytes, info-level symlink rules are refused although git accepts them) is part of the spec's must-accept predicate, so those refusals are not reported. Trees longer than the bound, 32-bit mode overflow and names missing their NUL are not covered.",
}

CFG = """CONSTANTS MaxLen = %d  Full = %s  Emit = TRUE
INIT Init
NEXT Next
INVARIANTS AlgoMatchesDecl MustAcceptIsClean MustImpliesGit CleanIsCanonical SortIsSorted RoundTrip EncOnlyDropsPadding
CHECK_DEADLOCK FALSE
"""


def run(ctx):
    maxlen = 4 if ctx.thorough else 3
    full = "TRUE" if ctx.thorough else "FALSE"
    r = ctx.tlc("TreeCodec", cfg_text=CFG % (maxlen, full), timeout=3000)
    ctx.cov["bounds"] = {"names": 57, "raw_modes": 19, "ids": 2, "sort_names": 6, "sort_kinds": 3,
                         "max_entries": maxlen, "full_single_product": ctx.thorough,
                         "tails": ["ok", "trunc", "extra"]}
    ctx.cov["exhaustive"] = True
    ctx.cov["rule"] = ("every tree of the bounded domain of spec/rules/TreeCodec.tla is one TLC state; each is rendered to bytes "
                       "(canonical + seeded variants of the multi-byte tokens); distinct = distinct raw tree objects; non-trivial = each is "
                       "decoded by go-git and listed by git, its entries are encoded by go-git (as given and canonically sorted) and every "
                       "written object is judged by git fsck --strict, all against the values TLC computed")
    ctx.vh("c04", [r.dir + "/treecodec_rows.ndjson"], pkg="vhtree")
    ctx.cov["traces_validated_against_impl"] = ctx.cov["evaluations"]
    ctx.assumptions += [
        "name tokens of TreeCodec.tla represent their bytes faithfully (checked against git ls-tree / fsck / mktree on the same objects: zero spec errors)",
        "go-git's documented stricter producer gate (control characters, '.'/'..' between backslashes, names > 4096 bytes, symlinked .gitignore/.gitattributes/.mailmap) is accepted as specified behaviour, not as a refusal of a valid tree",
        "fsck message levels are those of git 2.39.5 (badFilemode and the three *Symlink infos do not fail --strict)",
        "object-level fsck findings about what an entry points to (gitmodulesBlob, broken links) are outside the tree-format property",
    ]
