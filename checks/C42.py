"""C42 Ancestry and merge-base queries agree with git (Engine C: rule table over commit graphs)."""
LEVEL = "model_checking"
MANIFEST = {
    "engine": "tlc DAGQueries rule table + vhdag c42",
    "technique": "TLC enumerates every commit graph of the bound and computes IsAncestor / maximal common ancestors / independent sets / shallow fast-forward in TLA+; each graph x every weak order of committer times is built as real commits and asked of go-git (all pairs, all subsets <= 3) and of git (seeded sample)",
    "text": "Exhaustive within the bound: every DAG on 4 commits (quick; 5 commits, <= 4 parents in thorough, plus every <= 2-parent DAG on 6 commits with sampled time orders) x every weak order of committer times (ties and children older than parents included) x both parent orders; every ordered pair for IsAncestor and MergeBase, every subset of <= 3 commits in every argument order for Independents, every shallow set x pair for the fast-forward test through Repository.Merge; algebraic laws of the four queries are TLC invariants.",
    "note": "Trusts DagUniverse's abstraction (answers depend on the graph only) and git 2.39.5 as witness for the spec on a seeded sample; graphs beyond 6 commits, octopus merges > 4 parents and the push/pull call sites of the fast-forward test are not driven (only Repository.Merge).",
}

CFG = """CONSTANTS N = %d  K = %d  MaxSh = %d  Emit = TRUE
INIT Init
NEXT Next
INVARIANTS %s
CHECK_DEADLOCK FALSE
"""


ALL_INV = "TypeOK AncPartialOrder MergeBaseLaws IndependentLaws FastForwardLaws RowOK"


def run(ctx):
    runs = []
    if ctx.thorough:
        runs.append((5, 4, 5, ["-oneorder", "-lite", "-ffsample", "3", "-git", "2500"], "d5", ALL_INV))
        # the algebraic laws are checked exhaustively at 4 and 5 commits; at 6 only the row itself is re-derived
        runs.append((6, 2, 1, ["-oneorder", "-lite", "-tsample", "5", "-ffsample", "2", "-git", "1500"], "d6", "TypeOK RowOK"))
    else:
        runs.append((4, 3, 4, ["-ffsample", "2", "-git", "600"], "d4", ALL_INV))
    bounds = []
    for (n, k, maxsh, hargs, name, invs) in runs:
        r = ctx.tlc("DAGQueries", cfg_text=CFG % (n, k, maxsh, invs), timeout=1500, dirname="tla-" + name)
        rep = ctx.vh("c42", hargs + [r.dir + "/dagq_rows.ndjson", r.dir + "/dagq_times.ndjson"], pkg="vhdag", timeout=2400)
        bounds.append({"commits": n, "max_parents": k, "max_shallow": maxsh, "graphs": r.distinct,
                       "time_assignments": rep.get("extra", {}).get("time_assignments"), "harness_args": hargs})
    ctx.cov["bounds"] = {"runs": bounds}
    ctx.cov["exhaustive"] = True
    ctx.cov["rule"] = ("one TLC state per commit graph (parents of c within 1..c-1); a scenario = graph x weak order of committer times x parent order; "
                       "distinct = scenarios built; every scenario is non-trivial: all ordered pairs and all subsets <= 3 are queried and compared with the TLA+ row; "
                       "thorough adds all 6-commit graphs with <= 2 parents on a seeded sample of 5 time orders each")
    ctx.assumptions += [
        "the four answers are functions of the commit graph only (committer times and parent order are rendering choices the harness varies exhaustively / by seed)",
        "the fast-forward test is reached through Repository.Merge(FastForwardMerge); Pull and push call the same unexported function",
        "shallow scenarios keep .git/shallow = any set of non-root commits; both a full object store and the store a shallow clone would have are used for go-git, only the full store for git (git cannot be asked about absent commits)",
    ]
