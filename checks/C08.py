"""C08 Packs git writes are indexed exactly as git indexes them (PackGraph/PackSource driven exploration + TLA+ predicates)."""
import json
import os
import vlib

LEVEL = "exploration"
MANIFEST = {
    "engine": "tlc PackGraph(ThinOn)/PackSource + vhpack c08a/c08b + tlc PackRecord/PackIndex + git index-pack",
    "technique": "packs from two sources - every accepted PackGraph state (entry graphs <= 3/4 entries, duplicate objects, thin ref-deltas, delta chains of exactly 4094 / 4095 / 4096 links) rendered by the harness, and git pack-objects output over generated histories for the option matrix enumerated by PackSource.tla - are parsed by go-git's Parser in 5 modes; the resolved names (PackRecord.tla) and the decoded idx/rev tables (PackIndex.tla) are judged by TLC, idx/rev bytes are cmp'd with git index-pack --rev-index, thin packs are received through storage PackfileWriter and compared with git index-pack --fix-thin",
    "text": "Spec packs: all well-formed graphs over {commit,tree,blob,tag,ofs,ref} with <= 3 (quick) / <= 4 (thorough) entries plus one duplicate entry or one thin ref-delta. git packs: 4 histories (linear edits, 8 similar blobs, 1.2 MiB blob edited twice, duplicate blobs + tag + empty objects) x window {0,1,10} x depth {0,1,4,50} x delta-base-offset x {all, incremental, incremental --thin} (1/6 sampled in quick); SHA-1, a seeded quarter in SHA-256.",
    "note": "Level exploration: git decides what a correct index is (byte comparison); the TLA+ predicates state the structure (sorted names, fanout, offsets, crc, rev order, resolved set) and explain a mismatch. Offsets >= 2^31 are not reachable with real packs here (C10 covers the 64-bit table at the idx level). PackSource's statements about which entry kinds git may emit are checked against git (violation = SpecError).",
}

PG_CFG = """CONSTANTS
 MinN = 1
 MaxN = %d
 Rots <- MCRots%d
 MaxCorr = 1
 PairMod = 1
 PairSel = 0
 DeepMod = 1
 DeepSel = 0
 DepthLimit = 4095
 ThinOn = TRUE
 Emit = "print"
INIT Init
NEXT Next
INVARIANTS T_BaseAccepted T_AcceptWF T_StreamSound T_OnlyBenign T_HardRejects T_Defects T_DeltaType T_ObjectCount T_DepthClasses EmitRow
CHECK_DEADLOCK FALSE
"""

PS_CFG = """CONSTANTS
 SelMod = %d
 SelSel = %d
 Emit = TRUE
INIT Init
NEXT Next
INVARIANTS S_ExternalNeedsThin S_OfsNeedsDeltas S_ChainBound EmitRow
CHECK_DEADLOCK FALSE
"""

REC_CFG = """CONSTANTS
 MinN = 1
 MaxN = 1
 Rots = {0}
 MaxCorr = 0
 PairMod = 1
 PairSel = 0
 DeepMod = 1
 DeepSel = 0
 DepthLimit = 4095
 ThinOn = FALSE
 Emit = "none"
 RecFile = "%s"
 ExternalOK = TRUE
 DupOK = TRUE
INIT RInit
NEXT RNext
INVARIANTS R_AcceptedIsValid EmitBad
CHECK_DEADLOCK FALSE
"""

IDX_CFG = """CONSTANTS
 IdxFile = "%s"
INIT IInit
NEXT INext
INVARIANTS I_Sorted EmitIBad
CHECK_DEADLOCK FALSE
"""


def write_rows(ctx, r, name, keep=None):
    rows = ctx.printed_json(r)
    rows.sort(key=lambda x: json.dumps(x, sort_keys=True))   # parallel BFS prints in scheduling order
    if len(rows) != r.distinct or not rows:
        raise vlib.ToolingError("%s: %d rows printed for %d states" % (name, len(rows), r.distinct))
    p = ctx.path(name)
    n = 0
    with open(p, "w") as f:
        for row in rows:
            if keep is None or keep(row):
                f.write(json.dumps(row) + "\n")
                n += 1
    return p, n


def judge(ctx, module, cfg, files, what):
    d = ctx.specdir()
    bad = 0
    for fn in files:
        lines = [l for l in open(os.path.join(d, fn)) if l.strip()]
        if not lines:
            continue
        for k in range(0, len(lines), 4000):
            part = lines[k:k + 4000]
            name = "%s.part%d" % (fn, k)
            with open(os.path.join(d, name), "w") as f:
                f.writelines(part)
            rr = ctx.tlc(module, cfg_text=cfg % name, cfg="%s_%s_%d.cfg" % (module, fn.replace(".", "_"), k), timeout=1500)
            if rr.distinct != len(part):
                raise vlib.ToolingError("%s judged %d of %d records of %s" % (module, rr.distinct, len(part), fn))
            for b in ctx.printed_json(rr):
                rec = json.loads(part[b["i"] - 1])
                m = rec["meta"]
                bad += 1
                for why in b["why"]:
                    ctx.diverge("%s|%s|%s" % (what, why, m["key"]),
                                "%s of a pack (%s, Parser[%s]) fails the %s predicate: %s" % (what, json.dumps(m["scenario"])[:300], m["mode"], module, ", ".join(b["why"])),
                                {"meta": m, "reasons": b["why"]})
    return bad


def run(ctx):
    s = ctx.seed
    d = ctx.specdir()
    maxn = 4 if ctx.thorough else 3
    r = ctx.tlc("MCPackGraph", cfg_text=PG_CFG % (maxn, s % 4), cfg="MCPackGraph_c08.cfg", timeout=1500)
    # chain-depth boundary family: a few packs per class (4094 / 4095 / 4096 links are real, costly entries)
    allrows = ctx.printed_json(r)
    if len(allrows) != r.distinct or not allrows:
        raise vlib.ToolingError("PackGraph: %d rows printed for %d states" % (len(allrows), r.distinct))
    allrows.sort(key=lambda x: json.dumps(x, sort_keys=True))
    per_class = 3 if ctx.thorough else 1
    sel = [row for row in allrows if row["deepl"] == "none" and row["v"] == "accept"]
    kept_deep = []
    for k in ("under", "max", "over"):
        cand = [row for row in allrows if row["deepl"] == k]
        if not cand:
            raise vlib.ToolingError("C08: no graph is eligible for the chain-depth class %s" % k)
        for j in range(min(per_class, len(cand))):
            sel.append(cand[(s + j * 7) % len(cand)])
            kept_deep.append(k)
    rows = ctx.path("c08_rows.ndjson")
    with open(rows, "w") as f:
        for row in sel:
            f.write(json.dumps(row) + "\n")
    n_a = len(sel)
    ra = ctx.vh("c08a", [rows, os.path.join(d, "c08a.recs"), os.path.join(d, "c08a.idx"), 3000 if ctx.thorough else 200], pkg="vhpack", timeout=3000)
    mod = 1 if ctx.thorough else 6
    r2 = ctx.tlc("PackSource", cfg_text=PS_CFG % (mod, s % mod), timeout=600)
    scen, n_b = write_rows(ctx, r2, "c08_scen.ndjson")
    rb = ctx.vh("c08b", [scen, os.path.join(d, "c08b.recs"), os.path.join(d, "c08b.idx")], pkg="vhpack", timeout=3000)
    bad = judge(ctx, "PackRecord", REC_CFG, ["c08a.recs", "c08b.recs"], "Parser-result")
    bad += judge(ctx, "PackIndex", IDX_CFG, ["c08a.idx", "c08b.idx"], "idx-rev-tables")
    ctx.cov["records_rejected_by_spec"] = bad
    ctx.cov["records"] = ra["extra"]["records"] + rb["extra"]["records"]
    ctx.cov["traces_validated_against_impl"] = ctx.cov["records"]
    ctx.cov["bounds"] = {"spec_packs_max_entries": maxn, "depth_boundary_packs": sorted(kept_deep), "spec_packs": n_a, "git_pack_scenarios": n_b, "git_scenario_selection": "1/%d" % mod,
                         "parser_modes": ["nostorage,seek", "nostorage,stream", "memory,stream", "fs-lowmem,seek", "fs-highmem,seek"]}
    ctx.cov["exhaustive"] = False
    ctx.cov["rule"] = ("one case = one pack (accepted PackGraph state, or one PackSource scenario run through git pack-objects) x parser mode; "
                       "non-trivial: packs with ofs, ref, thin and duplicate entries occur (git_entry_kinds), every pack is also indexed by git")
    ctx.assumptions += [
        "git index-pack --rev-index is the reference for idx/rev bytes; git verify of thin packs uses index-pack --fix-thin in a receiver that holds only the first commit",
        "pack-objects runs with --threads=1; which deltas git chooses is not part of the property",
    ]
