"""C41 Remote command quoting is injection-free (Engine C rule table + batch trace validation)."""
import json
import os
LEVEL = "model_checking"
MANIFEST = {
    "engine": "tlc ShellQuote (theorem + rule table) + vhjail c41 + tlc ShellQuoteTrace",
    "technique": "TLA+ POSIX-shell word-splitting automaton and git's sq_quote_buf/sq_dequote; TLC proves Sh(svc SP Quote(p)...) = <<svc,p,...>> on the bounded domain; the command lines really sent by go-git's ssh transport (captured by an in-process ssh server) are judged by the same automaton in TLC",
    "text": "Exhaustive within the bound: every path of <= 3 (quick) / <= 5 (thorough) symbols over 12 shell-relevant symbol classes, plus 1 and 2 extra arguments, is quoted, re-read by the TLA+ shell automaton and by git's sq_dequote_to_argv (TLC invariants). The real exec request of transport/ssh for the rows (seeded sample of the rows: quick 1 600 rows x 2 byte renderings, thorough 12 000) is captured and validated by TLC; /bin/sh and git-shell are run on the spec's lines as second witnesses.",
    "note": "Trusts the symbol-class abstraction (classes rendered to several concrete bytes incl. control and high bytes; NUL excluded from the sh legs), dash as the POSIX shell, and that the exec payload received by the in-process server is what a real sshd would hand to the login shell. An un-escaped '!' is reported (class bang-unescaped) although a POSIX sh tolerates it, because sq_quote_buf escapes it for csh-derived login shells.",
}

CFG = """CONSTANTS MaxPath = %d MaxArg1 = %d MaxArg2 = %d Emit = TRUE
INIT Init
NEXT Next
INVARIANTS ExactWords DequoteBack LenBound OriginLen
CHECK_DEADLOCK FALSE
"""
TCFG = """CONSTANTS MaxPath = 0 MaxArg1 = 0 MaxArg2 = 0 Emit = FALSE
INIT TInit
NEXT TNext
INVARIANTS CanonicalAccepted
CHECK_DEADLOCK FALSE
"""


def run(ctx):
    import vlib
    bounds = (5, 2, 1) if ctx.thorough else (3, 1, 1)
    r = ctx.tlc("ShellQuote", cfg_text=CFG % bounds, timeout=1500)
    rows = os.path.join(r.dir, "shellquote_rows.ndjson")
    rep = ctx.vh("c41", [rows, r.dir], pkg="vhjail", timeout=3000)
    if not os.path.getsize(os.path.join(r.dir, "c41_trace.ndjson")):
        raise vlib.ToolingError("C41: empty trace")
    t = ctx.tlc("ShellQuoteTrace", cfg_text=TCFG, timeout=1500)
    cases = json.load(open(os.path.join(r.dir, "c41_cases.json")))
    nver, nbad = 0, 0
    for line in open(os.path.join(r.dir, "c41_verdicts.ndjson")):
        line = line.strip()
        if not line:
            continue
        v = json.loads(line)
        nver += 1
        c = cases.get(str(v["id"]), {})
        if v["class"] == "ok":
            # TLC accepts the line: the real shell / git-shell must agree, else the spec is wrong about them
            if c.get("shok") is False or c.get("shok_verbatim") is False or c.get("gsok") is False:
                raise vlib.ToolingError("SPEC-ERROR: TLC accepts %r but sh/git-shell do not: %s" % (c.get("sent"), json.dumps(c)[:800]))
            continue
        if v["class"] in ("quote-open", "meta-unquoted", "words-differ") and c.get("shok") is True and c.get("shok_verbatim") is not False:
            raise vlib.ToolingError("SPEC-ERROR: TLC rejects %r (%s) but /bin/sh yields the right words: %s" % (c.get("sent"), v["class"], json.dumps(c)[:800]))
        if v["class"] == "dequote-fails" and c.get("gsok") is True:
            raise vlib.ToolingError("SPEC-ERROR: TLC says sq_dequote fails on %r but git-shell accepts it" % c.get("sent"))
        nbad += 1
        ctx.diverge("Connect|%s|at=%s" % (v["class"], v["at"]),
                    "ssh transport sent %r for service %s words %r: %s (first departure from sq_quote_buf at a symbol produced by '%s')"
                    % (c.get("sent"), c.get("svc"), c.get("words"), v["class"], v["at"]), c)
    if nver != rep.get("traces"):
        raise vlib.ToolingError("C41: %d verdicts for %d trace records" % (nver, rep.get("traces")))
    ctx.cov["bounds"] = {"alphabet": 12, "max_path": bounds[0], "max_len_with_1_arg": bounds[1], "max_len_with_2_args": bounds[2],
                         "services": 4, "byte_variants_per_row": 2}
    ctx.cov["exhaustive"] = True
    ctx.cov["rule"] = ("every (path, args) over the 12-class alphabet within the bounds is one TLC state (theorems ExactWords, DequoteBack); "
                       "rows are rendered to bytes (canonical + 1 seeded variant, 4 service names), distinct = distinct (service, words); "
                       "non-trivial = the real exec request is captured for each and compared with Line(); %d recorded lines re-judged by TLC" % nver)
    ctx.cov["trace_records_judged_by_tlc"] = nver
    ctx.cov["trace_records_rejected"] = nbad
    ctx.assumptions += ["symbol classes of ShellQuote.tla represent their concrete bytes faithfully (checked against /bin/sh and git-shell on the same rows)",
                        "NUL bytes are outside the domain (a shell cannot receive them)",
                        "rows are sampled by VERIF_SEED in the conformance half when the table exceeds the tier budget (the TLC theorem covers all of them)"]
