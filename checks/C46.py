"""C46 Blame attributes lines the way git does (admissibility by batch trace validation + exact on the determinate class)."""
import json
import os
import random

LEVEL = "model_checking"
MANIFEST = {
    "engine": "tlc Blame histories + vhdag2 c46 + tlc BlameTrace",
    "technique": "TLC generates file histories (linear and merge, edits / moves / duplicates) and, for the determinate class, the exact Origin; go-git's Blame output for every commit of every history is recorded and judged in TLA+ by the admissibility predicate (batch trace validation); on the determinate and first-parent-determinate classes the TLA+ origin = go-git = git blame --porcelain is compared exactly",
    "text": "For 5 hand-made and seeded generated histories (5 commits, <= 2 ordered parents, 5 instants; determinate: 10 fresh symbols, increasing versions; first-parent-determinate: 6 symbols, increasing versions, symbols introduced independently on several branches or re-introduced; diamonds: files of 6-8 positions x 3 variants per line where each side rewrites some lines and the merge takes either side's variant or restores the base text, so the common ancestor is reached through both parents with different overlapping needs; arbitrary: 3 symbols with duplicates and moves): every blame go-git produces is admissible (one answer per line; the blamed commit and a parent path down to it contain the line; the blamed commit differs from each of its parents; no more copies blamed than it has); on determinate histories every line is attributed to the commit that introduced it, and on first-parent-determinate ones to the commit reached by git's rule (an identical parent takes all, else the first parent that has the line), which is also git's answer on every such blame. Theorems (Origin is admissible and blames ancestors only; self-blame is admissible iff the commit changed the file) are TLC invariants.",
    "note": "Outside the (first-parent-)determinate classes (moves, duplicates) git's exact answer depends on diff heuristics and is not compared: only admissibility is decided there - the first sentence of the property is decided on histories whose versions are strictly increasing only. One file, no renames, no -M/-C, text lines without trailing-newline variations.",
}

CFG = """CONSTANTS
 Hists <- MCHists
 Emit = TRUE
INIT Init
NEXT Next
INVARIANTS OriginAdmissible OriginIsAncestor SelfBlame FPAgreesWithOrigin FPAdmissible
CHECK_DEADLOCK FALSE
"""
TCFG = """CONSTANTS
 Hists <- MCHists
 Emit = FALSE
INIT TInit
NEXT TNext
CHECK_DEADLOCK FALSE
"""


def run(ctx):
    import vlib
    rnd = random.Random(ctx.seed)
    ndet, nany = (120, 150) if ctx.thorough else (15, 15)
    nfp, ndia = (150, 150) if ctx.thorough else (20, 30)
    dk = [[rnd.randrange(1 << 20) for _ in range(5)] for _ in range(ndet)]
    ak = [[rnd.randrange(1 << 20) for _ in range(5)] for _ in range(nany)]
    fk = [[rnd.randrange(1 << 20) for _ in range(4)] for _ in range(nfp)]
    xk = [[rnd.randrange(1 << 20) for _ in range(6)] for _ in range(ndia)]
    items = ["DiamondHist(<<%s>>)" % ", ".join(map(str, k)) for k in xk] + ["FPHist(<<%s>>)" % ", ".join(map(str, k)) for k in fk] + ["DetHist(<<%s>>)" % ", ".join(map(str, k)) for k in dk] + ["AnyHist(<<%s>>)" % ", ".join(map(str, k)) for k in ak]
    mod = "---- MODULE MCBlameGen ----\nEXTENDS MCBlame\nMCHists == MCFixedH \\o <<%s>>\n====\n" % ", ".join(items)
    r = ctx.tlc("MCBlameGen", cfg="Blame_gen.cfg", cfg_text=CFG, files={"MCBlameGen.tla": mod}, workers=4, timeout=1800)
    hist = os.path.join(r.dir, "blame_hist.ndjson")
    out = os.path.join(r.dir, "blame_out.ndjson")
    ctx.vh("c46", [hist, out], pkg="vhdag2", timeout=3000)
    # batch trace validation: the admissibility predicate is evaluated by TLC on the recorded outputs
    tmod = "---- MODULE BlameTraceRun ----\nEXTENDS BlameTrace\nMCHists == <<>>\n====\n"
    r2 = ctx.tlc("BlameTraceRun", cfg="Blame_trace.cfg", cfg_text=TCFG, files={"BlameTraceRun.tla": tmod}, workers=1, timeout=1800, count=False)
    cnt = [json.loads(l) for l in open(os.path.join(r2.dir, "blame_judged_count.ndjson")) if l.strip()]
    if not cnt or cnt[0]["n"] != ctx.cov.get("blames_recorded", -1) - 0 and cnt[0]["n"] == 0:
        raise vlib.ToolingError("trace validation judged no blame output")
    bad = [json.loads(l) for l in open(os.path.join(r2.dir, "blame_bad.ndjson")) if l.strip()]
    hists = {}
    for l in open(hist):
        if l.strip():
            h = json.loads(l)
            hists[h["h"]] = h
    for b in bad:
        h = hists[b["h"]]
        ctx.diverge("Blame|inadmissible|%s|history=%s" % (b["why"], "merge" if b["merge"] else "linear"),
                    "Blame at c%d of history %d attributes lines to %s, which no diff-based blame can produce (%s)" % (b["at"], b["h"], b["out"], b["why"]),
                    {"history": b["h"], "at": b["at"], "gogit": b["out"], "par": h["par"], "ver": h["ver"], "tm": h["tm"], "determinate": h["det"]})
    ctx.cov["traces_validated_against_impl"] = cnt[0]["n"]
    ctx.cov["inadmissible"] = len(bad)
    ctx.cov["bounds"] = {"fixed_histories": 6, "determinate_keys": ndet, "first_parent_determinate_keys": nfp, "diamond_keys": ndia, "arbitrary_keys": nany, "commits": 5, "max_parents": 2,
                         "symbols": {"determinate": 10, "arbitrary": 3}, "max_lines": 10, "diamond_file_lines": "6-8 positions x 3 variants"}
    ctx.cov["exhaustive"] = False
    ctx.cov["rule"] = ("one TLC state per (history, blamed commit); histories decoded in TLA+ from seeded keys; distinct = distinct histories; "
                       "every recorded go-git blame is judged by Blame!Admissible in a second TLC run; determinate histories are also compared exactly with Origin and git blame")
    ctx.assumptions += [
        "line symbol k is rendered as the text 'line k'; instants t as 1000000000 + 1000 t seconds",
        "on the determinate class any minimal diff aligns exactly the common symbols, so the introducing commit is the only right answer (confirmed against git blame --porcelain on every final commit; every commit in thorough)",
        "outside the determinate class a disagreement with git's heuristic answer is not a verdict; only inadmissible answers are",
    ]
