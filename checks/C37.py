"""C37 Object selection for transfer covers exactly the missing history (Engine C: rule table over repositories)."""
import json
LEVEL = "model_checking"
MANIFEST = {
    "engine": "tlc RevList scenarios + vhdag c37",
    "technique": "TLC enumerates (grid) and draws (seeded RandomElement) small repositories - commit graph, committer times, a root tree per commit, two tags, wants, haves - and computes Need = Reach(wants) minus Reach(haves) and Reach(wants) in TLA+; revlist.Objects on the real objects must satisfy Need <= Result <= Reach(wants); git rev-list --objects is held to the same contract on a seeded sample",
    "text": "Grid: every DAG on 4 commits x tree pattern(s) x every non-empty want set x every have set of commits x weak orders of committer times (sampled in quick, all 75 in thorough). Random: TLC-drawn scenarios on 5 commits (6 in thorough) with any tree per commit (shared subtrees, file or directory content changed and changed back next to an unchanged entry, submodule entry, missing directory), tags on any object incl. tag-of-tag, <= 3 wants/haves of any object type and a have that is not stored. Spec-level laws of Need/Reach are TLC invariants.",
    "note": "Non-shallow stores only (the property excludes shallow ones for the upper bound); tree universe of 6 root trees / 2 two-entry subtrees sharing one entry / 3 blobs (depth 2); git cannot be asked about an absent have (dropped on the git leg only); the painted-walk algorithm itself is not modelled - only its result is judged.",
}

CFG = """CONSTANTS N = %d  K = %d  Mode = "%s"  Samples = %d  NPat = %d
INIT Init
NEXT Next
INVARIANTS Laws EmitRow
CHECK_DEADLOCK FALSE
"""


def run(ctx):
    import vlib
    if ctx.thorough:
        grid = (4, 3, 4)
        tsample = 0
        rnd = [(5, 4, 16000), (6, 2, 8000)]
        gitq = 2500
    else:
        grid = (4, 3, 2)
        tsample = 5
        rnd = [(5, 4, 1200)]
        gitq = 250
    g = ctx.tlc("RevList", cfg_text=CFG % (grid[0], grid[1], "grid", 0, grid[2]), timeout=1500, dirname="tla-grid")
    files = [g.dir + "/revlist_rows.ndjson"]
    nrand = 0
    for i, (n, k, samples) in enumerate(rnd):
        r = ctx.tlc("RevList", cfg_text=CFG % (n, k, "random", samples, 1), workers=1, timeout=1500,
                    dirname="tla-rnd%d" % i, extra=["-seed", str(ctx.seed)])
        rows = [x for x in ctx.printed_json(r) if isinstance(x, dict) and "need" in x]
        if not rows:
            raise vlib.ToolingError("TLC printed no random scenarios")
        seen, uniq = set(), []
        for x in rows:
            s = json.dumps(x, sort_keys=True)
            if s not in seen:
                seen.add(s)
                uniq.append(s)
        p = ctx.path("revlist_random_%d.ndjson" % i)
        with open(p, "w") as f:
            f.write("\n".join(uniq) + "\n")
        files.append(p)
        nrand += len(uniq)
    args = ["-times", g.dir + "/revlist_times.ndjson", "-tsample", str(tsample), "-git", str(gitq)] + files
    ctx.vh("c37", args, pkg="vhdag", timeout=2400)
    ctx.cov["bounds"] = {"grid": {"commits": grid[0], "max_parents": grid[1], "tree_patterns": grid[2], "graphs": g.distinct // grid[2],
                                  "queries_per_graph": 15 * 16, "time_orders_per_row": tsample or 75},
                         "random": [{"commits": n, "max_parents": k, "samples": s} for (n, k, s) in rnd],
                         "random_distinct": nrand, "git_questions": gitq}
    ctx.cov["exhaustive"] = True
    ctx.cov["rule"] = ("grid: one TLC state per (graph, tree pattern) carrying all 240 (wants, haves) commit queries, crossed with weak orders of committer times; "
                       "random: one TLC state per scenario drawn with RandomElement under -seed VERIF_SEED (every second one commit-only, the others any object types); "
                       "distinct = repositories built; every evaluation compares a real revlist.Objects result with Need and Reach(wants)")
    ctx.assumptions += [
        "Need/Reach are functions of the object graph only; committer times and argument order are rendering choices (times enumerated, argument order seeded)",
        "stores are complete (non-shallow); a have naming an absent object is tolerated by go-git and dropped on the git leg",
        "duplicate ids in the result are counted in the evidence (results_with_duplicate_ids) but are not part of the property",
    ]
