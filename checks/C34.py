"""C34 Pkt-line and sideband framing round-trip under any chunking (TLC state machines + Engine A replay)."""
import json
from concurrent.futures import ThreadPoolExecutor

import vlib

LEVEL = "model_checking"
MANIFEST = {
    "engine": "tlc PktStream + Sideband (exhaustive) + vhbytes c34pkt/c34sb (behaviour replay)",
    "technique": "TLA+ state machines of the pkt-line reader under arbitrary chunking and of the sideband muxer/demuxer, checked exhaustively by TLC against the property-level oracle; TLC behaviours (packets, chunk schedule, reader calls / writes, buffer schedule) replayed into go-git's pktline and sideband packages through a chunking io.Reader",
    "text": "Exhaustive at model level: every sequence of <= N packets (14 kinds: 5 payload length classes incl. 65515/65516, ERR line, flush/delim/response-end, three malformed length headers, truncated header/body) x every chunking of the byte stream x 7 reader operations (Read with 4 buffer sizes, ReadLine, Scanner, PeekLine) satisfies 'observed = sent'; sideband: every sequence of writes on channels 1-3 (6 size classes around the packet limit, side-band and side-band-64k) followed or not by a flush, read with every schedule of caller buffer sizes, delivers exactly the channel-1 bytes and the channel-2 progress bytes. Replay: complete behaviours (exhaustive for one packet in the thorough tier, seeded simulation up to 4 packets) are executed against the real code and every observation is compared with the one TLC computed.",
    "note": "Trusts the unit abstraction of the byte stream (header bytes individually, payload as first byte / bulk / last byte, one extra seeded cut inside the bulk) and the projection of Go errors to 8 observation classes; malformed lengths are modelled as 4-byte headers without body (after such an error the next packet must still be delivered); pkt-line behaviours are replayed with the writer finished before the reader starts.",
}

KINDS = '{"d0","d1","d2","dM1","dM","err","flush","delim","rend","b0003","bzzzz","bfff1","tb","th"}'
OPS = '{"read_full","read_exact","read_short","read_tiny","readline","scan","peek"}'
PKT = """CONSTANTS
 Kinds = %s
 Ops = %s
 MaxPkts = %%d
 MaxInFlight = %%d
 MaxExtra = %%d
 HistOn = %%s
INIT Init
NEXT Next
INVARIANTS TypeOK Faithful TruncLast NoStuck %%s
CHECK_DEADLOCK FALSE
""" % (KINDS, OPS)

SB = """CONSTANTS Piece = %d
 Sizes = %s
 Bufs = %s
 MaxWrites = %d
 MaxReads = %d
 HistOn = %s
INIT Init
NEXT Next
INVARIANTS Faithful Complete MuxOK %s
CHECK_DEADLOCK FALSE
"""


def sizes(piece):
    return "{0,1,%d,%d,%d,%d}" % (piece - 1, piece, piece + 1, 2 * piece + 1)


def bufs(piece):
    return "{1,2,%d,%d,%d}" % (piece - 1, piece, piece + 1)


def uniq(hs):
    seen, out = set(), []
    for h in hs:
        k = json.dumps(h, sort_keys=True)
        if k not in seen:
            seen.add(k)
            out.append(h)
    return out


def run(ctx):
    th = ctx.thorough
    jobs = {}
    # ---- model half: exhaustive state-space exploration (no history variables: states merge)
    jobs["pkt_x"] = dict(module="PktStream", cfg="Pkt_x.cfg", cfg_text=PKT % (4 if th else 2, 2, 2 if th else 1, "FALSE", ""),
                         dirname="t_pkt_x", workers=6, timeout=2400)
    for name, piece in (("sb", 995), ("sb64", 65515)):
        jobs[name + "_x"] = dict(module="Sideband", cfg="SB_x.cfg",
                                 cfg_text=SB % (piece, sizes(piece), bufs(piece), 3 if th else 2, 3, "FALSE", ""),
                                 dirname="t_%s_x" % name, workers=4, timeout=2400)
    # ---- behaviours for the replay (history on, -workers 1 so that printed lines do not interleave)
    if th:
        jobs["pkt_h1"] = dict(module="PktStream", cfg="Pkt_h1.cfg", cfg_text=PKT % (1, 1, 1, "TRUE", "EmitHist"),
                              dirname="t_pkt_h1", workers=1, timeout=2400, count=False)
    jobs["pkt_sim"] = dict(module="PktStream", cfg="Pkt_sim.cfg", cfg_text=PKT % (4, 4, 2, "TRUE", "EmitHist"),
                           dirname="t_pkt_sim", mode="simulate", depth=90, num=6000 if th else 250, workers=1, timeout=2400, count=False)
    for name, piece in (("sb", 995), ("sb64", 65515)):
        jobs[name + "_h"] = dict(module="Sideband", cfg="SB_h.cfg",
                                 cfg_text=SB % (piece, sizes(piece), bufs(piece), 2 if th else 1, 2, "TRUE", "EmitHist"),
                                 dirname="t_%s_h" % name, workers=1, timeout=2400, count=False)
        jobs[name + "_sim"] = dict(module="Sideband", cfg="SB_sim.cfg",
                                   cfg_text=SB % (piece, sizes(piece), bufs(piece), 4, 4, "TRUE", "EmitHist"),
                                   dirname="t_%s_sim" % name, mode="simulate", depth=12, num=4000 if th else 300, workers=1,
                                   timeout=2400, count=False)

    def one(item):
        name, kw = item
        kw = dict(kw)
        module = kw.pop("module")
        return name, ctx.tlc(module, **kw)

    with ThreadPoolExecutor(max_workers=4) as ex:
        res = dict(ex.map(one, list(jobs.items())))

    pk = []
    for n in ("pkt_h1", "pkt_sim"):
        if n in res:
            pk += ctx.printed_json(res[n])
    pk = uniq(pk)
    sb = []
    for n in ("sb_h", "sb_sim", "sb64_h", "sb64_sim"):
        sb += ctx.printed_json(res[n])
    sb = uniq(sb)
    if not pk or not sb:
        raise vlib.ToolingError("TLC printed no behaviours (pkt %d, sideband %d)" % (len(pk), len(sb)))
    p1 = ctx.path("pkt_hist.ndjson")
    with open(p1, "w") as f:
        for h in pk:
            f.write(json.dumps(h) + "\n")
    p2 = ctx.path("sb_hist.ndjson")
    with open(p2, "w") as f:
        for h in sb:
            f.write(json.dumps(h) + "\n")
    ctx.vh("c34pkt", [p1], pkg="vhbytes", timeout=3000)
    ctx.vh("c34sb", [p2], pkg="vhbytes", timeout=3000)
    ctx.cov["bounds"] = {"packet_kinds": 14, "reader_ops": 7, "exhaustive_packets": 4 if th else 2, "in_flight": 2,
                         "replayed_pkt_behaviours": len(pk), "replayed_sideband_behaviours": len(sb),
                         "sideband_sizes": "0,1,piece-1,piece,piece+1,2*piece+1 for piece in {995, 65515}",
                         "sideband_buffers": "1,2,piece-1,piece,piece+1 + final drain", "sideband_writes": 3 if th else 2, "sideband_reads": 3,
                         "chunkings_per_sideband_behaviour": ["whole", "bytewise", "random cuts"]}
    ctx.cov["exhaustive"] = True
    ctx.cov["rule"] = ("model: all reachable states of the reader automaton under every chunking (Deliver any non-empty prefix) and of the "
                       "muxer/demuxer for every write/read schedule; replay: one behaviour = (packet list, cut points, reader calls) or "
                       "(writes, flush, buffer schedule); distinct = distinct behaviour; each ends with the reader seeing the end of the stream")
    ctx.assumptions += ["the writer side is go-git's own pktline.Write*/sideband.Muxer; its output is additionally parsed for well-formed lengths",
                        "concurrent use of one stream by several readers is out of scope"]
