"""C22 Garbage collection never deletes reachable or staged objects (Engine A: behaviour replay)."""
import json
import random
import vlib

LEVEL = "model_checking"
MANIFEST = {
    "engine": "tlc GcModel states + vhgc c22",
    "technique": "TLC enumerates every repository state reachable by a bounded history of porcelain operations over the abstract GcModel spec and computes Live (closure of references, HEAD and index, cut at shallow roots) and the keep-set of every Prune / RepackObjects option combination; go-git replays the history, runs the collection, and every object the spec keeps is read back (fresh storage, the collecting storage, decoded children, git cat-file / fsck on a sample)",
    "text": "Exhaustive over all distinct repository states reachable in <= 2 operations (quick: 1; thorough additionally a seeded sample of 3000 of the states at depth 3, all of which TLC enumerates and checks against the model invariants) from 5 initial repositories over 19 operation kinds (stage-only add, conflict stages 1/2/3 on an unmerged path and their resolution, gitlink, commit / merge commit, soft reset, detached / branch checkout, annotated and lightweight tags on any object, ref set / delete / pack-refs, shallow cut, pack-all plain / promisor with withheld blobs, unpack, and GC itself), plus simulated histories of length 4-6; 3 Prune x 6 RepackObjects option combinations per state.",
    "note": "Small universe (3 blobs, 2 paths + gitlink, <= 5 commits, <= 3 annotated tags, 2 branches, 2 tag refs). Liveness is what the property names: references, HEAD, index; reflogs, linked worktrees and alternates are not modelled. git's own prune/repack is the second witness for Live on a sample (spec != git => SPEC-ERROR). Age limits are the two extremes (before every object / after every object).",
}
INVS = "TypeOK Connected IndexPresent GcSound LastGcAdmissible ViaTotal EmitState"
CFG = """CONSTANTS Blobs <- MCBlobs Heads <- MCHeads TagRefs <- MCTagRefs CIds <- MCCIds GIds <- MCGIds Inits <- MCInits GcOps <- MCGcOps ConflictShapes <- MCConflictShapes
 WithPromisor = TRUE WithLink = TRUE WithMidGc = TRUE MaxOps = %d Emit = TRUE
INIT Init
NEXT Next
%s
INVARIANTS """ + INVS + """
CHECK_DEADLOCK FALSE
"""


def states(ctx, name, depth, simulate=None):
    if simulate:
        r = ctx.tlc("MCGcModel", cfg_text=CFG % (depth, ""), mode="simulate", depth=depth + 1, num=simulate, workers=1, timeout=2400)
    else:
        r = ctx.tlc("MCGcModel", cfg_text=CFG % (depth, "VIEW StateView"), workers=1, timeout=2400)
    return ctx.printed_json(r)


def dump(ctx, name, recs, seen, sample=None):
    out = []
    for h in recs:
        k = json.dumps(h["final"], sort_keys=True)
        if k in seen:
            continue
        seen.add(k)
        out.append(h)
    if sample is not None and len(out) > sample:
        out = random.Random(ctx.seed).sample(out, sample)
    p = ctx.path(name)
    with open(p, "w") as f:
        for h in out:
            f.write(json.dumps(h) + "\n")
    return p, len(out)


def run(ctx):
    seen = set()
    if ctx.thorough:
        ex = states(ctx, "ex", 2)
        p1, n1 = dump(ctx, "gc_ex.ndjson", ex, seen)
        deep = states(ctx, "deep", 3)
        n2all = len(deep)
        p2, n2 = dump(ctx, "gc_deep.ndjson", deep, seen, sample=3000)
        sim = states(ctx, "sim", 6, simulate=12)
        p3, n3 = dump(ctx, "gc_sim.ndjson", sim, seen, sample=600)
        ctx.vh("c22", [p1, 80, 0], pkg="vhgc", timeout=3000)
        ctx.vh("c22", [p2, 120, 3], pkg="vhgc", timeout=3000)
        ctx.vh("c22", [p3, 50, 0], pkg="vhgc", timeout=3000)
        bounds = {"exhaustive_depth_all_variants": 2, "states_all_variants": n1, "exhaustive_depth_3_variants_per_state": 3,
                  "states_depth3_enumerated": n2all, "states_depth3_replayed_seeded_sample": n2, "simulated_depth": 6, "simulated_states": n3}
    else:
        ex = states(ctx, "ex", 1)
        p1, n1 = dump(ctx, "gc_ex.ndjson", ex, seen)
        sim = states(ctx, "sim", 5, simulate=3)
        p3, n3 = dump(ctx, "gc_sim.ndjson", sim, seen, sample=150)
        ctx.vh("c22", [p1, 10, 0], pkg="vhgc", timeout=600)
        ctx.vh("c22", [p3, 15, 3], pkg="vhgc", timeout=600)
        bounds = {"exhaustive_depth_all_variants": 1, "states_all_variants": n1, "simulated_depth": 5, "simulated_states_3_variants_per_state": n3}
    if n1 == 0:
        raise vlib.ToolingError("TLC printed no states")
    ctx.cov["bounds"] = bounds
    ctx.cov["exhaustive"] = True
    ctx.cov["rule"] = ("one witness history per distinct GcModel repository state (TLC VIEW = state) within the depth bound, plus simulated deeper histories; "
                       "evaluations = GC runs (state x option combination x storage backend); distinct = distinct repository states; "
                       "each is non-trivial: the collection really runs and every kept object is read back")
    ctx.assumptions += [
        "symbols are rendered as fixed real objects (harness/cmd/vhgc/gcworld.go); initial states are built with plumbing calls, operations with go-git porcelain",
        "a GC call that fails on a valid repository is reported as a divergence of class `error` (the spec's Prune/Repack are total)",
        "reading through the storage instance that ran the collection is part of 'still readable' (classes instance-*)",
    ]
