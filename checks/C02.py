"""C02 Commit and tag codecs are faithful to git (Engine C: rule tables, three-way spec / go-git / git)."""
import threading

import vlib

LEVEL = "model_checking"
MANIFEST = {
    "engine": "tlc rule tables (CommitCodec, CommitStruct, TagCodec, IdentCodec) + vhcodec c02commit/c02tag/c02ident",
    "technique": "TLA+ transcription of git's commit/tag/identity parsers over header-line kinds; TLC enumerates every bounded object as a state, checks the round-trip theorems, and every row is replayed into object.Commit/Tag Decode+Encode and into git",
    "text": "Exhaustive within the bound: every commit made of a tree line followed by <= 2 (quick) / <= 3 (thorough) header lines over 15 line kinds x 7 message classes (plus <= 3 / <= 4 lines with a plain message), every well-formed commit struct with <= 1 / <= 2 extra headers, every tag header of <= 2 / <= 3 lines and canonical tag headers x every body of <= 3 / <= 4 lines over 8 body-line kinds, and 5040 identity-line shapes x 3 roles are decoded and re-encoded by go-git and compared field by field with what the TLA+ rules say git reports; git itself is asked about every row (cat-file --batch-check peel, log --no-walk --stdin, for-each-ref). Spec-level theorems (Decode(Encode(c)) = c, re-encoding decoded fields is canonical, signature/payload partition, canonical objects are unambiguous) are TLC invariants.",
    "note": "Line texts are positional renderings of the kinds (one concrete text per kind and position, malformed ids seeded); identity shapes are checked inside canonical objects only (identity parsing is assumed independent of the surrounding header structure); header blocks without a final LF, NUL bytes, sha256 repositories and mergetag contents are not covered; extra headers and gpgsig fields have no batch git reporter (extra headers: spec only; signatures: see C03).",
}

COMMIT_KINDS = '{"tree", "treeBad", "parent", "parentBad", "author", "committer", "encoding", "gpgsig", "gpgsig256", "mergetag", "other", "bare", "gpgsigx", "cont", "contE"}'

COMMIT_CFG = """CONSTANTS MaxTail = %d  MaxTailLF = %d  Emit = TRUE
TailKinds = """ + COMMIT_KINDS + """
INIT Init
NEXT Next
INVARIANTS SigPayloadPartition ExtrasDisjoint CanonicalUnambiguous ReencodeIsCanonical RejectLocal
CHECK_DEADLOCK FALSE
"""
STRUCT_CFG = """CONSTANTS MaxTail = 0  MaxTailLF = 0  Emit = FALSE  MaxExtras = %d  EmitS = TRUE
TailKinds = {"tree"}
INIT InitS
NEXT NextS
INVARIANTS RoundTrip PayloadOfStruct
CHECK_DEADLOCK FALSE
"""
TAG_CFG = """CONSTANTS MaxPrefix = %d  MaxTail = %d  MaxBody = %d  Emit = TRUE
INIT Init
NEXT Next
INVARIANTS BodyPartition PayloadKeepsNonSig CanonicalUnambiguous ReencodeIsCanonical
CHECK_DEADLOCK FALSE
"""
IDENT_CFG = """CONSTANTS Emit = TRUE
INIT Init
NEXT Next
INVARIANTS PartsWellFormed CanonicalConsumed
CHECK_DEADLOCK FALSE
"""


def tlc_parallel(ctx, jobs):
    """Run several TLC jobs concurrently (each in its own flat spec dir); returns {name: TLCResult}."""
    res, errs = {}, []

    def work(name, module, cfg):
        try:
            res[name] = ctx.tlc(module, cfg_text=cfg, timeout=1500, dirname="tla_" + name, heap="3g")
        except Exception as e:  # re-raised in the main thread
            errs.append(e)

    ths = [threading.Thread(target=work, args=j) for j in jobs]
    for t in ths:
        t.start()
    for t in ths:
        t.join()
    if errs:
        raise errs[0]
    return res


def run(ctx):
    if ctx.thorough:
        b = {"commit_tail": 3, "commit_tail_plain": 4, "struct_extras": 2, "tag_prefix": 3, "tag_tail": 2, "tag_body": 4}
    else:
        b = {"commit_tail": 2, "commit_tail_plain": 3, "struct_extras": 1, "tag_prefix": 2, "tag_tail": 1, "tag_body": 3}
    res = tlc_parallel(ctx, [
        ("commit", "CommitCodec", COMMIT_CFG % (b["commit_tail"], b["commit_tail_plain"])),
        ("struct", "CommitStruct", STRUCT_CFG % b["struct_extras"]),
        ("tag", "TagCodec", TAG_CFG % (b["tag_prefix"], b["tag_tail"], b["tag_body"])),
        ("ident", "IdentCodec", IDENT_CFG),
    ])
    rows = {}
    for name, f in (("commit", "commit_rows.ndjson"), ("struct", "commit_struct_rows.ndjson"),
                    ("tag", "tag_rows.ndjson"), ("ident", "ident_rows.ndjson")):
        p = res[name].dir + "/" + f
        rows[name] = sum(1 for _ in open(p))
        # every serialised row must have been a TLC state (the theorems were checked on it)
        if res[name].distinct != rows[name]:
            raise vlib.ToolingError("%s: %d rows serialised but %d TLC states" % (name, rows[name], res[name].distinct))
    ctx.vh("c02commit", [res["commit"].dir + "/commit_rows.ndjson", res["struct"].dir + "/commit_struct_rows.ndjson"], pkg="vhcodec")
    ctx.vh("c02tag", [res["tag"].dir + "/tag_rows.ndjson"], pkg="vhcodec")
    ctx.vh("c02ident", [res["ident"].dir + "/ident_rows.ndjson"], pkg="vhcodec")
    ctx.cov["bounds"] = dict(b, rows=rows, commit_line_kinds=15, commit_message_classes=7, tag_header_kinds=13,
                             tag_body_kinds=8, identity_shapes=rows["ident"], identity_roles=3)
    ctx.cov["exhaustive"] = True
    ctx.cov["rule"] = ("every object of the bounded domain is one TLC state and one table row; a row is an object made of header-line "
                       "kinds whose texts mention their position, so that decoded fields are compared by the position they must come "
                       "from; distinct = distinct abstract objects; non-trivial = each row is decoded, re-encoded and (if canonical) "
                       "rebuilt as a struct and encoded by go-git, and stored, parsed and reported by git")
    ctx.cov["traces_validated_against_impl"] = ctx.cov["evaluations"]
    ctx.assumptions += [
        "one concrete text per line kind and position represents the kind (malformed ids: 4 seeded variants)",
        "identity parsing is independent of the header structure around the line (identity shapes are embedded in canonical objects only)",
        "git 2.39.5 is the second witness: accept/reject via cat-file --batch-check '<oid>^{tree}' / '<oid>^{}', fields via log --no-walk --stdin (last author line wins) and for-each-ref (first author line wins); go-git may report either",
        "objects are stored through one git index-pack --stdin (loose writes cost ms each here); ids are cross-checked with hash-object --literally on a sample",
        "for commits without a blank line git log %B reads past the object buffer: the message of such rows is not compared with git",
        "go-git accepting objects git cannot parse is counted in the evidence, not judged (the property speaks about objects git accepts)",
    ]
