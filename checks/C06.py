"""C06 Delta encoding round-trips; all delta appliers agree with git (Engine C rule table + Engine B round trip)."""
import json
import os
from concurrent.futures import ThreadPoolExecutor

import vlib

LEVEL = "model_checking"
MANIFEST = {
    "engine": "tlc Delta (rule table + batch trace validation) + vhbytes c06/c06rt",
    "technique": "byte-level TLA+ transcription of git's patch-delta.c evaluated by TLC over all short delta streams; every row replayed into go-git's delta appliers and into git; DiffDelta outputs validated by TLC",
    "text": "Exhaustive within the bound: every byte string over 10 representative bytes up to the length bound (raw streams, and bodies behind well-formed size headers for sources of 0..3, 145 and 65680 bytes) is a TLC state judged by Apply(); PatchDelta, ApplyDelta, ReaderFromDelta (whole and 1-byte chunked input) and the pack Parser (REF/OFS delta, with and without storage) must reject exactly the rows the spec rejects and otherwise return the spec's bytes; git (fsck over hand-indexed packs for every row, index-pack for a sample) must agree with the spec on every row. DiffDelta output for all symbolic (src,tgt) pairs over {A,B}^<=n at three block scales is checked by TLC to re-apply to the target.",
    "note": "Trusts the representative-byte alphabet {00,01,02,03,7f,80,90,91,b0,ff} and the six source lengths; TLC integers saturate at 2^30 (sound for sources < 2^21 bytes); deltas longer than the bound, 4-byte copy offsets and sources > 64 KiB + 144 bytes are not enumerated. An applier may reject (never mis-answer) a delta whose size header is unterminated at the end of the buffer, which git happens to accept.",
}

ALPHA = "{0,1,2,3,127,128,144,145,176,255}"

CFG = """CONSTANTS Mode = "%(mode)s"
 Alpha = %(alpha)s
 SrcLens = %(srcs)s
 TgtSizes = %(tgts)s
 MinLen = %(minlen)d
 MaxLen = %(maxlen)d
 SampleN = %(sample)d
 OutFile = "%(out)s"
 InFile = "%(inf)s"
 Seed = %(seed)d
 RawFirst = %(rawfirst)s
 OpOffs = %(opoffs)s
 OpSizes = %(opsizes)s
 MaxOps = %(maxops)d
 PairLen = %(pairlen)d
 Split = TRUE
INIT Init
NEXT Next
INVARIANTS %(inv)s
CHECK_DEADLOCK FALSE
"""


def cfg(mode, out, srcs="{}", tgts="{}", minlen=0, maxlen=0, sample=0, inf="", seed=1, pairlen=0,
        inv="SizeExact PrefixFree NoTrailing", rawfirst="{0,1,2,3,127,128,144,145,176,255,256}",
        opoffs="{}", opsizes="{}", maxops=0):
    return CFG % dict(rawfirst=rawfirst, opoffs=opoffs, opsizes=opsizes, maxops=maxops, mode=mode, alpha=ALPHA, srcs=srcs, tgts=tgts, minlen=minlen, maxlen=maxlen, sample=sample,
                      out=out, inf=inf, seed=seed, inv=inv, pairlen=pairlen)


def run(ctx):
    th = ctx.thorough
    # ---- rule tables (Engine C).  name, cfg; the runs are independent and executed concurrently.
    raw_len = 5 if th else 4
    body_len = 4 if th else 3          # exhaustive body length
    samp = 1500 if th else 60          # seeded sample of bodies one byte longer, per (source, target size)
    pairlen = 5 if th else 3
    # the table is the union of independent TLC runs (ASSUME-time serialisation is single threaded: ~400 rows/s per JVM)
    if th:
        runs = []
        for i, fb in enumerate(("{0,1,256}", "{2,3,127}", "{128,144}", "{145,176,255}")):
            runs.append(("raw%d" % i, cfg("raw", "delta_raw%d.ndjson" % i, srcs="{0,1,2,3,145}", maxlen=raw_len,
                                          pairlen=pairlen if i == 0 else 0, rawfirst=fb)))
        for n in (0, 1, 2, 3, 145, 65680):
            runs.append(("body%d" % n, cfg("body", "delta_body%d.ndjson" % n, srcs="{%d}" % n, maxlen=body_len + 1, sample=samp, seed=ctx.seed)))
    else:
        runs = [
            ("raw0", cfg("raw", "delta_raw0.ndjson", srcs="{0,1,2,3,145}", maxlen=raw_len, pairlen=pairlen, rawfirst="{0,1,2,127,256}")),
            ("raw1", cfg("raw", "delta_raw1.ndjson", srcs="{0,1,2,3,145}", maxlen=raw_len, rawfirst="{3,128,144,145,176,255}")),
            ("body0", cfg("body", "delta_body0.ndjson", srcs="{0,1}", maxlen=body_len + 1, sample=samp, seed=ctx.seed)),
            ("body1", cfg("body", "delta_body1.ndjson", srcs="{3,145}", maxlen=body_len + 1, sample=samp, seed=ctx.seed)),
            ("body2", cfg("body", "delta_body2.ndjson", srcs="{65680}", maxlen=body_len + 1, sample=samp, seed=ctx.seed)),
        ]

    # well-formed command sequences (order of copies: forward, backward, backward then forward again)
    if th:
        runs.append(("ops0", cfg("ops", "delta_ops0.ndjson", srcs="{145}", opoffs="{0,1,2,127,144}", opsizes="{1,2}", maxops=4,
                                 inv="SizeExact PrefixFree NoTrailing OpsVerdict")))
        runs.append(("ops1", cfg("ops", "delta_ops1.ndjson", srcs="{65680}", opoffs="{0,1,144,65536,65679}", opsizes="{1,65536}", maxops=3,
                                 inv="SizeExact PrefixFree NoTrailing OpsVerdict")))
    else:
        runs.append(("ops0", cfg("ops", "delta_ops0.ndjson", srcs="{145,65680}", opoffs="{0,1,127,144,65679}", opsizes="{1}", maxops=3,
                                 inv="SizeExact PrefixFree NoTrailing OpsVerdict")))

    def one(item):
        name, text = item
        return name, ctx.tlc("Delta", cfg="Delta_%s.cfg" % name, cfg_text=text, dirname="tla_" + name, workers=2 if th else 3,
                             heap="2g", timeout=3000 if th else 600)

    with ThreadPoolExecutor(max_workers=len(runs)) as ex:
        res = dict(ex.map(one, runs))
    rows, srcs = [], []
    for name, _ in runs:
        d = res[name].dir
        rows.append(os.path.join(d, "delta_%s.ndjson" % name))
        srcs.append(os.path.join(d, "delta_sources.ndjson"))
        if not os.path.exists(rows[-1]):
            raise vlib.ToolingError("TLC wrote no table for " + name)
    ctx.vh("c06", [",".join(srcs)] + rows, pkg="vhbytes", timeout=3000)
    ctx.cov["traces_validated_against_impl"] = ctx.cov["evaluations"]

    # ---- round-trip half (Engine B): record DiffDelta outputs, TLC evaluates the acceptance predicate
    rec = ctx.path("delta_rt.ndjson")
    rt = ctx.vh("c06rt", [os.path.join(res["raw0"].dir, "delta_pairs.ndjson"), rec], pkg="vhbytes", timeout=1200)
    r = ctx.tlc("Delta", cfg="Delta_rt.cfg", cfg_text=cfg("rt", "", inf="delta_rt.ndjson", inv="SizeExact"),
                dirname="tla_rt", files={"delta_rt.ndjson": open(rec).read()}, workers=4, timeout=3000 if th else 600)
    bad = json.load(open(os.path.join(r.dir, "delta_rt_bad.json")))
    if bad["n"] != rt["extra"]["rt_records"]:
        raise vlib.ToolingError("TLC validated %d of %d round-trip records" % (bad["n"], rt["extra"]["rt_records"]))
    recs = [json.loads(l) for l in open(rec)] if bad["bad"] else []
    for b in bad["bad"]:
        x = recs[b["i"] - 1]
        key = "tgt=%s" % ("empty" if not x["tgt"] else "nonempty")
        if b["why"] != "delta-shorter-than-4":
            key += ",src=%s,scale=%s" % ("empty" if not x["src"] else "nonempty", {1: "1", 16: "16"}.get(x["scale"], "64k"))
        ctx.diverge("DiffDelta|%s|%s" % (b["why"], key),
                    "the delta DiffDelta computes is %s by git's patch-delta: src %s x%d -> tgt %s x%d, delta %s"
                    % ("rejected (%s)" % b["why"] if b["why"] != "wrong-bytes" else "applied to different bytes",
                       "".join(x["a"]) or "<empty>", x["scale"], "".join(x["b"]) or "<empty>", x["scale"],
                       bytes(x["delta"][:40]).hex()),
                    {"a": x["a"], "b": x["b"], "scale": x["scale"], "delta": bytes(x["delta"][:200]).hex(), "why": b["why"]})
    ctx.cov["traces_validated_against_impl"] += bad["n"]

    ctx.cov["bounds"] = {"alphabet": ALPHA, "raw_stream_max_len": raw_len, "body_exhaustive_max_len": body_len,
                         "body_sampled_len": body_len + 1, "body_sample_per_src_tgt": samp,
                         "source_lengths": [0, 1, 2, 3, 145, 65680] if th else [0, 1, 3, 145, 65680],
                         "target_sizes": {"small": [0, 1, 2, 3, 4], "145": [1, 3, 144, 145], "65680": [65536, 65537, 131072]},
                         "command_sequences": "<= 3 (quick) / 4 (thorough) well-formed copy/insert commands, copy offsets {0,1,127,144,65536,65679}, "
                                              "exact target size and one byte more (sources 145 and 65680)",
                         "roundtrip_pairs_max_symbols": pairlen, "roundtrip_scales": [1, 16, 65552]}
    ctx.cov["exhaustive"] = True
    ctx.cov["rule"] = ("every byte string over the 10 representative bytes up to the bound is one TLC state (raw: the whole delta; body: the "
                       "op stream behind canonical size headers, per source length x declared target size), plus a seeded sample one byte longer; "
                       "distinct = distinct (source length, delta bytes); every row is judged by 7 applier configurations and by git; "
                       "non-trivial = rows are grouped by the spec's verdict (accept + op kinds / 10 reject reasons, all populated)")
    ctx.assumptions += [
        "git fsck over a hand-written idx is used as the batch interface to patch_delta (git unpack-objects -r and index-pack die at the first bad delta); "
        "a seeded sample is cross-checked with git index-pack",
        "rows whose declared target size is >= 2^21 are asked of git one process at a time (sampled) because git allocates the declared size first",
        "round trip: records where the target is larger than 64 KiB are a seeded sample (3 quick / 24 thorough pairs)",
    ]
