"""C03 Signature verification payload equals git's (Engine C: rule tables, three-way spec / go-git / git)."""
import vlib
from checks import C02

LEVEL = "model_checking"
MANIFEST = {
    "engine": "tlc rule tables (CommitCodec!SigScan, CommitStruct, TagCodec!Split/RemoveSig) + vhcodec c03",
    "technique": "TLA+ transcription of git's parse_buffer_signed_by_header (commits) and parse_signed_buffer + remove_signature (tags); TLC partitions every bounded object into signature and payload lines; go-git's EncodeWithoutSignature and extracted signature are compared with the partition, and git verify-commit / verify-tag are run with a capturing gpg.program",
    "text": "Exhaustive within the bound on the go-git side: for every accepted commit of the C02 commit domain (zero, one or several gpgsig / gpgsig-sha256 / gpgsig-prefixed headers in any position, continuation lines) and every accepted tag of the C02 tag domain (0-3 inline PGP/SSH/X509 armor lines, signature headers) the payload handed to the verifier and the extracted signature equal the TLA+ partition; decoded objects are also checked after mutating only the signature fields (payload unchanged) and after mutating the message (payload = encoding of the changed fields). The partition theorems (signature and payload disjoint, canonical objects lose exactly their signature) are TLC invariants. git leg: a seeded sample of the same objects through git verify-commit / verify-tag with a capture program as gpg.program (payload on stdin + detached signature file).",
    "note": "No cryptography is involved: acceptance is reduced to equality of (payload, signature) handed to the verifier. git refuses to run the verifier when the payload has no committer/tagger header (modelled as Verifiable); tags whose last armor is an SSH signature are not sent to git (needs ssh-keygen + allowed-signers); tags with three or more signature-header regions are skipped (git's remove_signature overruns its two-slot array: undefined); only sha1 repositories on the git leg.",
}


def run(ctx):
    if ctx.thorough:
        b = {"commit_tail": 3, "commit_tail_plain": 4, "struct_extras": 2, "tag_prefix": 3, "tag_tail": 3, "tag_body": 4}
    else:
        b = {"commit_tail": 2, "commit_tail_plain": 3, "struct_extras": 1, "tag_prefix": 2, "tag_tail": 2, "tag_body": 3}
    res = C02.tlc_parallel(ctx, [
        ("commit", "CommitCodec", C02.COMMIT_CFG % (b["commit_tail"], b["commit_tail_plain"])),
        ("struct", "CommitStruct", C02.STRUCT_CFG % b["struct_extras"]),
        ("tag", "TagCodec", C02.TAG_CFG % (b["tag_prefix"], b["tag_tail"], b["tag_body"])),
    ])
    ctx.vh("c03", [res["tag"].dir + "/tag_rows.ndjson", res["commit"].dir + "/commit_rows.ndjson",
                   res["struct"].dir + "/commit_struct_rows.ndjson"], pkg="vhcodec")
    ctx.cov["bounds"] = dict(b, commit_line_kinds=15, tag_header_kinds=13, tag_body_kinds=8,
                             mutations_after_decode=["none", "signature fields only", "message"])
    ctx.cov["exhaustive"] = True
    ctx.cov["rule"] = ("every accepted object of the bounded commit and tag domains is a TLC state with its signature/payload partition; "
                       "distinct = distinct abstract objects; non-trivial = go-git's payload and signature are compared with the partition "
                       "for each, three mutation variants, and a seeded sample is verified by git with a capturing gpg.program")
    ctx.cov["traces_validated_against_impl"] = ctx.cov["evaluations"]
    ctx.assumptions += [
        "signature texts are positional renderings starting with the PGP armor line (git picks the verifier by the first signature line)",
        "git leg is a seeded sample (each signed object costs three processes): quick <= 100 signed commits + 100 signed tags, thorough <= 800 each",
        "git never runs the verifier on objects without committer/tagger header, on SSH-signed tags here, and is undefined for >= 3 signature-header regions in a tag: those rows are compared with the spec only",
    ]
