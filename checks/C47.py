"""C47 Revision expressions resolve as git rev-parse resolves them (Engine C: rule table over small repositories)."""
import random
import threading

LEVEL = "model_checking"
MANIFEST = {
    "engine": "tlc Revision rule table + vhdag2 c47",
    "technique": "TLA+ transcription of gitrevisions (ref lookup order, abbreviated ids, ~ ^ ^{commit} ^{} ^{/re} :/re) evaluated by TLC on every expression up to the suffix bound over small repositories with colliding names; each row replayed into Repository.ResolveRevision and git cat-file/rev-parse",
    "text": "Exhaustive within the bound: every typed name (all suffixes of 14 reference slots, HEAD, @, 28 abbreviated/full object-id forms incl. ambiguous, too short and upper-case ones) x every suffix sequence of length <= 2 over 12 tokens (quick) / <= 3 over 8 tokens plus <= 2 over 18 tokens (thorough) over 3 hand-made repositories (octopus merge, skewed/tied dates, nested and tree tags, hex-named branches, dangling symref, unborn/detached HEAD) plus seeded generated ones; the expected commit or error is computed in TLA+, spec-level theorems (e~0 = e^0 = e^{commit}, e~ = e^, regex results match and descend, errors absorb) are TLC invariants on every row.",
    "note": "Trusts the symbol rendering (hex forms, message classes) and git 2.39.5 as the second witness (every row is also asked of git; a disagreement with the spec is a tooling error). ^{tree}/^{blob}, @{n}/@{date}/@{upstream}, ':path' and regexes beyond literals are outside the enumerated grammar; '^3' and ':/re' are forms go-git documents as unsupported: there only a wrong answer counts, a refusal does not.",
}

CFG = """CONSTANTS
 Repos <- MCRepos
 Sfx <- %s
 SfxWide <- %s
 MaxSfx = %d
 Emit = %s
INIT %s
NEXT Next
%s
CHECK_DEADLOCK FALSE
"""
INVS = "INVARIANTS TypeOK BaseConsistent RowConsistent Identity FirstParent RegexSound ErrorAbsorbs Descends"


def gen_module(keys):
    rr = ", ".join("RandRepo(<<%s>>)" % ", ".join(str(x) for x in k) for k in keys)
    return ("---- MODULE MCRevisionGen ----\nEXTENDS MCRevision\nMCRepos == <<RepoA, RepoB, RepoC%s>>\n====\n"
            % ((", " + rr) if rr else ""))


def run(ctx):
    import vlib
    rnd = random.Random(ctx.seed)
    nrand = 2 if ctx.thorough else 1
    depth = 3 if ctx.thorough else 2
    sfx, wide = ("MCSfxDeep", "MCSfxFull") if ctx.thorough else ("MCSfxQuick", "MCSfxNone")
    keys = [[rnd.randrange(1 << 20) for _ in range(8)] for _ in range(nrand)]
    mod = gen_module(keys)
    res = {}

    def emit():
        try:
            res["emit"] = ctx.tlc("MCRevisionGen", cfg="Revision_emit.cfg", cfg_text=CFG % (sfx, wide, depth, "TRUE", "InitEmit", ""),
                                  files={"MCRevisionGen.tla": mod}, workers=1, timeout=2400, dirname="tla_emit", count=False)
        except Exception as e:  # re-raised in the main thread
            res["emit_err"] = e

    t = threading.Thread(target=emit)
    t.start()
    try:
        r2 = ctx.tlc("MCRevisionGen", cfg="Revision_thm.cfg", cfg_text=CFG % (sfx, wide, depth, "FALSE", "Init", INVS),
                     files={"MCRevisionGen.tla": mod}, timeout=2400, dirname="tla_thm")
    finally:
        t.join()
    if "emit_err" in res:
        raise res["emit_err"]
    r = res["emit"]
    if r2.distinct == 0:
        raise vlib.ToolingError("theorem run explored no rows")
    ctx.cov["bounds"] = {"repositories": 3 + nrand, "generated_repository_keys": keys, "max_suffixes": depth,
                         "suffix_tokens": {"deep": 8, "wide_len_le_2": 18} if ctx.thorough else 12, "commits_per_repository": 5, "rows_as_states": r2.distinct}
    ctx.cov["exhaustive"] = True
    ctx.cov["rule"] = ("one row per (repository, typed name, suffix sequence of length <= %d): every row is one TLC state whose expected commit/error "
                       "is computed by Revision.tla; distinct = distinct (repository, layout, expression); every row is asked of spec, go-git and git" % depth)
    ctx.vh("c47", [r.dir + "/revision_repos.ndjson", r.dir + "/revision_rows.ndjson"], pkg="vhdag2", timeout=3000)
    ctx.cov["traces_validated_against_impl"] = ctx.cov["evaluations"]
    ctx.assumptions += [
        "hex symbols (#<obj><form>) are rendered from the real object ids after the objects exist; twins are found by search so that they share exactly 4 hex digits",
        "message classes fix/fix2/feat are rendered to concrete messages on which the literal patterns fix, fix2, feat match exactly as the spec's PatMatches table says",
        "git's answer is taken from `git cat-file --batch-check '<rev>^{commit}'` for every row and cross-checked against `git rev-parse --verify --quiet` on a seeded sample",
        "forms go-git documents as unsupported (^n with n > 2, :/re): a refusal is tolerated, a commit different from git's is not",
    ]
