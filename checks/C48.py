"""C48 Configuration files mean the same to go-git and git (Engine C: lexer transcription, three-way)."""
LEVEL = "model_checking"
MANIFEST = {
    "engine": "tlc rule table (spec/rules/ConfigLex.tla) + vhtext c48",
    "technique": "TLA+ transcription of git config.c's character automaton (section / subsection headers, keys, values with quotes, "
                 "escapes, continuation lines, comments, blank trimming, valueless keys, case folding), of git_parse_maybe_bool / "
                 "git_parse_int and of write_pair's quoting; TLC computes the meaning of every generated file, which is compared "
                 "with go-git's format/config Decoder + Config.Unmarshal and with git config --list --null / --type",
    "text": "Exhaustive within the bound: every body of <= 4 symbols over 12 (quick) / 13 (thorough, adds TAB) byte classes after a '[k]' header, "
            "every header of <= 3 / <= 4 symbols over 10 classes, every continuation of '[k \"' by <= 4 / <= 5 symbols over 8 classes; 26 boolean and 13 integer tokens x 7 go-git boolean settings and "
            "pack.window; write side: every value / subsection name of <= 3 (quick) / <= 4 (thorough) symbols over 11 classes written by "
            "the Encoder and by Config.Marshal (user.name, branch, url.insteadOf) is read back by go-git and git. Spec theorems "
            "(reference quoting round-trips, comment neutrality, key well-formedness) are TLC invariants.",
    "note": "Trusts the byte-class abstraction and git 2.39 as witness: git is asked on a seeded sample of files and on every file where "
            "go-git disagrees with the spec (spec != git is exit 2). Includes, BOM, CRLF line ends and multi-section ordering are outside the domain.",
}

CFG = """CONSTANTS
 BodyAlpha = {"k","K","d","n","=","q","bs",";","#","sp","nl","x"%s}  BodyLen = %d
 HeadAlpha = {"k","K","d",".","sp","q","bs","]","x","nl"}  HeadLen = %d
 SubAlpha = {"k","K","sp","q","bs","]","x","."}  SubLen = %d
 ValAlpha = {"x","sp","#",";","q","bs","nl","tab","=","n","K"}  ValLen = %d
 Emit = TRUE
INIT Init
NEXT Next
INVARIANTS KeysWellFormed NoEdgeBlanksUnquoted CommentNeutral RefRoundTrip SetThenGet TwoHeaders
CHECK_DEADLOCK FALSE
"""


def run(ctx):
    if ctx.thorough:
        extra, bl, hl, sl, vl = ', "tab"', 4, 4, 5, 4
    else:
        extra, bl, hl, sl, vl = "", 4, 3, 4, 3
    r = ctx.tlc("ConfigLex", cfg_text=CFG % (extra, bl, hl, sl, vl), timeout=3000)
    ctx.cov["bounds"] = {"body_len": bl, "header_len": hl, "value_len": vl, "subsection_len": sl, "body_classes": 12 + (1 if ctx.thorough else 0),
                         "header_classes": 10, "value_classes": 11, "bool_tokens": 26, "int_tokens": 13}
    ctx.cov["exhaustive"] = True
    ctx.cov["rule"] = ("every file of the bounded domain of spec/rules/ConfigLex.tla is a TLC state whose meaning (ordered (key, value|none) "
                       "list or error, plus the lexer rules exercised) is computed by the spec; each is rendered (canonical + seeded variant), "
                       "decoded by go-git and compared; git is asked on a seeded sample and on every disagreement; distinct = concrete files + values")
    d = r.dir
    ctx.vh("c48", [d + "/cfg_rows.ndjson", d + "/cfg_wrows.ndjson", d + "/cfg_bool.ndjson", d + "/cfg_int.ndjson", d + "/cfg_edit.ndjson"], pkg="vhtext", timeout=3000)
    ctx.cov["traces_validated_against_impl"] = ctx.cov["evaluations"]
    ctx.assumptions += [
        "byte classes of ConfigLex.tla represent their concrete bytes faithfully (validated against git config --list --null on the same files)",
        "at the format level a key without '= value' and a key with an empty value are both \"\" in go-git; the difference is judged through the boolean interpretation (token 'novalue')",
        "a file with a parse error is compared on error-ness only (git prints the entries before the bad line, go-git returns none)",
        "write side: expected read-back is the value itself (theorem RefRoundTrip: git's own quoting can represent it); empty subsection names and names with newlines are outside the domain",
    ]
