"""C13 Reference name validation agrees with git check-ref-format (Engine C: rule table)."""
LEVEL = "model_checking"
MANIFEST = {
    "engine": "tlc rule table + vh c13",
    "technique": "TLA+ transcription of git check-ref-format evaluated by TLC over all strings of a 21-class alphabet; every row replayed into ReferenceName.Validate and (sampled) git check-ref-format",
    "text": "Exhaustive within the bound: every string of <= 3 (quick) / <= 4 (thorough) symbols over 21 symbol classes x 4 prefixes is judged by the TLA+ rule set, by go-git and by git; spec-level theorems (valid => path-safe, only the dash rule differs from git) are TLC invariants.",
    "note": "Trusts the symbol-class abstraction (each class is rendered to several concrete bytes) and git 2.39.5 as the second witness for the spec; names longer than the bound and the literal HEAD are not covered.",
}


def run(ctx):
    maxlen = 4 if ctx.thorough else 3
    cfg = """CONSTANTS MaxLen = %d  Emit = TRUE
INIT Init
NEXT Next
INVARIANTS ValidImpliesSafe ValidImpliesGit PrefixClosed OnlyDashDiffers WhyAgrees
CHECK_DEADLOCK FALSE
""" % maxlen
    r = ctx.tlc("RefName", cfg_text=cfg, timeout=1800)
    ctx.cov["bounds"] = {"alphabet": 21, "max_len": maxlen, "prefixes": ["", "refs/heads/", "refs/tags/", "refs/x/"]}
    ctx.cov["exhaustive"] = True
    ctx.cov["rule"] = ("every string of <= %d symbols over the 21-class alphabet of spec/rules/RefName.tla is one TLC state; "
                       "each is rendered to concrete bytes (canonical + seeded variants) x 4 prefixes; distinct = distinct concrete names; "
                       "non-trivial = every name is judged by spec, go-git and (sampled) git" % maxlen)
    ctx.vh("c13", [r.dir + "/refname_rows.ndjson"])
    ctx.cov["traces_validated_against_impl"] = ctx.cov["evaluations"]
    ctx.assumptions += ["symbol classes of RefName.tla represent their concrete bytes faithfully (checked against git check-ref-format on the same rows)",
                        "the literal name HEAD (accepted by go-git as a documented special case) is outside the enumerated domain"]
