"""Shared driver for the Repo.tla rule-table checks (C25, C27, C28, C29, C30, C32)."""
import json
import vlib

THEOREMS = "SparseKeepLosesNothing BadOptionsChangeNothing HardIsClean HardKeepsUntracked SwitchLosesNothing SwitchKeepsStaged AddAllMatches StatusCleanIff WellFormed DirtyWriteRefuses Emit"
UNIVERSES = {
    # name: (Paths, Under, Entries, KindOf, CleanOnly, Ops, Cone, SparseSets)
    "one-path-all-kinds": ("P1", "NoUnder", "E4", "K4", "any", "OpsNoMove", "NoCone", "{}"),
    "dir-file-conflict": ("PDF", "UDF", "E2", "K2", "any", "OpsMain", "NoCone", "{}"),
    "two-paths": ("P2", "NoUnder", "E2", "K2", "any", "OpsMain", "NoCone", "{}"),
    # the same universes with the refusal / reset-to-HEAD / pull operations added (C29, C30)
    "one-path-all-kinds+r": ("P1", "NoUnder", "E4", "K4", "any", "OpsNoMoveR", "NoCone", "{}"),
    "dir-file-conflict+r": ("PDF", "UDF", "E2", "K2", "any", "OpsMainR", "NoCone", "{}"),
    "two-paths+r": ("P2", "NoUnder", "E2", "K2", "any", "OpsMainR", "NoCone", "{}"),
    # every path tracked, local modifications anywhere: sparse forced checkout and sparse keep reset (C30, C32)
    "sparse-dirty": ("PS", "NoUnder", "E2", "K2", "dirty-full", "OpsSparseDirty", "ConeS", "SS"),
    "sparse": ("PS", "NoUnder", "E1", "K1", "clean", "OpsSparse", "ConeS", "SS"),
}
CFG = """CONSTANTS Paths <- %s Under <- %s Entries <- %s KindOf <- %s PreStates = "%s" Ops <- %s Cone <- %s SparseSets <- %s
INIT Init
NEXT Next
INVARIANTS """ + THEOREMS + """
CHECK_DEADLOCK FALSE
"""


def rows_for(ctx, universes, ops, extra=()):
    """Run TLC on the named universes, return path of the ndjson with the rows whose op is in ops.
    extra: (universe, ops) pairs contributing only the named operations (quick-tier slices of a larger universe)."""
    only = {u: o for u, o in extra}
    universes = list(universes) + [u for u in only if u not in universes]
    p = ctx.path("repo_rows.ndjson")
    n = 0
    per = {}
    with open(p, "w") as f:
        for u in universes:
            cfg = CFG % UNIVERSES[u]
            cfg = cfg.replace("SparseSets <- {}", "SparseSets = {}")
            r = ctx.tlc("MCRepo", cfg=("repo_%s.cfg" % u.replace("+", "_")), cfg_text=cfg, workers=1, timeout=3000, heap="6g")
            k = 0
            for row in ctx.printed_json(r):
                if row.get("op") in (only.get(u) or ops):
                    row["universe"] = u
                    f.write(json.dumps(row) + "\n")
                    k += 1
            per[u] = k
            n += k
    if n == 0:
        raise vlib.ToolingError("Repo.tla produced no rows for " + ",".join(ops))
    ctx.cov["rows_per_universe"] = per
    return p, n


def run_prop(ctx, prop, universes_quick, universes_thorough, ops, max_quick, quick_extra=()):
    unis = universes_thorough if ctx.thorough else universes_quick
    p, n = rows_for(ctx, unis, ops, () if ctx.thorough else quick_extra)
    args = [prop, p]
    if not ctx.thorough and n > max_quick:
        args.append(str(max_quick))
    ctx.vh("repo", args, timeout=3400)
    ctx.cov["traces_validated_against_impl"] = ctx.cov["evaluations"]
    ctx.cov["bounds"] = {"universes": unis, "rows": n, "replayed": ctx.cov["evaluations"]}
    ctx.cov["exhaustive"] = ctx.thorough or n <= max_quick
    ctx.cov["rule"] = ("every (HEAD tree, index, worktree, target tree, operation) combination of the bounded universes %s is one TLC state of spec/abstract/Repo.tla; "
                       "each is materialised as a real repository + worktree on disk, the operation is run with go-git and the post-state compared with the allowed sets; "
                       "quick replays a seeded sample of %d rows when there are more" % (", ".join(unis), max_quick))
    ctx.assumptions += ["blobs are two fixed contents; kinds regular / executable / symlink; index entries carry no cached stat data (forcing content comparison)",
                        "the specification is no stricter than git-reset(1)/git-checkout(1): see the comments in Repo.tla"]
