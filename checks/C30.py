"""C30 Non-forced checkout and merge/keep resets never lose local changes (Repo.tla rule table replayed on real repositories)."""
from checks import repo_common

LEVEL = "model_checking"
MANIFEST = {
    "engine": "tlc Repo rule table + vh repo C30",
    "technique": "explicit TLA+ three-tree specification (Repo.tla) enumerated exhaustively by TLC over bounded universes; every row is materialised as a real repository and worktree, the go-git operation is run and the projected post-state compared with the specification's allowed outcome",
    "text": "a non-forced checkout and merge / keep resets (to another commit, to HEAD itself, and keep resets that narrow the sparse set over a worktree with local modifications) must refuse when a path the switch has to write carries unstaged or staged content that would be overwritten (git's two-way merge rule), and when they succeed every local worktree modification and untracked file is still there. Universes: one path with regular/executable/symlink entries (all 625 H/I/W/T combinations), a directory/file conflict pair, two independent paths.",
    "note": "Bounded universes (<= 2 paths, 2 blob contents); submodules, sparse cones (C32) and linked worktrees (C33) are separate; the git leg is sampled within the process budget.",
}
ALL = ["reset-hard", "checkout-force", "checkout-force-create", "checkout", "checkout-twin", "checkout-create", "reset-merge", "reset-keep", "add", "add-all", "remove", "move", "clean", "commit"]


def run(ctx):
    ops = ['checkout', 'checkout-twin', 'checkout-create', 'reset-merge', 'reset-keep', 'reset-merge-head', 'reset-keep-head', 'sparse-keep'] or ALL
    repo_common.run_prop(ctx, "C30", ["one-path-all-kinds+r", "dir-file-conflict+r", "sparse-dirty"], ["one-path-all-kinds+r", "dir-file-conflict+r", "two-paths+r", "sparse-dirty"], ops, 1200)
