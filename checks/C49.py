"""C49 Ignore rules match git check-ignore (Engine C: rule table, three-way)."""
import json

LEVEL = "model_checking"
MANIFEST = {
    "engine": "tlc rule table (spec/rules/GitIgnore.tla) + vhtext c49",
    "technique": "TLA+ transcription of git dir.c (trailing-space trim, pattern parse, basename/pathname matching, last match wins "
                 "across info/exclude < .gitignore < a/.gitignore, excluded-parent walk) and wildmatch.c evaluated by TLC for every "
                 "pattern set x query; every verdict replayed into go-git's gitignore Scope walk and git check-ignore -v -n",
    "text": "Exhaustive within the bound: every single pattern line of <= 3 (quick) / <= 4 (thorough) symbols over "
            "{a,b,*,?,/,!,**,[ab],\\,SP} alone in the root or in a/.gitignore, and every pair of lines of <= 2 symbols in three "
            "arrangements (same file, root + a/, info/exclude + root), each against 72 queries (36 paths: 28 of <= 3 components over "
            "{a,b,ab,'a '} plus 8 with an inserted component, as file and as directory); additionally '**' followed by two literal segments "
            "(**/x/y, /**/x/y, a/**/x/y, optionally dir-only, alone and negated after an excluding line); the spec also names the deciding file and line, which git must confirm.",
    "note": "Trusts the symbol abstraction and git 2.39 as witness (git is asked on a seeded sample of sets and on every set where "
            "go-git disagrees with the spec; spec != git is exit 2). Binds the Scope walk used by Status (RootPatterns/NewScope/"
            "Descend/Match); the deprecated flat ReadPatterns+Matcher, core.excludesfile and case folding are not covered.",
}

CFG = """CONSTANTS N = %d  M = %d  PairAlpha = {%s}  Emit = TRUE
INIT Init
NEXT Next
INVARIANTS EmitRow ExcludedParentWins OnlyNegationsIgnoreNothing DirOnlyNeedsDir LeadingStarStar NestedIsLocal
CHECK_DEADLOCK FALSE
"""


def run(ctx):
    if ctx.thorough:
        n, m, pa = 4, 2, ["a", "b", "*", "?", "/", "!", "**", "[ab]", "bs", "sp"]
    else:
        n, m, pa = 3, 2, ["a", "b", "*", "/", "!"]
    cfg = CFG % (n, m, ", ".join('"%s"' % x for x in pa))
    r = ctx.tlc("GitIgnore", cfg_text=cfg, timeout=3000, workers=1)
    rows = [x for x in ctx.printed_json(r) if isinstance(x, dict) and "v" in x]
    if len(rows) != r.distinct:
        raise __import__("vlib").ToolingError("collected %d table rows from TLC output for %d states" % (len(rows), r.distinct))
    p = ctx.path("ign_rows.ndjson")
    with open(p, "w") as f:
        for x in rows:
            f.write(json.dumps(x) + "\n")
    ctx.cov["bounds"] = {"single_line_max_symbols": n, "pair_line_max_symbols": m, "pair_alphabet": pa,
                         "alphabet": ["a", "b", "*", "?", "/", "!", "**", "[ab]", "bs", "sp"],
                         "queries": 72, "levels": ["info/exclude", ".gitignore", "a/.gitignore"]}
    ctx.cov["exhaustive"] = True
    ctx.cov["rule"] = ("every pattern set of the bounded domain of spec/rules/GitIgnore.tla is a TLC state whose 72 verdict codes "
                       "(ignored / which file:line decided) are computed by the spec; distinct = pattern sets; non-trivial = every "
                       "(set, query) is asked of go-git's Scope walk; git check-ignore is asked on a seeded sample and on every set "
                       "where go-git disagrees")
    ctx.vh("c49", [p, r.dir + "/ign_queries.ndjson"], pkg="vhtext", timeout=3000)
    ctx.cov["traces_validated_against_impl"] = ctx.cov["evaluations"]
    ctx.assumptions += [
        "pattern symbols and path components of GitIgnore.tla represent their bytes faithfully (validated against git check-ignore -v -n incl. the deciding file and line)",
        "queries are judged through gitignore.Scope (RootPatterns, NewScope, Descend with DirPatterns, Match) exactly as utils/merkletrie/filesystem walks; isDir is an input",
        "pattern lines in which a '**' run follows a non-slash character and is followed by '/' or the end (e.g. a**/b) are not enumerated: git 2.39 decides them by an undefined pointer comparison (wildmatch.c prev_p < text); gitignore(5) calls them invalid",
        "a pattern set has at most 2 lines and 2 directory levels (root, a/); core.excludesfile, ignorecase and '#' comments are outside the domain",
    ]
