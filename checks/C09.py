"""C09 Corrupt or malicious packs never yield wrong objects (PackGraph corruption table, Engine C/A)."""
import json
import vlib

LEVEL = "model_checking"
MANIFEST = {
    "engine": "tlc PackGraph states + vhpack c09",
    "technique": "TLC enumerates every well-formed pack entry graph (<= 3/4 entries) x every single corruption class and pairs of them as states of spec/abstract/PackGraph.tla, which computes the verdict (reject / accept(set) / may); each state is rendered to real pack bytes and fed to go-git Scanner, Parser (5 modes) and storage PackfileWriter; every returned or stored object is re-hashed; git index-pack judges a seeded sample of the same bytes",
    "text": "Exhaustive within the bound at the token level: all entry graphs over {commit,tree,blob,tag,ofs,ref} with <= 3 (quick) / <= 4 (thorough) entries x 35 corruption classes (truncation, trailer, declared size +-1, inflated length +-1, zlib checksum, delta header sizes, ofs zero/mid/header/start/before/overflow, dangling/self/cyclic ref-delta, count +-1, version, signature, type bits 0/5, duplicate entries, chain depth 4095/4096) singly (all graphs) and in pairs (quick: 1/16 of the <=3-entry graphs of one type rotation; thorough: all <=3-entry graphs of one rotation and 1/96 of the 4-entry graphs); spec theorems (accepted => well-formed, a sequential reader never rejects a valid pack, only size-compensating pairs survive) are TLC invariants.",
    "note": "Token level: zlib and SHA bytes are produced by the harness' own writer and interpreted by git; the spec says nothing about arbitrary bit flips inside compressed data beyond the checksum class. git leg uses `git index-pack <file>` (same code path as --stdin) on a seeded sample bounded by the process budget. Chain depth rows are scaled (4095/4096 real entries) and limited to a few graphs.",
}

CFG = """CONSTANTS
 MinN = %(minn)d
 MaxN = %(maxn)d
 Rots <- %(rots)s
 MaxCorr = %(corr)d
 PairMod = %(pmod)d
 PairSel = %(psel)d
 DeepMod = %(dmod)d
 DeepSel = %(dsel)d
 DepthLimit = 4095
 ThinOn = FALSE
 Emit = "print"
INIT Init
NEXT Next
INVARIANTS T_BaseAccepted T_AcceptWF T_StreamSound T_StreamAccept T_OnlyBenign T_HardRejects T_MayIffLenient T_Defects T_DeltaType T_ObjectCount T_DepthClasses T_DepthBound EmitRow
CHECK_DEADLOCK FALSE
"""


def shard(ctx, name, **kw):
    r = ctx.tlc("MCPackGraph", cfg_text=CFG % kw, cfg="MCPackGraph_%s.cfg" % name, timeout=1500)
    rows = ctx.printed_json(r)
    rows.sort(key=lambda x: json.dumps(x, sort_keys=True))   # parallel BFS prints in scheduling order: fix the order (seeded choices depend on it)
    if len(rows) != r.distinct:
        raise vlib.ToolingError("PackGraph shard %s: %d rows printed for %d distinct states" % (name, len(rows), r.distinct))
    p = ctx.path("rows_%s.ndjson" % name)
    with open(p, "w") as f:
        for row in rows:
            f.write(json.dumps(row, separators=(",", ":")) + "\n")
    return p, len(rows)


def run(ctx):
    s = ctx.seed
    shards = []
    if not ctx.thorough:
        # one type rotation (by seed), graphs of 1..3 entries, all single corruptions, pairs on 1/6 of the graphs
        shards.append(("q", dict(minn=1, maxn=3, rots="MCRots%d" % (s % 4), corr=2, pmod=16, psel=s % 16, dmod=36, dsel=(7 * s) % 36)))
        gitlimit = 400
    else:
        r0 = s % 4
        for k in range(4):
            rot = (r0 + k) % 4
            # graphs of 1..3 entries: all singles on every rotation; all pairs on one rotation
            shards.append(("n3r%d" % rot, dict(minn=1, maxn=3, rots="MCRots%d" % rot, corr=2 if k == 0 else 1, pmod=1, psel=0, dmod=9, dsel=(s + rot) % 9)))
        # graphs of 4 entries: all singles on one rotation
        rot = (r0 + 2) % 4
        shards.append(("n4r%d" % rot, dict(minn=4, maxn=4, rots="MCRots%d" % rot, corr=1, pmod=1, psel=0, dmod=97, dsel=(s + rot) % 97)))
        # graphs of 4 entries: pairs on a seeded 1/96 of the graphs of another rotation
        shards.append(("n4p", dict(minn=4, maxn=4, rots="MCRots%d" % ((r0 + 1) % 4), corr=2, pmod=96, psel=s % 96, dmod=1000, dsel=999)))
        gitlimit = 1200
    total = 0
    for name, kw in shards:
        p, n = shard(ctx, name, **kw)
        total += n
        ctx.vh("c09", [p, gitlimit], pkg="vhpack", timeout=3000)
    ctx.cov["traces_validated_against_impl"] = total
    ctx.cov["bounds"] = {"max_entries": 4 if ctx.thorough else 3, "corruption_steps": 2, "shards": [dict(name=n, **k) for n, k in shards],
                         "depth_limit": 4095, "formats": "sha1 on every row, sha256 on a seeded quarter"}
    ctx.cov["exhaustive"] = True
    ctx.cov["rule"] = ("every TLC state of PackGraph (base entry graph x <= 2 corruption actions; pairs commute and are one state) is one case; "
                       "distinct = distinct (state, object format); each case is judged on 9 go-git legs; non-trivial: the verdict of every case "
                       "is computed from the pack record, 3 verdict classes and 35 corruption classes all occur (see spec_verdicts / corruption_classes)")
    ctx.assumptions += [
        "content symbols are rendered to small valid objects; deltas are copy-prefix + insert (delta opcode coverage is C06's)",
        "git index-pack on a regular file refuses trailing bytes that a pipe would leave unread: rows with TrailingJunk carry no git expectation",
        "the git leg judges a seeded sample (all base graphs and single corruptions first) because one process per pack is needed",
    ]
