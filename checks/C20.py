"""C20 The cached index view always equals the on-disk index (Engine A histories + fault enumeration)."""
import collections
import json
import os
import vlib

LEVEL = "model_checking"
MANIFEST = {
    "engine": "tlc IndexStore (histories) + tlc IndexCache (implementation-level explorer) + vhcrash c20 (fault-injecting billy filesystem, logical mtimes) + tlc IndexStoreTrace (view = Decode(disk))",
    "technique": "TLC enumerates every sequence of worktree operations (add file / directory / all / glob, remove, move, commit, hard / sparse / file reset, forced and sparse checkout, status) and external index rewrites (size only, mtime only by whole seconds, mtime only by one nanosecond within the same second, both, file deleted) up to the depth bound; each history is replayed on one long-lived filesystem Storage + Worktree, the last operation first counted and then re-run with a transient I/O error injected at its k-th filesystem step for every k (reads included; repeated because Go map order changes the visiting order); after each history Storer.Index() of the long-lived storage and the decode of the file by a brand-new storage are recorded and TLC evaluates view = Decode(disk) on every record; an implementation-level TLA+ model of the stat-validated cache with shared entry cells is checked by TLC and predicts the failing scenarios",
    "text": "Exhaustive over operation sequences of length <= 2 (thorough 3) over 18 operations; fault points exhaustive for histories of length 1 (thorough <= 2), a seeded sample of 6 (thorough 3) per longer history; every injected fault is a single failing filesystem call (open, read, stat, create, write, rename, close, lock ...) of the operation under test.",
    "note": "One small repository (4-5 paths, 2 branches); modification times come from a logical clock so 'same mtime, other size' and 'same size, later mtime (by a second, or by one nanosecond within the same second)' are chosen inputs (same-size same-mtime rewrites are excluded by the property); the external writer is a second go-git Storage without shared cache (git's reading of the same file is compared with the fresh decode on a sample); in-memory filesystem.",
}

HIST_CFG = """CONSTANTS MaxOps = %d
INIT Init
NEXT Next
INVARIANTS ViewIsDisk TypeOK Emit
CHECK_DEADLOCK FALSE
"""
IMPL_CFG = """CONSTANTS DeepCopy = %s MaxClock = 3 Granularity = "%s"
INIT Init
NEXT Next
INVARIANTS TypeOK ViewIsDisk
CHECK_DEADLOCK FALSE
"""
TRACE_CFG = """INIT TInit
NEXT TNext
INVARIANTS WellFormed
CHECK_DEADLOCK FALSE
"""


def run(ctx):
    depth = 3 if ctx.thorough else 2
    # ---- property-level spec: the oracle and the histories
    r = ctx.tlc("IndexStore", cfg_text=HIST_CFG % depth, workers=1, timeout=900)
    hists = [h for h in ctx.printed_json(r) if isinstance(h, list) and h]
    seen, uniq = set(), []
    for h in hists:
        k = json.dumps(h)
        if k not in seen:
            seen.add(k)
            uniq.append(h)
    if not uniq:
        raise vlib.ToolingError("IndexStore printed no histories")
    hp = ctx.path("c20_hist.ndjson")
    with open(hp, "w") as f:
        for h in uniq:
            f.write(json.dumps(h) + "\n")
    # ---- implementation-level spec: the shared-cell cache breaks the invariant, private cells restore it
    bad = ctx.tlc("IndexCache", cfg_text=IMPL_CFG % ("FALSE", "full"), workers=1, timeout=600, expect_violation=True, count=False)
    good = ctx.tlc("IndexCache", cfg_text=IMPL_CFG % ("TRUE", "full"), timeout=600)
    ctx.cov["impl_model"] = {"shared_cells_violates": bad.violated, "private_cells_states": good.distinct,
                             "counterexample": "Begin(op) -> StepCell(p) -> FailOp: a cached cell is mutated, no write, the (mtime,size) stamp still matches"}
    if ctx.thorough:   # a stamp kept at whole seconds misses a same-size rewrite within the second (model level)
        coarse = ctx.tlc("IndexCache", cfg_text=IMPL_CFG % ("TRUE", "seconds"), workers=1, timeout=600, expect_violation=True, count=False)
        ctx.cov["impl_model"]["seconds_granularity_violates"] = coarse.violated
    if bad.violated != "ViewIsDisk":
        ctx.notes.append("IndexCache (shared cells) no longer violates ViewIsDisk: the implementation-level model has drifted")
    # ---- conformance: replay with fault enumeration, judge every observation in TLA+
    d = r.dir
    rep = ctx.vh("c20", [hp, d], pkg="vhcrash", timeout=3300)
    ctx.tlc("IndexStoreTrace", cfg_text=TRACE_CFG, workers=1, timeout=1500, count=False)
    obs = {}
    for l in open(os.path.join(d, "c20_obs.ndjson")):
        if l.strip():
            o = json.loads(l)
            obs[o["id"]] = o
    nver = 0
    classes = collections.Counter()
    for l in open(os.path.join(d, "c20_verdicts.ndjson")):
        if not l.strip():
            continue
        v = json.loads(l)
        nver += 1
        o = obs[v["id"]]
        classes[v["class"]] += o["count"]
        if v["class"] == "ok":
            continue
        fault = o["phase"] if o["k"] else "none"
        sig = "%s|%s|fault=%s" % (o["op"], v["class"], fault)
        diff = [(a, b) for a, b in zip(o["cached"]["entries"], o["fresh"]["entries"]) if a != b][:2]
        what = ("after %s%s the long-lived Storer.Index() differs from a fresh decode of the index file (%s)"
                % (" -> ".join(o["hist"]),
                   (" with an I/O error injected at %s (step %d; the operation %s)" % (o["fault"], o["k"], "returned an error" if o["operr"] else "returned nil")) if o["k"] else "",
                   v["class"]))
        ctx.diverge(sig, what, {"hist": o["hist"], "fault_step": o["k"], "failed_call": o["fault"], "op_error": o["operr"],
                                "cached_vs_disk": diff, "cached_err": o["cached"]["err"], "disk_err": o["fresh"]["err"], "times": o["count"]})
    if nver != len(obs) or nver == 0 or nver != rep.get("extra", {}).get("c20_records"):
        raise vlib.ToolingError("C20: %d verdicts for %d observation records" % (nver, len(obs)))
    ctx.cov["traces_validated_against_impl"] = rep.get("evaluations", 0)
    ctx.cov["observation_classes"] = dict(classes)
    ctx.cov["bounds"] = {"max_ops": depth, "histories": len(uniq), "fault_runs": rep.get("extra", {}).get("c20_fault_runs"),
                         "steps_per_operation": rep.get("extra", {}).get("c20_steps_per_op"), "git_states": rep.get("extra", {}).get("c20_git_states")}
    ctx.cov["exhaustive"] = True
    ctx.cov["rule"] = ("every IndexStore history of length <= %d (a TLC state each); evaluations = replays (history x injected fault position x repetition); "
                       "distinct = distinct (history, failed filesystem call) pairs; each ends with the comparison of the cached view and the fresh decode" % depth)
    ctx.assumptions += ["a fault is one failing filesystem call; later calls succeed (transient error)",
                        "logical clock for modification times; same-size same-mtime rewrites excluded (property text)",
                        "fault positions of histories longer than the full-enumeration bound are a seeded sample"]
