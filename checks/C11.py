"""C11 Every stored object reads back identically on every read path (Engine A: read histories replayed)."""
import json
import subprocess
import vlib

LEVEL = "model_checking"
MANIFEST = {
    "engine": "tlc ObjectStoreRead histories + vhpack c11",
    "technique": "TLC enumerates read histories (Get by id and type incl. wrong type, Size, Has, DeltaObject, Packfile.GetByOffset, iterators consumed by one element or fully, prefix search) over the abstract store slot -> (type, location) and computes the expected observation of each read; each history is replayed on a fresh filesystem.Storage over a git-built repository (3 packs with delta chains, loose objects, an object both loose and packed, a 250 KiB blob, an alternate) for rows of the option matrix {object cache full/empty} x {memory/lazy idx} x {LargeObjectThreshold 0/64K} x {ExclusiveAccess} x {mmap}; object bytes are compared with git cat-file --batch-all-objects --batch",
    "text": "Exhaustive over all read histories of length 2 on an 86-symbol read alphabet (11 slots) plus seeded simulated histories of length 5; each history on 1 (quick, a seeded sixth of the length-2 histories) / 2 (thorough, all) option rows; the replay is sharded over 2 / 6 harness processes, all 32 rows used; spec theorems (reads are observers, NotFound exactly for absent slots or wrong types) are TLC invariants.",
    "note": "The object universe is one fixed repository per run (SHA-1; SHA-256 when seed % 4 = 3); which packed slots git stores as deltas is git's choice (the delta chain is checked to exist). Concurrent reads are C23's, writes interleaved with reads C18's. git is the interpreter of ids: the expected bytes are git cat-file's.",
}

CFG = """CONSTANTS
 MaxLen = %d
 Emit = TRUE
INIT Init
NEXT Next
INVARIANTS R_Observer R_NotFound R_IterTyped EmitHist
CHECK_DEADLOCK FALSE
"""


def run(ctx):
    hists = []
    r = ctx.tlc("ObjectStoreRead", cfg_text=CFG % 2, cfg="ObjectStoreRead_2.cfg", workers=1, timeout=900)
    ex = ctx.printed_json(r)
    hists += ex
    num = 40 if ctx.thorough else 4   # TLC prints every successor of the last step: ~86 histories per simulated behaviour
    r2 = ctx.tlc("ObjectStoreRead", cfg_text=CFG % 5, cfg="ObjectStoreRead_5.cfg", mode="simulate", depth=6, num=num, workers=1, timeout=900)
    sim = ctx.printed_json(r2)
    hists += sim
    if not ex or not sim:
        raise vlib.ToolingError("ObjectStoreRead printed no histories (%d, %d)" % (len(ex), len(sim)))
    seen, uniq = set(), []
    for h in hists:
        k = json.dumps(h, sort_keys=True)
        if k not in seen:
            seen.add(k)
            uniq.append(h)
    if not ctx.thorough:
        # quick: every history of length 2 is too many replays for the budget: a seeded sixth, all simulated ones
        uniq = [h for i, h in enumerate(uniq) if len(h) > 2 or i % 6 == ctx.seed % 6]
    per = 2 if ctx.thorough else 1
    # the replays are independent (fresh Storage per history and option row): shard them over harness
    # *processes* (goroutines in one process were measured to be slower than one goroutine)
    shards = 6 if ctx.thorough else 2
    paths = []
    for k in range(shards):
        p = ctx.path("c11_hist_%d.ndjson" % k)
        with open(p, "w") as f:
            for h in uniq[k::shards]:
                f.write(json.dumps(h) + "\n")
        paths.append(p)
    binary = ctx.build(pkg="vhpack")
    env = vlib.goenv()
    env.update({"VERIF_SEED": str(ctx.seed), "VERIF_TIER": ctx.tier, "VERIF_SCRATCH": ctx.scratch})
    procs = [subprocess.Popen([binary, "c11", p, str(per)], stdout=subprocess.PIPE, stderr=subprocess.PIPE, text=True, env=env, cwd=ctx.scratch)
             for p in paths]
    reports = []
    for pr in procs:
        try:
            out, errtxt = pr.communicate(timeout=3000)
        except subprocess.TimeoutExpired:
            for q in procs:
                q.kill()
            raise vlib.ToolingError("harness c11 shard timed out")
        lines = [l for l in out.splitlines() if l.strip()]
        if pr.returncode != 0 or not lines:
            raise vlib.ToolingError("harness c11 rc=%d\n%s" % (pr.returncode, vlib.tail(errtxt)))
        reports.append(json.loads(lines[-1]))
    rows_used = 0
    for rp in reports:
        rows_used = max(rows_used, rp.get("extra", {}).get("option_rows_used", 0))
        ctx.absorb(rp)
    ctx.cov["option_rows_used"] = rows_used
    ctx.cov["harness_processes"] = shards
    ctx.cov["traces_validated_against_impl"] = len(uniq) * per
    ctx.cov["bounds"] = {"slots": 11, "read_alphabet": 86, "exhaustive_len": 2, "exhaustive_histories": len(ex),
                         "simulated_len": 5, "simulated_histories": len(sim), "replayed_histories": len(uniq), "option_rows": 32, "rows_per_history": per}
    ctx.cov["exhaustive"] = ctx.thorough
    ctx.cov["rule"] = ("one case = one read history x one option row (fresh Storage); distinct = replays; every history has >= 2 reads so that the second "
                       "is answered from whatever state (object LRU, last-used pack, open index) the first left behind")
    ctx.assumptions += ["AlternatesFS is set to the host root so that the absolute alternates path resolves",
                        "git cat-file --batch-all-objects lists the alternate's objects too (checked when the repository is built)"]
