"""C01 Object IDs and loose objects identical to git's (ObjFile rule table; digest/zlib delegated to git)."""
import json
import vlib

LEVEL = "exploration"
MANIFEST = {
    "engine": "tlc ObjFile rows + vhpack c01 + git hash-object/cat-file",
    "technique": "TLC enumerates entry point x type x object format x content class (writing) and header/body mutations (reading) of spec/rules/ObjFile.tla with the header tokens, fan-out placement and read verdict; each row is executed through the real go-git entry point on a directory that git also reads (hash-object, cat-file --batch) and, conversely, git-written objects are read through go-git",
    "text": "348 writing rows: {SetEncodedObject, RawObjectWriter, LazyWriter, Worktree.Add, ObjectHasher/MemoryObject, and SetEncodedObject / LazyWriter / read-back of git-written objects on one live Storage handle switched with SetObjectFormat after creation} x {blob,tree,commit,tag} x {sha1,sha256} x {empty, 1 byte, NUL-containing, 'blob 3\\0'-prefixed, 70 KB (> LargeObjectThreshold), 1 MiB}; 96 reading rows: 16 header/body mutations x 3 contents x 2 formats, read with LargeObjectThreshold 0 and 64 KiB; every git-written object read back by go-git. Writer life cycles: every interleaving of open / write / close / repeated close of 2 (quick; 3 in thorough, one repeated close) loose-object writers over {RawObjectWriter, LazyWriter, SetEncodedObject}, each after no / a raw / a lazy earlier writer that was closed twice, replayed in one process; every closed writer's object is read back by go-git at once and by git cat-file --batch at the end.",
    "note": "Honest limit: the TLA+ spec treats the digest H and zlib as uninterpreted; that go-git's SHA-1/SHA-256 and zlib agree with git's is decided by git itself (hash-object computes the expected id, cat-file reads go-git's files), i.e. by testing over the enumerated rows, not by the model. Length-rule mutations (size+-1, trailing garbage) are 'lenient': git cat-file's streaming path accepts them, so nothing is asserted. Contents of non-blob types are arbitrary bytes (--literally).",
}

CFG = """CONSTANTS
 Emit = TRUE
 NW = %d
 MaxReclose = %d
INIT Init
NEXT Next
INVARIANTS O_HeaderShape O_FanOut O_OnlyValid O_HeaderGrammarRejects L_OwnStepsOnly L_RecloseNoop L_Monotone EmitRow
CHECK_DEADLOCK FALSE
"""


def run(ctx):
    nw, mr = (3, 1) if ctx.thorough else (2, 2)
    r = ctx.tlc("ObjFile", cfg_text=CFG % (nw, mr), timeout=900)
    rows = ctx.printed_json(r)
    # (life-cycle histories are printed only when every writer is closed: fewer rows than states)
    if not rows or not any(x.get("dir") == "life" for x in rows) or not any(x.get("dir") == "write" for x in rows):
        raise vlib.ToolingError("ObjFile: %d rows printed for %d states" % (len(rows), r.distinct))
    # table rows first, then the life-cycle histories (one process replays them in this order)
    rows.sort(key=lambda x: (1 if x.get("dir") == "life" else 0, json.dumps(x, sort_keys=True)))
    p = ctx.path("c01_rows.ndjson")
    with open(p, "w") as f:
        for row in rows:
            f.write(json.dumps(row) + "\n")
    ctx.vh("c01", [p], pkg="vhpack", timeout=1800)
    ctx.cov["traces_validated_against_impl"] = len(rows)
    ctx.cov["bounds"] = {"rows": len(rows), "entry_points": 8, "types": 4, "formats": 2, "content_classes": 6, "read_mutations": 16, "life_writers": nw, "life_max_reclose": mr, "life_histories": sum(1 for x in rows if x.get("dir") == "life")}
    ctx.cov["exhaustive"] = True
    ctx.cov["rule"] = "one case = one ObjFile row (a TLC state); the content bytes of a row are salted by row number and seed so that rows do not collide; both tiers run the whole table"
    ctx.assumptions += ["digest and zlib equality are delegated to git (hash-object / cat-file on the same directory)",
                        "git cat-file blob is the reading witness; the length rules it does not enforce are not asserted"]
