"""C36 Fetch and clone deliver complete history and correct refs (Engine A scenarios x client/server pairings + Negotiate model)."""
import json
import vlib

LEVEL = "model_checking"
MANIFEST = {
    "engine": "tlc FetchGen + Negotiate, vhnet c36, vsrv, git daemon",
    "technique": "TLC enumerates fetch scenarios (commit graph, server heads/tag, prior client state empty/partial/shallow/diverged, refspec, tag mode, depth) with the client post-state (tracking refs, tags, shallow set) computed by the TLA+ Fetch action; a seeded sample is realised with git fast-import and run through go-git->go-git (file transport), git->go-git (vsrv, protocol v0 and v2), go-git->git (git daemon, v0/v2) after git->git confirmed the specification; refs, .git/shallow and git fsck --connectivity-only are compared; Negotiate.tla (want/have/ACK/NAK/done exchange) is model-checked for deadlock freedom and done => pack covers the needed commits",
    "text": "TLC: every scenario over 8 five-commit graphs (chain, diamond, criss-cross, two roots, unequal sides) (thorough: plus all 56 four-commit graphs) x heads x tag kinds x 13 prior states x 2 refspecs x 3 tag modes x depths 0-2; theorems: post-state connected up to its shallow boundary, full closure, refs mapped, followed tag inside. Replay: seeded sample of scenarios (quick ~70 in-process + 2 through all pairings; thorough ~900 + 30).",
    "note": "Replay is a sample, not exhaustive (every pairing costs ~50 git processes per scenario); http(s) and ssh transports, prune, filters, deepen of an already shallow client and long have-lists crossing the flush windows are not generated; the pkt-line transcript is not validated against Negotiate (model half only).",
}

CFG = """CONSTANTS
 N = %d
 Dags <- %s
 BVals <- %s
 TagAts <- %s
 Depths <- MCDepths
 Deepen <- MCDeepen
 PBs <- %s
 Deepen2 <- MCDeepen2
 EmitAll = TRUE
INIT Init
NEXT Next
INVARIANTS PostConnected FullClosure RefsMapped ShallowSane TagInside OldBoundaryKept PlainKeepsBoundary Emit
CHECK_DEADLOCK FALSE
"""

NEG = """SPECIFICATION Spec
CONSTANTS
 N = %d
 Dags <- %s
 Window = %d
 MultiAck = %s
INVARIANTS TypeOK DoneCovers AcksAreCommon
PROPERTIES Terminates
"""


def run(ctx):
    import random
    scs = []
    r = ctx.tlc("MCFetch", cfg_text=CFG % (5, "MCDags5", "MCB5q" if ctx.thorough else "MCB5qq", "MCTag5q", "MCPBs5"), workers=1, timeout=1500)
    scs += ctx.printed_json(r)
    n5 = len(scs)
    if ctx.thorough:
        r4 = ctx.tlc("MCFetch", cfg_text=CFG % (4, "MCDags4", "MCB4qq", "MCTag4qq", "MCPBs4"), workers=1, timeout=1500, cfg="MCFetch_four.cfg")
        scs += ctx.printed_json(r4)
    if not scs:
        raise vlib.ToolingError("TLC printed no fetch scenarios")
    # the replay budget is far below the enumeration: seeded sample, stratified by prior state and depth
    rnd = random.Random(ctx.seed)
    rnd.shuffle(scs)
    strata = {}
    for s in scs:
        p = s["scn"]["prior"]
        k = (("empty" if p["px"] == 0 else "shallow1x2" if p.get("pb") else "shallow%d" % p["d1"] if p["d1"] else "diverged" if p["local"] else "partial"),
             s["scn"]["depth"], s["scn"]["tags"] if not p.get("pb") else s["scn"]["refspec"] + ("/same-tip" if p["px"] == len(s["scn"]["dag"]) else ""))
        strata.setdefault(k, []).append(s)
    want = 900 if ctx.thorough else 50
    picked = []
    while len(picked) < want and any(strata.values()):
        for k in sorted(strata):
            if strata[k]:
                picked.append(strata[k].pop())
    # single-branch deepening of a client with two boundaries where the fetched head did not move is the class in
    # which an unshallow line and an untouched boundary of the other branch meet: sample it more densely (in-process legs)
    for k in sorted(strata):
        if k[0] == "shallow1x2" and k[1] > 0 and k[2] == "one/same-tip":
            for _ in range(25 if ctx.thorough else 10):
                if strata[k]:
                    picked.append(strata[k].pop())
        if k[0] == "shallow2" and k[1] > 0:   # deepening a depth-2 client (old boundary retired, pack must cover the gap)
            for _ in range(10 if ctx.thorough else 2):
                if strata[k]:
                    picked.append(strata[k].pop())
    # the first scenarios go through every pairing, the git->git witness first: make sure the deepening classes
    # (two boundaries + single-branch refspec; depth-2 client) are among them
    def promote(pred):
        for i, x in enumerate(picked):
            if pred(x):
                picked.insert(0, picked.pop(i))
                return
    promote(lambda x: x["scn"]["prior"]["d1"] == 2 and x["scn"]["depth"] > 0)
    promote(lambda x: x["scn"]["prior"].get("pb") and x["scn"]["depth"] > 0 and x["scn"]["refspec"] == "one")
    sp = ctx.path("fetch_scn.ndjson")
    with open(sp, "w") as f:
        for s in picked:
            f.write(json.dumps(s) + "\n")
    # implementation-level model of the negotiation
    negs = []
    for (n, dags, win, ma) in ([(4, "NDags4", 2, "TRUE"), (4, "NDags4", 1, "FALSE"), (5, "NDags5", 2, "TRUE"), (4, "NDags4", 1, "TRUE")]
                               if ctx.thorough else [(3, "NDags3", 2, "TRUE")]):
        rn = ctx.tlc("MCNegotiate", cfg_text=NEG % (n, dags, win, ma), timeout=1500, cfg="MCNegotiate_%d_%d_%s.cfg" % (n, win, ma))
        negs.append({"N": n, "window": win, "multi_ack": ma, "distinct": rn.distinct})
    vsrv = ctx.build(pkg="vsrv")
    ctx.cov["bounds"] = {"scenarios_enumerated": len(scs) + len(picked) - len(picked), "five_commit_scenarios": n5,
                         "scenarios_replayed": len(picked), "negotiate_runs": negs,
                         "pairings": ["gogit->gogit file v0/v2", "git->gogit vsrv v0", "git->gogit vsrv v2", "gogit->git daemon v0/v2", "git->git (witness)"]}
    ctx.cov["bounds"]["scenarios_enumerated"] = n5 + (len(scs) - n5)
    ctx.cov["exhaustive"] = False
    ctx.cov["rule"] = ("TLC enumerates every scenario of the bounded domain (one state each) and checks the specification theorems on all of them; "
                       "the replay takes a seeded sample stratified by (prior state, depth, tag mode); distinct = distinct (scenario, pairing); "
                       "non-trivial = a real fetch transferring at least one commit, verified by refs + shallow + connectivity")
    ctx.vh("c36", [sp, vsrv] + ([len(picked), 30] if ctx.thorough else [len(picked), 2]), pkg="vhnet", timeout=3400)
    ctx.assumptions += [
        "git 2.39.5 -> git 2.39.5 on the same scenario is the witness for the specification (spec error if it disagrees)",
        "commit symbols are real commits built by git fast-import; an annotated tag is a real tag object",
        "the git client reaches go-git's server through harness/cmd/vsrv (transport.UploadPack on stdin/stdout, reader wrapped in io.NopCloser as go-git's own file transport does)",
    ]
