"""C31 Line-ending conversion matches git and round-trips (Engine C: rule table, three-way)."""
LEVEL = "model_checking"
MANIFEST = {
    "engine": "tlc rule table (spec/rules/EOL.tla) + vhtext c31",
    "technique": "TLA+ transcription of git convert.c (gather_stats, convert_is_binary, will_convert_lf_to_crlf incl. safe-crlf, "
                 "crlf_to_git incl. the CRLF-in-index rule) evaluated by TLC over all byte-class strings; every row replayed into "
                 "go-git's convert writers under every two-way split, into Worktree.Add/Checkout, and into git add / checkout-index",
    "text": "Exhaustive within the bound: every string of <= 4 (quick) / <= 6 (thorough) symbols over {LF,CR,NUL,a,ctl,P(128 printable),^Z} "
            "plus long-line strings (a >=32 KiB run placing the copy-buffer boundary at every position of a <=2-symbol tail) x "
            "core.autocrlf {true,input,false}; conversion results, binary verdicts and the checkout->add round trip are computed in TLA+ "
            "(round trip, safe-crlf, idempotence are TLC invariants) and compared with go-git and with git 2.39.",
    "note": "Trusts the byte-class abstraction (each class rendered to several concrete bytes; git agrees with the spec on every "
            "sampled/enumerated row, else exit 2). Without .gitattributes, core.eol and core.safecrlf variations; "
            "the stream writers are judged on content without lone CR (their documented text contract).",
}

CFG = """CONSTANTS MaxLen = %d  BigLen = %d  Emit = TRUE
INIT Init
NEXT Next
INVARIANTS RoundTrip RoundTripFresh StatsAgree BinaryUntouched OnlyTrueConverts SafeCRLF StripJustified AddIdempotent KernelInverse IndexRule
CHECK_DEADLOCK FALSE
"""


def run(ctx):
    maxlen = 6 if ctx.thorough else 4
    biglen = 2
    r = ctx.tlc("EOL", cfg_text=CFG % (maxlen, biglen), timeout=1500)
    ctx.cov["bounds"] = {"alphabet": ["LF", "CR", "NUL", "a", "ctl", "P", "Z"], "max_len": maxlen,
                         "big_tail_len": biglen, "autocrlf": ["true", "input", "false"],
                         "flows": ["GetStat/IsBinary", "CRLFWriter/LFWriter x every 2-split + bytewise",
                                   "Add(fresh index)", "Checkout", "Checkout+touch+Add (round trip)",
                                   "Add over an index entry holding another blob"]}
    ctx.cov["exhaustive"] = True
    ctx.cov["rule"] = ("every string of <= %d symbols over the 7-class alphabet of spec/rules/EOL.tla (x 3 settings) is a TLC state; "
                       "each row is rendered to concrete bytes (canonical + 1 seeded variant; thorough: canonical + 2 variants); "
                       "distinct = distinct concrete byte strings; non-trivial = each is judged by spec and go-git in 6 flows; "
                       "git leg: quick = seeded sample of 1200 cases + 40 long-line cases; thorough = all canonical cases of <= 5 symbols, "
                       "all long-line cases and 20000 seeded others" % maxlen)
    ctx.vh("c31", [r.dir + "/eol_rows.ndjson"], pkg="vhtext", timeout=3000)
    ctx.cov["traces_validated_against_impl"] = ctx.cov["evaluations"]
    ctx.assumptions += [
        "byte classes of EOL.tla represent their concrete bytes faithfully (validated against git add / checkout-index / ls-files --eol on the same rows)",
        "no .gitattributes, core.eol=lf, core.safecrlf=false; attribute 'text eol=crlf' is used only to validate the bare copy loops against git",
        "convert.NewCRLFWriter / NewLFWriter are judged only on content without lone CR (documented: 'assumes data is text')",
        "the index stat shortcut is bypassed on both sides (files rewritten with identical bytes; git index without stat data)",
    ]
