"""C35 Protocol messages round-trip and match git's encoding (Engine C values + Engine B grammar validation + git peers)."""
import json
import vlib
LEVEL = "model_checking"
MANIFEST = {
    "engine": "tlc Wire value enumeration + vhfmt c35 + tlc WireCheck (batch grammar validation)",
    "technique": "TLC enumerates abstract values of ten smart-protocol message types; for each, go-git's Encode/Decode round trip is compared by plain equality, go-git's bytes are tokenised into pkt-line tokens and TLC evaluates the TLA+ Grammar predicate (capability placement, ordering, peeled-after-tag, shallow placement, flush/LF, parsed content = value); git reads go-git's advertisements (git ls-remote --symref) and go-git decodes git's own upload-pack / receive-pack advertisements",
    "text": "Exhaustive over the bounded value sets of Wire.tla: reference advertisements (every subset of 6 refs incl. HEAD and three annotated tags, one of whose names (refs/tags/a.0) extends another annotated tag's name (refs/tags/a) with a byte that sorts before '^', v0/v1, capability sets, 0-2 shallows), upload requests (want sets, capability sets, shallows, 5 depth forms, filter), haves, ACK/NAK responses (single, multi_ack, final), shallow updates, update requests (1-3 commands, capability sets, shallow), push options, report-status, v2 command requests and ls-refs output.",
    "note": "Object ids are symbols rendered as fixed hex strings (sha1 only: sha256 advertisements are not enumerated); git is a peer for advertisements (ls-remote on go-git's bytes; go-git on git's bytes for 4 repository shapes x 2 services x v0/v1) and for upload requests (git upload-pack --stateless-rpc parses a sample of go-git's requests); update requests / report-status are not exchanged with git receive-pack; packfile payloads, side-band framing (C34) and negotiation (C36/C37) are out of scope.",
}
CFG = """CONSTANTS Emit = TRUE  Big = %s
INIT Init
NEXT Next
INVARIANTS CanonAdvOK AdvNegative
CHECK_DEADLOCK FALSE
"""
CFG2 = """CONSTANTS Emit = FALSE  Big = FALSE
INIT WInit
NEXT WNext
INVARIANTS WOut
CHECK_DEADLOCK FALSE
"""
# grammar problems a git client cannot observe through ls-remote (order, LF)
INVISIBLE = {"ref-order", "missing-LF", "peeled-not-after-its-tag", "shallow-before-ref"}


def run(ctx):
    r = ctx.tlc("Wire", cfg_text=CFG % ("TRUE" if ctx.thorough else "FALSE"), timeout=1800)
    recs = ctx.path("wire_recs.ndjson")
    ctx.vh("c35", [r.dir + "/wire_values.ndjson", recs], pkg="vhfmt", timeout=3000)
    r2 = ctx.tlc("WireCheck", cfg_text=CFG2, files={"wire_recs.ndjson": open(recs).read()}, timeout=3000, dirname="tla2")
    verdicts = {v["id"]: v for v in ctx.printed_json(r2) if isinstance(v, dict) and "id" in v}
    n = 0
    spec_errors = []
    for line in open(recs):
        rec = json.loads(line)
        n += 1
        v = verdicts.get(rec["id"])
        if v is None:
            raise vlib.ToolingError("no verdict for record %d" % rec["id"])
        probs = set(v["probs"])
        val = rec["v"]
        case = {"value": val, "tokens": rec["toks"], "problems": sorted(probs), "git_saw": rec.get("gitsaw")}
        if rec["hasgit"]:
            visible = probs - INVISIBLE
            if not probs and not rec["gitok"]:
                spec_errors.append({"what": "Grammar accepts an encoding that git (ls-remote / upload-pack) does not read as the value", "case": case})
                continue
            if rec["t"] == "adv" and visible and rec["gitok"] and not any(p.startswith("content:capabilities") or p == "capabilities-not-on-first-line" or p == "flush-placement" for p in visible):
                spec_errors.append({"what": "Grammar reports a content problem but git ls-remote lists exactly the expected refs", "case": case})
                continue
        for p in sorted(probs):
            ctx.diverge("Grammar|%s|%s|%s" % (rec["t"], p, key(val)), "go-git's encoding violates the grammar rule %s" % p, case)
    if n == 0:
        raise vlib.ToolingError("no records")
    if spec_errors:
        ctx.write("spec_errors.json", spec_errors)
        raise vlib.ToolingError("SPEC-ERROR: spec disagrees with git on %d cases, e.g. %s" % (len(spec_errors), json.dumps(spec_errors[:3])[:3000]))
    ctx.cov["bounds"] = {"message_types": 10, "records": n, "big": ctx.thorough}
    ctx.cov["exhaustive"] = True
    ctx.cov["rule"] = ("every value of Wire.tla!AllValues is one TLC state and one record: round trip in Go + Grammar in TLC; "
                       "distinct = distinct values; reference lists are handed to go-git in a seeded random order")
    ctx.assumptions += ["git ls-remote shows refs, peeled entries and the HEAD symref only: ordering and LF rules of the grammar are judged by the spec alone",
                        "LsRefsOutput.Encode / LsRefsArgs.Encode leave the closing flush-pkt to their caller (documented); the grammar does not demand it there"]


def key(val):
    if val["t"] == "adv":
        names = [r["n"] for r in val["refs"]]
        if not names:
            return "no-refs"
        return ("HEAD" if "HEAD" in names else "no-HEAD") + "," + ("first-ref-peeled" if val["refs"][0]["p"] else "first-ref-plain")
    if val["t"] == "srvresp":
        a = val["acks"]
        if not a:
            return "nak"
        return ("multi" if any(x["s"] for x in a) else "single") + ("+final" if len(a) > 1 and not a[-1]["s"] else "")
    return "-"
