"""C12 Index files interoperate with git in both directions (Engine C: rule table at token level + git both ways)."""
LEVEL = "model_checking"
MANIFEST = {
    "engine": "tlc IndexFile rule table + vhfmt c12",
    "technique": "TLA+ transcription of git's index format rules (entry order, flag words, 12-bit name length, v2/v3 padding, v4 prefix compression + offset varint, version 3 iff extended flags, extension acceptance, resolve-undo / cache-tree content) evaluated by TLC over all bounded abstract indexes; every row is encoded by go-git's index.Encoder, tokenised and compared field by field with the layout the spec forces, decoded back, and read by git; sampled rows are produced by git itself and decoded twice by go-git",
    "text": "Exhaustive over entry sets on 11 names (incl. 0xFFE/0xFFF/0x1000-byte, 127/128-byte, UTF-8, sort-order traps) x 13 entry kinds (modes, skip-worktree, intent-to-add, assume-valid, conflict stages, resolved conflicts) x versions 2-4 x checksum/skipHash trailers in the encode direction; a seeded sample of the same states x 9 extension/trailer tails is written by git (update-index --index-info, add -N, --skip-worktree, --assume-unchanged, write-tree, EOIE, plus unknown optional/mandatory extensions spliced in) and go-git's decode is compared with the spec state and git ls-files --stage --debug --resolve-undo.",
    "note": "Token level: SHA-1 arithmetic and the byte rendering of tokens are done by the harness; split-index, untracked-cache, fsmonitor, sparse-directory entries and sha256 indexes are outside the domain; stat data is compared between go-git and git but not enumerated by the spec.",
}
CFG = """CONSTANTS MaxNames = %d  MidNames = %d  MaxSmall = %d  Emit = TRUE
INIT Init
NEXT Next
INVARIANTS StrictlySorted CountOK VersionRule VersionFactor NameLenRule StripRule ReucDisjoint TreeCounts
CHECK_DEADLOCK FALSE
"""


def run(ctx):
    # quick: all single-name indexes with the full kind set + all name pairs with the medium kind set
    # thorough: all name pairs with the full kind set + all name triples with the small kind set
    mn, md, ms = (2, 0, 3) if ctx.thorough else (1, 2, 0)
    r = ctx.tlc("IndexFile", cfg_text=CFG % (mn, md, ms), timeout=1800)
    d = r.dir
    ctx.vh("c12", [d + "/index_rows.ndjson", d + "/index_tails.ndjson", d + "/index_names.ndjson", d + "/index_meta.ndjson"],
           pkg="vhfmt", timeout=3000)
    ctx.cov["bounds"] = {"names": 11, "kinds_full": 13, "kinds_medium": 8, "kinds_small": 6, "versions": [2, 3, 4],
                         "tails": 9, "full_kind_sets_up_to_names": mn, "medium_kind_sets_of_names": md,
                         "small_kind_sets_of_names": ms}
    ctx.cov["exhaustive"] = True
    ctx.cov["rule"] = ("every function from a D/F-conflict-free name subset (sizes per bounds) to entry kinds is one abstract index; x3 versions = TLC states; "
                       "encode direction: every state x {checksum, skipHash} is encoded, tokenised and compared with the spec layout, decoded back (with and without WithSkipHash), a seeded sample is read by git; "
                       "decode direction: a seeded sample of state x version x tail is written by git and decoded twice by go-git; distinct = distinct (state, version, trailer) + git-written cases")
    ctx.cov["traces_validated_against_impl"] = ctx.cov["evaluations"]
    ctx.assumptions += [
        "git 2.39.5 is the second witness: it reads an all-zero trailer without verification and cannot write one (the harness zeroes the trailer of a git-written file to model index.skipHash of git >= 2.40)",
        "unknown extensions are spliced into git-written files by the harness (the git CLI cannot write them)",
        "intent-to-add entries with names longer than PATH_MAX and extended flags on conflict stages cannot be produced with the git CLI and are covered in the encode direction only",
        "cache-tree and EOIE are treated as caches a writer may drop; resolve-undo must be preserved (spec constants MayDrop / MustKeep)",
    ]
