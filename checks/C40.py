"""C40 Repository loaders never serve a repository outside their root (PathJail, batch trace validation)."""
import json
import os
LEVEL = "model_checking"
MANIFEST = {
    "engine": "tlc LoaderJail (tree + requests) + vhjail c40 (recording billy fs, real loader and HTTP backend) + tlc LoaderJailTrace",
    "technique": "the sandbox tree (repositories inside/outside the root, relative/absolute gitfiles, symlinked directories) and every request path are defined and enumerated in TLA+; the real FilesystemLoader (strict / non-strict) and the backend HTTP handler are run on the materialised tree; TLC resolves the root of every returned storage and every successful filesystem request (lexical and symlink readings of PathJail) and checks they are inside the root; the served repository identity is a second observation",
    "text": "Exhaustive over request paths of <= 2 (quick) / <= 3 (thorough, sampled above the budget) tokens over 33 path tokens (repositories, gitfiles, symlinks, '..', '.', empty, .git, encoded dots, host-absolute prefixes: sandbox origin, the root itself, root + '/..', root + '-private') x {relative, leading slash} x {Load, Load strict, HTTP GET <path>/HEAD} on one tree with 8 repositories (incl. a sibling whose directory name extends the root's name), 7 gitfiles (incl. absolute ones that start with the root's host path and leave it) and 6 symlinks.",
    "note": "The loader under test is rooted on osfs (BoundOS, the only OS filesystem of billy v6); containment that BoundOS itself provides is part of what is observed. One fixed tree; gitfile contents are the five listed shapes.",
}

CFG = """CONSTANTS MaxReq = %d EmitRows = TRUE
INIT Init
NEXT Next
INVARIANTS PlainStaysIn NoDotsLexIn TreeHasEscapes
CHECK_DEADLOCK FALSE
"""
TCFG = """CONSTANTS MaxReq = 1 EmitRows = FALSE
INIT TInit
NEXT TNext
INVARIANTS JudgeSane
CHECK_DEADLOCK FALSE
"""


def run(ctx):
    import vlib
    mr = 3 if ctx.thorough else 2
    r = ctx.tlc("LoaderJail", cfg_text=CFG % mr, timeout=1500)
    rep = ctx.vh("c40", [os.path.join(r.dir, "loaderjail_rows.ndjson"), os.path.join(r.dir, "loaderjail_tree.json"), r.dir],
                 pkg="vhjail", timeout=3000)
    t = ctx.tlc("LoaderJailTrace", cfg_text=TCFG, timeout=1500)
    cases = json.load(open(os.path.join(r.dir, "c40_cases.json")))
    nver = nbad = 0
    for line in open(os.path.join(r.dir, "c40_verdicts.ndjson")):
        if not line.strip():
            continue
        v = json.loads(line)
        nver += 1
        c = cases.get(str(v["id"]), {})
        if not v.get("known_ident", True):
            raise vlib.ToolingError("C40: served identity %r is not a repository of the spec's tree" % c.get("ident"))
        if v["ok"]:
            continue
        nbad += 1
        kind = "HTTP" if c.get("mode") == "http" else "Load"
        ctx.diverge("%s|%s:%s|%s" % (kind, v["class"], v["via"], v["key"]),
                    "%s(%r, mode=%s) served=%s root=%s identity=%s: %s" % (kind, c.get("path"), c.get("mode"), c.get("served"), c.get("root"), c.get("ident"), v["class"]), c)
    if nver != rep.get("traces") or nver == 0:
        raise vlib.ToolingError("C40: %d verdicts for %s records" % (nver, rep.get("traces")))
    if not rep.get("extra", {}).get("c40_served_inside_identity"):
        raise vlib.ToolingError("C40: no request was served at all (vacuous run)")
    ctx.cov["bounds"] = {"path_tokens": 33, "max_tokens": mr, "modes": ["load", "load-strict", "http"], "tree_entries": 21}
    ctx.cov["exhaustive"] = True
    ctx.cov["rule"] = ("every request = token sequence of spec/rules/LoaderJail.tla is one TLC state; each is rendered with and without a leading slash "
                       "and given to Load / strict Load / the HTTP handler; distinct = (request, slash, mode); %d outcomes judged by TLC, %d rejected" % (nver, nbad))
    ctx.cov["outcomes_judged_by_tlc"] = nver
    ctx.cov["outcomes_rejected"] = nbad
    ctx.assumptions += ["the base filesystem of the loader is osfs (BoundOS)", "one fixed sandbox tree defined in LoaderJail.tla",
                        "requests above the tier budget are sampled by VERIF_SEED (all requests of <= 2 tokens are always run)"]
