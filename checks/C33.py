"""C33 Linked worktrees are isolated and recognised by git (Engine A: behaviour replay)."""
import json
import vlib

LEVEL = "model_checking"
MANIFEST = {
    "engine": "tlc LinkedWorktrees histories + vh c33",
    "technique": "TLC enumerates every history of edit / stage / commit / hard reset / worktree add (branch or detached) / worktree remove / refused add under a name in use / use of the directory a removed worktree leaves behind over the abstract LinkedWorktrees spec (main + 2 linked worktrees, shared branches); the frame property 'an operation in one worktree leaves every other worktree's HEAD, index and files unchanged' is a TLC action property of the model, and each history is replayed on a real repository (a left-behind directory is opened and, if that is accepted, edited, staged and committed in: the model says nothing changes) through x/plumbing/worktree with HEAD, index, file content of every worktree and every shared branch compared after each step; git worktree list is the second observer on a sample",
    "text": "Exhaustive over all operation sequences of length 3 (thorough 4, plus simulated length 7) with 3 worktrees, 2 file versions and up to 3 commits.",
    "note": "One tracked file; worktree lock/prune/move are not modelled; a branch is never checked out in two worktrees (the API creates one branch per linked worktree).",
}
CFG = """CONSTANTS Linked = {"w1", "w2"}  Versions = {"v0", "v1"} V0 = "v0"  MaxCommits = 3  MaxOps = %d  EmitAll = TRUE
INIT Init
NEXT Next
INVARIANTS TypeOK OneWorktreePerBranch HeadMatchesBranch EmitHist
PROPERTIES Isolation
CHECK_DEADLOCK FALSE
"""


def run(ctx):
    depth = 4 if ctx.thorough else 3
    r = ctx.tlc("LinkedWorktrees", cfg_text=CFG % depth, workers=1, timeout=2400)
    hists = ctx.printed_json(r)
    n_ex = len(hists)
    r2 = ctx.tlc("LinkedWorktrees", cfg_text=CFG % 7, mode="simulate", depth=8, num=400 if ctx.thorough else 12, workers=1, timeout=2400)
    hists += [h for h in ctx.printed_json(r2)]
    seen, uniq = set(), []
    for h in hists:
        k = json.dumps(h, sort_keys=True)
        if k not in seen:
            seen.add(k)
            uniq.append(h)
    if not uniq:
        raise vlib.ToolingError("no histories")
    p = ctx.path("lw_hist.ndjson")
    with open(p, "w") as f:
        for h in uniq:
            f.write(json.dumps(h) + "\n")
    ctx.vh("c33", [p], timeout=3400)
    ctx.cov["traces_validated_against_impl"] = ctx.cov["evaluations"]
    ctx.cov["bounds"] = {"exhaustive_depth": depth, "exhaustive_histories": n_ex, "replayed": len(uniq)}
    ctx.cov["exhaustive"] = True
    ctx.cov["rule"] = "every LinkedWorktrees history of length %d plus simulated histories of length 7; distinct = distinct histories" % depth
