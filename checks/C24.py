"""C24 An acquired pack descriptor is never closed under its reader (TLC model + trace validation of the real SharedFile/Pool)."""
import json
import vlib

LEVEL = "model_checking"
MANIFEST = {
    "engine": "tlc SharedFilePool + vh c24 (hooks, gated scheduler) + tlc TraceSFP / TraceSFPConf",
    "technique": "TLC checks HeldOpen / RefCount / OpenBound / LruWF (and idle-close liveness without a pool) exhaustively on the mutex-section-level TLA+ model SharedFilePool; the real SharedFile and Pool objects are then driven through seeded schedules of their hook yield points, every hook emission is logged with direct observations of the fake descriptors, and TLC validates the logs: observed invariants (verdict) and conformance of the event sequence to the model (drift)",
    "text": "Model: 3 files x 2 threads x capacity 1 x up to 4 (quick) / 6 (thorough) API calls, every interleaving of the critical sections; implementation: 400 (quick) / 6000 (thorough) gated runs over 6 configurations (pool capacity 1 and 2, 2-3 goroutines, pool-less grace timer, two eviction-churn configurations in which the unlocked eviction window - before and after the victim's ReleaseNow - is held open while the other goroutines run) whose traces TLC checks step by step.",
    "note": "Hooks (build tag verif) emit state under the protecting mutex; the fake ReadAtCloser records Close so 'closed under a reader' is observed directly; evictions in flight are allowed as transient excess over capacity; the pool-less timer runs in real time (300us grace).",
}

CFG_POOL = """CONSTANTS Files = {"f1", "f2", "f3"}  Threads = {"t1", "t2"}  Cap = 1  UsePool = TRUE  MaxOps = %d
INIT Init
NEXT Next
INVARIANTS TypeOK HeldOpen RefCount OpenBound LruWF
CHECK_DEADLOCK FALSE
"""
CFG_NOPOOL = """CONSTANTS Files = {"f1", "f2"}  Threads = {"t1", "t2"}  Cap = 0  UsePool = FALSE  MaxOps = %d
SPECIFICATION FairSpec
INVARIANTS TypeOK HeldOpen RefCount
PROPERTIES IdleEventuallyClosed
CHECK_DEADLOCK FALSE
"""
CFG_CONF = """CONSTANTS Files = {%s}  Threads = {%s}  Cap = %d  UsePool = %s  MaxOps = 1000000
INIT TInit
NEXT TNext
CONSTRAINT HW
POSTCONDITION Accepted
CHECK_DEADLOCK FALSE
"""


def q(xs):
    return ", ".join('"%s"' % x for x in xs)


def run(ctx):
    ctx.tlc("SharedFilePool", cfg="sfp_pool.cfg", cfg_text=CFG_POOL % (6 if ctx.thorough else 4), timeout=2400, heap="12g" if ctx.thorough else "4g")
    ctx.tlc("SharedFilePool", cfg="sfp_nopool.cfg", cfg_text=CFG_NOPOOL % (5 if ctx.thorough else 4), timeout=2400)
    tp = ctx.path("sfp_trace.ndjson")
    ctx.vh("c24", [tp], timeout=3000)
    runs = [json.loads(l) for l in open(tp)]
    # (1) observed invariants: the verdict
    # in chunks: TLC holds the whole deserialised file and the verdict sequence in memory, and the time it needs
    # grows faster than linearly with the number of runs in one file
    bad = 0
    verd = {}
    lines = open(tp).read().splitlines(True)
    CH = 400
    for ci in range(0, len(lines), CH):
        r = ctx.tlc("TraceSFP", cfg="TraceSFP.cfg", files={"sfp_trace.ndjson": "".join(lines[ci:ci + CH])}, dirname="tla-obs%d" % (ci // CH), timeout=1800)
        for l in open(r.dir + "/sfp_verdicts.ndjson"):
            v = json.loads(l)
            verd[v["id"]] = v
    if len(verd) != len(runs):
        raise vlib.ToolingError("TraceSFP judged %d of %d runs" % (len(verd), len(runs)))
    byid = {x["id"]: x for x in runs}
    for i, v in verd.items():
        if not v["ok"]:
            bad += 1
            x = byid[i]
            ctx.diverge("%s|after=%s|pool=%s" % (v["why"], v["ev"], x["pool"]),
                        "observed invariant %s violated at event %d (%s) of a real SharedFile/Pool run" % (v["why"], v["at"], v["ev"]),
                        {"cap": x["cap"], "pool": x["pool"], "seed": x["seed"], "events": x["ev"][:v["at"]]})
    # (2) conformance of the event sequences to SharedFilePool (drift, not a verdict)
    groups = {}
    for x in runs:
        groups.setdefault((tuple(x["files"]), tuple(x["threads"]), x["cap"], x["pool"]), []).append(x)
    drift = []
    gi = 0
    for (files, threads, cap, pool), xs in sorted(groups.items(), key=lambda kv: str(kv[0])):
        gi += 1
        body = "".join(json.dumps(x) + "\n" for x in xs)
        r = ctx.tlc("TraceSFPConf", cfg="conf%d.cfg" % gi, cfg_text=CFG_CONF % (q(files), q(threads), max(cap, 0), "TRUE" if pool else "FALSE"),
                    files={"sfp_conf.ndjson": body}, dirname="tla-conf%d" % gi, workers=1, timeout=1800, dfs=True)
        res = [j for j in ctx.printed_json(r) if isinstance(j, dict) and "conf" in j]
        if not res:
            raise vlib.ToolingError("TraceSFPConf printed no verdict")
        for c in res[-1]["conf"]:
            if c["hw"] != c["len"] + 1:
                drift.append({"id": c["id"], "matched": c["hw"] - 1, "len": c["len"],
                              "next_event": byid[c["id"]]["ev"][c["hw"] - 1] if 0 < c["hw"] <= c["len"] else None})
    ctx.cov["spec_drift"] = len(drift)
    ctx.cov["spec_drift_examples"] = drift[:5]
    ctx.cov["conformant_runs"] = len(runs) - len(drift)
    ctx.cov["traces_validated_against_impl"] = len(runs)
    ctx.cov["bounds"] = {"model": "3 files, 2 threads, cap 1, MaxOps %d; pool-less 2 files 2 threads" % (6 if ctx.thorough else 4), "runs": len(runs)}
    ctx.cov["rule"] = ("seeded gated runs of real SharedFile/Pool objects over 4 configurations; each run = 2-3 goroutines x 6-8 random calls "
                       "(acquire/release/releasenow/close) scheduled at every hook yield; distinct = distinct event sequences")
    ctx.assumptions += ["hook emissions are made under the mutex protecting the reported fields (commit in /repo, tag verif)",
                        "an eviction in flight (victim unlinked, ReleaseNow pending) is allowed as transient excess in OpenBound"]
