"""C32 Sparse checkout materialises exactly the selected directories (Repo.tla rule table)."""
from checks import repo_common

LEVEL = "model_checking"
MANIFEST = {
    "engine": "tlc Repo rule table (sparse universe) + vh repo C32",
    "technique": "explicit TLA+ specification of cone membership by whole path components (Repo.tla SparsePost) enumerated by TLC over all (current tree, target tree, sparse directory set) combinations of a universe whose names share string prefixes but not components (a/x, ab/y, a/b/0, a/b/c/w, f); each row is a real forced checkout with SparseCheckoutDirectories and the worktree files, index entries and skip-worktree flags are compared",
    "text": "Exhaustive: all 32 x 32 (current, target) tree pairs x 5 sparse directory sets ({a}, {ab}, {a/b}, {a/b/c}, {a, ab}) from clean pre-states = 5120 rows (quick: a fixed stratified third; thorough: all); in-cone paths must be present and not skip-worktree, out-of-cone tracked paths absent and skip-worktree.",
    "note": "Clean pre-states only (sparse switching with local changes is covered by C30's rules without cones); one blob content.",
}


def run(ctx):
    repo_common.run_prop(ctx, "C32", ["sparse"], ["sparse"], ["sparse"], 1700)
