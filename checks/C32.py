"""C32 Sparse checkout materialises exactly the selected directories (Repo.tla rule table)."""
from checks import repo_common

LEVEL = "model_checking"
MANIFEST = {
    "engine": "tlc Repo rule table (sparse universe) + vh repo C32",
    "technique": "explicit TLA+ specification of cone membership by whole path components (Repo.tla SparsePost) enumerated by TLC over all (current tree, target tree, sparse directory set) combinations of a universe whose names share string prefixes but not components (a/x, ab/y, a/b/0, a/b/c/w, c/v, f); each row is a real forced checkout with SparseCheckoutDirectories and the worktree files, index entries and skip-worktree flags are compared",
    "text": "Exhaustive: all 64 x 64 (current, target) tree pairs x 6 sparse directory sets ({a}, {ab}, {a/b}, {a/b/c}, {a, ab}, {c}) from clean pre-states, all 36 switches from an already sparse worktree (sparse2: skip-worktree bits set, files absent) and all 32 x 6 forced sparse checkouts over a fully tracked worktree with local modifications (quick: a fixed stratified sample plus every sparse2 row; thorough: all); in-cone paths must be present and not skip-worktree, out-of-cone tracked paths absent and skip-worktree.",
    "note": "Keep resets that narrow the sparse set over local modifications are C30's sparse-keep rows.",
}


def run(ctx):
    repo_common.run_prop(ctx, "C32", ["sparse", "sparse-dirty"], ["sparse", "sparse-dirty"], ["sparse", "sparse2"], 1900)
