"""C28 Add, remove, move, clean and commit produce git's index and trees (Repo.tla rule table replayed on real repositories)."""
from checks import repo_common

LEVEL = "model_checking"
MANIFEST = {
    "engine": "tlc Repo rule table + vh repo C28",
    "technique": "explicit TLA+ three-tree specification (Repo.tla) enumerated exhaustively by TLC over bounded universes; every row is materialised as a real repository and worktree, the go-git operation is run and the projected post-state compared with the specification's allowed outcome",
    "text": "the index entries, remaining files and (for commit) the recorded tree and HEAD after go-git's add / add -A / rm / mv / clean -fd / commit equal what the specification derives from git's rules; sampled post-states are re-read with git ls-files -s and git write-tree. Universes: one path with regular/executable/symlink entries (all 625 H/I/W/T combinations), a directory/file conflict pair, two independent paths.",
    "note": "Bounded universes (<= 2 paths, 2 blob contents); submodules, sparse cones (C32) and linked worktrees (C33) are separate; the git leg is sampled within the process budget.",
}
ALL = ["reset-hard", "checkout-force", "checkout", "reset-merge", "reset-keep", "add", "add-all", "remove", "move", "clean", "commit"]


def run(ctx):
    ops = ['add', 'add-all', 'remove', 'move', 'clean', 'commit'] or ALL
    repo_common.run_prop(ctx, "C28", ["one-path-all-kinds", "dir-file-conflict"], ["one-path-all-kinds", "dir-file-conflict", "two-paths"], ops, 1200,
                         quick_extra=[("two-paths", ["move"])])   # moves between two independent paths also in the quick tier
