"""C25 Checkout and hard reset materialise exactly the target commit (Repo.tla rule table replayed on real repositories)."""
from checks import repo_common

LEVEL = "model_checking"
MANIFEST = {
    "engine": "tlc Repo rule table + vh repo C25",
    "technique": "explicit TLA+ three-tree specification (Repo.tla) enumerated exhaustively by TLC over bounded universes; every row is materialised as a real repository and worktree, the go-git operation is run and the projected post-state compared with the specification's allowed outcome",
    "text": "after a successful forced checkout or hard reset the index equals the target tree, every target path holds the target content (bytes, exec bit, symlink), paths of the previous commit that the target lacks are gone, untracked files not in the target are unchanged, and (sampled) git status reports no tracked change and git ls-files shows the same index. Universes: one path with regular/executable/symlink entries (all 625 H/I/W/T combinations), a directory/file conflict pair, two independent paths.",
    "note": "Bounded universes (<= 2 paths, 2 blob contents); submodules, sparse cones (C32) and linked worktrees (C33) are separate; the git leg is sampled within the process budget.",
}
ALL = ["reset-hard", "checkout-force", "checkout-force-create", "checkout", "reset-merge", "reset-keep", "add", "add-all", "remove", "move", "clean", "commit"]


def run(ctx):
    ops = ['reset-hard', 'checkout-force', 'checkout-force-create'] or ALL
    repo_common.run_prop(ctx, "C25", ["one-path-all-kinds", "dir-file-conflict"], ["one-path-all-kinds", "dir-file-conflict", "two-paths"], ops, 900)
