"""C14 Reference and reflog storage cannot escape the refs namespace (rule table + batch trace validation over PathJail)."""
import json
import os
LEVEL = "model_checking"
MANIFEST = {
    "engine": "tlc RefJail (names, MustRefuse) + vhjail c14 (recording billy fs) + tlc RefJailTrace (PathJail)",
    "technique": "TLA+ path-resolution model (lexical and symlink-following readings, refs-namespace region); TLC enumerates reference names incl. traversal / NTFS / HFS disguises and computes which must be refused; every filesystem request recorded while the real reference+reflog API ran on decoy sandboxes is judged by the TLA+ Allowed predicate; sentinel hashes as independent observation",
    "text": "Exhaustive over names = 5 prefixes x bodies of <= 2 (quick) / <= 3 (thorough) tokens over 17 token classes (seeded sample above the tier budget), x 2 byte renderings x {plain, planted symlinked directories} x 13 API operations (Reference, SetReference, CheckAndSet, Remove, IterReferences, PackRefs, Reflog/Append/Delete, names arriving via symbolic targets, a planted HEAD and planted packed-refs lines).",
    "note": "Runs on Linux over osfs (BoundOS): NTFS/HFS folding is only judged through the refusal the spec demands (MustRefuse), not through a footprint. Stat/Lstat of a link itself is not counted as touching its target. The recorder sees billy calls only.",
}

CFG = """CONSTANTS MaxBody = %d EmitRows = TRUE
INIT Init
NEXT Next
INVARIANTS ValidNeverRefused PrefixMonotone EscapeNeedsDots
CHECK_DEADLOCK FALSE
"""
TCFG = """INIT TInit
NEXT TNext
INVARIANTS ReadingsAgree
CHECK_DEADLOCK FALSE
"""
KIND = {"Reference": "read-ref", "ResolveSymbolic": "read-ref", "ResolvePlantedHEAD": "read-ref",
        "SetReference": "write-ref", "CheckAndSetReference": "write-ref", "RemoveReference": "delete-ref",
        "Reflog": "read-reflog", "AppendReflog": "write-reflog", "DeleteReflog": "delete-reflog",
        "IterReferences": "list", "PackRefs": "pack", "PlantedPackedRefs": "packed-refs-content"}


def run(ctx):
    import vlib
    r = ctx.tlc("RefJail", cfg_text=CFG % (3 if ctx.thorough else 2), timeout=1500)
    rep = ctx.vh("c14", [os.path.join(r.dir, "refjail_rows.ndjson"), r.dir], pkg="vhjail", timeout=3000)
    t = ctx.tlc("RefJailTrace", cfg_text=TCFG, timeout=1500)
    cases = json.load(open(os.path.join(r.dir, "c14_cases.json")))
    by_id = {}
    for k, v in cases.items():
        i, api = k.split("|", 1)
        by_id.setdefault(int(i), []).append((api, v))
    recs = {}
    for line in open(os.path.join(r.dir, "c14_trace.ndjson")):
        if line.strip():
            x = json.loads(line)
            recs[x["id"]] = x
    nver = nbad = 0
    for line in open(os.path.join(r.dir, "c14_verdicts.ndjson")):
        if not line.strip():
            continue
        v = json.loads(line)
        nver += 1
        if v["ok"]:
            continue
        nbad += 1
        rec = recs[v["id"]]
        for api, c in by_id.get(v["id"], []):
            key = "symlinked-dir" if v["via"] == "symlink" else c.get("key", "plain")
            ctx.diverge("%s|%s:%s|%s" % (KIND.get(api, api), v["via"], v["where"], key),
                        "%s(%r): filesystem call %s(%s) resolves (%s reading) to %s" % (api, c.get("name"), rec["op"], "/".join(rec["p"]), v["via"], v["where"]),
                        dict(c, api=api, fs_op=rec["op"], fs_path="/".join(rec["p"])))
    if nver != rep.get("traces") or nver == 0:
        raise vlib.ToolingError("C14: %d verdicts for %s trace records" % (nver, rep.get("traces")))
    ctx.cov["bounds"] = {"tokens": 17, "prefixes": 5, "max_body": 3 if ctx.thorough else 2, "scenarios": ["plain", "links"], "api_ops": 13}
    ctx.cov["exhaustive"] = True
    ctx.cov["rule"] = ("every name = prefix x body over the token alphabet of spec/rules/RefJail.tla is one TLC state with MustRefuse computed; "
                       "rendered to bytes (canonical + 1 seeded variant); distinct = distinct byte names; each drives 13 API operations on a fresh decoy sandbox; "
                       "%d distinct filesystem requests judged by TLC (PathJail), %d rejected" % (nver, nbad))
    ctx.cov["fs_requests_judged_by_tlc"] = nver
    ctx.cov["fs_requests_rejected"] = nbad
    ctx.assumptions += ["all storage side effects go through the billy filesystem handed to filesystem.NewStorage",
                        "names above the tier budget are sampled by VERIF_SEED (all short names are always run)",
                        "Stat/Lstat on a symbolic link itself is not a touch of its target"]
