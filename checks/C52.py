"""C52 Reflog entries interoperate with git (Engine C: rule tables, three-way spec / go-git / git, plus a git-written history)."""
import vlib

LEVEL = "model_checking"
MANIFEST = {
    "engine": "tlc rule table (Reflog) + vhcodec c52",
    "technique": "TLA+ transcription of git's reflog writer (copy_reflog_msg normalisation, identity sanitising, line layout) and reader (show_one_reflog_ent); TLC enumerates entries and stored lines as states with the normalisation theorems as invariants; each entry is appended by go-git and listed by git, written by git and decoded by go-git",
    "text": "Exhaustive within the bound: every message of <= 4 (quick) / <= 5 (thorough) symbols over {word, space, TAB, LF, CR, VT} and 5 name shapes x 2 mail shapes x 5 zones x {timestamp, 0} x 4 messages are appended through filesystem ReflogStorage.AppendReflog and listed with git log -g (identity, timestamp, zone, normalised message, new id), read back by reflog.Decode, and (seeded sample) written by git update-ref -m under the same identity/date and decoded by ReflogStorage.Reflog; 288 stored-line shapes are listed by git and decoded by go-git; one porcelain history (commit, checkout -b, reset, branch -m, amend) written by git is decoded and compared entry by entry. NormMsg theorems (idempotent, no TAB/LF/CR survives, words preserved) are TLC invariants.",
    "note": "old ids are compared through go-git's own round trip, the stored-line table and the history chain (git log -g does not print them); timestamp 0 entries are hidden by git's own reader and only counted; lines git lists but its writer cannot produce are counted, not judged; sub-minute zone offsets and sha256 repositories are not covered.",
}

CFG = """CONSTANTS MaxMsg = %d  Emit = TRUE
INIT Init
NEXT Next
INVARIANTS NormIdempotent NormShape NormKeepsWords SanitizedListable ListedHasParts
CHECK_DEADLOCK FALSE
"""


def run(ctx):
    maxmsg = 5 if ctx.thorough else 4
    r = ctx.tlc("Reflog", cfg_text=CFG % maxmsg, timeout=1200)
    n = sum(1 for _ in open(r.dir + "/reflog_enc_rows.ndjson")) + sum(1 for _ in open(r.dir + "/reflog_line_rows.ndjson"))
    if n != r.distinct:
        raise vlib.ToolingError("Reflog: %d rows serialised but %d TLC states" % (n, r.distinct))
    ctx.vh("c52", [r.dir + "/reflog_enc_rows.ndjson", r.dir + "/reflog_line_rows.ndjson"], pkg="vhcodec")
    ctx.cov["bounds"] = {"message_symbols": 6, "max_message_len": maxmsg, "name_shapes": 5, "mail_shapes": 2, "zones": 5,
                         "stored_line_shapes": 288, "rows": n, "history_steps": 9}
    ctx.cov["exhaustive"] = True
    ctx.cov["rule"] = ("every entry / stored line of the bounded domain is one TLC state and one row; distinct = distinct abstract entries; "
                       "non-trivial = each entry is written by go-git and read by git, read back by go-git, and (sample) written by git and read by go-git")
    ctx.cov["traces_validated_against_impl"] = ctx.cov["evaluations"]
    ctx.assumptions += [
        "entries are identified in git's listing by a unique timestamp per row",
        "git-writes direction is a seeded sample (one git update-ref per entry): quick <= 250, thorough <= 1900",
        "git log -g lists only entries whose new id is a commit; go-git's extra zero-id entries (branch rename) are projected away before comparing",
    ]
