"""C19 Transactional storage shows base plus pending writes, then commits them (Engine A)."""
import json
import vlib

LEVEL = "model_checking"
MANIFEST = {
    "engine": "tlc StorerModel histories + vh c19",
    "technique": "the StorerModel histories enumerated by TLC are executed through transactional.NewStorage(base, temporal); after every call the complete view through the transaction must equal the spec state (base + pending writes and deletions), the base must still equal the initial state, and after Commit the base must equal the spec state",
    "text": "Exhaustive over all operation sequences of length 2 (thorough 3) from 2 initial base states over 34 operations, plus simulated histories of length 6, on memory and filesystem bases.",
    "note": "Small universe as in C17; reflogs are not in the model; PackRefs is not part of the transactional API and is skipped.",
}
HIDDEN = "TypeOK FailedChangesNothing ObjectsOnlyGrow FrameRefs FrameObjs ShallowReplaces EmitHist"
CFG = """CONSTANTS Names <- MCNames Hashes <- MCHashes SymOK <- MCSymOK NoRemove <- MCNoRemove Objects <- MCObjects PackSets <- MCPackSets
 IdxVals <- MCIdxVals ShallowSets <- MCShallowSets CfgVals <- MCCfgVals Inits <- MCInits Focus = "all" MaxOps = %d EmitAll = TRUE
INIT Init
NEXT Next
INVARIANTS """ + HIDDEN + """
CHECK_DEADLOCK FALSE
"""


def histories(ctx, depth, sim_depth, num):
    hists = []
    r = ctx.tlc("MCStorerModel", cfg_text=CFG % depth, workers=1, timeout=2400)
    hists += ctx.printed_json(r)
    n_ex = len(hists)
    r2 = ctx.tlc("MCStorerModel", cfg_text=CFG % sim_depth, mode="simulate", depth=sim_depth + 1, num=num, workers=1, timeout=2400)
    hists += ctx.printed_json(r2)
    seen, uniq = set(), []
    for h in hists:
        k = json.dumps(h, sort_keys=True)
        if k not in seen:
            seen.add(k)
            uniq.append(h)
    if not uniq:
        raise vlib.ToolingError("TLC printed no histories")
    p = ctx.path("sm_hist.ndjson")
    with open(p, "w") as f:
        for h in uniq:
            f.write(json.dumps(h) + "\n")
    return p, n_ex, len(uniq) - n_ex


def run(ctx):
    depth = 3 if ctx.thorough else 2
    p, n_ex, n_sim = histories(ctx, depth, 6, 1500 if ctx.thorough else 60)
    ctx.vh("c19", [p], timeout=3400)
    ctx.cov["traces_validated_against_impl"] = ctx.cov["evaluations"]
    ctx.cov["bounds"] = {"exhaustive_depth": depth, "exhaustive_histories": n_ex, "simulated_depth": 6, "simulated_histories": n_sim}
    ctx.cov["exhaustive"] = True
    ctx.cov["rule"] = ("every StorerModel history of length %d from 2 initial states (exhaustive) + simulated histories of length 6; evaluations = history x base replays; "
                       "distinct = distinct histories; all non-trivial (mutations followed by complete read-back)" % depth)
    ctx.assumptions += ["symbols are interpreted as fixed real objects / hashes (harness/cmd/vh/storerreplay.go)"]
