"""C18 Objects are readable immediately after a successful write (Engine A: behaviour replay)."""
import json
import vlib

LEVEL = "model_checking"
MANIFEST = {
    "engine": "tlc ObjectVisibility histories + vh c18",
    "technique": "TLC enumerates every interleaving of writer open/close (raw, lazy and pack writers, atomic SetEncodedObject, whole packs, packs superseded and deleted on the live handle and written again) with lookups of each kind over the abstract ObjectVisibility spec; each history is replayed on real filesystem object storage under ExclusiveAccess / in-memory index / tiny cache / large-object options and every lookup kind must see every published object",
    "text": "Exhaustive over all operation sequences of length 4 (thorough 5, plus simulated length 8) with 2 writers x 3 writer kinds x 2 objects x 5 lookup kinds; the read-your-writes property is a TLC invariant of the spec and the replay checks the implementation against the expected visibility after every step.",
    "note": "Objects are two blobs; packs hold a single object; memfs filesystem; failed Close promises nothing and ends the history.",
}
CFG = """CONSTANTS Objs = {"o1", "o2"}  Writers = {"w1", "w2"}  Kinds = {"raw", "lazy", "pack"}
 ReadKinds = {"has", "size", "get", "iter", "prefix"}  MaxOps = %d  EmitAll = TRUE
INIT Init
NEXT Next
INVARIANTS TypeOK PublishedStaysVisible LooseSurvivesDrop EmitHist
CHECK_DEADLOCK FALSE
"""


def run(ctx):
    depth = 5 if ctx.thorough else 4
    r = ctx.tlc("ObjectVisibility", cfg_text=CFG % depth, workers=1, timeout=3000, heap="8g")
    hists = ctx.printed_json(r)
    n_ex = len(hists)
    r2 = ctx.tlc("ObjectVisibility", cfg_text=CFG % 8, mode="simulate", depth=9, num=2000 if ctx.thorough else 100, workers=1, timeout=2400)
    hists += ctx.printed_json(r2)
    # only histories in which something is published and then looked up are interesting
    seen, uniq = set(), []
    for h in hists:
        k = json.dumps(h, sort_keys=True)
        if k in seen:
            continue
        seen.add(k)
        if any(s["op"] in ("close", "set", "setpack") for s in h):
            uniq.append(h)
    if not uniq:
        raise vlib.ToolingError("no histories")
    p = ctx.path("ov_hist.ndjson")
    with open(p, "w") as f:
        for h in uniq:
            f.write(json.dumps(h) + "\n")
    ctx.vh("c18", [p], timeout=3400)
    ctx.cov["traces_validated_against_impl"] = ctx.cov["evaluations"]
    ctx.cov["bounds"] = {"exhaustive_depth": depth, "exhaustive_histories": n_ex, "replayed_histories": len(uniq), "option_variants": 4}
    ctx.cov["exhaustive"] = True
    ctx.cov["rule"] = ("every ObjectVisibility history of length %d + simulated length 8; those that publish at least one object are replayed under 4 option variants; "
                       "distinct = distinct histories" % depth)
