"""C50 Archives have git archive's content (Engine C: rule table, three-way)."""
LEVEL = "model_checking"
MANIFEST = {
    "engine": "tlc rule table + vhtree c50",
    "technique": "Entries(tree, prefix, pathspecs) rule of git archive transcribed in TLA+ and evaluated by TLC over all requests of a bounded domain; go-git's Repository.Archive output (tar, tar.gz, zip) and git archive's output are parsed with archive/tar and archive/zip and compared entry by entry with the rule",
    "text": "Exhaustive within the bound: trees = subsets of 9 leaf paths (regular, empty, executable, symlink, gitlink, nested directories, a 120-byte name, and the siblings a < ax/ < axd/ that are string prefixes of one another; quick: subsets with <=2 or >=8 leaves) x 4 prefixes ('', 'p/', 'p/q/', 'p-') x 10 pathspec sets (none, file, directory, nested, wildcard crossing '/', gitlink, two specs, a spec that matches nothing, a two-component spec axd/e whose first component has a file and a directory sibling that are proper string prefixes of it). For every request TLC computes the ordered entry list with type, mode, link target / content token, the archive comment and whether git refuses; every go-git archive in three formats and a seeded sample of git archives (quick 900, thorough 12 000 of the 40 960 request x format pairs) are compared with it. Spec theorems (same listing in tar and zip, parents before children, nothing outside prefix/selection, failure iff a pathspec selects nothing) are TLC invariants.",
    "note": "Archives are compared by parsed content (names, type, permission bits / presence of Unix attributes, link target, file bytes, mtime, comment), not byte for byte; uid/gid/uname, compression level and header padding are not compared. The treeish is always a commit id (tree-id requests use the current time and are not compared). Trusts Go's archive/tar and archive/zip readers on both legs.",
}

CFG = """CONSTANTS Emit = TRUE  Full = %s
INIT Init
NEXT Next
INVARIANTS SameListing NoDupNames AllWithoutSpec UnderPrefix ParentsFirst FailIffUnmatched
CHECK_DEADLOCK FALSE
"""


def run(ctx):
    r = ctx.tlc("Archive", cfg_text=CFG % ("TRUE" if ctx.thorough else "FALSE"), timeout=3000)
    rep = ctx.vh("c50", [r.dir + "/archive_rows.ndjson"], pkg="vhtree", timeout=3000)
    ctx.cov["bounds"] = {"leaf_paths": 9, "trees": rep.get("extra", {}).get("trees"), "prefixes": 4, "pathspec_sets": 10,
                         "formats_gogit": ["tar", "tar.gz", "zip"], "formats_git": ["tar", "zip"],
                         "requests": rep.get("distinct"), "git_archives": rep.get("extra", {}).get("git_archives")}
    ctx.cov["exhaustive"] = True
    ctx.cov["rule"] = ("every request (tree, prefix, pathspecs) of spec/rules/Archive.tla is one TLC state; distinct = distinct requests; "
                       "non-trivial = go-git writes three archives per request which are parsed and compared with TLC's entry list; "
                       "git archive is asked for a seeded sample of (request, format) pairs (quick 900, thorough 12000)")
    ctx.cov["traces_validated_against_impl"] = ctx.cov["evaluations"]
    ctx.assumptions += [
        "leaf kinds and contents are rendered one-to-one (blob text 'c:<path>\\n', the empty blob, link target 'a', gitlink to an absent commit)",
        "zip modes are compared as 'no Unix attributes' vs permission bits, as recorded in the central directory (creator system + external attributes)",
        "the git leg of the quick tier is a seeded sample of 900 archives (one process each); spec errors would show there or in the thorough tier",
    ]
