"""C51 Commit-graph files interoperate with git (Engine C: rule table over DAGs)."""
import random

LEVEL = "model_checking"
MANIFEST = {
    "engine": "tlc CommitGraphFile rule table + vhdag2 c51",
    "technique": "per-commit commit-graph content (parent slots and extra-edge list, time, topological level, corrected commit date, offset/overflow class, chunk set) derived in TLA+ for generated DAGs; git-written files and split chains read through go-git are compared with it, go-git-written files must pass git commit-graph verify and read back equal",
    "text": "For 5 hand-made histories (two octopus merges in one file, offsets exactly 2^31-1 / 2^31 / 2^32-1 / 2^32 / 2^32+1, corrected date taken from the last parent, single root, level from the second parent) and seeded generated ones (6 commits, <= 4 ordered parents, 12 instants incl. 2^31 / 2^32 gaps, 1-3 chain layers): every commit of every file / chain git writes is read by go-git with the TLA+-derived parents, tree, time, generation v1 and v2; every file go-git's Encoder writes (from the derived values and re-encoding git's chain) passes `git commit-graph verify` and is read back identically. Spec-level theorems (two definitions of the level agree, generation/corrected date strictly increase along edges, chunk rules) are TLC invariants.",
    "note": "git 2.39.5 is the second witness: its own file is decoded by a minimal reader in the harness only to check the TLA+ values (disagreement = tooling error). go-git has no chain writer, so 'chain go-git writes' is covered as re-encoding a chain into one file. Bloom filter chunks, SHA-256 repositories, > 6 commits per file and the fanout beyond the generated ids are not covered.",
}

CFG = """CONSTANTS
 Graphs <- MCGraphs
 Emit = TRUE
INIT Init
NEXT Next
INVARIANTS GenAgrees GenMonotone GenTight CDMonotone OffNonNeg OffZeroIffOwn ExtraCount ChunkRule
CHECK_DEADLOCK FALSE
"""


def run(ctx):
    rnd = random.Random(ctx.seed)
    nrand = 300 if ctx.thorough else 25
    keys = [[rnd.randrange(1 << 20) for _ in range(6)] for _ in range(nrand)]
    mod = ("---- MODULE MCCommitGraphGen ----\nEXTENDS MCCommitGraphFile\nMCGraphs == MCFixed \\o <<%s>>\n====\n"
           % ", ".join("RandGraph(<<%s>>)" % ", ".join(map(str, k)) for k in keys))
    r = ctx.tlc("MCCommitGraphGen", cfg="CommitGraph_gen.cfg", cfg_text=CFG, files={"MCCommitGraphGen.tla": mod}, workers=4, timeout=1800)
    ctx.cov["bounds"] = {"fixed_graphs": 5, "generated_graphs": nrand, "commits": 6, "max_parents": 4, "instants": 12, "layers": "1-3"}
    ctx.cov["exhaustive"] = False
    ctx.cov["rule"] = ("one TLC state per history (5 fixed + %d decoded from seeded keys over 6 commits x <=4 ordered parents x 12 instants x 2 cuts); "
                       "distinct = distinct histories; each is bound to 2 git-written layouts read by go-git and 2 go-git-written files verified by git" % nrand)
    ctx.vh("c51", [r.dir + "/commitgraph_rows.ndjson"], pkg="vhdag2", timeout=3000)
    ctx.assumptions += [
        "instants [b, s] are rendered as 1000000000 + b*2^31 + s seconds (b is the symbolic large gap; TLC integers are 32 bit)",
        "git's file is taken as the witness for the spec values through a minimal decoder in the harness (spec-vs-git leg only)",
        "git commit-graph verify is the acceptance test for files written by go-git",
    ]
