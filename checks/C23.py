"""C23 Concurrent reads on shared storage are correct and race-free (Engine B: trace validation under perturbed schedules + Go race detector)."""
import glob
import json
import os
import re
import vlib

LEVEL = "model_checking"
MANIFEST = {
    "engine": "tlc PinnedHandles + vhgc c23h + tlc TracePinnedHandles + tlc MCObjectReads + vhgc c23 (gated / free-running drivers) + tlc TraceObjectReads + vhgc-race c23race",
    "technique": "R reader goroutines share one filesystem.Storage while a writer on a second Storage of the same repository adds loose objects, packs, references and repacks; schedules are seeded and perturbed at every filesystem step and verif yield point (gated scheduler: one step at a time; and free-running with seeded yields); every call is logged invoke/response and TLC decides each recorded history against the ObjectReads oracle (a read returns the stored value, or not-found only if the key can be absent at an instant of the read: linearizability against the set of published keys), whose closed form TLC proves equal to textbook linearizability on all small histories; a second driver (5 packs, fd pool 1-4, no writer) mixes long-lived IterEncodedObjects walks, abbreviated-hash lookups whose run ends inside / at the end of a fanout bucket, plain reads and CloseIdleDescriptors - free, gated, and in the directed order that is PinnedHandles' counterexample for an unmatched release (walker stopped inside pack X, prefix lookup on X, eviction, walker resumes) - and every SharedFile acquire/release event, attributed to the calling goroutine, is folded through PinnedHandles (every release matches an acquire of the same reader; a held descriptor is never closed); the same driver built with -race decides the 'never race' clause by the Go race detector",
    "text": "fd-pool capacities 1/2/256 x lazy/in-memory idx x 2-4 readers x 8 writer programs (loose, pack, repack orders) x optional reader-side Reindex, object-cache of 256 bytes; object (content, presence, size, type), reference and index reads; quick 24 histories, thorough 240; oracle equivalence exhaustive for <= 1 publish + <= 2 reads (thorough 3) of a key, all interleavings.",
    "note": "The return-value clause is decided by TLC on recorded histories; the 'never race on shared memory' clause is decided by the Go race detector (a dynamic tool outside the model-checking family), steered by the same model-driven driver without any shared logging. Schedules are sampled, not exhaustive; a goroutine that blocks on an in-memory lock while its holder is parked is detected by a timeout, so gated schedules are reproducible only up to those timeouts. Verification hooks exist in sharedfile / fdpool only (none in storage/filesystem/object.go): the other yield points are the filesystem steps. The writer's references are written once each; PackRefs and index rewrites by the writer are left to C16 / C20.",
}
CFG_MC = """CONSTANTS MaxReads = %d
INIT Init
NEXT Next
INVARIANTS Equivalent FastIsSame ClassesConsistent
CHECK_DEADLOCK FALSE
"""


def keykind(k):
    return {"o": "object", "r": "reference", "i": "index", "w": "walk"}[k[0]]


def errclass(msg):
    m = msg.lower()
    if m.startswith("panic"):
        return "panic"
    if "invalid checksum" in m:
        return "invalid-checksum"
    if "already closed" in m:
        return "file-already-closed"
    if "not found" in m or "does not exist" in m or "no such file" in m:
        return "pack-file-gone"
    return re.sub(r"[^a-z ]+", "", m).strip().replace(" ", "-")[:50]


def signature(op, bad):
    sc = bad["scen"]
    cls = bad["class"]
    if cls == "error":
        cls = "error:" + errclass(op["val"]["err"])
    kk = keykind(op["keys"][0])
    head = "read|%s|%s" % (kk, cls)
    if kk != "object":
        # stable references and the index: nobody writes them; what matters is whether readers overlap
        return head + "|overlapping-read-of-same-key=" + str(sc["coread"]).lower()
    if sc["repack"] != "none":
        return head + "|writer-repack=" + sc["repack"]
    tail = "|pub=%s|reindexed=%s" % ("+".join(sorted(sc["pubvia"])) or "never", str(sc["reindexed"]).lower())
    if bad["class"] != "stale-notfound":
        tail = "|api=" + op["api"] + tail
    return head + tail


def selftest_histories(hists):
    """Four corrupted single-read histories over the first history's universe."""
    h0 = hists[0]
    present = [k for k in h0["init"] if k.startswith("o:")][0]
    never = [k for k in h0["stored"] if k.startswith("o:never")][0]
    st = h0["stored"][present]
    good = {"r": "found", "t": st["t"], "size": st["size"], "c": st["c"], "err": ""}

    def mk(i, key, val):
        op = {"p": 1, "kind": "read", "api": "full", "call": "selftest", "keys": [key], "val": val, "inv": 1, "rsp": 2}
        return {"id": 900000 + i, "n": 2, "cfg": h0["cfg"], "init": h0["init"], "stored": h0["stored"], "ops": [op], "steps": 0, "steals": 0}
    return {
        "wrong-content": mk(1, present, dict(good, c="0" * 40)),
        "phantom": mk(2, never, dict(good, t=h0["stored"][never]["t"], size=h0["stored"][never]["size"], c=h0["stored"][never]["c"])),
        "stale-notfound": mk(3, present, {"r": "notfound", "t": "", "size": 0, "c": "", "err": ""}),
        "error": mk(4, present, {"r": "error", "t": "", "size": 0, "c": "", "err": "boom"}),
    }


def race_reports(ctx, logbase):
    """Parse Go race detector reports: signature = the two top go-git frames."""
    sigs = {}
    for f in glob.glob(logbase + "*"):
        txt = open(f).read()
        for rep in txt.split("WARNING: DATA RACE")[1:]:
            # the go-git API entry point (outermost go-git frame) of each of the two conflicting accesses:
            # function names only, stable under refactoring of the internals
            blocks = re.split(r"\n\n", rep.strip())
            tops = []
            for b in blocks[:2]:
                entry = None
                for fn in re.findall(r"^\s+([^\s/][^\s]*?)\(\)?\s*$", b, re.M):
                    if fn.startswith("main.") or fn.startswith("verifharness/"):
                        break  # the driver called go-git here; what follows in the log is not part of this stack
                    m = re.match(r"github\.com/go-git/go-git/v6/(.*)", fn)
                    if m and not m.group(1).startswith(("x/verifbridge", "internal/verifhook")):
                        entry = m.group(1)
                if entry:
                    tops.append(entry)
            sig = "race|" + ("|".join(sorted(set(tops))) or "no-go-git-frame")
            sigs.setdefault(sig, rep[:2500])
    return sigs


CFG_PH = """CONSTANTS Holders = {"r1", "r2", "r3"} MaxHold = 2 Faulty = %s
INIT Init
NEXT Next
INVARIANTS %s
"""


def handles(ctx):
    """Descriptor side: PinnedHandles (model half), then the handle driver judged by TracePinnedHandles + ObjectReads."""
    ctx.tlc("PinnedHandles", cfg="ph_ok.cfg", cfg_text=CFG_PH % ("FALSE", "Balanced PinnedOpen ReadSafe"), workers=1, timeout=600)
    bad = ctx.tlc("PinnedHandles", cfg="ph_faulty.cfg", cfg_text=CFG_PH % ("TRUE", "ReadSafe"), workers=1, timeout=600,
                  expect_violation=True, count=False)
    if not bad.violated:
        raise vlib.ToolingError("PinnedHandles with an unmatched release does not reach a read on a closed descriptor: the model is vacuous")
    runs = 60 if ctx.thorough else 10
    hp, pp = ctx.path("handle_hist.ndjson"), ctx.path("pinned.ndjson")
    ctx.vh("c23h", [hp, pp, runs], pkg="vhgc", timeout=1800)
    hists = [json.loads(l) for l in open(hp)]
    t = ctx.tlc("TracePinnedHandles", cfg="TracePinnedHandles.cfg", files={"pinned.ndjson": open(pp).read()}, timeout=1800,
                dirname="tla-pinned", workers=1, count=False)
    traces = {}
    for l in open(pp):
        x = json.loads(l)
        traces[x["id"]] = x
    n = 0
    cfg_of = {h["id"]: h["cfg"] for h in hists}
    for l in open(os.path.join(t.dir, "pinned_verdicts.ndjson")):
        v = json.loads(l)
        n += 1
        if not v["ok"]:
            tr = traces[v["id"]]
            ev = tr["ev"][v["at"] - 1]
            who = "reader" if v["h"].startswith("r") else "internal-goroutine"
            ctx.diverge("handle|%s|%s-by-%s" % (v["why"], ev["ev"].lower(), who),
                        "descriptor event trace rejected by PinnedHandles: %s at event %d (%s by %s, refs=%d open=%d)" % (
                            v["why"], v["at"], ev["ev"], v["h"], ev["refs"], ev["open"]),
                        {"cfg": cfg_of.get(tr["run"]), "descriptor": tr["file"], "events_up_to_rejection": tr["ev"][max(0, v["at"] - 12):v["at"]]})
    if n != len(traces):
        raise vlib.ToolingError("TracePinnedHandles judged %d of %d descriptor traces" % (n, len(traces)))
    ctx.cov["descriptor_traces_validated"] = n
    return hists


def run(ctx):
    hhists = handles(ctx)
    r = ctx.tlc("MCObjectReads", cfg_text=CFG_MC % (3 if ctx.thorough else 2), workers=2, timeout=1200)
    runs = 240 if ctx.thorough else 24
    hp = ctx.path("objreads.ndjson")
    ctx.vh("c23", [hp, runs], pkg="vhgc", timeout=3000)
    hists = [json.loads(l) for l in open(hp)]
    if len(hists) != runs:
        raise vlib.ToolingError("driver recorded %d of %d histories" % (len(hists), runs))
    hists += hhists  # the handle driver's API histories go through the same oracle
    # self-test of the trace oracle: corrupted copies of a recorded history must be rejected with the right class
    probes = selftest_histories(hists)
    verdicts = {}
    chunk = 60
    for c0 in range(0, len(hists), chunk):
        part = hists[c0:c0 + chunk] + (list(probes.values()) if c0 == 0 else [])
        data = "".join(json.dumps(h) + "\n" for h in part)
        d = "tla-trace-%d" % c0
        t = ctx.tlc("TraceObjectReads", cfg="TraceObjectReads.cfg", files={"objreads.ndjson": data}, timeout=1800,
                    dirname=d, workers=1, count=False)
        for l in open(os.path.join(t.dir, "objreads_verdicts.ndjson")):
            v = json.loads(l)
            verdicts[v["id"]] = v
    for pid in ("wrong-content", "phantom", "stale-notfound", "error"):
        v = verdicts.pop(probes[pid]["id"], None)
        if v is None or v["acc"] or pid not in [b["class"] for b in v["bad"]]:
            raise vlib.ToolingError("trace oracle self-test: corrupted history not rejected as %s: %s" % (pid, v))
    if len(verdicts) != len(hists):
        raise vlib.ToolingError("TraceObjectReads judged %d of %d histories" % (len(verdicts), len(hists)))
    rejected = 0
    reads = 0
    for h in hists:
        reads += sum(1 for o in h["ops"] if o["kind"] == "read")
        v = verdicts[h["id"]]
        if not v["acc"]:
            rejected += 1
        for b in v["bad"]:
            op = h["ops"][b["i"] - 1]
            k = op["keys"][0]
            rel = [o for o in h["ops"] if k in o["keys"] or o["kind"] in ("repack", "reindex")]
            ctx.diverge(signature(op, b),
                        "%s of %s returned %s%s; ObjectReads class %s" % (op["call"], keykind(k), op["val"]["r"],
                                                                         (" (" + op["val"]["err"] + ")") if op["val"]["err"] else "", b["class"]),
                        {"cfg": h["cfg"], "history": h["id"], "op": op, "scenario": b["scen"],
                         "ops_on_this_key_and_repacks": [[o["p"], o["kind"], o["api"], o["val"]["r"], o["inv"], o["rsp"]] for o in rel][:60]})
    ctx.cov["traces_validated_against_impl"] = len(hists)
    ctx.cov["rejected_histories"] = rejected
    ctx.cov["reads_judged"] = reads
    # ---- the race clause: same driver, -race binary, no shared logging
    logbase = ctx.path("race.log")
    rr = 30 if ctx.thorough else 6
    ctx.vh("c23race", [rr], pkg="vhgc", race=True, timeout=3000, env={"GORACE": "halt_on_error=0 exitcode=0 log_path=" + logbase})
    races = race_reports(ctx, logbase)
    for sig, txt in sorted(races.items()):
        ctx.diverge(sig, "Go race detector: data race in go-git while readers share one Storage", {"report": txt})
    ctx.cov["race_reports"] = len(races)
    ctx.cov["bounds"] = {"histories": len(hists), "readers": "2-4", "pool_capacity": [1, 2, 256], "idx": ["lazy", "memory"],
                         "writer_programs": 8, "race_runs": rr, "oracle_equivalence_max_reads": 3 if ctx.thorough else 2}
    ctx.cov["exhaustive"] = False
    ctx.cov["rule"] = ("a case = one recorded history (configuration x seeded schedule); evaluations = API calls recorded; the oracle's equivalence with "
                       "linearizability is exhaustive on the small domain (states = histories enumerated by TLC); schedules are a seeded sample")
    ctx.assumptions += [
        "keys are published at most once and never deleted (the driver's writer programs guarantee it)",
        "log positions are taken under one mutex around each call, so invoke/response order is real-time order",
        "the race clause is decided by the Go race detector on free-running seeded runs; gated runs are not used for it (their hand-offs would order the goroutines)",
    ]
