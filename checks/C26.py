"""C26 Worktree operations never touch paths outside the worktree or in .git (generated attacks + recorded footprint, PathJail)."""
import json
import os
LEVEL = "model_checking"
MANIFEST = {
    "engine": "tlc TreeJail (attack scenarios) + tlc TreeJailHist (histories on one handle: directory -> symlink swaps between operations) + vhjail c26 (raw tree objects, recording billy fs below the worktree wrapper) + tlc TreeJailTrace",
    "technique": "TLC enumerates attack scenarios (malicious tree-entry paths incl. .git case/NTFS/HFS disguises and '..', symlink entries, planted symlinks, symlink-then-directory swaps) x protectNTFS x protectHFS; trees are written as raw objects; each Worktree API call's ordered filesystem requests are replayed in TLA+ over an evolving symlink table and every request must resolve (lexically and through links) inside the worktree and outside .git; sentinel hashes as independent observation",
    "text": "Scenario space: entry paths of <= 2 (quick) / <= 3 (thorough) components over 13 component classes, 5 link targets, 7 scenario shapes (incl. dangling planted links in the final position), 4 protect settings; a VERIF_SEED-stratified sample per scenario key is run (quick 400, thorough 4000 scenarios) through Checkout(force), CherryPick (onto a harmless base commit), Reset(hard), Status, Add, Restore, Move, Remove, Clean; plus 384 submodule scenarios (.gitmodules name x path x planted symlink; quick: 120 sampled) through Submodules(), Submodule.Init and Submodule.Repository with the storage filesystem recorded too.",
    "note": "Linux/osfs only: NTFS/HFS spellings are judged by name (a forbidden component must never be created or traversed when the corresponding protect flag is on), not by a folding filesystem. Pull and Submodule.Update (needs a clonable remote) are not driven. A final '.git' component below a subdirectory (gitlink file position) is tolerated. Only calls that reach the billy filesystem are seen: with the recorder in place go-git takes its generic code path; the os.Root based path it uses for checkout / reset / cherry-pick on a plain osfs (*BoundOS) worktree is exercised only by the history replay (TreeJailHist, on-disk environment), where it is judged by effects (newly staged index paths, sentinels), not by a recorded footprint.",
}

CFG = """CONSTANTS MaxDepth = %d EmitRows = TRUE
INIT Init
NEXT Next
INVARIANTS BenignIsOK BadSingleIsNotOK
CHECK_DEADLOCK FALSE
"""
HCFG = """CONSTANTS MaxDepth = 1 EmitRows = FALSE EmitHist = TRUE MaxProbes = %d
INIT HInit
NEXT HNext
INVARIANTS ThroughIffEscapes LexicallyInnocent KindMonotone Emit
CHECK_DEADLOCK FALSE
"""
TCFG = """CONSTANTS MaxDepth = 1 EmitRows = FALSE
INIT TInit
NEXT TNext
INVARIANTS CleanTraceAccepted
CHECK_DEADLOCK FALSE
"""


def run(ctx):
    import vlib
    md = 3 if ctx.thorough else 2
    r = ctx.tlc("TreeJail", cfg_text=CFG % md, timeout=1500)
    # stateful form: histories on one long-lived handle in which the kind of a component changes between operations
    h = ctx.tlc("TreeJailHist", cfg_text=HCFG % (2 if ctx.thorough else 1), workers=1, timeout=900)
    hists = ctx.printed_json(h)
    if not hists:
        raise vlib.ToolingError("C26: TreeJailHist printed no histories")
    with open(os.path.join(r.dir, "treejail_hist.ndjson"), "w") as f:
        for x in hists:
            f.write(json.dumps(x) + "\n")
    rep = ctx.vh("c26", [os.path.join(r.dir, "treejail_rows.ndjson"), r.dir], pkg="vhjail", timeout=3000)
    t = ctx.tlc("TreeJailTrace", cfg_text=TCFG, timeout=1500)
    cases = json.load(open(os.path.join(r.dir, "c26_cases.json")))
    traces = {}
    for line in open(os.path.join(r.dir, "c26_trace.ndjson")):
        if line.strip():
            x = json.loads(line)
            traces[x["id"]] = x
    nver = nbad = nreq = 0
    for line in open(os.path.join(r.dir, "c26_verdicts.ndjson")):
        if not line.strip():
            continue
        v = json.loads(line)
        nver += 1
        tr = traces[v["id"]]
        nreq += len(tr["recs"])
        c = cases.get(str(v["id"]), {})
        for b in v["bad"]:
            nbad += 1
            rec = tr["recs"][b["i"] - 1]
            key = c.get("scenario", {}).get("key", "?")
            opk = "path-check" if b["where"] == "probe-through-link" else tr["api"]   # one root cause whatever the API call
            ctx.diverge("%s|%s:%s|%s" % (opk, b["where"], b["via"], key),
                        "%s: filesystem call %s(%s)%s resolves (%s reading) %s" % (tr["api"], rec["op"], "/".join(rec["p"]), " [failed]" if rec["err"] else "", b["via"], b["where"]),
                        dict(c, fs_op=rec["op"], fs_path="/".join(rec["p"]), fs_failed=rec["err"], links_at_start=tr["links"]))
        for i in v.get("sbad", []):
            nbad += 1
            rec = tr["srecs"][i - 1]
            key = c.get("scenario", {}).get("key", "?")
            ctx.diverge("%s|storage-escape|%s" % (tr["api"], key),
                        "%s: storage filesystem call %s(%s) on %s%s leaves the git dir / its modules/<name> directory"
                        % (tr["api"], rec["op"], "/".join(rec["p"]), "/".join(rec["base"]), " [failed]" if rec["err"] else ""),
                        dict(c, fs_op=rec["op"], fs_path="/".join(rec["p"]), fs_base="/".join(rec["base"]), fs_failed=rec["err"]))
        nreq += len(tr.get("srecs", []))
    if nver != rep.get("traces") or nver == 0:
        raise vlib.ToolingError("C26: %d verdicts for %s traces" % (nver, rep.get("traces")))
    if not rep.get("extra", {}).get("c26_benign_checked_out"):
        raise vlib.ToolingError("C26: no benign scenario could be checked out (vacuous run)")
    ctx.cov["bounds"] = {"component_classes": 13, "max_depth": md, "link_targets": 5, "shapes": 7, "protect_settings": 4}
    ctx.cov["exhaustive"] = False
    ctx.cov["rule"] = ("scenarios of spec/rules/TreeJail.tla are TLC states; a seed-stratified sample per scenario key is materialised as raw objects and driven through "
                       "the worktree API; distinct = distinct scenarios; %d API-call traces with %d filesystem requests replayed by TLC, %d requests rejected" % (nver, nreq, nbad))
    ctx.cov["histories_enumerated_by_tlc"] = len(hists)
    ctx.cov["api_traces_judged_by_tlc"] = nver
    ctx.cov["fs_requests_judged_by_tlc"] = nreq
    ctx.cov["fs_requests_rejected"] = nbad
    ctx.assumptions += ["attack scenarios (TreeJail) run with the recorder as worktree filesystem; only the histories of TreeJailHist also run on a plain on-disk *BoundOS worktree (reused and fresh handle)",
                        "worktree side effects go through the billy filesystem given as worktree", "the scenario sample is seeded (VERIF_SEED) and stratified by scenario key",
                        "Stat/Lstat/Readlink of an entry is judged by its parent directory"]
