"""C44 Tree diffs are complete and agree with git (Engine C rule table + batch trace validation of rename output)."""
import json
import vlib

LEVEL = "model_checking"
MANIFEST = {
    "engine": "tlc rule table + vhtree c44 + tlc trace validation (DiffTreeTrace)",
    "technique": "flat-map diff semantics in TLA+ evaluated by TLC over all pairs of small trees whose names sort around '/'; every pair replayed into object.DiffTreeWithOptions, merkletrie.DiffTree over index / tree / worktree noders and git diff-tree -r --no-renames; go-git's rename-detecting output is recorded and judged by TLC with the admissibility predicate",
    "text": "Exhaustive within the bound: all ordered pairs of trees inside each sub-domain of MCDiffTree.tla (paths a-b a.b a|a/b|a/c a0 ab; leaves regular/executable/symlink/gitlink, two contents and the empty blob). For each pair the change set computed by TLC (Diff) is compared with four go-git diffs and with git; with rename detection on - run with every option record the row carries (RenameLimit 0/1/3, OnlyExactRenames; in the rename sub-domains, where one blob sits at several old and several new paths) - TLC checks that splitting every reported rename into its deletion and insertion gives exactly Diff(A,B) whatever the options, no path is used twice and applying the changes to A yields B. Spec theorems (Apply(A,Diff(A,B))=B, symmetry, one change per path, file<->directory swaps are delete+insert; every re-pairing of deletions with insertions is admissible and dropping any change never is) are TLC invariants.",
    "note": "Trees are written by git mktree and read back by go-git; the worktree leg uses a real directory (osfs). Rename *choice* (which deletion is paired with which insertion, similarity scores) is deliberately not compared with git -M: only admissibility is required. Trees deeper than one directory level, more than 5 leaf paths, unsorted or duplicate-carrying trees and ignore rules in the worktree noder are not covered.",
}

CFG = """CONSTANTS Cfgs <- %s  Emit = %s  TraceFile = "%s"
INIT %s
NEXT Next
%s
CHECK_DEADLOCK FALSE
"""
INV = "INVARIANTS Complete Minimal OnePerPath Symmetric WellFormed SwapIsDelIns NoRenameAdmissible AnyRepairingAdmissible DroppingIsInadmissible"

# corrupted records the trace spec must reject (self-test of the predicate, DESIGN 2.5)
SYNTH = [
    # the insertion of a/b is neither reported nor part of a rename
    ({"a": "f1", "a0": "f1", "a/b": "-"}, {"a": "-", "a0": "-", "a/b": "f1"},
     [{"fp": "a", "tp": "", "f": "f1", "t": "-"}, {"fp": "a0", "tp": "", "f": "f1", "t": "-"}], "lost-ins"),
    # a rename whose source is not deleted
    ({"a": "f1", "a0": "-"}, {"a": "f1", "a0": "f1"},
     [{"fp": "a", "tp": "a0", "f": "f1", "t": "f1"}], "invented-del"),
    # one deletion paired with two insertions
    ({"a": "f1", "a0": "-", "ab": "-"}, {"a": "-", "a0": "f1", "ab": "f1"},
     [{"fp": "a", "tp": "a0", "f": "f1", "t": "f1"}, {"fp": "a", "tp": "ab", "f": "f1", "t": "f1"}], "path-used-twice"),
]


def run(ctx):
    cfgs = "MCThorough" if ctx.thorough else "MCQuick"
    r = ctx.tlc("MCDiffTree", cfg_text=CFG % (cfgs, "TRUE", "", "Init", INV), timeout=3000)
    rows = r.dir + "/difftree_rows.ndjson"
    ren = ctx.path("difftree_rename.ndjson")
    rep = ctx.vh("c44", [ren, rows], pkg="vhtree", timeout=3000)
    n_real = rep.get("extra", {}).get("rename_records", 0)
    # --- batch trace validation: TLC judges go-git's rename-detecting output
    with open(ren, "a") as f:
        for a, b, out, _ in SYNTH:
            f.write(json.dumps({"a": a, "b": b, "o": {"limit": 1, "exact": False, "score": 60}, "out": out}) + "\n")
    recs = [json.loads(l) for l in open(ren)]
    t = ctx.tlc("MCDiffTree", cfg="MCDiffTree_trace.cfg", cfg_text=CFG % (cfgs, "FALSE", ren, "TInit", ""),
                timeout=3000, count=False)
    v = json.load(open(t.dir + "/difftree_rename_verdict.json"))
    if v["n"] != len(recs) or len(recs) != n_real + len(SYNTH):
        raise vlib.ToolingError("trace validation saw %s records, %d were recorded" % (v["n"], len(recs)))
    bad = {b["i"]: b["why"] for b in v["bad"]}
    oclass = {b["i"]: b["oc"] for b in v["bad"]}
    for k, (_, _, _, why) in enumerate(SYNTH):
        got = bad.pop(n_real + k + 1, None)
        if not got or why not in got:
            raise vlib.ToolingError("trace spec self-test: corrupted record %d (%s) was not rejected (%s)" % (k, why, got))
    for i, why in sorted(bad.items()):
        rec = recs[i - 1]
        a = ",".join("%s=%s" % kv for kv in sorted(rec["a"].items()) if kv[1] != "-")
        b = ",".join("%s=%s" % kv for kv in sorted(rec["b"].items()) if kv[1] != "-")
        ctx.diverge("DiffTree:renames|inadmissible|" + "+".join(sorted(why)) + "|" + oclass[i],
                    "DiffTreeWithOptions(DetectRenames, %s) on %s -> %s returned %s: %s" % (json.dumps(rec["o"]), a, b, json.dumps(rec["out"]), ", ".join(why)),
                    {"a": rec["a"], "b": rec["b"], "options": rec["o"], "out": rec["out"], "why": why})
    ctx.cov["rename_outputs_with_renames"] = v.get("renames", 0)
    ctx.cov["bounds"] = {"sub_domains": cfgs, "pairs": rep.get("distinct"), "trees": rep.get("extra", {}).get("trees"),
                         "legs": ["object.DiffTreeWithOptions(nil)", "merkletrie index-index", "merkletrie tree-index",
                                  "merkletrie index-worktree", "object.DiffTreeWithOptions(renames; RenameLimit 0/1/3, OnlyExactRenames) -> TLC", "git diff-tree -r --no-renames"]}
    ctx.cov["exhaustive"] = True
    ctx.cov["rule"] = ("every ordered pair of trees within a sub-domain of spec/rules/MCDiffTree.tla is one TLC state; distinct = distinct pairs; "
                       "non-trivial = each pair is diffed by four go-git paths and by git and each change set is compared with TLC's Diff; "
                       "each rename-detecting output is one trace record judged by TLC")
    ctx.assumptions += [
        "leaf values (kind, content) are rendered to real modes / blobs / gitlink ids one-to-one",
        "merkletrie noders of different kinds are compared with go-git's own equality (a 24-byte zero hash never equals), as worktree status does",
        "rename detection is only required to be admissible (re-pairing of deletions and insertions of the plain diff); the pairing chosen is not compared with git -M",
    ]
