"""C39 The receive-pack server applies only consistent ref updates (Engine A: replay of command lists + schedules)."""
import json
import vlib

LEVEL = "model_checking"
MANIFEST = {
    "engine": "tlc RecvPackGen/RecvPackConc + vhnet c39",
    "technique": "TLC enumerates every receive-pack command list (create/update/delete x correct, stale and zero old ids x present, pack-carried and missing new objects x duplicate names) as histories with the report and reference map computed by the TLA+ ReceivePack action; each history is sent as a crafted update-request to transport.ReceivePack (memory, filesystem) and to git receive-pack, and report + references are compared; two concurrent pushes are driven through every interleaving of their reference-storer steps and the outcome must be one the TLA+ serialisation set allows",
    "text": "Quick: every single command over 2 names x 4 old x 5 new ids and every list of <= 2 commands over 3 old x 4 new ids, x 3 initial servers; thorough: every list of <= 2 commands over the full id universe and of <= 3 commands over the reduced one, plus two-push histories; concurrent: every pair of contending single-command pushes x every interleaving of reference operations (thorough: pairs of <= 2-command pushes on one name, sampled interleavings). Theorems checked by TLC on the spec: no dangling reference, one status per command in order, frame, applied => saw old, no lost update.",
    "note": "Objects are symbols (c1,c2 on the server, c3 in the pack, cx nowhere); old ids of deletes are restricted to objects the server has (git skips the check otherwise); hooks, atomic pushes, shallow pushes, symbolic references and push certificates are outside the model; concurrency is scheduled at reference-storer-call granularity (storage internals are C16).",
}

SEQ = """CONSTANTS
 Names <- MCNames
 Olds <- %s
 News <- %s
 Pack <- MCPack
 Inits <- MCInits
 MaxCmds = %d
 MaxPushes = %d
 EmitAll = TRUE
INIT Init
NEXT Next
INVARIANTS NoDangling OnePerCommand Frame SawOld EmitHist
CHECK_DEADLOCK FALSE
"""

CONC = """CONSTANTS
 Names <- %s
 Olds <- MCOlds
 News <- MCNews
 Pack <- MCPack
 Inits <- %s
 MaxCmds = %d
 EmitAll = TRUE
INIT CInit
NEXT CNext
INVARIANTS ConcBound ConcOnePer NoLostUpdate ConcEmit
CHECK_DEADLOCK FALSE
"""


def run(ctx):
    hists = []
    ctx.cov["bounds"] = {}
    maxc = 3 if ctx.thorough else 2
    if ctx.thorough:
        r = ctx.tlc("MCRecvPack", cfg_text=SEQ % ("MCOlds", "MCNews", 2, 1), workers=1, timeout=1500)
        single = ctx.printed_json(r)
    else:
        # quick: every single command over the full id universe, every list of <= 2 commands over the reduced one
        # (3 old x 4 new ids: still stale / zero / correct old ids, present / pack-carried / missing new objects)
        r = ctx.tlc("MCRecvPack", cfg_text=SEQ % ("MCOlds", "MCNews", 1, 1), workers=1, timeout=1500)
        single = ctx.printed_json(r)
        rq = ctx.tlc("MCRecvPack", cfg_text=SEQ % ("MCOlds3", "MCNews3", 2, 1), workers=1, timeout=1500, cfg="MCRecvPack_q2.cfg")
        seenq = set(json.dumps(h, sort_keys=True) for h in single)
        for h in ctx.printed_json(rq):
            k = json.dumps(h, sort_keys=True)
            if k not in seenq:
                seenq.add(k)
                single.append(h)
    if ctx.thorough:
        # lists of up to 3 commands over the reduced id universe (3 old ids x 4 new ids)
        r3 = ctx.tlc("MCRecvPack", cfg_text=SEQ % ("MCOlds3", "MCNews3", 3, 1), workers=1, timeout=1500, cfg="MCRecvPack_three.cfg")
        seen = set(json.dumps(h, sort_keys=True) for h in single)
        for h in ctx.printed_json(r3):
            k = json.dumps(h, sort_keys=True)
            if k not in seen:
                seen.add(k)
                single.append(h)
    hists += single
    # two pushes in a row (the second one meets the objects and references the first one left)
    two_ids = ("MCOlds", "MCNews") if ctx.thorough else ("MCOlds3", "MCNews3")
    r2 = ctx.tlc("MCRecvPack", cfg_text=SEQ % (two_ids + (1, 2)), workers=1, timeout=1500, cfg="MCRecvPack_two.cfg")
    two = ctx.printed_json(r2)
    hists += two
    if not hists:
        raise vlib.ToolingError("TLC printed no receive-pack histories")
    hp = ctx.path("rp_hist.ndjson")
    with open(hp, "w") as f:
        for h in hists:
            f.write(json.dumps(h) + "\n")
    conc = []
    rc = ctx.tlc("MCRecvPackConc", cfg_text=CONC % ("MCNames", "MCInits", 1), workers=1, timeout=1500)
    conc += ctx.printed_json(rc)
    if not ctx.thorough:
        import random
        random.Random(ctx.seed).shuffle(conc)
        ctx.cov["bounds"]["concurrent_single_command_scenarios_enumerated"] = len(conc)
        conc = conc[:260]
    if ctx.thorough:
        rc2 = ctx.tlc("MCRecvPackConc", cfg_text=CONC % ("MCOneName", "MCInitsOne", 2), workers=1, timeout=1500,
                      cfg="MCRecvPackConc_two.cfg")
        more = ctx.printed_json(rc2)
        # the replay of a racy-only scenario costs up to 300 interleavings x 2 backends: seeded sample
        import random
        random.Random(ctx.seed).shuffle(more)
        ctx.cov["bounds"]["concurrent_two_command_scenarios_enumerated"] = len(more)
        conc += more[:600]
    if not conc:
        raise vlib.ToolingError("TLC printed no concurrent scenarios")
    cp = ctx.path("rp_conc.ndjson")
    with open(cp, "w") as f:
        for c in conc:
            f.write(json.dumps(c) + "\n")
    ctx.cov["bounds"].update({"names": 2, "old_ids": 4, "new_ids": 5, "inits": 3, "max_cmds_per_push": maxc,
                         "three_command_universe": "3 old ids x 4 new ids" if ctx.thorough else "not run",
                         "single_push_histories": len(single), "two_push_histories": len(two),
                         "concurrent_scenarios": len(conc), "backends": ["memory", "fs-memfs", "fs-osfs (sampled, with git)"]})
    ctx.cov["exhaustive"] = True
    ctx.cov["rule"] = ("every command list of <= %d commands (one TLC state each) and every pair of single-command pushes; distinct = distinct "
                       "(initial server, command lists); non-trivial = each history carries at least one command judged by the spec, "
                       "classes covered are reported in command_classes_covered; concurrent scenarios contend on a common name and are "
                       "run under both serial orders and every interleaving of reference operations" % maxc)
    ctx.vh("c39", [hp, cp], pkg="vhnet", timeout=3000)
    ctx.assumptions += [
        "object symbols are interpreted as real commits built with git fast-import; c3 travels in a pack written by git pack-objects",
        "git receive-pack (non-atomic, default configuration, bare repository) is the second witness on a seeded sample of histories",
        "concurrent pushes are interleaved at the granularity of reference-storer calls; the atomicity of a single CheckAndSetReference is C16's subject",
    ]
