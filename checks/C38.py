"""C38 Push transfers complete history and respects update rules (Engine A scenarios x client/server pairings)."""
import json
import random
import vlib

LEVEL = "model_checking"
MANIFEST = {
    "engine": "tlc PushGen + vhnet c38, vsrv, git daemon",
    "technique": "TLC enumerates push scenarios ((local, remote) reference pairs over small commit graphs: fast-forward, diverged, new, deleted, tag moved x refspec sets x force / force-with-lease ok|stale / atomic) with the per-item verdict and the remote post-state computed by the TLA+ Push action; a seeded sample is realised with git fast-import and pushed through go-git->go-git (file), go-git->git (git daemon receive-pack) and git->go-git (vsrv) after git->git confirmed the specification; remote refs, client status and git fsck --connectivity-only on the remote are compared",
    "text": "TLC: every scenario over 3 (thorough: all 18 connected) four-commit graphs x 3 local x 4 remote values of the pushed head x 5 tag pairs x 7 refspec sets x options (~8k / ~50k states); theorems: denied items untouched, only fast-forwards unless forced/leased, tags sticky, stale lease holds, atomic all-or-nothing. Replay: seeded sample walking the verdict keys round-robin (quick 4, thorough 80 scenarios x 3 pairings + git->git witness; plus quick 120 / thorough 2000 scenarios go-git->go-git in process).",
    "note": "Replay is a sample (each pairing costs ~40 git processes); prune is generated with one identity wildcard, one renaming wildcard and one exact renaming refspec (PruneGen: 2208 scenarios, forced and unforced, with and without prune); annotated tags / follow-tags, push options and http/ssh are not generated; a go-git client that aborts a whole push where git applies the allowed items is admitted (counted, not a divergence); git refuses --atomic against go-git's server (capability not advertised), those combinations are skipped on that leg.",
}

CFG = """CONSTANTS
 N = 4
 Dags <- %s
 LocalA <- MCLocalA
 RemoteA <- MCRemoteA
 TagPairs <- MCTagPairs
 ItemSets <- MCItemSets
 EmitAll = TRUE
INIT Init
NEXT Next
INVARIANTS DeniedUntouched OkExact OnlyFF TagsSticky LeaseHolds AtomicAllOrNothing Emit
CHECK_DEADLOCK FALSE
"""


PRUNE_CFG = """CONSTANTS
 N = 4
 Dags <- MCQDags
 LAs <- MCLAs
 LBs <- MCLBs
 RVals <- MCRVals
 EmitAll = TRUE
INIT Init
NEXT Next
INVARIANTS SourceKept NoPruneNoDelete PrunedOnlyOrphans OutsideUntouched DeniedKept Emit
CHECK_DEADLOCK FALSE
"""


def key(s):
    return (tuple(s["out"]["verdict"]), s["scn"]["items"], s["scn"]["force"], s["scn"]["lease"], s["scn"]["atomic"], s["scn"]["ra"] == 0)


def prio(k):
    # lease handling is where client logic is richest: a lease on a reference that is absent on the remote
    # (deleted meanwhile) first -- so that the git witness sees it --, then the other lease keys, then the rest
    if k[3] == "stale" and k[5]:
        return 0
    return 1 if k[3] != "none" else 2


def run(ctx):
    r = ctx.tlc("MCPush", cfg_text=CFG % ("MCPDagsAll" if ctx.thorough else "MCPDags"), workers=1, timeout=1500)
    scs = ctx.printed_json(r)
    if not scs:
        raise vlib.ToolingError("TLC printed no push scenarios")
    rnd = random.Random(ctx.seed)
    rnd.shuffle(scs)
    strata = {}
    for s in scs:
        strata.setdefault(key(s), []).append(s)
    keys = sorted(strata, key=repr)
    rnd.shuffle(keys)
    keys.sort(key=prio)   # stable: shuffled within a priority class
    peers, bulk = (80, 2000) if ctx.thorough else (3, 90)
    want = peers + bulk
    picked = []
    while len(picked) < want and any(strata.values()):
        for k in keys:
            if strata[k] and len(picked) < want:
                picked.append(strata[k].pop())
    sp = ctx.path("push_scn.ndjson")
    with open(sp, "w") as f:
        for s in picked:
            f.write(json.dumps(s) + "\n")
    vsrv = ctx.build(pkg="vsrv")
    ctx.cov["bounds"] = {"scenarios_enumerated": len(scs), "verdict_keys": len(keys), "scenarios_replayed": len(picked),
                         "pairings": ["gogit->gogit file", "gogit->git daemon", "git->gogit vsrv", "git->git (witness)"]}
    ctx.cov["exhaustive"] = False
    ctx.cov["rule"] = ("TLC enumerates every push scenario of the bounded domain and checks the update-rule theorems on all of them; the replay takes a "
                       "seeded sample that walks the distinct (verdicts, refspec set, options) keys round-robin; distinct = distinct (scenario, pairing); "
                       "non-trivial = a real push whose remote refs, client status and remote connectivity are compared")
    ctx.vh("c38", [sp, vsrv, peers, bulk], pkg="vhnet", timeout=3400)
    # ---- push --prune with identity and renaming refspecs (PruneGen) ----
    rp = ctx.tlc("MCPrune", cfg_text=PRUNE_CFG, workers=1, timeout=1500)
    prs = ctx.printed_json(rp)
    if not prs:
        raise vlib.ToolingError("TLC printed no prune scenarios")
    rnd.shuffle(prs)
    pst = {}
    for s in prs:
        pst.setdefault((s["scn"]["kind"], s["scn"]["force"], s["scn"]["prune"]), []).append(s)
    # prune with a renaming refspec first (they reach the git->git witness and every pairing), forced before unforced
    pkeys = sorted(pst, key=lambda k: (not k[2], k[0] == "id", not k[1], k[0]))
    ppeers, pbulk = (40, 1500) if ctx.thorough else (3, 80)
    ppicked = []
    while len(ppicked) < ppeers + pbulk and any(pst.values()):
        for k in pkeys:
            if pst[k] and len(ppicked) < ppeers + pbulk:
                ppicked.append(pst[k].pop())
    pp = ctx.path("prune_scn.ndjson")
    with open(pp, "w") as f:
        for s in ppicked:
            f.write(json.dumps(s) + "\n")
    ctx.cov["bounds"]["prune_scenarios_enumerated"] = len(prs)
    ctx.cov["bounds"]["prune_scenarios_replayed"] = len(ppicked)
    ctx.vh("c38prune", [pp, vsrv, ppeers, pbulk], pkg="vhnet", timeout=3400)
    ctx.assumptions += [
        "git 2.39.5 -> git 2.39.5 on the same scenario is the witness for the specification (spec error if it disagrees)",
        "the client holds remote-tracking refs for the remote heads whose commits it has (go-git's lease check resolves them)",
        "the git client reaches go-git's server through harness/cmd/vsrv (transport.ReceivePack on stdin/stdout)",
    ]
