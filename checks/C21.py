"""C21 A crash at any filesystem operation leaves a readable, connected repository (Engine D: crash enumeration)."""
import collections
import json
import os
import re
import vlib

LEVEL = "fault_enumeration"
MANIFEST = {
    "engine": "vhcrash c21 (recording / crash-stopping billy filesystem) + tlc CrashFSTrace (Recoverable predicate, replay of the recorded steps) + tlc CrashFS (discipline model)",
    "technique": "each go-git mutation is run once over a recording filesystem wrapper, then re-run from the same snapshot with the process dying at EVERY mutating filesystem step (and with the torn variants n/2, n-1 of every Write); each resulting directory is opened afresh with go-git (open, config, index, list and resolve every reference, read every object reachable from every reference of the before-state and of the crash state) and, for one state per abstract position, with git (fsck --connectivity-only, show-ref, cat-file over the before-closure); the fact records are judged by the Recoverable predicate written in TLA+ and evaluated by TLC; the recorded step sequences are replayed by TLC through an abstract .git machine whose per-step prediction is compared with reality, and a small TLC model proves that the write-ordering discipline (no in-place rewrite of live files, objects before refs, new pack before loose objects / old packs go, packed-refs before loose refs go) implies recoverability at every crash point",
    "text": "Exhaustive over the crash points of 19 recorded operations (add, commit, checkout, reset --hard, fetch and clone over the file transport, receive-pack, RepackObjects, Prune, PackRefs, reference removal and compare-and-swap, SetConfig, SetIndex; loose and packed before-states) on one small repository per VERIF_SEED; the quick tier represents a run of >= 4 consecutive Writes to one not-yet-visible file by its first, a seeded middle and its last Write.",
    "note": "Process-stop model: completed filesystem operations persist, nothing is reordered (go-git issues no fsync to reason about). An interrupted clone is judged only from the moment HEAD holds its final value (before that the directory is the recognisable leftover of an unfinished clone, as with git). The worktree files themselves are outside the predicate. In-memory filesystem (memfs) for the runs, real directories for the git leg.",
}

MODEL_CFG = """INIT Init
NEXT Next
INVARIANTS TypeOK DisciplineImpliesRecoverable SafeStyleIsClean CompleteIsRecoverable Emit
CHECK_DEADLOCK FALSE
"""
TRACE_CFG = """INIT TInit
NEXT TNext
INVARIANTS BeforeStateRecoverable
CHECK_DEADLOCK FALSE
"""
GIT = {"git-fsck", "git-show-ref", "git-old-objects"}
FAMILY = {"commit-packed": "commit", "reset-hard-packed": "reset-hard", "fetch-packed": "fetch", "repack-packed": "repack",
          "pack-refs-again": "pack-refs", "reset": "reset-hard"}
MUTANTS = {"commit-ref-first", "pack-refs-remove-first"}
_EMPTY = re.compile(r"^(CreateNew|OpenTrunc|Truncate)\((HEAD|config|index|ref)\)$")


def norm(label):
    """CreateNew / OpenTrunc / Truncate of a live file all leave it empty: one abstract step in signatures."""
    m = _EMPTY.match(label)
    return "Empty(%s)" % m.group(2) if m else label


def windows(points):
    """points: [(after, next, failed[, payload])] in crash order -> [(conjunct, open, close, [payload])]:
    maximal runs of consecutive crash points whose first failed conjunct is the same."""
    out, cur = [], None
    for pt in points:
        a, n, fl = pt[0], pt[1], pt[2]
        c = fl[0] if fl else None
        if cur and c and cur[0] == c:
            cur[2] = n
            cur[3].append(pt)
            continue
        if cur and cur[0]:
            out.append(cur)
        cur = [c, a, n, [pt]]
    if cur and cur[0]:
        out.append(cur)
    return [(c, norm(a), norm(n), pts) for c, a, n, pts in out]


def run(ctx):
    # ---- model half: the discipline implies recoverability; predicted windows of go-git's real step order
    m = ctx.tlc("CrashFS", cfg_text=MODEL_CFG, workers=1, timeout=600)
    mstates = [s for s in ctx.printed_json(m) if isinstance(s, dict) and "style" in s]
    if not mstates:
        raise vlib.ToolingError("CrashFS printed no states")
    by = collections.defaultdict(list)
    for s in mstates:
        by[(s["op"], s["style"])].append(s)
    predicted = collections.defaultdict(set)
    for (op, style), ss in by.items():
        ss.sort(key=lambda s: s["k"] + (0.5 if s["torn"] else 0))   # the torn state of step k+1 lies between k and k+1
        ws = windows([(s["after"], s["next"], s["failed"]) for s in ss])
        if op in MUTANTS:
            if not ws or all(s["clean"] for s in ss):
                raise vlib.ToolingError("CrashFS: mutant %s/%s is not rejected by the discipline (vacuous guards)" % (op, style))
            continue
        if style == "safe" and ws:
            raise vlib.ToolingError("CrashFS: safe style of %s has an unrecoverable window %r" % (op, ws[0][:3]))
        if style == "gogit":
            for c, a, n, _ in ws:
                predicted[FAMILY.get(op, op)].add("%s|window=%s..%s" % (c, a, n))

    # ---- conformance half: record, crash everywhere, project
    d = m.dir
    rep = ctx.vh("c21", [d], pkg="vhcrash", timeout=3000)
    t = ctx.tlc("CrashFSTrace", cfg_text=TRACE_CFG, workers=1, timeout=1500)
    facts = [json.loads(l) for l in open(os.path.join(d, "c21_states.ndjson")) if l.strip()]
    verd = {}
    for l in open(os.path.join(d, "c21_verdicts.ndjson")):
        if l.strip():
            v = json.loads(l)
            verd[v["id"]] = v["failed"]
    pred = {}
    for l in open(os.path.join(d, "c21_pred.ndjson")):
        if l.strip():
            p = json.loads(l)
            pred[p["op"]] = p
    if len(verd) != len(facts) or not facts or len(facts) != rep.get("evaluations"):
        raise vlib.ToolingError("C21: %d verdicts for %d fact records (%s evaluations)" % (len(verd), len(facts), rep.get("evaluations")))

    byop = collections.defaultdict(list)
    for f in facts:
        byop[f["op"]].append(f)
    real = collections.defaultdict(set)
    nbad = 0
    drift = []
    guards = {}
    for op, fs in byop.items():
        fs.sort(key=lambda f: (f["k"], f["torn"]))
        fam = FAMILY.get(op, op)
        for c, a, n, pts in windows([(f["after"], f["next"], verd[f["id"]], f) for f in fs]):
            nbad += len(pts)
            key = "%s|window=%s..%s" % (c, a, n)
            real[fam].add(key)
            f0 = pts[0][3]
            what = ("%s: a crash between %s and %s leaves a repository that fails '%s' (%d crash states; first: after %d steps%s: %s%s)"
                    % (op, a, n, c, len(pts), f0["k"], (", %d bytes of the next write" % f0["torn"]) if f0["torn"] else "",
                       f0.get("err") or "", ("; git: " + f0["git"].get("err", "")) if f0.get("gitrun") and f0["git"].get("err") else ""))
            ctx.diverge("%s|%s" % (fam, key), what,
                        {"op": op, "states": [{k: x[3].get(k) for k in ("k", "torn", "after", "next", "err", "operr", "gitrun", "git")} for x in pts[:6]],
                         "failed": pts[0][2]})
        # the abstract machine's prediction against reality, per crash point (torn points have no recorded state)
        p = pred.get(op)
        if p is None:
            raise vlib.ToolingError("C21: no replay for " + op)
        g = collections.Counter()
        for s in p["steps"]:
            for v in s["viol"]:
                g["%s@%s" % (v, norm(s["lab"]))] += 1
        guards[op] = dict(g)
        for f in fs:
            if f["torn"]:
                continue
            pf = p["start"] if f["k"] == 0 else (p["steps"][f["k"] - 1]["failed"] if f["k"] <= len(p["steps"]) else None)
            if pf is None:
                continue
            rf = [c for c in verd[f["id"]] if c not in GIT]
            if pf[:1] != rf[:1]:
                drift.append({"op": op, "k": f["k"], "after": f["after"], "predicted": pf, "real": rf})
    explained, unexplained, unobserved = [], [], []
    for fam in sorted(set(real) | set(predicted)):
        for k in sorted(real[fam] | predicted[fam]):
            (explained if k in real[fam] and k in predicted[fam] else unexplained if k in real[fam] else unobserved).append(fam + "|" + k)
    ctx.cov["traces_validated_against_impl"] = len(pred)
    ctx.cov["crash_states_unrecoverable"] = nbad
    ctx.cov["spec_drift"] = drift[:40]
    ctx.cov["spec_drift_points"] = len(drift)
    ctx.cov["discipline_violations_per_operation"] = guards
    ctx.cov["windows_predicted_by_model_and_observed"] = explained
    ctx.cov["windows_observed_not_in_model"] = unexplained
    ctx.cov["windows_predicted_not_observed"] = unobserved
    ctx.cov["bounds"] = {"operations": len(byop), "crash_states": len(facts), "git_states": rep.get("extra", {}).get("c21_git_states"),
                         "per_operation": rep.get("extra", {}).get("c21_per_op")}
    ctx.cov["exhaustive"] = bool(ctx.thorough)
    ctx.cov["rule"] = ("one evaluation = one crash state (operation, number of completed mutating filesystem steps, torn bytes of the next Write), "
                       "produced by re-running the real operation with the process dying there; distinct = distinct (operation, step before, step after) "
                       "positions; thorough enumerates every prefix and every torn variant, quick thins long runs of Writes to one invisible file")
    ctx.assumptions += ["process-stop crash model: completed operations persist in order; no power-loss reordering",
                        "an unfinished clone is judged from the moment HEAD holds its final value",
                        "memfs for the crash runs; the git leg (sampled per abstract position) runs on materialised directories",
                        "re-runs are deterministic up to temp-file names (positions that differ from the recording are counted in per_operation)"]
