// Package fsutil: small helpers to snapshot / materialise directory trees across
// billy filesystems (templates built once with git, copied per replay).
package fsutil

import (
	"io"
	"io/fs"
	"os"
	"path/filepath"
	"sort"

	"github.com/go-git/go-billy/v6"
	"github.com/go-git/go-billy/v6/memfs"
	"github.com/go-git/go-billy/v6/util"
)

// Tree is a snapshot: path -> content; directories are keys ending in "/".
// Symlinks are stored as content with Mode&ModeSymlink in Modes.
type Tree struct {
	Files map[string][]byte
	Modes map[string]fs.FileMode
}

// SnapshotOS reads a directory from the real filesystem.
func SnapshotOS(root string) (*Tree, error) {
	t := &Tree{Files: map[string][]byte{}, Modes: map[string]fs.FileMode{}}
	err := filepath.Walk(root, func(p string, info os.FileInfo, err error) error {
		if err != nil {
			return err
		}
		rel, _ := filepath.Rel(root, p)
		if rel == "." {
			return nil
		}
		rel = filepath.ToSlash(rel)
		if info.IsDir() {
			t.Files[rel+"/"] = nil
			return nil
		}
		if info.Mode()&os.ModeSymlink != 0 {
			l, err := os.Readlink(p)
			if err != nil {
				return err
			}
			t.Files[rel] = []byte(l)
			t.Modes[rel] = os.ModeSymlink
			return nil
		}
		b, err := os.ReadFile(p)
		if err != nil {
			return err
		}
		t.Files[rel] = b
		t.Modes[rel] = info.Mode().Perm()
		return nil
	})
	return t, err
}

// Snapshot reads a whole billy filesystem.
func Snapshot(f billy.Filesystem) (*Tree, error) {
	t := &Tree{Files: map[string][]byte{}, Modes: map[string]fs.FileMode{}}
	err := util.Walk(f, "/", func(p string, info fs.FileInfo, err error) error {
		if err != nil {
			return err
		}
		rel := p
		for len(rel) > 0 && rel[0] == '/' {
			rel = rel[1:]
		}
		if rel == "" {
			return nil
		}
		if info.IsDir() {
			t.Files[rel+"/"] = nil
			return nil
		}
		if info.Mode()&os.ModeSymlink != 0 {
			l, err := f.Readlink(p)
			if err != nil {
				return err
			}
			t.Files[rel] = []byte(l)
			t.Modes[rel] = os.ModeSymlink
			return nil
		}
		fh, err := f.Open(p)
		if err != nil {
			return err
		}
		b, err := io.ReadAll(fh)
		fh.Close()
		if err != nil {
			return err
		}
		t.Files[rel] = b
		t.Modes[rel] = info.Mode().Perm()
		return nil
	})
	return t, err
}

// Materialise writes the snapshot into f (which should be empty).
func (t *Tree) Materialise(f billy.Filesystem) error {
	keys := make([]string, 0, len(t.Files))
	for k := range t.Files {
		keys = append(keys, k)
	}
	sort.Strings(keys)
	for _, k := range keys {
		if k[len(k)-1] == '/' {
			if err := f.MkdirAll(k[:len(k)-1], 0o755); err != nil {
				return err
			}
			continue
		}
		if t.Modes[k]&os.ModeSymlink != 0 {
			if err := f.Symlink(string(t.Files[k]), k); err != nil {
				return err
			}
			continue
		}
		m := t.Modes[k]
		if m == 0 {
			m = 0o644
		}
		if err := util.WriteFile(f, k, t.Files[k], m|0o200); err != nil {
			return err
		}
	}
	return nil
}

// Mem returns a fresh memfs holding the snapshot.
func (t *Tree) Mem() (billy.Filesystem, error) {
	m := memfs.New()
	return m, t.Materialise(m)
}
