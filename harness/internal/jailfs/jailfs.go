// Package jailfs is a transparent recording billy.Filesystem wrapper (C14, C40, C26).
//
// Every path handed to any billy method is appended to a shared log together with the chain of
// Chroot paths that led to the filesystem it was called on (Base) - nothing is cleaned or resolved
// here: the judgement (lexical and symlink resolution, the Allowed predicate) is made by
// spec/rules/PathJail.tla on the recorded records.  All calls are forwarded unchanged to the wrapped
// filesystem, Chroot included (the child is a wrapper around the real child), so go-git sees exactly
// the behaviour of the underlying filesystem.
package jailfs

import (
	"io/fs"
	"path"
	"path/filepath"
	"strings"
	"sync"
	"time"

	"github.com/go-git/go-billy/v6"
)

// Rec is one recorded filesystem call.
type Rec struct {
	Label string   `json:"api"`  // set by the harness: which API operation is running
	Op    string   `json:"op"`   // billy method
	Base  []string `json:"base"` // raw components of the Chroot chain (relative to the log's origin)
	Path  string   `json:"path"` // raw path argument
	Path2 string   `json:"path2,omitempty"`
	Tmp   bool     `json:"tmp"` // the path is a name handed out by TempFile on this log
	Err   bool     `json:"err"`
	Res   []string `json:"res,omitempty"` // Chroot: base of the child that was returned
}

// Log is shared by a wrapper and all its Chroot children.
type Log struct {
	mu    sync.Mutex
	label string
	recs  []Rec
	tmps  map[string]bool
	Off   bool
	// Origin, when set, is the host path of the origin the spec reasons about: the base of a Chroot child is
	// then taken from where the underlying filesystem says the child is rooted (Root()), not from the raw
	// argument (C40: a filesystem may clamp or resolve the argument; the judgement is about the real root).
	Origin string
}

func NewLog() *Log { return &Log{tmps: map[string]bool{}} }

func (l *Log) SetLabel(s string) { l.mu.Lock(); l.label = s; l.mu.Unlock() }

// Take returns the records so far and clears the log.
func (l *Log) Take() []Rec {
	l.mu.Lock()
	defer l.mu.Unlock()
	r := l.recs
	l.recs = nil
	return r
}

func key(base []string, p string) string {
	return path.Clean("/" + strings.Join(base, "/") + "/" + p)
}

func (l *Log) add(op string, base []string, p, p2 string, err error) {
	l.mu.Lock()
	defer l.mu.Unlock()
	if l.Off {
		return
	}
	l.recs = append(l.recs, Rec{Label: l.label, Op: op, Base: base, Path: p, Path2: p2, Tmp: l.tmps[key(base, p)], Err: err != nil})
}

// FS wraps a billy.Filesystem.
type FS struct {
	under billy.Filesystem
	base  []string
	log   *Log
}

// New wraps under; base is the position of under's root relative to the origin the spec reasons about
// (e.g. {"repo", ".git"}).
func New(under billy.Filesystem, base []string, log *Log) *FS {
	return &FS{under: under, base: append([]string{}, base...), log: log}
}

var _ billy.Filesystem = (*FS)(nil)

func (f *FS) Log() *Log                    { return f.log }
func (f *FS) Base() []string               { return append([]string{}, f.base...) }
func (f *FS) Underlying() billy.Filesystem { return f.under }

func (f *FS) Create(name string) (billy.File, error) {
	r, err := f.under.Create(name)
	f.log.add("Create", f.base, name, "", err)
	return r, err
}

func (f *FS) Open(name string) (billy.File, error) {
	r, err := f.under.Open(name)
	f.log.add("Open", f.base, name, "", err)
	return r, err
}

func (f *FS) OpenFile(name string, flag int, perm fs.FileMode) (billy.File, error) {
	r, err := f.under.OpenFile(name, flag, perm)
	f.log.add("OpenFile", f.base, name, "", err)
	return r, err
}

func (f *FS) Stat(name string) (fs.FileInfo, error) {
	r, err := f.under.Stat(name)
	f.log.add("Stat", f.base, name, "", err)
	return r, err
}

func (f *FS) Rename(from, to string) error {
	err := f.under.Rename(from, to)
	f.log.add("Rename", f.base, from, "", err)
	f.log.add("RenameTo", f.base, to, "", err)
	return err
}

func (f *FS) Remove(name string) error {
	err := f.under.Remove(name)
	f.log.add("Remove", f.base, name, "", err)
	return err
}

func (f *FS) Join(elem ...string) string { return f.under.Join(elem...) }

func (f *FS) TempFile(dir, prefix string) (billy.File, error) {
	r, err := f.under.TempFile(dir, prefix)
	f.log.add("TempFile", f.base, dir, prefix, err)
	if err == nil {
		f.log.mu.Lock()
		f.log.tmps[key(f.base, r.Name())] = true
		f.log.mu.Unlock()
	}
	return r, err
}

func (f *FS) ReadDir(p string) ([]fs.DirEntry, error) {
	r, err := f.under.ReadDir(p)
	f.log.add("ReadDir", f.base, p, "", err)
	return r, err
}

func (f *FS) MkdirAll(name string, perm fs.FileMode) error {
	err := f.under.MkdirAll(name, perm)
	f.log.add("MkdirAll", f.base, name, "", err)
	return err
}

func (f *FS) Lstat(name string) (fs.FileInfo, error) {
	r, err := f.under.Lstat(name)
	f.log.add("Lstat", f.base, name, "", err)
	return r, err
}

func (f *FS) Symlink(target, link string) error {
	err := f.under.Symlink(target, link)
	f.log.add("Symlink", f.base, link, target, err)
	return err
}

func (f *FS) Readlink(link string) (string, error) {
	r, err := f.under.Readlink(link)
	f.log.add("Readlink", f.base, link, "", err)
	return r, err
}

func (f *FS) Chroot(p string) (billy.Filesystem, error) {
	c, err := f.under.Chroot(p)
	if err != nil {
		f.log.add("Chroot", f.base, p, "", err)
		return nil, err
	}
	nb := append(append([]string{}, f.base...), strings.Split(p, "/")...)
	if f.log.Origin != "" {
		if rel, err := filepath.Rel(f.log.Origin, c.Root()); err == nil {
			nb = strings.Split(filepath.ToSlash(rel), "/")
			if rel == "." {
				nb = []string{}
			}
		}
	}
	f.log.add("Chroot", f.base, p, "", nil)
	f.log.mu.Lock()
	if n := len(f.log.recs); n > 0 && !f.log.Off {
		f.log.recs[n-1].Res = append([]string{}, nb...)
	}
	f.log.mu.Unlock()
	return &FS{under: c, base: nb, log: f.log}, nil
}

func (f *FS) Root() string { return f.under.Root() }

func (f *FS) Capabilities() billy.Capability { return billy.Capabilities(f.under) }

// billy.Change (optional): forwarded when the underlying filesystem supports it.
func (f *FS) Chmod(name string, mode fs.FileMode) error {
	c, ok := f.under.(billy.Chmod)
	if !ok {
		return billy.ErrNotSupported
	}
	err := c.Chmod(name, mode)
	f.log.add("Chmod", f.base, name, "", err)
	return err
}

func (f *FS) Lchown(name string, uid, gid int) error {
	c, ok := f.under.(billy.Change)
	if !ok {
		return billy.ErrNotSupported
	}
	err := c.Lchown(name, uid, gid)
	f.log.add("Lchown", f.base, name, "", err)
	return err
}

func (f *FS) Chown(name string, uid, gid int) error {
	c, ok := f.under.(billy.Change)
	if !ok {
		return billy.ErrNotSupported
	}
	err := c.Chown(name, uid, gid)
	f.log.add("Chown", f.base, name, "", err)
	return err
}

func (f *FS) Chtimes(name string, atime, mtime time.Time) error {
	c, ok := f.under.(billy.Change)
	if !ok {
		return billy.ErrNotSupported
	}
	err := c.Chtimes(name, atime, mtime)
	f.log.add("Chtimes", f.base, name, "", err)
	return err
}
