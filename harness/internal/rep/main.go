package rep

import (
	"fmt"
	"os"
	"sort"
)

// Sub is a harness subcommand.
type Sub func(args []string) error

var subs = map[string]Sub{}

// Register adds a subcommand (call from init()).
func Register(name string, f Sub) { subs[name] = f }

// Main dispatches os.Args[1] to a registered subcommand.  Exit 2 = tooling error.
func Main() {
	if len(os.Args) < 2 {
		var names []string
		for n := range subs {
			names = append(names, n)
		}
		sort.Strings(names)
		fmt.Fprintln(os.Stderr, "usage: <bin> <subcommand> [args]; subcommands:", names)
		os.Exit(2)
	}
	f, ok := subs[os.Args[1]]
	if !ok {
		fmt.Fprintln(os.Stderr, "unknown subcommand", os.Args[1])
		os.Exit(2)
	}
	if err := f(os.Args[2:]); err != nil {
		fmt.Fprintln(os.Stderr, "vh:", err)
		os.Exit(2)
	}
}
