// Package rep is the report format shared by all harness subcommands.
package rep

import (
	"bufio"
	"encoding/json"
	"fmt"
	"os"
	"strconv"
	"sync"
)

// Divergence is a disagreement between real go-git behaviour and the
// property-level specification.  Sig is the refactoring-stable signature
// (DESIGN.md §7): operation kind | divergence class | abstract scenario key.
type Divergence struct {
	Sig  string `json:"sig"`
	What string `json:"what"`
	Case any    `json:"case,omitempty"`
}

type Report struct {
	mu          sync.Mutex
	Evaluations int            `json:"evaluations"`
	Distinct    int            `json:"distinct"`
	Traces      int            `json:"traces"`
	Divergences []Divergence   `json:"divergences"`
	SpecErrors  []any          `json:"spec_errors,omitempty"`
	Samples     []any          `json:"samples"`
	Extra       map[string]any `json:"extra,omitempty"`
	perSig      map[string]int
}

func New() *Report { return &Report{Extra: map[string]any{}, perSig: map[string]int{}} }

// Diverge records a divergence; at most 25 cases per signature are kept.
func (r *Report) Diverge(sig, what string, c any) {
	r.mu.Lock()
	defer r.mu.Unlock()
	r.perSig[sig]++
	if r.perSig[sig] > 25 {
		return
	}
	r.Divergences = append(r.Divergences, Divergence{sig, what, c})
}

func (r *Report) SpecError(c any) {
	r.mu.Lock()
	defer r.mu.Unlock()
	if len(r.SpecErrors) < 50 {
		r.SpecErrors = append(r.SpecErrors, c)
	}
}

func (r *Report) Sample(c any) {
	r.mu.Lock()
	defer r.mu.Unlock()
	if len(r.Samples) < 5 {
		r.Samples = append(r.Samples, c)
	}
}

func (r *Report) Eval(n int) {
	r.mu.Lock()
	r.Evaluations += n
	r.mu.Unlock()
}

func (r *Report) Emit() error {
	r.Extra["divergence_counts"] = r.perSig
	if r.Samples == nil {
		r.Samples = []any{}
	}
	if r.Divergences == nil {
		r.Divergences = []Divergence{}
	}
	b, err := json.Marshal(r)
	if err != nil {
		return err
	}
	fmt.Println(string(b))
	return nil
}

// ReadNDJSON calls f for each JSON line of path.
func ReadNDJSON(path string, f func(line []byte) error) error {
	fh, err := os.Open(path)
	if err != nil {
		return err
	}
	defer fh.Close()
	sc := bufio.NewScanner(fh)
	sc.Buffer(make([]byte, 1<<20), 1<<28)
	for sc.Scan() {
		b := sc.Bytes()
		if len(b) == 0 {
			continue
		}
		if err := f(b); err != nil {
			return err
		}
	}
	return sc.Err()
}

func Seed() int64 {
	n, _ := strconv.ParseInt(os.Getenv("VERIF_SEED"), 10, 64)
	if n == 0 {
		n = 1
	}
	return n
}

func Thorough() bool { return os.Getenv("VERIF_TIER") == "thorough" }

func Scratch() string {
	s := os.Getenv("VERIF_SCRATCH")
	if s == "" {
		s = os.TempDir()
	}
	return s
}
