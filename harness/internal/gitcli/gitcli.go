// Package gitcli runs the installed git hermetically (second witness, DESIGN §1.3).
package gitcli

import (
	"fmt"
	"bytes"
	"os"
	"os/exec"
	"path/filepath"
)

var home string

func Available() bool {
	_, err := exec.LookPath("git")
	return err == nil
}

func Env() []string {
	if home == "" {
		home, _ = os.MkdirTemp(os.Getenv("VERIF_SCRATCH"), "githome")
	}
	return []string{
		"HOME=" + home, "PATH=" + os.Getenv("PATH"),
		"GIT_CONFIG_NOSYSTEM=1", "GIT_CONFIG_GLOBAL=/dev/null",
		"GIT_AUTHOR_NAME=A U Thor", "GIT_AUTHOR_EMAIL=author@example.com", "GIT_AUTHOR_DATE=@1000000000 +0000",
		"GIT_COMMITTER_NAME=C O Mitter", "GIT_COMMITTER_EMAIL=committer@example.com", "GIT_COMMITTER_DATE=@1000000000 +0000",
		"LC_ALL=C", "GIT_TERMINAL_PROMPT=0", "GIT_PAGER=cat",
	}
}

// Run runs git in dir with stdin; returns stdout, stderr, exit ok.
func Run(dir string, stdin []byte, args ...string) (string, string, error) {
	return RunEnv(dir, stdin, nil, args...)
}

func RunEnv(dir string, stdin []byte, extra []string, args ...string) (string, string, error) {
	c := exec.Command("git", args...)
	c.Dir = dir
	c.Env = append(Env(), extra...)
	if stdin != nil {
		c.Stdin = bytes.NewReader(stdin)
	}
	var o, e bytes.Buffer
	c.Stdout, c.Stderr = &o, &e
	err := c.Run()
	return o.String(), e.String(), err
}

// TempDir makes a scratch directory under VERIF_SCRATCH.
func TempDir(prefix string) string {
	d, err := os.MkdirTemp(os.Getenv("VERIF_SCRATCH"), prefix)
	if err != nil {
		panic(err)
	}
	return d
}

func Init(dir string, bare bool) error {
	args := []string{"init", "-q", "-b", "master"}
	if bare {
		args = append(args, "--bare")
	}
	args = append(args, dir)
	_, _, err := Run(filepath.Dir(dir), nil, args...)
	return err
}

// BatchOK runs `git <pre...> <arg>` once per arg, 16-way parallel, through
// xargs (forking from the Go process itself is slow under load here), and
// returns for each arg whether git exited 0.  Args must not contain NUL.
func BatchOK(dir string, pre []string, args []string) ([]bool, error) {
	var in bytes.Buffer
	for i, a := range args {
		in.WriteString(itoa(i))
		in.WriteByte(0)
		in.WriteString(a)
		in.WriteByte(0)
	}
	script := `if git`
	for _, p := range pre {
		script += " '" + p + "'"
	}
	script += ` "$2" >/dev/null 2>&1; then echo "$1 1"; else echo "$1 0"; fi`
	c := exec.Command("xargs", "-0", "-n", "2", "-P", "16", "sh", "-c", script, "_")
	c.Dir = dir
	c.Env = Env()
	c.Stdin = &in
	var o, e bytes.Buffer
	c.Stdout, c.Stderr = &o, &e
	if err := c.Run(); err != nil {
		return nil, fmt.Errorf("xargs: %v: %s", err, e.String())
	}
	res := make([]bool, len(args))
	seen := 0
	for _, ln := range bytes.Split(o.Bytes(), []byte("\n")) {
		if len(ln) == 0 {
			continue
		}
		var i, v int
		if _, err := fmt.Sscanf(string(ln), "%d %d", &i, &v); err != nil || i < 0 || i >= len(args) {
			return nil, fmt.Errorf("bad batch line %q", ln)
		}
		res[i] = v == 1
		seen++
	}
	if seen != len(args) {
		return nil, fmt.Errorf("batch: %d results for %d args", seen, len(args))
	}
	return res, nil
}

func itoa(i int) string { return fmt.Sprintf("%d", i) }
