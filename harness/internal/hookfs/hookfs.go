// Package hookfs wraps a billy.Filesystem so that a hook runs before every
// filesystem operation.  One wrapper serves the gated scheduler (the hook parks
// the goroutine until the scheduler grants the step: DESIGN §2.2), the recorder
// (footprints, crash enumeration: Engine D) and fault injection (the hook
// returns an error for the k-th operation).  No go-git change is needed
// because every storage and worktree side effect goes through billy.
package hookfs

import (
	"io/fs"
	"os"
	"path"
	"syscall"
	"time"

	"github.com/go-git/go-billy/v6"
)

// Op describes one filesystem step about to be executed.
type Op struct {
	Kind     string // Open OpenFile Create Stat Lstat ReadDir Rename Remove MkdirAll TempFile Symlink Readlink Read Write Truncate Close Lock Unlock Sync Chmod Chtimes
	Path     string // path relative to the outermost root ("" for handle ops: see File)
	Path2    string // rename target / symlink target
	Flag     int
	N        int    // bytes for Read/Write
	Ino      uint64 // inode of the handle for Lock/Unlock/Close (0 if unknown)
	Mutating bool
	Data     []byte // Write payload (not copied; valid during the hook only)
	H        *File  // the handle, for handle operations
}

// Hook runs before the operation; a non-nil error is returned to the caller
// instead of performing the operation.
type Hook func(op *Op) error

type FS struct {
	billy.Filesystem
	prefix string
	hook   Hook
}

// New wraps base; hook may be nil (then the wrapper is transparent).
func New(base billy.Filesystem, hook Hook) *FS { return &FS{Filesystem: base, hook: hook} }

func (f *FS) p(name string) string { return path.Join(f.prefix, name) }

func (f *FS) call(op *Op) error {
	if f.hook == nil {
		return nil
	}
	return f.hook(op)
}

func mutFlag(flag int) bool {
	return flag&(os.O_WRONLY|os.O_RDWR|os.O_CREATE|os.O_TRUNC|os.O_APPEND) != 0
}

func (f *FS) wrap(file billy.File, err error, name string) (billy.File, error) {
	if err != nil {
		return nil, err
	}
	return &File{File: file, fs: f, path: f.p(name)}, nil
}

func (f *FS) Create(name string) (billy.File, error) {
	if err := f.call(&Op{Kind: "Create", Path: f.p(name), Flag: os.O_RDWR | os.O_CREATE | os.O_TRUNC, Mutating: true}); err != nil {
		return nil, err
	}
	fl, err := f.Filesystem.Create(name)
	return f.wrap(fl, err, name)
}

func (f *FS) Open(name string) (billy.File, error) {
	if err := f.call(&Op{Kind: "Open", Path: f.p(name)}); err != nil {
		return nil, err
	}
	fl, err := f.Filesystem.Open(name)
	return f.wrap(fl, err, name)
}

func (f *FS) OpenFile(name string, flag int, perm fs.FileMode) (billy.File, error) {
	if err := f.call(&Op{Kind: "OpenFile", Path: f.p(name), Flag: flag, Mutating: mutFlag(flag)}); err != nil {
		return nil, err
	}
	fl, err := f.Filesystem.OpenFile(name, flag, perm)
	return f.wrap(fl, err, name)
}

func (f *FS) Stat(name string) (fs.FileInfo, error) {
	if err := f.call(&Op{Kind: "Stat", Path: f.p(name)}); err != nil {
		return nil, err
	}
	return f.Filesystem.Stat(name)
}

func (f *FS) Lstat(name string) (fs.FileInfo, error) {
	if err := f.call(&Op{Kind: "Lstat", Path: f.p(name)}); err != nil {
		return nil, err
	}
	return f.Filesystem.Lstat(name)
}

func (f *FS) Rename(from, to string) error {
	if err := f.call(&Op{Kind: "Rename", Path: f.p(from), Path2: f.p(to), Mutating: true}); err != nil {
		return err
	}
	return f.Filesystem.Rename(from, to)
}

func (f *FS) Remove(name string) error {
	if err := f.call(&Op{Kind: "Remove", Path: f.p(name), Mutating: true}); err != nil {
		return err
	}
	return f.Filesystem.Remove(name)
}

func (f *FS) TempFile(dir, prefix string) (billy.File, error) {
	if err := f.call(&Op{Kind: "TempFile", Path: f.p(path.Join(dir, prefix)), Mutating: true}); err != nil {
		return nil, err
	}
	fl, err := f.Filesystem.TempFile(dir, prefix)
	if err != nil {
		return nil, err
	}
	return &File{File: fl, fs: f, path: f.p(fl.Name())}, nil
}

func (f *FS) ReadDir(name string) ([]fs.DirEntry, error) {
	if err := f.call(&Op{Kind: "ReadDir", Path: f.p(name)}); err != nil {
		return nil, err
	}
	return f.Filesystem.ReadDir(name)
}

func (f *FS) MkdirAll(name string, perm fs.FileMode) error {
	if err := f.call(&Op{Kind: "MkdirAll", Path: f.p(name), Mutating: true}); err != nil {
		return err
	}
	return f.Filesystem.MkdirAll(name, perm)
}

func (f *FS) Symlink(target, link string) error {
	if err := f.call(&Op{Kind: "Symlink", Path: f.p(link), Path2: target, Mutating: true}); err != nil {
		return err
	}
	return f.Filesystem.Symlink(target, link)
}

func (f *FS) Readlink(link string) (string, error) {
	if err := f.call(&Op{Kind: "Readlink", Path: f.p(link)}); err != nil {
		return "", err
	}
	return f.Filesystem.Readlink(link)
}

func (f *FS) Chroot(p string) (billy.Filesystem, error) {
	c, err := f.Filesystem.Chroot(p)
	if err != nil {
		return nil, err
	}
	return &FS{Filesystem: c, prefix: f.p(p), hook: f.hook}, nil
}

func (f *FS) Capabilities() billy.Capability { return billy.Capabilities(f.Filesystem) }

// billy.Change (forwarded when the base supports it)
func (f *FS) Chmod(name string, mode fs.FileMode) error {
	c, ok := f.Filesystem.(billy.Change)
	if !ok {
		return billy.ErrNotSupported
	}
	if err := f.call(&Op{Kind: "Chmod", Path: f.p(name), Mutating: true}); err != nil {
		return err
	}
	return c.Chmod(name, mode)
}

func (f *FS) Lchown(name string, uid, gid int) error {
	c, ok := f.Filesystem.(billy.Change)
	if !ok {
		return billy.ErrNotSupported
	}
	return c.Lchown(name, uid, gid)
}

func (f *FS) Chown(name string, uid, gid int) error {
	c, ok := f.Filesystem.(billy.Change)
	if !ok {
		return billy.ErrNotSupported
	}
	return c.Chown(name, uid, gid)
}

func (f *FS) Chtimes(name string, atime, mtime time.Time) error {
	c, ok := f.Filesystem.(billy.Change)
	if !ok {
		return billy.ErrNotSupported
	}
	if err := f.call(&Op{Kind: "Chtimes", Path: f.p(name), Mutating: true}); err != nil {
		return err
	}
	return c.Chtimes(name, atime, mtime)
}

// File is a hooked file handle.
type File struct {
	billy.File
	fs   *FS
	path string
	ino  uint64
}

func (f *File) inode() uint64 {
	if f.ino == 0 {
		if st, err := f.File.Stat(); err == nil {
			if s, ok := st.Sys().(*syscall.Stat_t); ok {
				f.ino = s.Ino
			}
		}
	}
	return f.ino
}

// Path is the root-relative path the handle was opened with.
func (f *File) Path() string { return f.path }

func (f *File) Read(p []byte) (int, error) {
	if err := f.fs.call(&Op{Kind: "Read", H: f, Path: f.path, N: len(p)}); err != nil {
		return 0, err
	}
	return f.File.Read(p)
}

func (f *File) ReadAt(p []byte, off int64) (int, error) {
	if err := f.fs.call(&Op{Kind: "ReadAt", H: f, Path: f.path, N: len(p)}); err != nil {
		return 0, err
	}
	return f.File.ReadAt(p, off)
}

func (f *File) Write(p []byte) (int, error) {
	if err := f.fs.call(&Op{Kind: "Write", H: f, Path: f.path, N: len(p), Mutating: true, Data: p}); err != nil {
		return 0, err
	}
	return f.File.Write(p)
}

func (f *File) WriteAt(p []byte, off int64) (int, error) {
	if err := f.fs.call(&Op{Kind: "WriteAt", H: f, Path: f.path, N: len(p), Mutating: true, Data: p}); err != nil {
		return 0, err
	}
	return f.File.WriteAt(p, off)
}

func (f *File) Truncate(n int64) error {
	if err := f.fs.call(&Op{Kind: "Truncate", H: f, Path: f.path, N: int(n), Mutating: true}); err != nil {
		return err
	}
	return f.File.Truncate(n)
}

func (f *File) Close() error {
	if err := f.fs.call(&Op{Kind: "Close", H: f, Path: f.path, Ino: f.inode()}); err != nil {
		f.File.Close()
		return err
	}
	return f.File.Close()
}

func (f *File) Lock() error {
	if err := f.fs.call(&Op{Kind: "Lock", H: f, Path: f.path, Ino: f.inode()}); err != nil {
		return err
	}
	if l, ok := f.File.(billy.Locker); ok {
		return l.Lock()
	}
	return nil
}

func (f *File) Unlock() error {
	if err := f.fs.call(&Op{Kind: "Unlock", H: f, Path: f.path, Ino: f.inode()}); err != nil {
		return err
	}
	if l, ok := f.File.(billy.Locker); ok {
		return l.Unlock()
	}
	return nil
}

func (f *File) Sync() error {
	if err := f.fs.call(&Op{Kind: "Sync", H: f, Path: f.path, Mutating: true}); err != nil {
		return err
	}
	if s, ok := f.File.(billy.Syncer); ok {
		return s.Sync()
	}
	return nil
}
