// Package gate is the external scheduler of DESIGN §2.2: N goroutines run real
// go-git code over hookfs filesystems whose hook parks the goroutine before every
// filesystem step; the scheduler grants one step at a time to one process, so
// any interleaving of filesystem steps can be driven deterministically.  File
// locks are emulated in the scheduler's own table (keyed by inode) so that a
// blocked Lock is a *disabled* step rather than a hang.
package gate

import (
	"fmt"
	"math/rand"
	"sync"

	"verifharness/internal/hookfs"
)

type Event struct {
	P    int    `json:"p"`
	Ev   string `json:"ev"`             // "step" | "inv" | "res"
	Kind string `json:"kind,omitempty"` // fs op kind for steps; API op for inv/res
	Path string `json:"path,omitempty"`
	Arg  any    `json:"arg,omitempty"`
	Val  string `json:"val,omitempty"`
}

type proc struct {
	id       int
	ready    chan *hookfs.Op
	grant    chan struct{}
	done     chan struct{}
	pending  *hookfs.Op
	finished bool
}

type Sched struct {
	mu    sync.Mutex
	procs []*proc
	byID  map[int]*proc
	locks map[uint64]*hookfs.File // inode -> handle holding the emulated flock
	Log   []Event
	Steps []int // the pid schedule actually executed (one entry per granted step)
	on    bool
	cur   int
	kind  string
	// IsKey, when set, makes a schedule entry mean "one key step plus all following
	// non-key steps of that process" (alignment with the key-step granularity of the
	// TLA+ implementation model).  nil: every filesystem step is a schedule entry.
	IsKey func(op *hookfs.Op) bool
	// OnGrant is called for every granted step (bookkeeping for IsKey).
	OnGrant func(pid int, op *hookfs.Op)
	// WindowKinds / WindowDelay bias random schedules towards races inside short unlocked windows: a process
	// parked at a step whose kind is in WindowKinds is passed over (while others are enabled) up to
	// WindowDelay times, with probability 1/2 each time, so that the other processes run inside the window.
	WindowKinds map[string]bool
	WindowDelay int
	delayed     map[*proc]int
}

func New() *Sched { return &Sched{byID: map[int]*proc{}, locks: map[uint64]*hookfs.File{}} }

// Arm enables parking; before Arm the hooks are transparent (storage construction etc.).
func (s *Sched) Arm() { s.on = true }

// Hook returns the hookfs hook of process pid.
func (s *Sched) Hook(pid int) hookfs.Hook {
	p := s.proc(pid)
	return func(op *hookfs.Op) error {
		if !s.on {
			return nil
		}
		s.park(p, op)
		return nil
	}
}

func (s *Sched) proc(pid int) *proc {
	s.mu.Lock()
	defer s.mu.Unlock()
	if p, ok := s.byID[pid]; ok {
		return p
	}
	p := &proc{id: pid, ready: make(chan *hookfs.Op), grant: make(chan struct{}), done: make(chan struct{})}
	s.byID[pid] = p
	s.procs = append(s.procs, p)
	return p
}

func (s *Sched) park(p *proc, op *hookfs.Op) {
	p.ready <- op
	<-p.grant
}

// Go starts process pid running body.  Inside body use Call to wrap each API call.
func (s *Sched) Go(pid int, body func()) {
	p := s.proc(pid)
	go func() {
		defer close(p.done)
		body()
	}()
}

// Call logs inv, runs f (which passes through the gates), logs res.  The inv
// gate is itself a schedulable step, so invocation order is part of the schedule.
func (s *Sched) Call(pid int, op string, arg any, f func() string) {
	p := s.proc(pid)
	s.park(p, &hookfs.Op{Kind: "inv:" + op})
	s.Log = append(s.Log, Event{P: pid, Ev: "inv", Kind: op, Arg: arg})
	v := f()
	s.Log = append(s.Log, Event{P: pid, Ev: "res", Kind: op, Val: v})
}

// Park is a schedulable yield point of process pid that is not a filesystem step
// (verification hook yields).  No-op before Arm.
func (s *Sched) Park(pid int, kind string) {
	if !s.on {
		return
	}
	s.mu.Lock()
	p, ok := s.byID[pid]
	s.mu.Unlock()
	if ok {
		s.park(p, &hookfs.Op{Kind: "yield:" + kind})
	}
}

// SetKind / CurrentKind: a free-form tag the driver may attach to the running process
// (e.g. "evict" while inside the pool's eviction path).
func (s *Sched) SetKind(k string)    { s.kind = k }
func (s *Sched) CurrentKind() string { return s.kind }

// Current is the pid of the process that was granted the last step (the only one running).
func (s *Sched) Current() int { return s.cur }

func (s *Sched) enabled(p *proc) bool {
	if p.finished || p.pending == nil {
		return false
	}
	if p.pending.Kind == "Lock" && p.pending.Ino != 0 {
		if h, held := s.locks[p.pending.Ino]; held && h != p.pending.H {
			return false
		}
	}
	return true
}

// Run drives all processes to completion.  schedule is a sequence of pids; entries
// that are not enabled are skipped; when it is exhausted rnd (or round-robin) decides.
// Returns an error on deadlock.
func (s *Sched) Run(schedule []int, rnd *rand.Rand) error {
	// wait until every process is parked or finished
	wait := func(p *proc) {
		select {
		case op := <-p.ready:
			p.pending = op
		case <-p.done:
			p.finished = true
			p.pending = nil
		}
	}
	for _, p := range s.procs {
		wait(p)
	}
	si := 0
	rr := 0
	for steps := 0; ; steps++ {
		if steps > 100000 {
			return fmt.Errorf("schedule did not terminate")
		}
		var en []*proc
		live := 0
		for _, p := range s.procs {
			if !p.finished {
				live++
			}
			if s.enabled(p) {
				en = append(en, p)
			}
		}
		if live == 0 {
			return nil
		}
		if len(en) == 0 {
			return fmt.Errorf("deadlock: %d live processes, none enabled", live)
		}
		var pick *proc
		for si < len(schedule) && pick == nil {
			if q, ok := s.byID[schedule[si]]; ok && s.enabled(q) {
				pick = q
			}
			si++
		}
		if pick == nil {
			if rnd != nil {
				pick = en[rnd.Intn(len(en))]
				if len(en) > 1 && s.WindowKinds[pick.pending.Kind] {
					if s.delayed == nil {
						s.delayed = map[*proc]int{}
					}
					if s.delayed[pick] < s.WindowDelay && rnd.Intn(2) == 0 {
						s.delayed[pick]++
						var others []*proc
						for _, q := range en {
							if q != pick {
								others = append(others, q)
							}
						}
						pick = others[rnd.Intn(len(others))]
					} else {
						delete(s.delayed, pick)
					}
				}
			} else {
				pick = en[rr%len(en)]
				rr++
			}
		}
		op := pick.pending
		grant := func(op *hookfs.Op) {
			switch op.Kind {
			case "Lock":
				if op.Ino != 0 {
					s.locks[op.Ino] = op.H
				}
			case "Close", "Unlock":
				if op.Ino != 0 && s.locks[op.Ino] == op.H {
					delete(s.locks, op.Ino)
				}
			}
			if len(op.Kind) < 4 || op.Kind[:4] != "inv:" {
				s.Log = append(s.Log, Event{P: pick.id, Ev: "step", Kind: op.Kind, Path: op.Path})
			}
			if s.OnGrant != nil {
				s.OnGrant(pick.id, op)
			}
			pick.pending = nil
			s.cur = pick.id
			pick.grant <- struct{}{}
			wait(pick)
		}
		s.Steps = append(s.Steps, pick.id)
		grant(op)
		for s.IsKey != nil && !pick.finished && pick.pending != nil && !s.IsKey(pick.pending) && s.enabled(pick) {
			grant(pick.pending)
		}
	}
}
