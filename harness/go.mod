module verifharness

go 1.26.0
