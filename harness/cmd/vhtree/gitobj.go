package main

import (
	"bytes"
	"compress/zlib"
	"crypto/sha1"
	"encoding/hex"
	"fmt"
	"os"
	"path/filepath"
)

// writeLoose stores a raw object (any bytes, like `git hash-object --literally -w`) as a
// loose object below gitDir and returns its id.  Independent of go-git on purpose.
func writeLoose(gitDir, typ string, body []byte) (string, error) {
	hdr := []byte(fmt.Sprintf("%s %d\x00", typ, len(body)))
	h := sha1.New()
	h.Write(hdr)
	h.Write(body)
	id := hex.EncodeToString(h.Sum(nil))
	dir := filepath.Join(gitDir, "objects", id[:2])
	p := filepath.Join(dir, id[2:])
	if _, err := os.Stat(p); err == nil {
		return id, nil
	}
	if err := os.MkdirAll(dir, 0o755); err != nil {
		return "", err
	}
	var buf bytes.Buffer
	zw := zlib.NewWriter(&buf)
	zw.Write(hdr)
	zw.Write(body)
	zw.Close()
	return id, os.WriteFile(p, buf.Bytes(), 0o444)
}

func objID(typ string, body []byte) string {
	h := sha1.New()
	fmt.Fprintf(h, "%s %d\x00", typ, len(body))
	h.Write(body)
	return hex.EncodeToString(h.Sum(nil))
}
