package main

import (
	"archive/tar"
	"archive/zip"
	"bytes"
	"compress/gzip"
	"encoding/json"
	"fmt"
	"io"
	"math/rand"
	"os"
	"os/exec"
	"path/filepath"
	"sort"
	"strings"

	"verifharness/internal/gitcli"
	"verifharness/internal/rep"

	git "github.com/go-git/go-git/v6"
)

// C50: rows of spec/rules/Archive.tla (request = tree, prefix, pathspecs; the entry lists git archive
// writes for tar and zip, computed by TLC).  The harness builds every tree as a commit in one
// repository (trees by `git mktree`), asks go-git's Repository.Archive for tar, tar.gz and zip and
// `git archive` for tar and zip, parses all of them with archive/tar and archive/zip, projects the
// entries back to the spec's vocabulary (name, type, mode, data token) and compares with the row.

type c50Entry struct {
	Name string `json:"name"`
	Type string `json:"type"`
	Mode string `json:"mode"`
	Data string `json:"data"`
}
type c50Leaf struct {
	Name string `json:"name"`
	Kind string `json:"kind"`
	Data string `json:"data"`
}
type c50Row struct {
	Tree    []c50Leaf  `json:"tree"`
	Pre     string     `json:"pre"`
	Spec    []string   `json:"spec"`
	Fail    bool       `json:"fail"`
	Failwhy []string   `json:"failwhy"`
	Kinds   []string   `json:"speckinds"`
	Tar     []c50Entry `json:"tar"`
	Zip     []c50Entry `json:"zip"`
	Comment string     `json:"comment"`
	Mtime   string     `json:"mtime"`
}

const c50Time = 1000000000

var c50Long = "n" + strings.Repeat("o", 119)

func c50Name(s string) string { return strings.ReplaceAll(s, "nlong", c50Long) }

// data token <-> bytes
func c50Bytes(tok string) []byte {
	if tok == "empty" {
		return nil
	}
	return []byte(tok + "\n")
}
func c50Token(b []byte) string {
	if len(b) == 0 {
		return "empty"
	}
	s := string(b)
	if strings.HasPrefix(s, "c:") && strings.HasSuffix(s, "\n") {
		return strings.TrimSuffix(s, "\n")
	}
	return fmt.Sprintf("?%q", s)
}

type c50Parsed struct {
	entries []c50Entry
	comment string
	mtimes  []int64
}

func c50ParseTar(b []byte) (*c50Parsed, error) {
	p := &c50Parsed{}
	tr := tar.NewReader(bytes.NewReader(b))
	for {
		h, err := tr.Next()
		if err == io.EOF {
			return p, nil
		}
		if err != nil {
			return nil, err
		}
		if h.Typeflag == tar.TypeXGlobalHeader {
			p.comment = h.PAXRecords["comment"]
			continue
		}
		e := c50Entry{Name: h.Name, Mode: fmt.Sprintf("%o", h.Mode&0o7777)}
		switch h.Typeflag {
		case tar.TypeDir:
			e.Type = "dir"
		case tar.TypeSymlink:
			e.Type, e.Data = "link", h.Linkname
		case tar.TypeReg:
			e.Type = "file"
			c, err := io.ReadAll(tr)
			if err != nil {
				return nil, err
			}
			e.Data = c50Token(c)
		default:
			e.Type = fmt.Sprintf("?typeflag-%c", h.Typeflag)
		}
		p.entries = append(p.entries, e)
		p.mtimes = append(p.mtimes, h.ModTime.Unix())
	}
}

func c50ParseZip(b []byte) (*c50Parsed, error) {
	zr, err := zip.NewReader(bytes.NewReader(b), int64(len(b)))
	if err != nil {
		return nil, err
	}
	p := &c50Parsed{comment: zr.Comment}
	for _, f := range zr.File {
		e := c50Entry{Name: f.Name, Mode: "dos", Type: "file"}
		unix := f.CreatorVersion>>8 == 3
		attr := f.ExternalAttrs >> 16
		if unix {
			e.Mode = fmt.Sprintf("%o", attr&0o7777)
		}
		rc, err := f.Open()
		if err != nil {
			return nil, err
		}
		c, err := io.ReadAll(rc)
		rc.Close()
		if err != nil {
			return nil, err
		}
		switch {
		case strings.HasSuffix(f.Name, "/"):
			e.Type = "dir"
			if unix && attr&0o170000 == 0o040000 {
				e.Mode = fmt.Sprintf("%o", attr&0o7777)
			}
		case unix && attr&0o170000 == 0o120000:
			e.Type, e.Data = "link", string(c)
		default:
			e.Data = c50Token(c)
		}
		p.entries = append(p.entries, e)
		p.mtimes = append(p.mtimes, f.Modified.Unix())
	}
	return p, nil
}

// role of an entry in the request, for signatures
func c50Role(e c50Entry, row *c50Row) string {
	if e.Name == row.Pre {
		return "prefix-dir"
	}
	for _, l := range row.Tree {
		if strings.TrimSuffix(strings.TrimPrefix(e.Name, row.Pre), "/") == l.Name {
			return l.Kind
		}
	}
	return e.Type
}

func init() { rep.Register("c50", c50) }

func c50(args []string) error {
	if len(args) < 1 {
		return fmt.Errorf("usage: c50 rows.ndjson")
	}
	r := rep.New()
	rnd := rand.New(rand.NewSource(rep.Seed()))
	if !gitcli.Available() {
		return fmt.Errorf("c50 needs git to build the repository")
	}
	work := gitcli.TempDir("c50")
	repoDir := filepath.Join(work, "r.git")
	if err := gitcli.Init(repoDir, true); err != nil {
		return err
	}
	var rows []c50Row
	if err := rep.ReadNDJSON(args[0], func(line []byte) error {
		var row c50Row
		if err := json.Unmarshal(line, &row); err != nil {
			return err
		}
		rows = append(rows, row)
		return nil
	}); err != nil {
		return err
	}

	// ---------------------------------------------------------------- repository: one commit per tree
	treeKey := func(ls []c50Leaf) string {
		var s []string
		for _, l := range ls {
			s = append(s, l.Name)
		}
		sort.Strings(s)
		return strings.Join(s, ",")
	}
	type node struct {
		leaf *c50Leaf
		kids map[string]*node
	}
	mktree := func(all [][]string) ([]string, error) {
		var in bytes.Buffer
		for _, lines := range all {
			for _, l := range lines {
				in.WriteString(l)
				in.WriteByte(0)
			}
			in.WriteByte(0)
		}
		o, e, err := gitcli.Run(repoDir, in.Bytes(), "mktree", "--batch", "-z", "--missing")
		if err != nil {
			return nil, fmt.Errorf("git mktree: %v: %s", err, e)
		}
		ids := strings.Fields(o)
		if len(ids) != len(all) {
			return nil, fmt.Errorf("git mktree: %d ids for %d trees", len(ids), len(all))
		}
		return ids, nil
	}
	leafLine := func(name string, l *c50Leaf) (string, error) {
		switch l.Kind {
		case "gitlink":
			return fmt.Sprintf("160000 commit %s\t%s", strings.Repeat("1", 40), name), nil
		case "link":
			id, err := writeLoose(repoDir, "blob", []byte(l.Data))
			return fmt.Sprintf("120000 blob %s\t%s", id, name), err
		case "exec":
			id, err := writeLoose(repoDir, "blob", c50Bytes(l.Data))
			return fmt.Sprintf("100755 blob %s\t%s", id, name), err
		case "file":
			id, err := writeLoose(repoDir, "blob", c50Bytes(l.Data))
			return fmt.Sprintf("100644 blob %s\t%s", id, name), err
		}
		return "", fmt.Errorf("unknown leaf kind %q", l.Kind)
	}
	// trees are built bottom-up, one `git mktree --batch` per depth level
	roots := map[string]*node{}
	var keys []string
	for i := range rows {
		k := treeKey(rows[i].Tree)
		if roots[k] != nil {
			continue
		}
		root := &node{kids: map[string]*node{}}
		for j := range rows[i].Tree {
			l := &rows[i].Tree[j]
			cur := root
			parts := strings.Split(l.Name, "/")
			for d, c := range parts {
				if cur.kids[c] == nil {
					cur.kids[c] = &node{kids: map[string]*node{}}
				}
				cur = cur.kids[c]
				if d == len(parts)-1 {
					cur.leaf = l
				}
			}
		}
		roots[k] = root
		keys = append(keys, k)
	}
	ids := map[*node]string{}
	for depth := 3; depth >= 0; depth-- {
		var batch [][]string
		var owners []*node
		var walk func(n *node, d int) error
		walk = func(n *node, d int) error {
			if n.leaf != nil {
				return nil
			}
			if d == depth {
				var lines []string
				var names []string
				for c := range n.kids {
					names = append(names, c)
				}
				sort.Strings(names)
				for _, c := range names {
					k := n.kids[c]
					if k.leaf != nil {
						ln, err := leafLine(c50Name(c), k.leaf)
						if err != nil {
							return err
						}
						lines = append(lines, ln)
					} else {
						lines = append(lines, fmt.Sprintf("040000 tree %s\t%s", ids[k], c))
					}
				}
				batch = append(batch, lines)
				owners = append(owners, n)
				return nil
			}
			for _, k := range n.kids {
				if err := walk(k, d+1); err != nil {
					return err
				}
			}
			return nil
		}
		for _, k := range keys {
			if err := walk(roots[k], 0); err != nil {
				return err
			}
		}
		if len(batch) == 0 {
			continue
		}
		got, err := mktree(batch)
		if err != nil {
			return err
		}
		for i, n := range owners {
			ids[n] = got[i]
		}
	}
	commits := map[string]string{}
	for _, k := range keys {
		body := fmt.Sprintf("tree %s\nauthor A U Thor <author@example.com> %d +0000\ncommitter C O Mitter <committer@example.com> %d +0000\n\ntree %s\n",
			ids[roots[k]], c50Time, c50Time, k)
		id, err := writeLoose(repoDir, "commit", []byte(body))
		if err != nil {
			return err
		}
		commits[k] = id
	}
	repo, err := git.PlainOpen(repoDir)
	if err != nil {
		return fmt.Errorf("go-git cannot open the repository: %v", err)
	}

	// ---------------------------------------------------------------- comparison
	expected := func(es []c50Entry) []c50Entry {
		out := make([]c50Entry, len(es))
		for i, e := range es {
			e.Name = c50Name(e.Name)
			out[i] = e
		}
		return out
	}
	// differences between a parsed archive and the spec's entry list, as (class, detail)
	diff := func(row *c50Row, want []c50Entry, got *c50Parsed, commit string) [][2]string {
		var out [][2]string
		wm := map[string]c50Entry{}
		for _, e := range want {
			wm[e.Name] = e
		}
		gm := map[string]c50Entry{}
		for i, e := range got.entries {
			if _, dup := gm[e.Name]; dup {
				out = append(out, [2]string{"duplicate-entry|" + c50Role(e, row), e.Name})
			}
			gm[e.Name] = e
			if got.mtimes[i] != c50Time {
				out = append(out, [2]string{"mtime|" + c50Role(e, row), fmt.Sprintf("%s: mtime %d, commit time %d", e.Name, got.mtimes[i], c50Time)})
			}
		}
		for _, e := range want {
			g, ok := gm[e.Name]
			switch {
			case !ok:
				out = append(out, [2]string{"missing-entry|" + c50Role(e, row), e.Name})
			case g.Type != e.Type:
				out = append(out, [2]string{"type|" + c50Role(e, row) + ":" + e.Type + ">" + g.Type, e.Name})
			case g.Mode != e.Mode:
				out = append(out, [2]string{"mode|" + c50Role(e, row) + ":" + e.Mode + ">" + g.Mode, e.Name})
			case g.Data != e.Data:
				out = append(out, [2]string{"data|" + c50Role(e, row), fmt.Sprintf("%s: %q, expected %q", e.Name, g.Data, e.Data)})
			}
		}
		for _, e := range got.entries {
			if _, ok := wm[e.Name]; !ok {
				out = append(out, [2]string{"extra-entry|" + c50Role(e, row), e.Name})
			}
		}
		if len(out) == 0 {
			for i := range want {
				if want[i].Name != got.entries[i].Name {
					out = append(out, [2]string{"order|", fmt.Sprintf("position %d: %s, expected %s", i, got.entries[i].Name, want[i].Name)})
					break
				}
			}
		}
		if got.comment != commit {
			out = append(out, [2]string{"comment|", fmt.Sprintf("archive comment %q, commit %s", got.comment, commit)})
		}
		return out
	}
	reqStr := func(row *c50Row) string {
		return fmt.Sprintf("tree{%s} prefix=%q pathspec=%v", treeKey(row.Tree), row.Pre, row.Spec)
	}
	parse := func(format string, b []byte) (*c50Parsed, error) {
		switch format {
		case "tar":
			return c50ParseTar(b)
		case "tar.gz":
			zr, err := gzip.NewReader(bytes.NewReader(b))
			if err != nil {
				return nil, err
			}
			raw, err := io.ReadAll(zr)
			if err != nil {
				return nil, err
			}
			return c50ParseTar(raw)
		}
		return c50ParseZip(b)
	}

	type gitJob struct {
		row    int
		format string
	}
	var gitJobs []gitJob
	for i := range rows {
		row := &rows[i]
		commit := commits[treeKey(row.Tree)]
		for _, format := range []string{"tar", "tar.gz", "zip"} {
			r.Eval(1)
			want := expected(row.Tar)
			if format == "zip" {
				want = expected(row.Zip)
			}
			var specs []string
			for _, s := range row.Spec {
				specs = append(specs, c50Name(s))
			}
			var b []byte
			rc, err := repo.Archive(&git.ArchiveOptions{Format: format, Prefix: row.Pre, Treeish: commit, Paths: specs})
			if err == nil {
				b, err = io.ReadAll(rc)
				rc.Close()
			}
			cs := map[string]any{"request": reqStr(row), "format": format, "spec": want}
			switch {
			case row.Fail && err == nil:
				r.Diverge("Archive:"+format+"|accepts-unmatched-pathspec|"+strings.Join(row.Failwhy, "+"), fmt.Sprintf("Repository.Archive(%s) succeeds for %s; git archive fails: a pathspec matches no file", format, reqStr(row)), cs)
			case row.Fail:
			case err != nil:
				r.Diverge("Archive:"+format+"|error|pathspec:"+strings.Join(row.Kinds, "+"), fmt.Sprintf("Repository.Archive(%s) failed for %s: %v", format, reqStr(row), err), cs)
			default:
				got, perr := parse(format, b)
				if perr != nil {
					r.Diverge("Archive:"+format+"|unreadable|", fmt.Sprintf("archive/%s cannot read go-git's archive for %s: %v", format, reqStr(row), perr), cs)
					break
				}
				cs["gogit"] = got.entries
				for _, d := range diff(row, want, got, commit) {
					r.Diverge("Archive:"+format+"|"+d[0], fmt.Sprintf("Repository.Archive(%s) for %s: %s (%s)", format, reqStr(row), d[0], d[1]), cs)
				}
			}
		}
		gitJobs = append(gitJobs, gitJob{i, "tar"}, gitJob{i, "zip"})
		if i < 3 {
			r.Sample(map[string]any{"request": reqStr(row), "spec_fail": row.Fail, "spec_tar": row.Tar})
		}
	}
	r.Distinct = len(rows)
	r.Extra["trees"] = len(keys)

	// ---------------------------------------------------------------- git leg: one `git archive` per job (seeded sample)
	limit := 900
	if rep.Thorough() {
		limit = 12000
	}
	rnd.Shuffle(len(gitJobs), func(i, j int) { gitJobs[i], gitJobs[j] = gitJobs[j], gitJobs[i] })
	if len(gitJobs) > limit {
		gitJobs = gitJobs[:limit]
	}
	outDir := gitcli.TempDir("c50out")
	var script bytes.Buffer
	for k, j := range gitJobs {
		row := &rows[j.row]
		fmt.Fprintf(&script, "git archive --format=%s --prefix=%s %s --", j.format, shq(row.Pre), commits[treeKey(row.Tree)])
		for _, s := range row.Spec {
			script.WriteString(" " + shq(c50Name(s)))
		}
		fmt.Fprintf(&script, " >%s/%d 2>/dev/null; echo \"%d $?\"\n", outDir, k, k)
	}
	c := exec.Command("sh")
	c.Dir = repoDir
	c.Env = append(gitcli.Env(), "TZ=UTC")
	c.Stdin = &script
	var so, se bytes.Buffer
	c.Stdout, c.Stderr = &so, &se
	if err := c.Run(); err != nil {
		return fmt.Errorf("git archive loop: %v: %s", err, se.String())
	}
	status := map[int]int{}
	for _, ln := range strings.Split(so.String(), "\n") {
		var k, st int
		if _, err := fmt.Sscanf(ln, "%d %d", &k, &st); err == nil {
			status[k] = st
		}
	}
	if len(status) != len(gitJobs) {
		return fmt.Errorf("git archive loop: %d results for %d jobs", len(status), len(gitJobs))
	}
	for k, j := range gitJobs {
		row := &rows[j.row]
		failed := status[k] != 0
		if failed != row.Fail {
			r.SpecError(map[string]any{"leg": "git archive", "format": j.format, "request": reqStr(row), "spec_fail": row.Fail, "git_failed": failed})
			continue
		}
		if failed {
			continue
		}
		b, err := os.ReadFile(filepath.Join(outDir, fmt.Sprint(k)))
		if err != nil {
			return err
		}
		got, err := parse(j.format, b)
		if err != nil {
			return fmt.Errorf("cannot parse git's %s archive for %s: %v", j.format, reqStr(row), err)
		}
		want := expected(row.Tar)
		if j.format == "zip" {
			want = expected(row.Zip)
		}
		if d := diff(row, want, got, commits[treeKey(row.Tree)]); len(d) > 0 {
			r.SpecError(map[string]any{"leg": "git archive", "format": j.format, "request": reqStr(row), "diff": d, "git": got.entries, "spec": want})
		}
	}
	r.Extra["git_leg"] = true
	r.Extra["git_archives"] = len(gitJobs)
	return r.Emit()
}

func shq(s string) string { return "'" + strings.ReplaceAll(s, "'", `'\''`) + "'" }
