// Command vhtree is the conformance harness for the tree properties C04 (tree codec),
// C44 (tree diffs) and C50 (archives): it renders the rows computed by TLC from
// spec/rules/{TreeCodec,DiffTree,Archive}.tla into real objects, runs go-git and git on
// them and compares both with the value the specification computed.
package main

import "verifharness/internal/rep"

func main() { rep.Main() }
