package main

import (
	"bytes"
	"encoding/hex"
	"encoding/json"
	"fmt"
	"io"
	"math/rand"
	"os"
	"os/exec"
	"path/filepath"
	"regexp"
	"sort"
	"strconv"
	"strings"
	"time"

	"verifharness/internal/gitcli"
	"verifharness/internal/rep"

	"github.com/go-git/go-git/v6/plumbing"
	"github.com/go-git/go-git/v6/plumbing/filemode"
	"github.com/go-git/go-git/v6/plumbing/object"
)

// C04: rows of spec/rules/TreeCodec.tla.  The harness only renders tokens to bytes, runs
// go-git (Tree.Decode, Tree.Encode, TreeEntrySorter) and git (ls-tree, fsck --strict,
// mktree --batch) and compares each with the value TLC wrote into the row.

// name tokens -> bytes.  [0] is canonical; alternatives are in the same symbol class and
// keep the byte order relative to every other single-character token.
var c04Tok = map[string][]string{
	"ctl": {"\x01", "\x1f", "\t", "\n"}, "sp": {" "}, "-": {"-"}, ".": {"."}, "/": {"/"},
	"0": {"0"}, "1": {"1"}, ":": {":"}, "A": {"A"}, "G": {"G"}, "I": {"I"}, "T": {"T"},
	"bs": {"\\"}, "a": {"a"}, "b": {"b"}, "g": {"g"}, "i": {"i"}, "t": {"t"}, "~": {"~"},
	"del": {"\x7f"}, "zw": {"\u200c", "\u200d", "\u200e", "\u202a", "\u206f", "\ufeff"},
	"modules": {"modules", "moDules"}, "MODULES": {"MODULES"}, "mod": {"mod", "MOD"},
	"gi7eba": {"gi7eba", "GI7EBA"}, "ignore": {"ignore", "IGNORE"},
	"attributes": {"attributes", "attribuTes"}, "mailmap": {"mailmap", "MAILMAP"},
	"x4096": {strings.Repeat("x", 4096)}, "x4097": {strings.Repeat("x", 4097)},
}

var c04TokNames = func() []string {
	var s []string
	for t := range c04Tok {
		s = append(s, t)
	}
	sort.Strings(s)
	return s
}()

const (
	c04Blob   = "c1b0730e0133447badcfd47fd144e254807b06e1" // blob "x"
	c04Tree   = "4b825dc642cb6eb9a060e54bf8d69288fbee4904" // the empty tree
	c04Commit = "1111111111111111111111111111111111111111" // a commit that is not there (gitlinks are not followed)
	c04Zero   = "0000000000000000000000000000000000000000"
)

type c04Entry struct {
	N  []string `json:"n"`
	M  []int    `json:"m"`
	ID string   `json:"id"`
}
type c04Dec struct {
	N  []string `json:"n"`
	M  []int    `json:"m"`
	K  string   `json:"k"`
	ID string   `json:"id"`
}
type c04Row struct {
	Es       []c04Entry `json:"es"`
	Tail     string     `json:"tail"`
	Parse    bool       `json:"parse"`
	Bad      []string   `json:"bad"`
	Dec      []c04Dec   `json:"dec"`
	Fsck     []string   `json:"fsck"`
	Clean    bool       `json:"clean"`
	Enc      bool       `json:"enc"`
	Encm     [][]int    `json:"encm"`
	Dupfree  bool       `json:"dupfree"`
	Encfsck  []string   `json:"encfsck"`
	Encclean bool       `json:"encclean"`
	Must     bool       `json:"must"`
	Mustgit  bool       `json:"mustgit"`
	Why      []string   `json:"why"`
	Sorted   bool       `json:"sorted"`
	Perm     []int      `json:"perm"`
}

func digits(m []int) string {
	var b strings.Builder
	for _, d := range m {
		b.WriteByte(byte('0' + d))
	}
	return b.String()
}

func octal(m []int) uint32 {
	v, _ := strconv.ParseUint(digits(m), 8, 32)
	return uint32(v)
}

// c04Render: one rendering of a row; variant 0 is canonical, others pick alternatives per token
// (the same token gets the same bytes everywhere in the tree).
type c04Render struct {
	pick map[string]string
}

func newC04Render(variant int, rnd *rand.Rand) *c04Render {
	r := &c04Render{pick: map[string]string{}}
	for _, t := range c04TokNames {
		alts := c04Tok[t]
		if variant == 0 {
			r.pick[t] = alts[0]
		} else {
			r.pick[t] = alts[rnd.Intn(len(alts))]
		}
	}
	return r
}

func (r *c04Render) name(toks []string) string {
	var b strings.Builder
	for _, t := range toks {
		s, ok := r.pick[t]
		if !ok {
			panic("c04: unknown token " + t)
		}
		b.WriteString(s)
	}
	return b.String()
}

func c04ID(id, kind string) string {
	if id == "z" {
		return c04Zero
	}
	switch kind {
	case "tree":
		return c04Tree
	case "commit":
		return c04Commit
	}
	return c04Blob
}

// raw bytes of a tree made of (mode digits, name, id) triples
func c04Bytes(modes []string, names []string, ids []string, tail string) []byte {
	var b bytes.Buffer
	for i := range names {
		b.WriteString(modes[i])
		b.WriteByte(' ')
		b.WriteString(names[i])
		b.WriteByte(0)
		raw, _ := hex.DecodeString(ids[i])
		b.Write(raw)
	}
	out := b.Bytes()
	switch tail {
	case "trunc":
		out = out[:len(out)-5]
	case "extra":
		out = append(out, 'x')
	}
	return out
}

func keyOf(row *c04Row) string {
	var p []string
	for _, e := range row.Es {
		p = append(p, digits(e.M)+":"+strings.Join(e.N, ""))
	}
	k := strings.Join(p, ",")
	if row.Tail != "ok" {
		k += "|tail-" + row.Tail
	}
	return k
}

// classOf is the scenario key used in signatures: one-entry trees are identified by their entry
// (the per-entry rules are what matters there); longer trees only by the kinds of entries they mix,
// so that one ordering bug is one signature, not one per tree.
func classOf(row *c04Row) string {
	if len(row.Es) <= 1 {
		return keyOf(row)
	}
	return "multi:" + modesOf(row)
}

func modesOf(row *c04Row) string {
	set := map[string]bool{}
	for _, e := range row.Es {
		set[digits(e.M)] = true
	}
	var ks []string
	for k := range set {
		ks = append(ks, k)
	}
	sort.Strings(ks)
	return strings.Join(ks, "+")
}

func init() { rep.Register("c04", c04) }

var fsckLine = regexp.MustCompile(`^(error|warning) in tree ([0-9a-f]{40}): ([A-Za-z0-9]+):`)

func c04(args []string) error {
	if len(args) < 1 {
		return fmt.Errorf("usage: c04 rows.ndjson")
	}
	r := rep.New()
	rnd := rand.New(rand.NewSource(rep.Seed()))
	gitOK := gitcli.Available()
	t0 := time.Now()
	timing := map[string]float64{}
	tick := func(what string) { timing[what] = time.Since(t0).Seconds(); t0 = time.Now() }
	r.Extra["timing_s"] = timing
	repo := filepath.Join(gitcli.TempDir("c04"), "r.git")
	if gitOK {
		if err := gitcli.Init(repo, true); err != nil {
			return err
		}
		if _, err := writeLoose(repo, "blob", []byte("x")); err != nil {
			return err
		}
		if _, err := writeLoose(repo, "tree", nil); err != nil {
			return err
		}
	}
	// fsck expectations per object id (spec side), and what produced them
	type fexp struct {
		ids  string
		what string
		row  string
	}
	fsckWant := map[string]fexp{}
	addFsck := func(body []byte, ids []string, what, key string) error {
		if !gitOK {
			return nil
		}
		id, err := writeLoose(repo, "tree", body)
		if err != nil {
			return err
		}
		s := append([]string(nil), ids...)
		sort.Strings(s)
		want := strings.Join(s, "+")
		if old, ok := fsckWant[id]; ok && old.ids != want {
			r.SpecError(map[string]any{"what": "two rows render to the same object but the spec gives different fsck ids", "a": old, "b": fexp{want, what, key}})
			return nil
		}
		fsckWant[id] = fexp{want, what, key}
		return nil
	}
	type lsJob struct {
		oid string
		row c04Row
		rd  *c04Render
		key string
	}
	var lsJobs []lsJob
	type mkJob struct {
		input  []byte
		want   string // id of the spec's canonical encoding
		key    string
		gogit  string
	}
	var mkJobs []mkJob
	distinct := map[string]bool{}
	stricter := 0
	infoOnly := 0

	err := rep.ReadNDJSON(args[0], func(line []byte) error {
		var row c04Row
		if err := json.Unmarshal(line, &row); err != nil {
			return err
		}
		key := keyOf(&row)
		class := classOf(&row)
		nvar := 1
		special := false
		for _, e := range row.Es {
			for _, t := range e.N {
				if len(c04Tok[t]) > 1 {
					special = true
				}
			}
		}
		if special {
			nvar = 2
			if rep.Thorough() {
				nvar = 4
			}
		}
		for variant := 0; variant < nvar; variant++ {
			rd := newC04Render(variant, rnd)
			n := len(row.Es)
			names := make([]string, n)
			rawModes := make([]string, n)
			ids := make([]string, n)
			for i, e := range row.Es {
				names[i] = rd.name(e.N)
				rawModes[i] = digits(e.M)
				kind := "blob"
				if row.Parse {
					kind = row.Dec[i].K
				}
				ids[i] = c04ID(e.ID, kind)
			}
			raw := c04Bytes(rawModes, names, ids, row.Tail)
			dk := string(raw)
			if distinct[dk] {
				continue
			}
			distinct[dk] = true

			// ---------------------------------------------------------- decode (go-git)
			r.Eval(1)
			obj := &plumbing.MemoryObject{}
			obj.SetType(plumbing.TreeObject)
			obj.Write(raw)
			t := &object.Tree{}
			derr := t.Decode(obj)
			switch {
			case !row.Parse && derr == nil:
				r.Diverge("Decode|accepts-malformed|"+strings.Join(row.Bad, "+"),
					fmt.Sprintf("Tree.Decode accepted a tree object git cannot parse (%s): %q", strings.Join(row.Bad, ","), raw),
					map[string]any{"row": key, "raw": fmt.Sprintf("%q", raw), "gogit_entries": len(t.Entries)})
			case row.Parse && derr != nil:
				var ms []string
				for _, e := range row.Es {
					ms = append(ms, digits(e.M))
				}
				r.Diverge("Decode|rejects-parsable|modes="+strings.Join(ms, ","),
					fmt.Sprintf("Tree.Decode failed (%v) on a tree git ls-tree lists: %q", derr, raw),
					map[string]any{"row": key, "raw": fmt.Sprintf("%q", raw), "err": derr.Error()})
			case row.Parse:
				if len(t.Entries) != len(row.Dec) {
					r.Diverge("Decode|entries|count", fmt.Sprintf("Tree.Decode returned %d entries, git ls-tree lists %d: %q", len(t.Entries), len(row.Dec), raw),
						map[string]any{"row": key})
					break
				}
				for i, d := range row.Dec {
					g := t.Entries[i]
					if uint32(g.Mode) != octal(d.M) {
						r.Diverge(fmt.Sprintf("Decode|mode|raw=%s", digits(row.Es[i].M)),
							fmt.Sprintf("Tree.Decode canonicalises raw mode %s to %o; git ls-tree prints %s", digits(row.Es[i].M), uint32(g.Mode), digits(d.M)),
							map[string]any{"row": key, "entry": i, "gogit": fmt.Sprintf("%o", uint32(g.Mode)), "spec": digits(d.M)})
					}
					if g.Name != names[i] {
						r.Diverge("Decode|name|"+strings.Join(d.N, ""), fmt.Sprintf("Tree.Decode name %q, git lists %q", g.Name, names[i]), map[string]any{"row": key, "entry": i})
					}
					if g.Hash.String() != ids[i] {
						r.Diverge("Decode|id|"+d.ID, fmt.Sprintf("Tree.Decode id %s, tree holds %s", g.Hash, ids[i]), map[string]any{"row": key, "entry": i})
					}
				}
			}
			if gitOK {
				id, err := writeLoose(repo, "tree", raw)
				if err != nil {
					return err
				}
				lsJobs = append(lsJobs, lsJob{id, row, rd, key})
				if err := addFsck(raw, row.Fsck, "raw", key); err != nil {
					return err
				}
			}

			// ---------------------------------------------------------- encode (go-git)
			if !row.Enc {
				continue
			}
			mk := func(order []int) []object.TreeEntry {
				es := make([]object.TreeEntry, len(order))
				for k, i := range order {
					es[k] = object.TreeEntry{Name: names[i], Mode: filemode.FileMode(octal(row.Es[i].M)), Hash: plumbing.NewHash(ids[i])}
				}
				return es
			}
			expect := func(order []int) []byte {
				m := make([]string, len(order))
				nn := make([]string, len(order))
				ii := make([]string, len(order))
				for k, i := range order {
					m[k], nn[k], ii[k] = digits(row.Encm[i]), names[i], ids[i]
				}
				return c04Bytes(m, nn, ii, "ok")
			}
			encode := func(es []object.TreeEntry) ([]byte, error) {
				o := &plumbing.MemoryObject{}
				tr := &object.Tree{Entries: es}
				if err := tr.Encode(o); err != nil {
					return nil, err
				}
				rd, err := o.Reader()
				if err != nil {
					return nil, err
				}
				b, err := io.ReadAll(rd)
				return b, err
			}
			ident := make([]int, n)
			for i := range ident {
				ident[i] = i
			}
			// P1: whatever Encode agrees to write is fsck-clean (entries in the given order)
			r.Eval(1)
			got, eerr := encode(mk(ident))
			if eerr == nil {
				if !row.Encclean {
					bad := []string{}
					for _, m := range row.Encfsck {
						if m != "badFilemode" && m != "gitattributesSymlink" && m != "gitignoreSymlink" && m != "mailmapSymlink" {
							bad = append(bad, m)
						}
					}
					r.Diverge("Encode|writes-unclean|"+strings.Join(bad, "+"),
						fmt.Sprintf("Tree.Encode wrote a tree that git fsck --strict rejects (%s): %q", strings.Join(bad, ","), got),
						map[string]any{"row": key, "fsck": row.Encfsck, "raw": fmt.Sprintf("%q", got)})
				}
				if want := expect(ident); !bytes.Equal(got, want) {
					r.Diverge("Encode|bytes|modes:"+modesOf(&row), fmt.Sprintf("Tree.Encode wrote %q, git's tree format for these entries is %q", got, want), map[string]any{"row": key})
				} else if err := addFsck(got, row.Encfsck, "encoded-by-go-git", key); err != nil {
					// (the spec's fsck prediction is about exactly these bytes; git is asked about them too)
					return err
				}
				if len(row.Encfsck) > 0 && row.Encclean {
					infoOnly++
				}
			} else if row.Must && row.Sorted {
				r.Diverge("Encode|rejects-valid|"+class, fmt.Sprintf("Tree.Encode refused a sorted, duplicate-free tree of valid entries: %v", eerr),
					map[string]any{"row": key, "err": eerr.Error()})
			}
			if row.Mustgit && !row.Must && row.Sorted && eerr != nil {
				stricter++
			}
			// P2: a valid duplicate-free set, sorted canonically, is written; the order is git's
			if row.Dupfree && n > 1 {
				r.Eval(1)
				es := mk(ident)
				sort.Sort(object.TreeEntrySorter(es))
				perm := make([]int, n)
				for k, p := range row.Perm {
					perm[k] = p - 1
				}
				want := mk(perm)
				same := true
				for k := range es {
					if es[k].Name != want[k].Name || es[k].Mode != want[k].Mode {
						same = false
					}
				}
				if !same {
					r.Diverge("Sort|order|"+class, fmt.Sprintf("TreeEntrySorter orders %v, git's canonical order is %v", entryNames(es), entryNames(want)),
						map[string]any{"row": key, "gogit": entryNames(es), "spec": entryNames(want)})
				}
			}
			if row.Must || row.Mustgit {
				perm := make([]int, n)
				for k, p := range row.Perm {
					perm[k] = p - 1
				}
				want := expect(perm)
				gogitID := ""
				if row.Must {
					r.Eval(1)
					b, err := encode(mk(perm))
					if err != nil {
						if !row.Sorted { // the sorted case was reported above
							r.Diverge("Encode|rejects-valid|"+class, fmt.Sprintf("Tree.Encode refused a canonically sorted, duplicate-free tree of valid entries: %v", err),
								map[string]any{"row": key, "err": err.Error()})
						}
					} else {
						gogitID = objID("tree", b)
						if !bytes.Equal(b, want) {
							r.Diverge("Encode|bytes|modes:"+modesOf(&row), fmt.Sprintf("Tree.Encode wrote %q, git writes %q", b, want), map[string]any{"row": key})
						}
					}
				}
				if gitOK {
					// spec vs git: the canonical encoding is clean, and mktree (git's own sort) produces the same object
					if err := addFsck(want, nil, "spec-canonical", key); err != nil {
						return err
					}
					var in bytes.Buffer
					for i := range row.Es {
						fmt.Fprintf(&in, "%s %s %s\t%s\x00", digits(row.Encm[i]), row.Dec[i].K, ids[i], names[i])
					}
					in.WriteByte(0)
					mkJobs = append(mkJobs, mkJob{in.Bytes(), objID("tree", want), key, gogitID})
				}
			}
			r.Sample(map[string]any{"row": key, "spec_parse": row.Parse, "spec_fsck": row.Fsck, "spec_must_accept": row.Must, "gogit_decode_ok": derr == nil, "gogit_encode_ok": eerr == nil})
		}
		return nil
	})
	if err != nil {
		return err
	}
	r.Distinct = len(distinct)
	tick("go-git legs + object store")
	r.Extra["git_leg"] = gitOK
	r.Extra["documented_stricter_rows"] = stricter
	r.Extra["info_only_encodings"] = infoOnly
	if !gitOK {
		return r.Emit()
	}

	// ---------------------------------------------------------------- git fsck --strict (one process)
	out, errOut, _ := gitcli.Run(repo, nil, "fsck", "--strict", "--no-dangling", "--no-progress")
	gotFsck := map[string]map[string]bool{}
	for _, ln := range strings.Split(out+"\n"+errOut, "\n") {
		m := fsckLine.FindStringSubmatch(ln)
		if m == nil {
			continue
		}
		// brokenLinks / *Blob are about the objects a tree points to, not about the tree's own format
		if m[3] == "brokenLinks" || m[3] == "gitmodulesBlob" || m[3] == "gitattributesBlob" {
			continue
		}
		if gotFsck[m[2]] == nil {
			gotFsck[m[2]] = map[string]bool{}
		}
		gotFsck[m[2]][m[3]] = true
	}
	if len(gotFsck) == 0 {
		return fmt.Errorf("git fsck printed no tree diagnostics at all: %s", errOut)
	}
	fsckChecked := 0
	for id, want := range fsckWant {
		var g []string
		for k := range gotFsck[id] {
			g = append(g, k)
		}
		sort.Strings(g)
		fsckChecked++
		if strings.Join(g, "+") != want.ids {
			r.SpecError(map[string]any{"leg": "fsck", "tree": id, "row": want.row, "what": want.what, "spec": want.ids, "git": strings.Join(g, "+")})
		}
	}
	r.Extra["git_fsck_trees"] = fsckChecked
	tick("git fsck")

	// ---------------------------------------------------------------- git mktree --batch (one process)
	if len(mkJobs) > 0 {
		var in bytes.Buffer
		for _, j := range mkJobs {
			in.Write(j.input)
		}
		o, e, err := gitcli.Run(repo, in.Bytes(), "mktree", "--batch", "-z", "--missing")
		if err != nil {
			return fmt.Errorf("git mktree --batch: %v: %s", err, e)
		}
		got := strings.Fields(o)
		if len(got) != len(mkJobs) {
			return fmt.Errorf("git mktree --batch: %d ids for %d trees", len(got), len(mkJobs))
		}
		for i, j := range mkJobs {
			if got[i] != j.want {
				r.SpecError(map[string]any{"leg": "mktree", "row": j.key, "spec_tree": j.want, "git_tree": got[i]})
			}
		}
		r.Extra["git_mktree_trees"] = len(mkJobs)
	}
	tick("git mktree")

	// ---------------------------------------------------------------- git ls-tree
	// One process lists every parsable tree: they are hung below one super tree ("r<i>" -> tree i) and
	// `git ls-tree -r -t -z` walks them all with the same parser and mode canonicalisation.  Trees the
	// spec calls unparsable (they would abort the walk), and trees with a null-id directory entry, are
	// asked one by one (seeded sample: a process is expensive here); their fsck verdict above covers all.
	var super bytes.Buffer
	var inSuper, single []int
	for i, j := range lsJobs {
		nullDir := false
		for _, d := range j.row.Dec {
			if d.K == "tree" && d.ID == "z" {
				nullDir = true
			}
		}
		if j.row.Parse && !nullDir {
			inSuper = append(inSuper, i)
			raw, _ := hex.DecodeString(j.oid)
			fmt.Fprintf(&super, "40000 r%d\x00", i)
			super.Write(raw)
		} else {
			single = append(single, i)
		}
	}
	superID, err := writeLoose(repo, "tree", super.Bytes())
	if err != nil {
		return err
	}
	o, e, err := gitcli.Run(repo, nil, "ls-tree", "-r", "-t", "-z", superID)
	if err != nil {
		return fmt.Errorf("git ls-tree -r on the super tree failed (a tree the spec calls parsable is not?): %v: %s", err, e)
	}
	listed := map[int]*bytes.Buffer{}
	for _, rec := range strings.Split(o, "\x00") {
		tab := strings.IndexByte(rec, '\t')
		if tab < 0 {
			continue
		}
		path := rec[tab+1:]
		sl := strings.IndexByte(path, '/')
		if sl < 0 {
			continue // the super tree's own entry
		}
		idx, err := strconv.Atoi(path[1:sl])
		if err != nil {
			return fmt.Errorf("unexpected ls-tree record %q", rec)
		}
		if listed[idx] == nil {
			listed[idx] = &bytes.Buffer{}
		}
		listed[idx].WriteString(rec[:tab+1] + path[sl+1:] + "\x00")
	}
	wantLs := func(j lsJob) string {
		var want bytes.Buffer
		for k, d := range j.row.Dec {
			fmt.Fprintf(&want, "%06o %s %s\t%s\x00", octal(d.M), d.K, c04ID(d.ID, d.K), j.rd.name(j.row.Es[k].N))
		}
		return want.String()
	}
	for _, i := range inSuper {
		got := ""
		if listed[i] != nil {
			got = listed[i].String()
		}
		if want := wantLs(lsJobs[i]); want != got {
			r.SpecError(map[string]any{"leg": "ls-tree -r", "row": lsJobs[i].key, "spec": fmt.Sprintf("%q", want), "git": fmt.Sprintf("%q", got)})
		}
	}
	limit := 150
	if rep.Thorough() {
		limit = 600
	}
	rnd.Shuffle(len(single), func(a, b int) { single[a], single[b] = single[b], single[a] })
	if len(single) > limit {
		single = single[:limit]
	}
	outs, err := lsTreeBatch(repo, lsJobs2ids(len(single), func(k int) string { return lsJobs[single[k]].oid }))
	if err != nil {
		return err
	}
	for k, i := range single {
		j, o := lsJobs[i], outs[k]
		if !j.row.Parse {
			if o.ok {
				r.SpecError(map[string]any{"leg": "ls-tree", "row": j.key, "spec": "unparsable", "git": o.out})
			}
			continue
		}
		if !o.ok {
			r.SpecError(map[string]any{"leg": "ls-tree", "row": j.key, "spec": "parsable", "git": "error"})
			continue
		}
		if want := wantLs(j); want != o.out {
			r.SpecError(map[string]any{"leg": "ls-tree", "row": j.key, "spec": fmt.Sprintf("%q", want), "git": fmt.Sprintf("%q", o.out)})
		}
	}
	r.Extra["git_lstree_single"] = len(single)
	r.Extra["git_lstree_trees"] = len(inSuper) + len(single)

	tick("git ls-tree")
	return r.Emit()
}

func lsJobs2ids(n int, f func(int) string) []string {
	ids := make([]string, n)
	for i := range ids {
		ids[i] = f(i)
	}
	return ids
}

func entryNames(es []object.TreeEntry) []string {
	var s []string
	for _, e := range es {
		s = append(s, fmt.Sprintf("%o:%s", uint32(e.Mode), e.Name))
	}
	return s
}

type lsOut struct {
	ok  bool
	out string
}

// lsTreeBatch runs `git ls-tree -z <id>` for every id from one shell loop (forking from the Go
// process is slow here); each output goes to its own file.
func lsTreeBatch(repo string, ids []string) ([]lsOut, error) {
	res := make([]lsOut, len(ids))
	if len(ids) == 0 {
		return res, nil
	}
	var in bytes.Buffer
	for i, id := range ids {
		fmt.Fprintf(&in, "%d %s\n", i, id)
	}
	outDir := gitcli.TempDir("lstree")
	script := `while read i id; do git ls-tree -z "$id" >"$0/$i" 2>/dev/null; echo "$i $?"; done`
	c := exec.Command("sh", "-c", script, outDir)
	c.Dir = repo
	c.Env = gitcli.Env()
	c.Stdin = &in
	var o, e bytes.Buffer
	c.Stdout, c.Stderr = &o, &e
	if err := c.Run(); err != nil {
		return nil, fmt.Errorf("ls-tree loop: %v: %s", err, e.String())
	}
	seen := 0
	for _, ln := range strings.Split(o.String(), "\n") {
		f := strings.Fields(ln)
		if len(f) < 2 {
			continue
		}
		i, err := strconv.Atoi(f[0])
		if err != nil || i < 0 || i >= len(ids) {
			return nil, fmt.Errorf("bad ls-tree batch line %q", ln)
		}
		res[i].ok = f[1] == "0"
		b, err := os.ReadFile(filepath.Join(outDir, f[0]))
		if err != nil {
			return nil, err
		}
		res[i].out = string(b)
		seen++
	}
	if seen != len(ids) {
		return nil, fmt.Errorf("ls-tree batch: %d results for %d ids", seen, len(ids))
	}
	return res, nil
}
