package main

import (
	"bufio"
	"bytes"
	"context"
	"encoding/binary"
	"encoding/hex"
	"encoding/json"
	"fmt"
	"os"
	"path/filepath"
	"sort"
	"strings"

	"verifharness/internal/gitcli"
	"verifharness/internal/rep"

	"github.com/go-git/go-billy/v6/osfs"
	"github.com/go-git/go-git/v6/plumbing"
	"github.com/go-git/go-git/v6/plumbing/cache"
	"github.com/go-git/go-git/v6/plumbing/filemode"
	"github.com/go-git/go-git/v6/plumbing/format/index"
	"github.com/go-git/go-git/v6/plumbing/object"
	"github.com/go-git/go-git/v6/storage/filesystem"
	"github.com/go-git/go-git/v6/utils/merkletrie"
	mfs "github.com/go-git/go-git/v6/utils/merkletrie/filesystem"
	mindex "github.com/go-git/go-git/v6/utils/merkletrie/index"
	"github.com/go-git/go-git/v6/utils/merkletrie/noder"
)

// C44: rows of spec/rules/DiffTree.tla (pairs of flat-map trees with the change set TLC computed).
// The harness realises every abstract tree as a git tree object (written by git mktree), as an
// index and as a worktree directory, runs go-git's diffs over them and `git diff-tree -r
// --no-renames --stdin`, projects the reported changes back to (path, kind, old leaf, new leaf) and
// compares with the row.  go-git's rename-detecting output is only recorded: TLC evaluates the
// admissibility predicate of DiffTree.tla on it (module DiffTreeTrace).

type c44Change struct {
	P string `json:"p"`
	K string `json:"k"`
	F string `json:"f"`
	T string `json:"t"`
}
type c44Row struct {
	A    map[string]string `json:"a"`
	B    map[string]string `json:"b"`
	Diff []c44Change       `json:"diff"`
	Opts []c44Opts         `json:"opts"` // the DiffTreeOptions (rename detection on) the spec wants this pair run with
}
type c44Opts struct {
	Limit int  `json:"limit"`
	Exact bool `json:"exact"`
	Score int  `json:"score"`
}
type c44Out struct {
	Fp string `json:"fp"`
	Tp string `json:"tp"`
	F  string `json:"f"`
	T  string `json:"t"`
}

var c44Content = map[byte]string{'1': "one\n", '2': "two\n", 'e': ""}

type c44Leaf struct {
	mode filemode.FileMode
	id   string
}

func c44LeafOf(v string) c44Leaf {
	var m filemode.FileMode
	switch v[0] {
	case 'f':
		m = filemode.Regular
	case 'x':
		m = filemode.Executable
	case 'l':
		m = filemode.Symlink
	case 'g':
		return c44Leaf{filemode.Submodule, strings.Repeat(string(v[1]), 40)}
	default:
		panic("c44: unknown leaf value " + v)
	}
	return c44Leaf{m, objID("blob", []byte(c44Content[v[1]]))}
}

type c44Tree struct {
	key   string
	m     map[string]string
	id    string
	tree  *object.Tree
	idx   *index.Index
	wtDir string
	subs  map[string]plumbing.Hash
}

func c44Key(m map[string]string) string {
	var ks []string
	for k, v := range m {
		if v != "-" {
			ks = append(ks, k+"="+v)
		}
	}
	sort.Strings(ks)
	return strings.Join(ks, ",")
}

func changeStr(c c44Change) string {
	// signature form: kinds only (first letter of the leaf value) and the path's role in the spec
	// (the file/directory swap position "a", a path below the directory a/, or a sibling)
	k := func(v string) string { return v[:1] }
	pc := "sibling"
	switch {
	case c.P == "a":
		pc = "a"
	case strings.HasPrefix(c.P, "a/"):
		pc = "below-a"
	}
	return pc + ":" + c.K + ":" + k(c.F) + ">" + k(c.T)
}

// go-git's own equality for merkletrie noders of different kinds (worktree_status.go): a 24-byte
// all-zero hash means "directory without a computed hash" and never compares equal.
var c44Zero = make([]byte, 24)

func c44Equal(a, b noder.Hasher) bool {
	ha, hb := a.Hash(), b.Hash()
	if bytes.Equal(ha, c44Zero) || bytes.Equal(hb, c44Zero) {
		return false
	}
	return bytes.Equal(ha, hb)
}

func init() { rep.Register("c44", c44) }

func c44(args []string) error {
	if len(args) < 2 {
		return fmt.Errorf("usage: c44 rename_out.ndjson rows.ndjson...")
	}
	r := rep.New()
	gitOK := gitcli.Available()
	if !gitOK {
		return fmt.Errorf("c44 needs git to build the tree objects")
	}
	work := gitcli.TempDir("c44")
	repo := filepath.Join(work, "r.git")
	if err := gitcli.Init(repo, true); err != nil {
		return err
	}
	for _, c := range c44Content {
		if _, err := writeLoose(repo, "blob", []byte(c)); err != nil {
			return err
		}
	}
	// reverse projection (mode, id) -> leaf value
	back := map[string]string{}
	for _, v := range []string{"f1", "f2", "fe", "x1", "x2", "l1", "l2", "g1", "g2"} {
		l := c44LeafOf(v)
		back[fmt.Sprintf("%o %s", uint32(l.mode), l.id)] = v
	}
	project := func(mode uint32, id string) string {
		if v, ok := back[fmt.Sprintf("%o %s", mode, id)]; ok {
			return v
		}
		return fmt.Sprintf("?%o:%s", mode, id[:7])
	}

	// ---------------------------------------------------------------- read rows, collect trees
	var rows []c44Row
	trees := map[string]*c44Tree{}
	var order []*c44Tree
	for _, f := range args[1:] {
		err := rep.ReadNDJSON(f, func(line []byte) error {
			var row c44Row
			if err := json.Unmarshal(line, &row); err != nil {
				return err
			}
			rows = append(rows, row)
			for _, m := range []map[string]string{row.A, row.B} {
				k := c44Key(m)
				if trees[k] == nil {
					t := &c44Tree{key: k, m: m}
					trees[k] = t
					order = append(order, t)
				}
			}
			return nil
		})
		if err != nil {
			return err
		}
	}

	// ---------------------------------------------------------------- tree objects, written by git
	// sub trees (everything below "a/") first, then the roots: two `git mktree --batch` processes.
	type dirSpec struct{ lines []string }
	subOf := map[string]string{} // key of sub tree content -> id
	var subKeys []string
	subInput := map[string][]string{}
	for _, t := range order {
		var lines []string
		for p, v := range t.m {
			if v != "-" && strings.HasPrefix(p, "a/") {
				l := c44LeafOf(v)
				lines = append(lines, fmt.Sprintf("%06o %s %s\t%s", uint32(l.mode), typeOfMode(l.mode), l.id, p[2:]))
			}
		}
		if len(lines) == 0 {
			continue
		}
		sort.Strings(lines)
		k := strings.Join(lines, "\n")
		if _, ok := subInput[k]; !ok {
			subInput[k] = lines
			subKeys = append(subKeys, k)
		}
	}
	mktree := func(all [][]string) ([]string, error) {
		var in bytes.Buffer
		for _, lines := range all {
			for _, l := range lines {
				in.WriteString(l)
				in.WriteByte(0)
			}
			in.WriteByte(0)
		}
		o, e, err := gitcli.Run(repo, in.Bytes(), "mktree", "--batch", "-z", "--missing")
		if err != nil {
			return nil, fmt.Errorf("git mktree: %v: %s", err, e)
		}
		ids := strings.Fields(o)
		if len(ids) != len(all) {
			return nil, fmt.Errorf("git mktree: %d ids for %d trees", len(ids), len(all))
		}
		return ids, nil
	}
	if len(subKeys) > 0 {
		var all [][]string
		for _, k := range subKeys {
			all = append(all, subInput[k])
		}
		ids, err := mktree(all)
		if err != nil {
			return err
		}
		for i, k := range subKeys {
			subOf[k] = ids[i]
		}
	}
	var roots [][]string
	for _, t := range order {
		var lines, sub []string
		for p, v := range t.m {
			if v == "-" {
				continue
			}
			l := c44LeafOf(v)
			if strings.HasPrefix(p, "a/") {
				sub = append(sub, fmt.Sprintf("%06o %s %s\t%s", uint32(l.mode), typeOfMode(l.mode), l.id, p[2:]))
				continue
			}
			lines = append(lines, fmt.Sprintf("%06o %s %s\t%s", uint32(l.mode), typeOfMode(l.mode), l.id, p))
		}
		if len(sub) > 0 {
			sort.Strings(sub)
			lines = append(lines, fmt.Sprintf("040000 tree %s\ta", subOf[strings.Join(sub, "\n")]))
		}
		roots = append(roots, lines)
	}
	ids, err := mktree(roots)
	if err != nil {
		return err
	}
	st := filesystem.NewStorage(osfs.New(repo), cache.NewObjectLRUDefault())
	for i, t := range order {
		t.id = ids[i]
		tr, err := object.GetTree(st, plumbing.NewHash(t.id))
		if err != nil {
			return fmt.Errorf("go-git cannot read tree %s (%s) written by git: %v", t.id, t.key, err)
		}
		t.tree = tr
		// the same abstract tree as an index ...
		var ps []string
		for p, v := range t.m {
			if v != "-" {
				ps = append(ps, p)
			}
		}
		sort.Strings(ps)
		t.idx = &index.Index{Version: 2}
		t.subs = map[string]plumbing.Hash{}
		// ... and as a worktree directory
		t.wtDir = filepath.Join(work, "wt", fmt.Sprintf("%d", i))
		if err := os.MkdirAll(t.wtDir, 0o755); err != nil {
			return err
		}
		for _, p := range ps {
			l := c44LeafOf(t.m[p])
			t.idx.Entries = append(t.idx.Entries, &index.Entry{Name: p, Mode: l.mode, Hash: plumbing.NewHash(l.id)})
			full := filepath.Join(t.wtDir, filepath.FromSlash(p))
			if err := os.MkdirAll(filepath.Dir(full), 0o755); err != nil {
				return err
			}
			switch l.mode {
			case filemode.Submodule:
				if err := os.MkdirAll(full, 0o755); err != nil {
					return err
				}
				t.subs[p] = plumbing.NewHash(l.id)
			case filemode.Symlink:
				if err := os.Symlink(c44Content[t.m[p][1]], full); err != nil {
					return err
				}
			default:
				perm := os.FileMode(0o644)
				if l.mode == filemode.Executable {
					perm = 0o755
				}
				if err := os.WriteFile(full, []byte(c44Content[t.m[p][1]]), perm); err != nil {
					return err
				}
			}
		}
	}

	// ---------------------------------------------------------------- go-git legs
	fromMerkle := func(chs merkletrie.Changes) ([]c44Change, error) {
		var out []c44Change
		leaf := func(p noder.Path) string {
			h := p.Hash()
			if len(h) != 24 {
				return fmt.Sprintf("?hashlen%d", len(h))
			}
			return project(binary.LittleEndian.Uint32(h[20:]), hex.EncodeToString(h[:20]))
		}
		for _, c := range chs {
			a, err := c.Action()
			if err != nil {
				return nil, err
			}
			switch a {
			case merkletrie.Insert:
				out = append(out, c44Change{c.To.String(), "ins", "-", leaf(c.To)})
			case merkletrie.Delete:
				out = append(out, c44Change{c.From.String(), "del", leaf(c.From), "-"})
			default:
				if c.From.String() != c.To.String() {
					return nil, fmt.Errorf("modify with two paths %s %s", c.From, c.To)
				}
				out = append(out, c44Change{c.From.String(), "mod", leaf(c.From), leaf(c.To)})
			}
		}
		return out, nil
	}
	fromObject := func(chs object.Changes) []c44Out {
		var out []c44Out
		for _, c := range chs {
			o := c44Out{Fp: c.From.Name, Tp: c.To.Name, F: "-", T: "-"}
			if c.From.Name != "" {
				o.F = project(uint32(c.From.TreeEntry.Mode), c.From.TreeEntry.Hash.String())
			}
			if c.To.Name != "" {
				o.T = project(uint32(c.To.TreeEntry.Mode), c.To.TreeEntry.Hash.String())
			}
			out = append(out, o)
		}
		return out
	}
	outToChanges := func(os []c44Out) ([]c44Change, bool) {
		var out []c44Change
		for _, o := range os {
			switch {
			case o.Fp == "":
				out = append(out, c44Change{o.Tp, "ins", "-", o.T})
			case o.Tp == "":
				out = append(out, c44Change{o.Fp, "del", o.F, "-"})
			case o.Fp == o.Tp:
				out = append(out, c44Change{o.Fp, "mod", o.F, o.T})
			default:
				return nil, false // a rename although detection is off
			}
		}
		return out, true
	}
	compare := func(leg string, row *c44Row, got []c44Change) {
		r.Eval(1)
		want := map[string]c44Change{}
		for _, c := range row.Diff {
			want[c.P] = c
		}
		seen := map[string]bool{}
		gs := append([]c44Change(nil), got...)
		sort.Slice(gs, func(i, j int) bool { return gs[i].P < gs[j].P })
		for _, g := range gs {
			w, ok := want[g.P]
			cs := map[string]any{"a": c44Key(row.A), "b": c44Key(row.B), "spec": row.Diff, "gogit": got}
			switch {
			case seen[g.P]:
				r.Diverge(leg+"|duplicate-change|"+changeStr(g), fmt.Sprintf("%s reports path %s twice (%s -> %s)", leg, g.P, c44Key(row.A), c44Key(row.B)), cs)
			case !ok:
				r.Diverge(leg+"|invented-change|"+changeStr(g), fmt.Sprintf("%s reports %v, the trees do not differ there (%s -> %s)", leg, g, c44Key(row.A), c44Key(row.B)), cs)
			case w != g:
				r.Diverge(leg+"|wrong-change|"+changeStr(w)+"|got="+changeStr(g), fmt.Sprintf("%s reports %v, the change is %v (%s -> %s)", leg, g, w, c44Key(row.A), c44Key(row.B)), cs)
			}
			seen[g.P] = true
		}
		var ws []string
		for p := range want {
			ws = append(ws, p)
		}
		sort.Strings(ws)
		for _, p := range ws {
			if !seen[p] {
				r.Diverge(leg+"|lost-change|"+changeStr(want[p]), fmt.Sprintf("%s does not report %v (%s -> %s)", leg, want[p], c44Key(row.A), c44Key(row.B)),
					map[string]any{"a": c44Key(row.A), "b": c44Key(row.B), "spec": row.Diff, "gogit": got})
			}
		}
	}
	fail := func(leg string, row *c44Row, err error) {
		r.Eval(1)
		var ks []string
		for _, c := range row.Diff {
			ks = append(ks, c.K+":"+c.F[:1]+">"+c.T[:1])
		}
		sort.Strings(ks)
		r.Diverge(leg+"|error|"+strings.Join(uniq(ks), ","), fmt.Sprintf("%s failed: %v (%s -> %s)", leg, err, c44Key(row.A), c44Key(row.B)),
			map[string]any{"a": c44Key(row.A), "b": c44Key(row.B), "err": err.Error()})
	}

	rf, err := os.Create(args[0])
	if err != nil {
		return err
	}
	rw := bufio.NewWriter(rf)
	renameRecs := 0
	var gitIn bytes.Buffer
	ctx := context.Background()
	for i := range rows {
		row := &rows[i]
		ta, tb := trees[c44Key(row.A)], trees[c44Key(row.B)]
		// L1 object.DiffTreeWithOptions, rename detection off
		if chs, err := object.DiffTreeWithOptions(ctx, ta.tree, tb.tree, nil); err != nil {
			fail("DiffTree", row, err)
		} else if got, ok := outToChanges(fromObject(chs)); !ok {
			r.Diverge("DiffTree|rename-without-detection|", "DiffTreeWithOptions(nil) reported a rename", map[string]any{"a": ta.key, "b": tb.key})
		} else {
			compare("DiffTree", row, got)
		}
		// L2 index vs index, L3 tree vs index (Status: staging), L4 index vs worktree (Status: worktree)
		legs := []struct {
			name     string
			from, to noder.Noder
		}{
			{"merkletrie:index-index", mindex.NewRootNode(ta.idx), mindex.NewRootNode(tb.idx)},
			{"merkletrie:tree-index", object.NewTreeRootNode(ta.tree), mindex.NewRootNode(tb.idx)},
			{"merkletrie:index-worktree", mindex.NewRootNode(ta.idx), mfs.NewRootNode(osfs.New(tb.wtDir), tb.subs)},
		}
		for _, l := range legs {
			chs, err := merkletrie.DiffTree(l.from, l.to, c44Equal)
			if err != nil {
				fail(l.name, row, err)
				continue
			}
			got, err := fromMerkle(chs)
			if err != nil {
				fail(l.name, row, err)
				continue
			}
			compare(l.name, row, got)
		}
		// L5 rename detection on: recorded for TLC (batch trace validation)
		for _, o := range row.Opts {
			opts := &object.DiffTreeOptions{DetectRenames: true, RenameScore: uint(o.Score), RenameLimit: uint(o.Limit), OnlyExactRenames: o.Exact}
			chs, err := object.DiffTreeWithOptions(ctx, ta.tree, tb.tree, opts)
			if err != nil {
				fail("DiffTree:renames", row, err)
				continue
			}
			out := fromObject(chs)
			if out == nil {
				out = []c44Out{}
			}
			b, _ := json.Marshal(map[string]any{"a": row.A, "b": row.B, "o": o, "out": out})
			rw.Write(b)
			rw.WriteByte('\n')
			renameRecs++
		}
		fmt.Fprintf(&gitIn, "%s %s\n", ta.id, tb.id)
		if i < 3 {
			r.Sample(map[string]any{"a": ta.key, "b": tb.key, "spec_diff": row.Diff})
		}
	}
	if err := rw.Flush(); err != nil {
		return err
	}
	rf.Close()
	r.Distinct = len(rows)
	r.Traces = renameRecs
	r.Extra["trees"] = len(order)
	r.Extra["rename_records"] = renameRecs

	// ---------------------------------------------------------------- git leg: one diff-tree --stdin
	o, e, err := gitcli.Run(repo, gitIn.Bytes(), "diff-tree", "-r", "--no-renames", "-z", "--stdin")
	if err != nil {
		return fmt.Errorf("git diff-tree --stdin: %v: %s", err, e)
	}
	gitDiffs, err := parseDiffTreeZ(o, project)
	if err != nil {
		return err
	}
	if len(gitDiffs) != len(rows) {
		return fmt.Errorf("git diff-tree answered %d pairs of %d", len(gitDiffs), len(rows))
	}
	for i := range rows {
		want := append([]c44Change(nil), rows[i].Diff...)
		got := gitDiffs[i]
		sort.Slice(want, func(a, b int) bool { return want[a].P < want[b].P })
		sort.Slice(got, func(a, b int) bool { return got[a].P < got[b].P })
		same := len(want) == len(got)
		for k := 0; same && k < len(want); k++ {
			same = want[k] == got[k]
		}
		if !same {
			r.SpecError(map[string]any{"leg": "diff-tree", "a": c44Key(rows[i].A), "b": c44Key(rows[i].B), "spec": want, "git": got})
		}
	}
	r.Extra["git_leg"] = true
	r.Extra["git_pairs"] = len(rows)
	return r.Emit()
}

func uniq(s []string) []string {
	var o []string
	for i, x := range s {
		if i == 0 || x != s[i-1] {
			o = append(o, x)
		}
	}
	return o
}

func typeOfMode(m filemode.FileMode) string {
	switch m {
	case filemode.Dir:
		return "tree"
	case filemode.Submodule:
		return "commit"
	}
	return "blob"
}

// parseDiffTreeZ parses `git diff-tree -r -z --stdin` output for two-tree input lines: a header
// "<id> <id>\n" per pair followed by records ":<m1> <m2> <id1> <id2> <S>\0<path>\0".
func parseDiffTreeZ(o string, project func(uint32, string) string) ([][]c44Change, error) {
	var res [][]c44Change
	for len(o) > 0 {
		if o[0] != ':' {
			nl := strings.IndexByte(o, '\n')
			if nl < 0 {
				return nil, fmt.Errorf("diff-tree: header without newline: %q", o)
			}
			res = append(res, nil)
			o = o[nl+1:]
			continue
		}
		z := strings.IndexByte(o, 0)
		if z < 0 {
			return nil, fmt.Errorf("diff-tree: truncated record")
		}
		meta := strings.Fields(o[1:z])
		o = o[z+1:]
		z = strings.IndexByte(o, 0)
		if z < 0 || len(meta) != 5 || len(res) == 0 {
			return nil, fmt.Errorf("diff-tree: bad record %v", meta)
		}
		path := o[:z]
		o = o[z+1:]
		var m1, m2 uint32
		fmt.Sscanf(meta[0], "%o", &m1)
		fmt.Sscanf(meta[1], "%o", &m2)
		c := c44Change{P: path, F: "-", T: "-"}
		switch meta[4] {
		case "A":
			c.K, c.T = "ins", project(m2, meta[3])
		case "D":
			c.K, c.F = "del", project(m1, meta[2])
		case "M", "T":
			c.K, c.F, c.T = "mod", project(m1, meta[2]), project(m2, meta[3])
		default:
			return nil, fmt.Errorf("diff-tree: unexpected status %q", meta[4])
		}
		res[len(res)-1] = append(res[len(res)-1], c)
	}
	return res, nil
}
