package main

// C23: concurrent reads on shared storage are correct (and, in the -race build, race-free).
//
// Driver: R reader goroutines share ONE filesystem.Storage (fd pool capacity 1/2/256, lazy or in-memory
// idx, tiny object cache); a writer goroutine owns a SECOND Storage on the same repository and adds loose
// objects, packs (PackfileWriter), references, and repacks.  Every API call is recorded with its invoke /
// response position; the histories are judged by TLC against spec/abstract/ObjectReads.tla
// (spec/trace/TraceObjectReads.tla).  Schedules:
//   gated : every filesystem step of both storages and every verif yield point parks the goroutine; a
//           seeded scheduler grants one step at a time (a process that blocks on an in-memory lock while
//           the holder is parked is detected by a timeout and another one is granted)
//   free  : free running; the same points yield / sleep by a per-goroutine seeded choice
//   race  : as free, without any shared recording (nothing that would order the goroutines); used with the
//           -race binary, where the Go race detector decides the "never race" clause.

import (
	"bytes"
	"crypto/sha1"
	"encoding/hex"
	"encoding/json"
	"errors"
	"fmt"
	"io"
	"math/rand"
	"os"
	"runtime"
	"sort"
	"strconv"
	"strings"
	"sync"
	"sync/atomic"
	"time"

	"verifharness/internal/hookfs"
	"verifharness/internal/rep"

	"github.com/go-git/go-billy/v6"
	"github.com/go-git/go-billy/v6/memfs"
	"github.com/go-git/go-billy/v6/osfs"
	git "github.com/go-git/go-git/v6"
	"github.com/go-git/go-git/v6/plumbing"
	"github.com/go-git/go-git/v6/plumbing/cache"
	"github.com/go-git/go-git/v6/plumbing/filemode"
	"github.com/go-git/go-git/v6/plumbing/format/index"
	"github.com/go-git/go-git/v6/plumbing/format/packfile"
	"github.com/go-git/go-git/v6/plumbing/object"
	"github.com/go-git/go-git/v6/storage/filesystem"
	"github.com/go-git/go-git/v6/storage/memory"
	"github.com/go-git/go-git/v6/x/fdpool"
	"github.com/go-git/go-git/v6/x/verifbridge"
)

func init() {
	rep.Register("c23", c23)
	rep.Register("c23race", c23race)
}

// ---- history format (see ObjectReads.tla)

type c23Val struct {
	R    string `json:"r"` // found | notfound | error | "" (not a read)
	T    string `json:"t"`
	Size int    `json:"size"`
	C    string `json:"c"`
	Err  string `json:"err"`
}

type c23Op struct {
	P    int      `json:"p"`
	Kind string   `json:"kind"` // read | publish | repack | reindex
	Api  string   `json:"api"`  // read: full|has|size|type ; publish: loose|pack|ref ; repack ; reindex
	Call string   `json:"call"` // the go-git call (information only)
	Keys []string `json:"keys"`
	Val  c23Val   `json:"val"`
	Inv  int      `json:"inv"`
	Rsp  int      `json:"rsp"`
}

type c23Stored struct {
	T    string `json:"t"`
	Size int    `json:"size"`
	C    string `json:"c"`
}

type c23Cfg struct {
	Mode     string `json:"mode"`
	Readers  int    `json:"readers"`
	Cap      int    `json:"cap"`
	MemIdx   bool   `json:"memidx"`
	Reindex  bool   `json:"reindex"`
	IdxFirst bool   `json:"idxfirst"` // every reader starts with an index read (cold index cache, all at once)
	Seed     int64  `json:"seed"`
	Writer   string `json:"writer"`
}

type c23Hist struct {
	ID     int                  `json:"id"`
	N      int                  `json:"n"`
	Cfg    c23Cfg               `json:"cfg"`
	Init   []string             `json:"init"`
	Stored map[string]c23Stored `json:"stored"`
	Ops    []c23Op              `json:"ops"`
	Steps  int                  `json:"steps"`
	Steals int                  `json:"steals"`
}

// ---- goroutine identity (the storages are shared, so the hooks must find out who is calling)

func goid() int64 {
	var b [40]byte
	n := runtime.Stack(b[:], false)
	s := b[len("goroutine "):n]
	if i := bytes.IndexByte(s, ' '); i > 0 {
		v, _ := strconv.ParseInt(string(s[:i]), 10, 64)
		return v
	}
	return 0
}

type yproc struct {
	pid    int
	grant  chan struct{}
	parked bool
	done   bool
	rnd    *rand.Rand // free mode: used only by its own goroutine
}

// yielder is what the hooks call.
type yielder interface{ yield(kind string) }

// ---- gated scheduler

type gsched struct {
	mu      sync.Mutex
	procs   map[int64]*yproc // read-only once running
	wake    chan struct{}
	rnd     *rand.Rand
	timeout time.Duration
	on      atomic.Bool
	steps   int
	steals  int
	last    *yproc
	writer  int // pid of the writer: granted half of the steps, so that reads spread over the whole program
}

func (s *gsched) signal() {
	select {
	case s.wake <- struct{}{}:
	default:
	}
}

func (s *gsched) yield(kind string) {
	if !s.on.Load() {
		return
	}
	p := s.procs[goid()]
	if p == nil {
		return // a goroutine go-git started itself (errgroup, timers): runs free
	}
	s.mu.Lock()
	p.parked = true
	s.mu.Unlock()
	s.signal()
	<-p.grant
}

func (s *gsched) finish(p *yproc) {
	s.mu.Lock()
	p.done = true
	s.mu.Unlock()
	s.signal()
}

func (s *gsched) run() {
	for {
		deadline := time.Now().Add(s.timeout)
		var parked []*yproc
		for {
			s.mu.Lock()
			live := 0
			parked = parked[:0]
			for _, p := range s.procs {
				if !p.done {
					live++
					if p.parked {
						parked = append(parked, p)
					}
				}
			}
			s.mu.Unlock()
			if live == 0 {
				return
			}
			if len(parked) == live {
				break
			}
			if len(parked) > 0 && time.Now().After(deadline) {
				s.steals++ // somebody is blocked on an in-memory lock (or slow): go on without it
				break
			}
			select {
			case <-s.wake:
			case <-time.After(100 * time.Microsecond):
			}
		}
		sort.Slice(parked, func(i, j int) bool { return parked[i].pid < parked[j].pid })
		var pick *yproc
		if s.last != nil && s.rnd.Intn(100) < 55 { // runs of one process, broken by preemptions
			for _, p := range parked {
				if p == s.last {
					pick = p
				}
			}
		}
		if pick == nil && s.rnd.Intn(100) < 45 {
			for _, p := range parked {
				if p.pid == s.writer {
					pick = p
				}
			}
		}
		if pick == nil {
			pick = parked[s.rnd.Intn(len(parked))]
		}
		s.last = pick
		s.mu.Lock()
		pick.parked = false
		s.mu.Unlock()
		s.steps++
		pick.grant <- struct{}{}
	}
}

// ---- free-running perturbation

type freeRun struct {
	procs map[int64]*yproc
	on    atomic.Bool
}

func (f *freeRun) yield(kind string) {
	if !f.on.Load() {
		return
	}
	p := f.procs[goid()]
	if p == nil {
		return
	}
	switch x := p.rnd.Intn(100); {
	case x < 25:
		runtime.Gosched()
	case x < 29:
		time.Sleep(time.Duration(1+p.rnd.Intn(40)) * time.Microsecond)
	}
}

// ---- the repository universe

type c23Obj struct {
	key string
	obj plumbing.EncodedObject
}

type c23Step struct {
	kind string // loose | pack | repack
	objs []c23Obj
	ref  plumbing.ReferenceName
	tip  plumbing.Hash
}

type c23World struct {
	fs      billy.Filesystem
	stored  map[string]c23Stored
	hashOf  map[string]plumbing.Hash
	init    []string
	steps   []c23Step
	objKeys []string // every object key (initial, to be published, never published)
	refKeys []string
	idxKey  string
	dir     string
}

func c23Triple(o plumbing.EncodedObject) c23Stored {
	return c23Stored{T: o.Type().String(), Size: int(o.Size()), C: o.Hash().String()}
}

func c23Commit(n int, st interface {
	SetEncodedObject(plumbing.EncodedObject) (plumbing.Hash, error)
}, parent plumbing.Hash, store bool) (blob, tree, commit plumbing.EncodedObject) {
	// the blobs share most of their content, so that packs carry deltas
	blob = mkObj(plumbing.BlobObject, []byte(strings.Repeat("all work and no play makes jack a dull boy\n", 20)+fmt.Sprintf("version %d\n", n)))
	tree = encObj(&object.Tree{Entries: []object.TreeEntry{{Name: "f", Mode: filemode.Regular, Hash: blob.Hash()}}})
	c := &object.Commit{Author: gcSig, Committer: gcSig, Message: fmt.Sprintf("c%d\n", n), TreeHash: tree.Hash()}
	if !parent.IsZero() {
		c.ParentHashes = []plumbing.Hash{parent}
	}
	commit = encObj(c)
	if store {
		for _, o := range []plumbing.EncodedObject{blob, tree, commit} {
			if _, err := st.SetEncodedObject(o); err != nil {
				panic(err)
			}
		}
	}
	return
}

// newC23World builds the initial repository (a pack with c0, loose c1, stable references, an index)
// and the writer's program.
func newC23World(prog string, onOS bool) (*c23World, error) {
	w := &c23World{fs: memfs.New(), stored: map[string]c23Stored{}, hashOf: map[string]plumbing.Hash{}}
	if onOS {
		// the race runs use the OS filesystem: memfs is not meant for unsynchronised concurrent use
		d, err := os.MkdirTemp(os.Getenv("VERIF_SCRATCH"), "c23-")
		if err != nil {
			return nil, err
		}
		w.dir = d
		w.fs = osfs.New(d)
	}
	st := filesystem.NewStorageWithOptions(w.fs, cache.NewObjectLRUDefault(), filesystem.Options{})
	if _, err := git.Init(st, git.WithDefaultBranch("refs/heads/stable")); err != nil {
		return nil, err
	}
	addObj := func(name string, o plumbing.EncodedObject, present bool) string {
		k := "o:" + name
		w.stored[k] = c23Triple(o)
		w.hashOf[k] = o.Hash()
		w.objKeys = append(w.objKeys, k)
		if present {
			w.init = append(w.init, k)
		}
		return k
	}
	addRef := func(name string, h plumbing.Hash, present bool) string {
		k := "r:" + name
		w.stored[k] = c23Stored{T: "ref", C: h.String()}
		w.refKeys = append(w.refKeys, k)
		if present {
			w.init = append(w.init, k)
		}
		return k
	}
	b0, t0, c0 := c23Commit(0, st, plumbing.ZeroHash, true)
	addObj("b0", b0, true)
	addObj("t0", t0, true)
	addObj("c0", c0, true)
	// c0 goes into a pack
	pw, err := st.PackfileWriter()
	if err != nil {
		return nil, err
	}
	hs := []plumbing.Hash{b0.Hash(), t0.Hash(), c0.Hash()}
	if _, err := packfile.NewEncoder(pw, st, false).Encode(hs, 10); err != nil {
		return nil, err
	}
	if err := pw.Close(); err != nil {
		return nil, err
	}
	for _, h := range hs {
		if err := st.DeleteLooseObject(h); err != nil {
			return nil, err
		}
	}
	b1, t1, c1 := c23Commit(1, st, c0.Hash(), true)
	addObj("b1", b1, true)
	addObj("t1", t1, true)
	addObj("c1", c1, true)
	if err := st.SetReference(plumbing.NewHashReference("refs/heads/stable", c1.Hash())); err != nil {
		return nil, err
	}
	if err := st.SetReference(plumbing.NewHashReference("refs/tags/s0", c0.Hash())); err != nil {
		return nil, err
	}
	addRef("refs/heads/stable", c1.Hash(), true)
	addRef("refs/tags/s0", c0.Hash(), true)
	idx := &index.Index{Version: 2, Entries: []*index.Entry{
		{Name: "f", Hash: b1.Hash(), Mode: filemode.Regular, Size: uint32(b1.Size())},
		{Name: "g", Hash: b0.Hash(), Mode: filemode.Regular, Size: uint32(b0.Size())}}}
	if err := st.SetIndex(idx); err != nil {
		return nil, err
	}
	w.idxKey = "i:index"
	w.stored[w.idxKey] = c23IndexTriple(idx)
	w.init = append(w.init, w.idxKey)
	st.Close()
	// never published
	for i, n := range []int{900, 901} {
		b, _, _ := c23Commit(n, nil, plumbing.ZeroHash, false)
		addObj(fmt.Sprintf("never%d", i), b, false)
	}
	// the writer's program: one letter per step: l = loose, p = pack, r = repack
	parent := c1.Hash()
	n := 2
	for _, ch := range prog {
		switch ch {
		case 'l', 'p':
			b, t, c := c23Commit(n, nil, parent, false)
			s := c23Step{kind: map[rune]string{'l': "loose", 'p': "pack"}[ch], ref: plumbing.ReferenceName(fmt.Sprintf("refs/heads/w%d", n)), tip: c.Hash()}
			for _, x := range []struct {
				n string
				o plumbing.EncodedObject
			}{{"b", b}, {"t", t}, {"c", c}} {
				s.objs = append(s.objs, c23Obj{addObj(fmt.Sprintf("%s%d", x.n, n), x.o, false), x.o})
			}
			addRef(s.ref.String(), c.Hash(), false)
			w.steps = append(w.steps, s)
			parent = c.Hash()
			n++
		case 'r':
			w.steps = append(w.steps, c23Step{kind: "repack"})
		}
	}
	return w, nil
}

func c23IndexTriple(idx *index.Index) c23Stored {
	h := sha1.New()
	for _, e := range idx.Entries {
		fmt.Fprintf(h, "%s %s %o\n", e.Name, e.Hash, e.Mode)
	}
	return c23Stored{T: "index", Size: len(idx.Entries), C: hex.EncodeToString(h.Sum(nil))}
}

func normErr(err error) string {
	s := err.Error()
	// drop hashes and paths
	f := strings.Fields(s)
	for i, x := range f {
		if len(x) >= 40 || strings.Contains(x, "pack-") || strings.Contains(x, "/") {
			f[i] = "_"
		}
	}
	s = strings.Join(f, " ")
	if len(s) > 120 {
		s = s[:120]
	}
	return s
}

// ---- one read through the shared storage

// read performs one read; a panic inside go-git is a failed call, not a dead driver.
func (w *c23World) read(st *filesystem.Storage, key, api string) (call string, val c23Val) {
	defer func() {
		if r := recover(); r != nil {
			call, val = "panicked", c23Val{R: "error", Err: fmt.Sprintf("panic: %v", r)}
		}
	}()
	return w.read1(st, key, api)
}

func (w *c23World) read1(st *filesystem.Storage, key, api string) (string, c23Val) {
	fail := func(err error) c23Val {
		if errors.Is(err, plumbing.ErrObjectNotFound) || errors.Is(err, plumbing.ErrReferenceNotFound) {
			return c23Val{R: "notfound"}
		}
		return c23Val{R: "error", Err: normErr(err)}
	}
	switch key[0] {
	case 'o':
		h := w.hashOf[key]
		switch api {
		case "has":
			if err := st.HasEncodedObject(h); err != nil {
				return "HasEncodedObject", fail(err)
			}
			return "HasEncodedObject", c23Val{R: "found"}
		case "size":
			n, err := st.EncodedObjectSize(h)
			if err != nil {
				return "EncodedObjectSize", fail(err)
			}
			return "EncodedObjectSize", c23Val{R: "found", Size: int(n)}
		case "type":
			o, err := st.EncodedObject(plumbing.AnyObject, h)
			if err != nil {
				return "EncodedObject", fail(err)
			}
			return "EncodedObject", c23Val{R: "found", T: o.Type().String(), Size: int(o.Size())}
		default:
			o, err := st.EncodedObject(plumbing.AnyObject, h)
			if err != nil {
				return "EncodedObject+Reader", fail(err)
			}
			r, err := o.Reader()
			if err != nil {
				return "EncodedObject+Reader", fail(err)
			}
			b, err := io.ReadAll(r)
			r.Close()
			if err != nil {
				return "EncodedObject+Reader", fail(err)
			}
			return "EncodedObject+Reader", c23Val{R: "found", T: o.Type().String(), Size: len(b), C: mkObj(o.Type(), b).Hash().String()}
		}
	case 'r':
		ref, err := st.Reference(plumbing.ReferenceName(key[2:]))
		if err != nil {
			return "Reference", fail(err)
		}
		return "Reference", c23Val{R: "found", T: "ref", C: ref.Hash().String()}
	default:
		idx, err := st.Index()
		if err != nil {
			return "Index", fail(err)
		}
		t := c23IndexTriple(idx)
		return "Index", c23Val{R: "found", T: t.T, Size: t.Size, C: t.C}
	}
}

// ---- one writer step on the writer's own storage

func (w *c23World) write(st *filesystem.Storage, s c23Step) error {
	switch s.kind {
	case "loose":
		for _, o := range s.objs {
			if _, err := st.SetEncodedObject(o.obj); err != nil {
				return err
			}
		}
	case "pack":
		mem := memory.NewStorage()
		var hs []plumbing.Hash
		for _, o := range s.objs {
			mem.SetEncodedObject(o.obj)
			hs = append(hs, o.obj.Hash())
		}
		var buf bytes.Buffer
		if _, err := packfile.NewEncoder(&buf, mem, false).Encode(hs, 10); err != nil {
			return err
		}
		pw, err := st.PackfileWriter()
		if err != nil {
			return err
		}
		if _, err := pw.Write(buf.Bytes()); err != nil {
			pw.Close()
			return err
		}
		return pw.Close()
	case "repack":
		r, err := git.Open(st, nil)
		if err != nil {
			return err
		}
		return r.RepackObjects(&git.RepackConfig{})
	}
	return nil
}

// ---- one run

type c23Rec struct {
	mu  sync.Mutex
	pos int
	ops []c23Op
}

func (r *c23Rec) tick() int {
	r.mu.Lock()
	r.pos++
	p := r.pos
	r.mu.Unlock()
	return p
}

func (r *c23Rec) add(o c23Op) {
	r.mu.Lock()
	r.ops = append(r.ops, o)
	r.mu.Unlock()
}

type c23Result struct {
	hist      *c23Hist
	localBad  []string // race mode: problems detected without a shared log (sanity only)
	writerErr error
}

func c23Run(id int, cfg c23Cfg, readsPerReader int, record bool) (*c23Result, error) {
	w, err := newC23World(cfg.Writer, !record)
	if err != nil {
		return nil, err
	}
	if w.dir != "" {
		defer os.RemoveAll(w.dir)
	}
	var y yielder
	var gs *gsched
	var fr *freeRun
	procs := map[int64]*yproc{}
	if cfg.Mode == "gated" {
		gs = &gsched{procs: procs, wake: make(chan struct{}, 1), rnd: rand.New(rand.NewSource(cfg.Seed)), timeout: 400 * time.Microsecond, writer: cfg.Readers + 1}
		y = gs
	} else {
		fr = &freeRun{procs: procs}
		y = fr
	}
	hook := func(op *hookfs.Op) error { y.yield(op.Kind); return nil }
	verifbridge.InstallHooks(nil, func(obj any, point string) { y.yield(point) })
	defer verifbridge.InstallHooks(nil, nil)

	rfs := hookfs.New(w.fs, hook)
	wfs := hookfs.New(w.fs, hook)
	rst := filesystem.NewStorageWithOptions(rfs, cache.NewObjectLRU(256), filesystem.Options{Pool: fdpool.New(cfg.Cap), UseInMemoryIdx: cfg.MemIdx})
	wst := filesystem.NewStorageWithOptions(wfs, cache.NewObjectLRUDefault(), filesystem.Options{})
	defer rst.Close()
	defer wst.Close()

	rec := &c23Rec{}
	res := &c23Result{}
	var resMu sync.Mutex
	var wg sync.WaitGroup
	start := make(chan struct{})
	nprocs := cfg.Readers + 1
	ready := make(chan *yproc, nprocs)
	launch := func(pid int, body func(p *yproc)) {
		wg.Add(1)
		go func() {
			defer wg.Done()
			p := &yproc{pid: pid, grant: make(chan struct{}), rnd: rand.New(rand.NewSource(cfg.Seed*131 + int64(pid)))}
			// registration happens before `start` is closed: the maps are read-only afterwards
			resMu.Lock()
			procs[goid()] = p
			resMu.Unlock()
			ready <- p
			<-start
			if gs != nil {
				gs.yield("start")
			}
			body(p)
			if gs != nil {
				gs.finish(p)
			}
		}()
	}
	var writerDone atomic.Bool
	apis := []string{"full", "full", "has", "size", "type"}
	for i := 1; i <= cfg.Readers; i++ {
		pid := i
		launch(pid, func(p *yproc) {
			rnd := rand.New(rand.NewSource(cfg.Seed*977 + int64(pid)))
			tail := -1
			for k := 0; k < 4*readsPerReader && tail != 0; k++ {
				if tail > 0 {
					tail--
				} else if writerDone.Load() {
					tail = readsPerReader / 2
				}
				if cfg.Reindex && rnd.Intn(8) == 0 {
					inv := 0
					if record {
						inv = rec.tick()
					}
					err := rst.Reindex()
					if record {
						o := c23Op{P: pid, Kind: "reindex", Api: "reindex", Call: "Reindex", Keys: []string{}, Inv: inv, Rsp: rec.tick()}
						if err != nil {
							o.Val.Err = normErr(err)
						}
						rec.add(o)
					}
					continue
				}
				var key, api string
				switch x := rnd.Intn(10); {
				case k == 0 && cfg.IdxFirst:
					key, api = w.idxKey, "full"
				case x < 7:
					key, api = w.objKeys[rnd.Intn(len(w.objKeys))], apis[rnd.Intn(len(apis))]
				case x < 9:
					key, api = w.refKeys[rnd.Intn(len(w.refKeys))], "full"
				default:
					key, api = w.idxKey, "full"
				}
				inv := 0
				if record {
					inv = rec.tick()
				}
				call, val := w.read(rst, key, api)
				if record {
					rec.add(c23Op{P: pid, Kind: "read", Api: api, Call: call, Keys: []string{key}, Val: val, Inv: inv, Rsp: rec.tick()})
				} else if val.R == "error" || (val.R == "found" && api == "full" && val.C != w.stored[key].C) {
					resMu.Lock()
					res.localBad = append(res.localBad, call+": "+val.R+" "+val.Err)
					resMu.Unlock()
				}
			}
		})
	}
	wpid := cfg.Readers + 1
	launch(wpid, func(p *yproc) {
		defer writerDone.Store(true)
		for _, s := range w.steps {
			inv := 0
			if record {
				inv = rec.tick()
			}
			err := w.write(wst, s)
			if err != nil {
				resMu.Lock()
				res.writerErr = fmt.Errorf("writer %s: %w", s.kind, err)
				resMu.Unlock()
				return
			}
			if s.kind == "repack" {
				if record {
					rec.add(c23Op{P: wpid, Kind: "repack", Api: "repack", Call: "RepackObjects", Keys: []string{}, Inv: inv, Rsp: rec.tick()})
				}
				continue
			}
			if record {
				var ks []string
				for _, o := range s.objs {
					ks = append(ks, o.key)
				}
				rec.add(c23Op{P: wpid, Kind: "publish", Api: s.kind, Call: map[string]string{"loose": "SetEncodedObject x3", "pack": "PackfileWriter"}[s.kind], Keys: ks, Inv: inv, Rsp: rec.tick()})
				inv = rec.tick()
			}
			if err := wst.SetReference(plumbing.NewHashReference(s.ref, s.tip)); err != nil {
				resMu.Lock()
				res.writerErr = fmt.Errorf("writer SetReference: %w", err)
				resMu.Unlock()
				return
			}
			if record {
				rec.add(c23Op{P: wpid, Kind: "publish", Api: "ref", Call: "SetReference", Keys: []string{"r:" + s.ref.String()}, Inv: inv, Rsp: rec.tick()})
			}
		}
	})
	for i := 0; i < nprocs; i++ {
		<-ready
	}
	if gs != nil {
		gs.on.Store(true)
	} else {
		fr.on.Store(true)
	}
	close(start)
	if gs != nil {
		gs.run()
	}
	wg.Wait()
	if res.writerErr != nil {
		return res, nil
	}
	if record {
		sort.Slice(rec.ops, func(i, j int) bool { return rec.ops[i].Inv < rec.ops[j].Inv })
		h := &c23Hist{ID: id, N: rec.pos, Cfg: cfg, Init: w.init, Stored: w.stored, Ops: rec.ops}
		if gs != nil {
			h.Steps, h.Steals = gs.steps, gs.steals
		}
		res.hist = h
	}
	return res, nil
}

var c23Progs = []string{"lpr", "plrp", "prlp", "llpr", "pprl", "rpl", "lrp", "pplr"}

func c23Configs(n int, seed int64, modes []string) []c23Cfg {
	rnd := rand.New(rand.NewSource(seed))
	var cs []c23Cfg
	caps := []int{1, 2, 256}
	for i := 0; i < n; i++ {
		cs = append(cs, c23Cfg{
			Mode:     modes[i%len(modes)],
			Readers:  2 + (i/len(modes))%3,
			Cap:      caps[(i/2)%3],
			MemIdx:   (i/3)%2 == 1,
			Reindex:  (i/5)%2 == 1,
			IdxFirst: (i/2)%2 == 0,
			Seed:     seed*100003 + int64(i)*7919 + rnd.Int63n(1000),
			Writer:   c23Progs[rnd.Intn(len(c23Progs))],
		})
	}
	return cs
}

// c23 <out.ndjson> <runs>: records histories for TLC.
func c23(args []string) error {
	if len(args) < 2 {
		return fmt.Errorf("usage: c23 out.ndjson runs")
	}
	runs := 0
	fmt.Sscan(args[1], &runs)
	out, err := os.Create(args[0])
	if err != nil {
		return err
	}
	defer out.Close()
	r := rep.New()
	enc := json.NewEncoder(out)
	steps, steals, ops := 0, 0, 0
	for i, cfg := range c23Configs(runs, rep.Seed(), []string{"gated", "free"}) {
		res, err := c23Run(i+1, cfg, 10, true)
		if err != nil {
			return err
		}
		if res.writerErr != nil {
			return fmt.Errorf("run %d (%+v): the writer failed, the history is unusable: %v", i+1, cfg, res.writerErr)
		}
		if err := enc.Encode(res.hist); err != nil {
			return err
		}
		r.Eval(len(res.hist.Ops))
		ops += len(res.hist.Ops)
		steps += res.hist.Steps
		steals += res.hist.Steals
		if i < 3 {
			r.Sample(map[string]any{"cfg": cfg, "ops": len(res.hist.Ops), "gated_steps": res.hist.Steps})
		}
	}
	r.Traces = runs
	r.Distinct = runs
	r.Extra["gated_steps"] = steps
	r.Extra["gated_timeouts"] = steals
	r.Extra["recorded_ops"] = ops
	return r.Emit()
}

// c23race <runs>: the same driver, free running, nothing shared between the goroutines but go-git.
func c23race(args []string) error {
	runs := 20
	if len(args) > 0 {
		fmt.Sscan(args[0], &runs)
	}
	r := rep.New()
	bad := 0
	for i, cfg := range c23Configs(runs, rep.Seed(), []string{"free"}) {
		res, err := c23Run(i+1, cfg, 25, false)
		if err != nil {
			return err
		}
		if res.writerErr != nil {
			return fmt.Errorf("run %d: the writer failed: %v", i+1, res.writerErr)
		}
		bad += len(res.localBad)
		r.Eval(cfg.Readers*25 + len(cfg.Writer))
	}
	r.Traces = runs
	r.Extra["race_runs"] = runs
	r.Extra["race_mode_local_anomalies"] = bad
	return r.Emit()
}
