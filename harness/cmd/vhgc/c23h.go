package main

// C23, descriptor side: readers that share the .idx / .pack / .rev descriptors of one Storage.
//
// World: P packs of K blobs (memfs), one Storage with a small fd pool and lazy indexes, no writer.
// Reader operations (classes come from spec/abstract/ObjectReads.tla + PinnedHandles.tla):
//   walk           IterEncodedObjects: a long-lived iterator that holds a pack's idx while it is consumed
//   prefix-inside  HashesWithPrefix(2-byte prefix whose matching run ENDS INSIDE its first-byte fanout bucket of some pack)
//   prefix-toend   HashesWithPrefix(2-byte prefix whose run reaches the end of the bucket)
//   prefix-none    HashesWithPrefix(prefix matching nothing)
//   full/has/size  plain object reads (they touch other packs: pool evictions)
//   idle           CloseIdleDescriptors
// Two recordings per run:
//   (1) the API history for ObjectReads (every key present from the start: each must be found, intact, no error);
//   (2) every SharedFile Acquire / Release / ReleaseNow / Close / TimerFire event (verif hook, emitted under the
//       SharedFile mutex) with the goroutine that made the call, per descriptor, for PinnedHandles!Check.
// Schedules: free running (seeded yields), gated (seeded), and the DIRECTED schedule that is the counterexample of
// PinnedHandles with Faulty = TRUE: the walker is stopped in the middle of pack X (it holds X's idx), another reader
// does a prefix-inside lookup on X and closes its iterator, a third reads from every other pack with the pool over
// capacity and closes idle descriptors (eviction), then the walker goes on and must deliver every object.

import (
	"encoding/json"
	"fmt"
	"io"
	"math/rand"
	"os"
	"sort"
	"strings"
	"sync"
	"sync/atomic"
	"time"

	"verifharness/internal/hookfs"
	"verifharness/internal/rep"

	"github.com/go-git/go-billy/v6"
	"github.com/go-git/go-billy/v6/memfs"
	"github.com/go-git/go-git/v6/plumbing"
	"github.com/go-git/go-git/v6/plumbing/cache"
	"github.com/go-git/go-git/v6/plumbing/format/packfile"
	"github.com/go-git/go-git/v6/storage/filesystem"
	"github.com/go-git/go-git/v6/storage/memory"
	"github.com/go-git/go-git/v6/x/fdpool"
	"github.com/go-git/go-git/v6/x/verifbridge"
)

func init() { rep.Register("c23h", c23h) }

type hEvent struct {
	H      string `json:"h"`
	Ev     string `json:"ev"`
	Refs   int    `json:"refs"`
	Open   int    `json:"open"`
	Closed int    `json:"closed"`
}

type hTrace struct {
	ID   int      `json:"id"`
	Run  int      `json:"run"`
	File string   `json:"file"`
	Ev   []hEvent `json:"ev"`
}

type hWorld struct {
	fs      billy.Filesystem
	packs   [][]plumbing.Hash // per pack, sorted
	packOf  map[plumbing.Hash]int
	keyOf   map[plumbing.Hash]string
	hashOf  map[string]plumbing.Hash
	keys    []string
	stored  map[string]c23Stored
	inside  map[int][][]byte // pack -> 2-byte prefixes whose run ends inside the fanout bucket of that pack
	toEnd   [][]byte
	none    [][]byte
	walkKey string
}

func newHWorld(nPacks, perPack int) (*hWorld, error) {
	w := &hWorld{fs: memfs.New(), packOf: map[plumbing.Hash]int{}, keyOf: map[plumbing.Hash]string{}, hashOf: map[string]plumbing.Hash{},
		stored: map[string]c23Stored{}, inside: map[int][][]byte{}}
	st := filesystem.NewStorageWithOptions(w.fs, cache.NewObjectLRUDefault(), filesystem.Options{})
	if err := st.Init(); err != nil {
		return nil, err
	}
	for p := 0; p < nPacks; p++ {
		mem := memory.NewStorage()
		var hs []plumbing.Hash
		for i := 0; i < perPack; i++ {
			o := mkObj(plumbing.BlobObject, []byte(fmt.Sprintf("pack %d object %d %s", p, i, strings.Repeat("z", 40))))
			mem.SetEncodedObject(o)
			hs = append(hs, o.Hash())
			k := fmt.Sprintf("o:p%do%d", p, i)
			w.keys = append(w.keys, k)
			w.stored[k] = c23Triple(o)
			w.hashOf[k] = o.Hash()
			w.keyOf[o.Hash()] = k
			w.packOf[o.Hash()] = p
		}
		pw, err := st.PackfileWriter()
		if err != nil {
			return nil, err
		}
		if _, err := packfile.NewEncoder(pw, mem, false).Encode(hs, 0); err != nil {
			return nil, err
		}
		if err := pw.Close(); err != nil {
			return nil, err
		}
		sort.Slice(hs, func(i, j int) bool { return hs[i].Compare(hs[j].Bytes()) < 0 })
		w.packs = append(w.packs, hs)
	}
	st.Close()
	// classify the 2-byte prefixes (the spec-level lookup classes) from the real pack contents
	seenTo := map[string]bool{}
	for p, hs := range w.packs {
		for i, h := range hs {
			b := h.Bytes()
			pre := []byte{b[0], b[1]}
			// last hash of the run with this prefix
			j := i
			for j+1 < len(hs) && hs[j+1].Bytes()[0] == b[0] && hs[j+1].Bytes()[1] == b[1] {
				j++
			}
			if i > 0 && hs[i-1].Bytes()[0] == b[0] && hs[i-1].Bytes()[1] == b[1] {
				continue // not the start of the run
			}
			if j+1 < len(hs) && hs[j+1].Bytes()[0] == b[0] {
				w.inside[p] = append(w.inside[p], pre) // a later hash with the same first byte: the run ends inside the bucket
			} else if !seenTo[string(pre)] {
				seenTo[string(pre)] = true
				w.toEnd = append(w.toEnd, pre)
			}
		}
	}
	all := map[string]bool{}
	for h := range w.packOf {
		all[string(h.Bytes()[:2])] = true
	}
	for a := 0; a < 256 && len(w.none) < 8; a++ {
		if pre := []byte{byte(a), 0x77}; !all[string(pre)] {
			w.none = append(w.none, pre)
		}
	}
	w.walkKey = "w:all"
	w.stored[w.walkKey] = c23Stored{T: "walk", Size: nPacks * perPack, C: ""}
	return w, nil
}

// matching returns the keys of the universe whose hash starts with pre.
func (w *hWorld) matching(pre []byte) []string {
	var ks []string
	for _, hs := range w.packs {
		for _, h := range hs {
			if h.HasPrefix(pre) {
				ks = append(ks, w.keyOf[h])
			}
		}
	}
	sort.Strings(ks)
	return ks
}

type hRun struct {
	w      *hWorld
	st     *filesystem.Storage
	rec    *c23Rec
	evMu   sync.Mutex
	files  map[any]string
	evs    map[string][]hEvent
	nameMu sync.RWMutex
	names  map[int64]string // goroutine -> holder name
	pauseN int32            // directed schedule: walker stops after this many objects of one pack (0 = never)
	paused chan int         // walker -> director: stopped inside pack p
	resume chan struct{}
}

func (r *hRun) holder() string {
	g := goid()
	r.nameMu.RLock()
	n, ok := r.names[g]
	r.nameMu.RUnlock()
	if ok {
		return n
	}
	return fmt.Sprintf("g%d", g)
}

// emit is the verif hook: called under the SharedFile's mutex.
func (r *hRun) emit(obj any, ev string, f []int64) {
	if _, ok := obj.(*verifbridge.SharedFile); !ok || len(f) < 3 {
		return
	}
	switch ev {
	case "Acquire", "Release", "ReleaseNow", "Close", "TimerFire":
	default:
		return
	}
	h := r.holder()
	r.evMu.Lock()
	n, ok := r.files[obj]
	if !ok {
		n = fmt.Sprintf("f%d", len(r.files)+1)
		r.files[obj] = n
	}
	r.evs[n] = append(r.evs[n], hEvent{H: h, Ev: ev, Refs: int(f[0]), Open: int(f[1]), Closed: int(f[2])})
	r.evMu.Unlock()
}

func (r *hRun) record(pid int, api, call string, keys []string, val c23Val, inv int) {
	r.rec.add(c23Op{P: pid, Kind: "read", Api: api, Call: call, Keys: keys, Val: val, Inv: inv, Rsp: r.rec.tick()})
}

func hErr(err error) c23Val { return c23Val{R: "error", Err: normErr(err)} }

// walk consumes IterEncodedObjects completely; recorded as one read of the pseudo key w:all (size = objects delivered).
func (r *hRun) walk(pid int) {
	inv := r.rec.tick()
	val := func() (v c23Val) {
		defer func() {
			if p := recover(); p != nil {
				v = c23Val{R: "error", Err: fmt.Sprintf("panic: %v", p)}
			}
		}()
		it, err := r.st.IterEncodedObjects(plumbing.AnyObject)
		if err != nil {
			return hErr(err)
		}
		defer it.Close()
		n := 0
		perPack := map[int]int{}
		stopped := false
		for {
			o, err := it.Next()
			if err == io.EOF {
				break
			}
			if err != nil {
				return hErr(err)
			}
			if _, ok := r.w.keyOf[o.Hash()]; !ok {
				return c23Val{R: "error", Err: "walk delivered an object that is not in the repository"}
			}
			n++
			p := r.w.packOf[o.Hash()]
			perPack[p]++
			if pn := int(atomic.LoadInt32(&r.pauseN)); pn > 0 && !stopped && perPack[p] == pn {
				stopped = true
				r.paused <- p
				<-r.resume
			}
		}
		return c23Val{R: "found", T: "walk", Size: n}
	}()
	r.record(pid, "size", "IterEncodedObjects", []string{r.w.walkKey}, val, inv)
}

// prefix runs HashesWithPrefix and records one presence read per key of the universe that has the prefix.
func (r *hRun) prefix(pid int, class string, pre []byte) {
	inv := r.rec.tick()
	want := r.w.matching(pre)
	var hs []plumbing.Hash
	var err error
	func() {
		defer func() {
			if p := recover(); p != nil {
				err = fmt.Errorf("panic: %v", p)
			}
		}()
		hs, err = r.st.HashesWithPrefix(pre)
	}()
	call := "HashesWithPrefix/" + class
	rsp := r.rec.tick()
	add := func(k string, v c23Val) {
		r.rec.add(c23Op{P: pid, Kind: "read", Api: "has", Call: call, Keys: []string{k}, Val: v, Inv: inv, Rsp: rsp})
	}
	if err != nil {
		k := r.w.keys[0]
		if len(want) > 0 {
			k = want[0]
		}
		add(k, hErr(err))
		return
	}
	got := map[string]bool{}
	for _, h := range hs {
		k, ok := r.w.keyOf[h]
		if !ok || !h.HasPrefix(pre) {
			add(r.w.keys[0], c23Val{R: "error", Err: "prefix lookup returned a hash that is not in the repository or lacks the prefix"})
			return
		}
		got[k] = true
	}
	for _, k := range want {
		if got[k] {
			add(k, c23Val{R: "found"})
		} else {
			add(k, c23Val{R: "notfound"})
		}
	}
}

func (r *hRun) plain(pid int, w *c23World, key, api string) {
	inv := r.rec.tick()
	call, val := w.read(r.st, key, api)
	r.record(pid, api, call, []string{key}, val, inv)
}

type hCfg struct {
	Mode    string `json:"mode"` // free | gated | directed
	Readers int    `json:"readers"`
	Cap     int    `json:"cap"`
	Seed    int64  `json:"seed"`
	Ops     int    `json:"ops"`
}

func hOne(id int, w *hWorld, cfg hCfg) (*c23Hist, []hTrace, error) {
	run := &hRun{w: w, rec: &c23Rec{}, files: map[any]string{}, evs: map[string][]hEvent{}, names: map[int64]string{},
		paused: make(chan int), resume: make(chan struct{})}
	procs := map[int64]*yproc{}
	var y yielder
	var gs *gsched
	fr := &freeRun{procs: procs}
	y = fr
	if cfg.Mode == "gated" {
		gs = &gsched{procs: procs, wake: make(chan struct{}, 1), rnd: rand.New(rand.NewSource(cfg.Seed)), timeout: 400 * time.Microsecond}
		y = gs
	}
	hook := func(op *hookfs.Op) error { y.yield(op.Kind); return nil }
	verifbridge.InstallHooks(run.emit, func(obj any, point string) { y.yield(point) })
	defer verifbridge.InstallHooks(nil, nil)
	run.st = filesystem.NewStorageWithOptions(hookfs.New(w.fs, hook), cache.NewObjectLRU(256), filesystem.Options{Pool: fdpool.New(cfg.Cap)})
	defer run.st.Close()
	// plain reads reuse the object reader of the C23 driver
	cw := &c23World{hashOf: w.hashOf, stored: w.stored}

	var wg sync.WaitGroup
	var regMu sync.Mutex
	start := make(chan struct{})
	ready := make(chan struct{}, cfg.Readers)
	launch := func(pid int, body func()) {
		wg.Add(1)
		go func() {
			defer wg.Done()
			p := &yproc{pid: pid, grant: make(chan struct{}), rnd: rand.New(rand.NewSource(cfg.Seed*131 + int64(pid)))}
			regMu.Lock()
			procs[goid()] = p
			regMu.Unlock()
			run.nameMu.Lock()
			run.names[goid()] = fmt.Sprintf("r%d", pid)
			run.nameMu.Unlock()
			ready <- struct{}{}
			<-start
			if gs != nil {
				gs.yield("start")
			}
			body()
			if gs != nil {
				gs.finish(p)
			}
		}()
	}
	if cfg.Mode == "directed" {
		// r1 walks and stops inside a pack; the director (this goroutine's helpers r2, r3) follows the counterexample
		atomic.StoreInt32(&run.pauseN, 3)
		var packP int
		go2, done2, go3, done3 := make(chan struct{}), make(chan struct{}), make(chan struct{}), make(chan struct{})
		var dirErr error
		launch(1, func() { run.walk(1) })
		launch(2, func() {
			<-go2
			defer close(done2)
			pres := w.inside[packP]
			if len(pres) == 0 {
				dirErr = fmt.Errorf("pack %d has no prefix whose run ends inside its fanout bucket", packP)
				return
			}
			run.prefix(2, "inside", pres[0]) // acquires and releases pack P's idx while the walker holds it
		})
		launch(3, func() {
			<-go3
			defer close(done3)
			for q := range w.packs { // touch every other pack: the pool is over capacity, unpinned descriptors get evicted
				if q != packP {
					run.plain(3, cw, w.keyOf[w.packs[q][0]], "full")
				}
			}
			inv := run.rec.tick()
			err := run.st.CloseIdleDescriptors()
			o := c23Op{P: 3, Kind: "other", Api: "idle", Call: "CloseIdleDescriptors", Keys: []string{}, Inv: inv, Rsp: run.rec.tick()}
			if err != nil {
				o.Val.Err = normErr(err)
			}
			run.rec.add(o)
		})
		for i := 0; i < 3; i++ {
			<-ready
		}
		close(start)
		select {
		case packP = <-run.paused: // the walker is inside pack P and holds its idx
			close(go2)
			<-done2
			close(go3)
			<-done3
			run.resume <- struct{}{}
		case <-time.After(20 * time.Second):
			return nil, nil, fmt.Errorf("directed schedule: the walker never stopped inside a pack")
		}
		wg.Wait()
		if dirErr != nil {
			return nil, nil, dirErr
		}
	} else {
		for pid := 1; pid <= cfg.Readers; pid++ {
			pid := pid
			launch(pid, func() {
				rnd := rand.New(rand.NewSource(cfg.Seed*977 + int64(pid)))
				for k := 0; k < cfg.Ops; k++ {
					switch x := rnd.Intn(20); {
					case x < 2:
						run.walk(pid)
					case x < 8:
						ps := w.inside[rnd.Intn(len(w.packs))]
						if len(ps) > 0 {
							run.prefix(pid, "inside", ps[rnd.Intn(len(ps))])
						}
					case x < 10:
						run.prefix(pid, "toend", w.toEnd[rnd.Intn(len(w.toEnd))])
					case x < 11:
						run.prefix(pid, "none", w.none[rnd.Intn(len(w.none))])
					case x < 12:
						inv := run.rec.tick()
						run.st.CloseIdleDescriptors()
						run.rec.add(c23Op{P: pid, Kind: "other", Api: "idle", Call: "CloseIdleDescriptors", Keys: []string{}, Inv: inv, Rsp: run.rec.tick()})
					default:
						run.plain(pid, cw, w.keys[rnd.Intn(len(w.keys))], []string{"full", "has", "size", "type"}[rnd.Intn(4)])
					}
				}
			})
		}
		for i := 0; i < cfg.Readers; i++ {
			<-ready
		}
		if gs != nil {
			gs.on.Store(true)
		} else {
			fr.on.Store(true)
		}
		close(start)
		if gs != nil {
			gs.run()
		}
		wg.Wait()
	}
	sort.Slice(run.rec.ops, func(i, j int) bool { return run.rec.ops[i].Inv < run.rec.ops[j].Inv })
	// only the keys that were read go into the history (the universe is large)
	used := map[string]bool{}
	for _, o := range run.rec.ops {
		for _, k := range o.Keys {
			used[k] = true
		}
	}
	h := &c23Hist{ID: id, N: run.rec.pos, Cfg: c23Cfg{Mode: "handles-" + cfg.Mode, Readers: cfg.Readers, Cap: cfg.Cap, Seed: cfg.Seed}, Stored: map[string]c23Stored{}, Ops: run.rec.ops}
	for k := range used {
		h.Init = append(h.Init, k)
		h.Stored[k] = w.stored[k]
	}
	sort.Strings(h.Init)
	if gs != nil {
		h.Steps, h.Steals = gs.steps, gs.steals
	}
	var ts []hTrace
	var fns []string
	for f := range run.evs {
		fns = append(fns, f)
	}
	sort.Strings(fns)
	for _, f := range fns {
		ts = append(ts, hTrace{Run: id, File: f, Ev: run.evs[f]})
	}
	return h, ts, nil
}

// c23h <histories.ndjson> <pinned.ndjson> <runs>
func c23h(args []string) error {
	if len(args) < 3 {
		return fmt.Errorf("usage: c23h histories.ndjson pinned.ndjson runs")
	}
	runs := 0
	fmt.Sscan(args[2], &runs)
	w, err := newHWorld(5, 60)
	if err != nil {
		return err
	}
	nInside := 0
	for _, ps := range w.inside {
		nInside += len(ps)
	}
	if nInside < len(w.packs) {
		return fmt.Errorf("universe has too few partial-bucket prefixes (%d)", nInside)
	}
	ho, err := os.Create(args[0])
	if err != nil {
		return err
	}
	defer ho.Close()
	po, err := os.Create(args[1])
	if err != nil {
		return err
	}
	defer po.Close()
	he, pe := json.NewEncoder(ho), json.NewEncoder(po)
	r := rep.New()
	tid, nev, nops := 0, 0, 0
	modes := []string{"directed", "free", "gated", "directed", "free"}
	caps := []int{4, 2, 4, 3, 1}
	for i := 0; i < runs; i++ {
		cfg := hCfg{Mode: modes[i%len(modes)], Readers: 2 + i%3, Cap: caps[i%len(caps)], Seed: rep.Seed()*7919 + int64(i), Ops: 14}
		if cfg.Mode == "directed" {
			cfg.Readers = 3
		}
		h, ts, err := hOne(100000+i, w, cfg)
		if err != nil {
			return fmt.Errorf("run %d (%+v): %v", i, cfg, err)
		}
		if err := he.Encode(h); err != nil {
			return err
		}
		for _, t := range ts {
			tid++
			t.ID = tid
			nev += len(t.Ev)
			if err := pe.Encode(t); err != nil {
				return err
			}
		}
		nops += len(h.Ops)
		r.Eval(len(h.Ops))
		if i < 2 {
			r.Sample(map[string]any{"cfg": cfg, "ops": len(h.Ops), "descriptors": len(ts)})
		}
	}
	r.Traces = runs
	r.Distinct = runs
	r.Extra["handle_runs"] = runs
	r.Extra["handle_descriptor_traces"] = tid
	r.Extra["handle_events"] = nev
	r.Extra["handle_partial_bucket_prefixes"] = nInside
	return r.Emit()
}
