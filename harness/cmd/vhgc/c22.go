package main

// C22: garbage collection never deletes reachable or staged objects.
//
// Input: ndjson of GcModel states printed by TLC: {init, steps, final, live, gcs}.  The history is
// replayed with go-git, then every GC variant in `gcs` is run on a copy of the replayed repository and
// every object the spec says must be kept is read back (same instance, fresh instance, decoded
// children vs the spec's Content) and, on a seeded sample on the OS filesystem, by git itself.

import (
	"bytes"
	"encoding/json"
	"fmt"
	"math/rand"
	"os"
	"runtime/pprof"
	"sort"
	"strings"

	"verifharness/internal/gitcli"
	"verifharness/internal/rep"

	"github.com/go-git/go-git/v6/plumbing"
	"github.com/go-git/go-git/v6/storage/filesystem"
)

func init() { rep.Register("c22", c22) }

func gcBackends() []gcBackend {
	return []gcBackend{
		{name: "memfs", opts: filesystem.Options{}},
		{name: "memfs+exclusive", opts: filesystem.Options{ExclusiveAccess: true}},
		{name: "memfs+memidx+cache1", opts: filesystem.Options{UseInMemoryIdx: true}, small: true},
		{name: "osfs", onOS: true, opts: filesystem.Options{}},
	}
}

type gcRun struct {
	r            *rep.Report
	h            *gcHist
	hi           int
	be           gcBackend // backend of the history replay
	gitLeg       bool
	gitRuns      *int
	gitConfirmed *int                // divergences of the go-git leg in which git, too, lists index blobs it cannot find
	inits        map[string]*gcWorld // initial states, built once (templates, closed)
}

// gcJob is one GC variant (index into h.Gcs) to run on a copy of the replayed repository opened with backend be.
type gcJob struct {
	v   int
	be  gcBackend
	git bool // also ask git afterwards (osfs only)
}

func (g *gcRun) caseOf(extra map[string]any) map[string]any {
	c := map[string]any{"history": g.hi, "backend": g.be.name, "init": g.h.Init, "steps": g.h.Steps}
	for k, v := range extra {
		c[k] = v
	}
	return c
}

func viaKey(v []string) string {
	if len(v) == 0 {
		return "none"
	}
	s := append([]string{}, v...)
	sort.Strings(s)
	return strings.Join(s, "+")
}

func opKey(op, age string) string {
	if age == "past" {
		return op + "+agelimit-protects-all"
	}
	return op
}

// stateFlags is the scenario key of a GC failure: the special features of the abstract state
// (gitlink entries, blobs that are direct tag/ref targets); without those, shallow / promisor.
func stateFlags(s gcState, live []gcInfo) string {
	var f, g []string
	if len(s.Shallow) > 0 {
		g = append(g, "shallow")
	}
	if s.Promisor {
		g = append(g, "promisor")
	}
	for _, i := range live {
		if i.O.kind() == "T" && i.O[3] != "none" {
			f = append(f, "gitlink")
			break
		}
	}
	blobRoot := false
	for _, v := range s.Refs {
		if len(v) > 0 && v.kind() == "B" {
			blobRoot = true
		}
	}
	for _, i := range live {
		if i.O.kind() == "G" && len(i.Kids) == 1 && i.Kids[0].kind() == "B" {
			blobRoot = true
		}
	}
	if blobRoot {
		f = append(f, "blob-tagged")
	}
	if len(f) == 0 {
		f = g
	}
	if len(f) == 0 {
		return "plain"
	}
	return strings.Join(f, "+")
}

func errClass(err error) string {
	s := err.Error()
	switch {
	case strings.Contains(s, "object not found"):
		return "object-not-found"
	case strings.Contains(s, "reference not found"):
		return "reference-not-found"
	case strings.Contains(s, "unknown object"):
		return "walker-unknown-object-type"
	}
	return "other"
}

// snapshot reads every object of objs through a fresh storage; an unreadable one is a replay problem.
func (g *gcRun) snapshot(w *gcWorld, objs []oid) (map[string]objSnap, error) {
	fs := w.fresh()
	defer fs.Close()
	out := map[string]objSnap{}
	for _, o := range objs {
		h, err := w.hashOf(o)
		if err != nil {
			return nil, err
		}
		s, err := readObj(fs, h)
		if err != nil {
			return nil, fmt.Errorf("object %s (%s) of the abstract state is not readable before GC: %v", o.key(), h, err)
		}
		out[o.key()] = s
	}
	return out, nil
}

// conforms checks before GC that the real repository is the abstract state (symbols, children, refs, index).
func (g *gcRun) conforms(w *gcWorld, s gcState, live []gcInfo) error {
	fs := w.fresh()
	defer fs.Close()
	for _, i := range live {
		got, err := kidsOf(fs, w.mustHash(i.O))
		if err != nil {
			return fmt.Errorf("decode %s: %v", i.O.key(), err)
		}
		if want := w.kidHashes(i.Kids); strings.Join(want, ",") != strings.Join(got, ",") {
			return fmt.Errorf("object %s refers to %v, the spec's Content says %v", i.O.key(), got, want)
		}
	}
	got, err := w.project(fs)
	if err != nil {
		return err
	}
	if d := diffMaps(w.expectProjection(s), got); d != "" {
		return fmt.Errorf("replayed repository differs from the abstract state: %s", d)
	}
	// layout
	loose := map[plumbing.Hash]bool{}
	fs.ForEachObjectHash(func(h plumbing.Hash) error { loose[h] = true; return nil })
	for _, o := range s.Objs {
		if !has(s.Packed, o) && !loose[w.mustHash(o)] {
			return fmt.Errorf("object %s should be loose, is not", o.key())
		}
	}
	return nil
}

// check compares the repository after GC with the spec's postcondition.  Returns true if it diverged.
func (g *gcRun) check(w *gcWorld, op, rd, age string, keep []oid, info []gcInfo, final gcState, before map[string]objSnap, frame map[string]string, gcErr error, extra map[string]any) bool {
	r := g.r
	inf := map[string]gcInfo{}
	for _, i := range info {
		inf[i.O.key()] = i
	}
	cs := func(o oid, more string) map[string]any {
		e := map[string]any{"gc": map[string]string{"op": op, "rd": rd, "age": age}}
		for k, v := range extra {
			e[k] = v
		}
		if o != nil {
			e["object"] = o
			e["detail"] = more
		}
		return g.caseOf(e)
	}
	okey := opKey(op, age)
	if gcErr != nil {
		r.Diverge(op+"|error|"+errClass(gcErr)+"|"+stateFlags(final, info),
			fmt.Sprintf("%s fails on a valid repository: %v", op, gcErr), cs(nil, ""))
		return true
	}
	locOf := func(o oid) string {
		if i, ok := inf[o.key()]; ok {
			return i.Loc
		}
		if has(final.Packed, o) {
			return "packed"
		}
		return "loose"
	}
	// scenario key of an object: its kind, why the spec calls it live, and (for repack, which treats
	// loose and packed objects differently) where the spec's layout has it
	scen := func(o oid) string {
		k := "kind=" + o.kind() + "|via=" + viaKey(inf[o.key()].Via)
		if op == "repack" {
			k += "|" + locOf(o)
		}
		return k
	}
	diverged := false
	fs := w.fresh()
	defer fs.Close()
	for _, o := range keep {
		h := w.mustHash(o)
		want := before[o.key()]
		got, err := readObj(fs, h)
		switch {
		case err != nil && isNotFound(err):
			r.Diverge(okey+"|lost|"+scen(o), fmt.Sprintf("%s deleted an object that is still needed (%s, live via %s, was %s)", op, o.kind(), viaKey(inf[o.key()].Via), inf[o.key()].Loc), cs(o, h.String()))
			diverged = true
			continue
		case err != nil:
			r.Diverge(okey+"|unreadable|"+scen(o), fmt.Sprintf("after %s a kept object cannot be read: %v", op, err), cs(o, err.Error()))
			diverged = true
			continue
		case got.typ != want.typ || !bytes.Equal(got.data, want.data):
			r.Diverge(okey+"|content|"+scen(o), fmt.Sprintf("after %s an object reads back with different type/content", op), cs(o, h.String()))
			diverged = true
			continue
		}
		if i, ok := inf[o.key()]; ok {
			ks, err := kidsOf(fs, h)
			if err != nil || strings.Join(ks, ",") != strings.Join(w.kidHashes(i.Kids), ",") {
				r.Diverge(okey+"|decoded-content|"+scen(o), fmt.Sprintf("after %s the object no longer decodes to the spec's Content (%v)", op, err), cs(o, h.String()))
				diverged = true
				continue
			}
		}
		// the instance that ran the GC must agree
		if got2, err := readObj(w.st, h); err != nil || got2.typ != want.typ || !bytes.Equal(got2.data, want.data) {
			cl := "instance-reads-deleted-pack"
			if err == nil {
				cl = "instance-content"
			} else if isNotFound(err) {
				cl = "instance-forgot-object"
			}
			r.Diverge(okey+"|"+cl+"|"+locOf(o), fmt.Sprintf("the storage that ran %s cannot read a kept object any more (a fresh storage can): %v", op, err), cs(o, h.String()))
			diverged = true
		}
	}
	got, err := w.project(fs)
	if err != nil {
		r.Diverge(okey+"|frame|unreadable", fmt.Sprintf("references/index unreadable after %s: %v", op, err), cs(nil, ""))
		return true
	}
	if d := diffMaps(frame, got); d != "" {
		r.Diverge(okey+"|frame|"+frameClass(d), fmt.Sprintf("%s changed references, HEAD, index or shallow list: %s", op, d), cs(nil, ""))
		diverged = true
	}
	return diverged
}

func hashesInput(w *gcWorld, objs []oid) []byte {
	var b bytes.Buffer
	for _, o := range objs {
		b.WriteString(w.mustHash(o).String() + "\n")
	}
	return b.Bytes()
}

// gitMissing asks git which of objs it cannot find.
func gitMissing(w *gcWorld, objs []oid) ([]string, error) {
	out, _, err := gitcli.Run(w.dir, hashesInput(w, objs), "cat-file", "--batch-check")
	if err != nil {
		return nil, err
	}
	var miss []string
	lines := strings.Split(strings.TrimSpace(out), "\n")
	for i, l := range lines {
		if strings.HasSuffix(l, " missing") && i < len(objs) {
			miss = append(miss, objs[i].key())
		}
	}
	return miss, nil
}

func gitFsck(w *gcWorld) (bool, string) {
	o, e, err := gitcli.Run(w.dir, nil, "fsck", "--no-dangling")
	return err == nil, strings.TrimSpace(o + e)
}

// gitIndex is git's view of the index: `git ls-files -s` lines ("mode hash stage\tname").
func gitIndex(w *gcWorld) ([]string, error) {
	o, e, err := gitcli.Run(w.dir, nil, "ls-files", "-s")
	if err != nil {
		return nil, fmt.Errorf("git ls-files -s: %v %s", err, e)
	}
	o = strings.TrimSpace(o)
	if o == "" {
		return nil, nil
	}
	return strings.Split(o, "\n"), nil
}

// specIndexLines renders the abstract index the way `git ls-files -s` prints it (mode, hash, stage, name: the worktree entries are materialised in the kind the rendering gives each blob).
func specIndexLines(w *gcWorld, ix gcIdx) []string {
	var out []string
	for _, e := range w.indexOf(ix).Entries {
		out = append(out, fmt.Sprintf("%06o %s %d\t%s", uint32(e.Mode), e.Hash, e.Stage, e.Name))
	}
	return out
}

// gitIndexBlobsMissing: which blobs named by git's own listing of the index (every stage) git cannot find.
func gitIndexBlobsMissing(w *gcWorld) ([]string, error) {
	lines, err := gitIndex(w)
	if err != nil {
		return nil, err
	}
	var in bytes.Buffer
	var names []string
	for _, l := range lines {
		f := strings.Fields(l)
		if len(f) < 4 || f[0] == "160000" {
			continue
		}
		in.WriteString(f[1] + "\n")
		names = append(names, l)
	}
	if len(names) == 0 {
		return nil, nil
	}
	o, _, err := gitcli.Run(w.dir, in.Bytes(), "cat-file", "--batch-check")
	if err != nil {
		return nil, err
	}
	var miss []string
	for i, l := range strings.Split(strings.TrimSpace(o), "\n") {
		if strings.HasSuffix(l, " missing") && i < len(names) {
			miss = append(miss, names[i])
		}
	}
	return miss, nil
}

// gitWitness: git's own prune / repack keep everything the spec calls live (else the spec is wrong about git).
func (g *gcRun) gitWitness(base *gcWorld, live []oid) error {
	if ok, out := gitFsck(base); !ok {
		return fmt.Errorf("git fsck rejects the replayed repository before GC: %s", out)
	}
	// git reads the replayed index exactly as the spec has it, conflict stages included
	got, err := gitIndex(base)
	if err != nil {
		return err
	}
	if want := specIndexLines(base, g.h.Final.Idx); strings.Join(got, "|") != strings.Join(want, "|") {
		return fmt.Errorf("git ls-files -s shows %q, the abstract index is %q", got, want)
	}
	*g.gitRuns += 1
	for _, cmd := range [][]string{{"prune", "--expire=now"}, {"repack", "-a", "-d", "-q"}} {
		c, err := base.clone(base2be(base))
		if err != nil {
			return err
		}
		c.close()
		_, e, err := gitcli.Run(c.dir, nil, cmd...)
		if err != nil {
			c.destroy()
			return fmt.Errorf("git %v: %v %s", cmd, err, e)
		}
		if cmd[0] == "repack" {
			gitcli.Run(c.dir, nil, "prune", "--expire=now")
		}
		miss, err := gitMissing(c, live)
		c.destroy()
		if err != nil {
			return err
		}
		if len(miss) > 0 {
			g.r.SpecError(g.caseOf(map[string]any{"git": cmd, "missing_after_git_gc": miss}))
		}
	}
	return nil
}

func base2be(w *gcWorld) gcBackend {
	return gcBackend{name: "osfs", onOS: w.dir != "", opts: w.opts, small: w.small}
}

func keepOids(h *gcHist, v gcVariant) []oid {
	if v.Keep == "all" {
		return h.Final.Objs
	}
	var ks []oid
	for _, i := range h.Live {
		ks = append(ks, i.O)
	}
	return ks
}

// template returns the initial state, built once per distinct init with plumbing calls.
func (g *gcRun) template(s gcState) (*gcWorld, error) {
	b, _ := json.Marshal(s)
	if t, ok := g.inits[string(b)]; ok {
		return t, nil
	}
	t, err := newGcWorld(gcBackend{name: "memfs"})
	if err != nil {
		return nil, err
	}
	if err := t.build(s); err != nil {
		return nil, err
	}
	t.close()
	g.inits[string(b)] = t
	return t, nil
}

// replay runs one history with go-git (once), then every job on its own copy of the result.
func (g *gcRun) replay(jobs []gcJob) error {
	h := g.h
	fail := func(i int, err error) error {
		b, _ := json.Marshal(map[string]any{"init": h.Init, "steps": h.Steps})
		return fmt.Errorf("history %d step %d on %s: %v\n%s", g.hi, i, g.be.name, err, b)
	}
	tmpl, err := g.template(h.Init)
	if err != nil {
		return fail(-1, err)
	}
	base, err := tmpl.clone(g.be)
	if err != nil {
		return fail(-1, err)
	}
	defer base.destroy()
	for i, s := range h.Steps {
		if s.Op == "prune" || s.Op == "repack" {
			before, err := g.snapshot(base, s.Keep)
			if err != nil {
				return fail(i, err)
			}
			fsx := base.fresh()
			frame, err := base.project(fsx)
			fsx.Close()
			if err != nil {
				return fail(i, err)
			}
			age := rawStr(s.C)
			rd := rawStr(s.A)
			gerr := base.gc(s.Op, rd, age)
			g.r.Eval(1)
			if g.check(base, s.Op, rd, age, s.Keep, s.Info, s.Pre[0], before, frame, gerr, map[string]any{"at_step": i}) {
				return nil // the repository no longer is the abstract state: stop this history
			}
			continue
		}
		if err := base.apply(s); err != nil {
			return fail(i, err)
		}
	}
	if err := g.conforms(base, h.Final, h.Live); err != nil {
		return fail(len(h.Steps), err)
	}
	before, err := g.snapshot(base, h.Final.Objs)
	if err != nil {
		return fail(len(h.Steps), err)
	}
	frame := base.expectProjection(h.Final)
	var liveOids []oid
	for _, i := range h.Live {
		liveOids = append(liveOids, i.O)
	}
	base.close()
	witnessed := false
	for _, j := range jobs {
		v := h.Gcs[j.v]
		w, err := base.clone(j.be)
		if err != nil {
			return err
		}
		if j.git && !witnessed {
			witnessed = true
			g2 := *g
			g2.be = j.be
			w.close()
			if err := g2.gitWitness(w, liveOids); err != nil {
				w.destroy()
				return fail(len(h.Steps), err)
			}
			if err := w.open(false); err != nil {
				w.destroy()
				return err
			}
		}
		gerr := w.gc(v.Op, v.Rd, v.Age)
		g.r.Eval(1)
		keep := keepOids(h, v)
		g.be, j.be = j.be, g.be // cases name the backend the GC ran on
		div := g.check(w, v.Op, v.Rd, v.Age, keep, h.Live, h.Final, before, frame, gerr, nil)
		if div && j.git {
			// git as second observer of a loss go-git already showed: does its own index listing name missing blobs?
			w.close()
			if imiss, err := gitIndexBlobsMissing(w); err == nil && len(imiss) > 0 {
				*g.gitConfirmed += 1
			}
		}
		if !div && j.git {
			w.close()
			miss, err := gitMissing(w, keep)
			if err != nil {
				w.destroy()
				return fail(len(h.Steps), err)
			}
			ok, out := gitFsck(w)
			imiss, err := gitIndexBlobsMissing(w)
			if err != nil {
				w.destroy()
				return fail(len(h.Steps), err)
			}
			if len(imiss) > 0 {
				g.r.Diverge(opKey(v.Op, v.Age)+"|git-index-entry-blob-missing|"+stateFlags(h.Final, h.Live),
					fmt.Sprintf("after %s git cannot find blobs its own `ls-files -s` lists: %v", v.Op, imiss), g.caseOf(map[string]any{"gc": v}))
			} else if len(miss) > 0 || !ok {
				g.r.Diverge(opKey(v.Op, v.Age)+"|git-cannot-read|"+stateFlags(h.Final, h.Live),
					fmt.Sprintf("go-git reads every kept object after %s but git does not: missing %v; fsck: %s", v.Op, miss, out),
					g.caseOf(map[string]any{"gc": v}))
			}
		}
		g.be, j.be = j.be, g.be
		w.destroy()
	}
	return nil
}

func c22(args []string) error {
	if len(args) < 1 {
		return fmt.Errorf("usage: c22 states.ndjson [git-sample]")
	}
	gitSample, perState := 40, 0
	if len(args) > 1 {
		fmt.Sscan(args[1], &gitSample)
	}
	if len(args) > 2 {
		fmt.Sscan(args[2], &perState) // 0 = every GC variant on every state; k = a seeded choice of k (>= 1 prune, >= 1 repack)
	}
	var hs []*gcHist
	err := rep.ReadNDJSON(args[0], func(b []byte) error {
		h := &gcHist{}
		if err := json.Unmarshal(b, h); err != nil {
			return err
		}
		hs = append(hs, h)
		return nil
	})
	if err != nil {
		return err
	}
	if pf := os.Getenv("VHGC_PROF"); pf != "" {
		f, _ := os.Create(pf)
		pprof.StartCPUProfile(f)
		defer pprof.StopCPUProfile()
	}
	r := rep.New()
	rnd := rand.New(rand.NewSource(rep.Seed()))
	bes := gcBackends()
	gitOn := gitcli.Available()
	gitEvery := 1
	if gitSample > 0 && len(hs) > gitSample {
		gitEvery = len(hs) / gitSample
	}
	gitRuns, gitConfirmed := 0, 0
	ops := map[string]int{}
	inits := map[string]*gcWorld{}
	for hi, h := range hs {
		for _, s := range h.Steps {
			ops[s.Op]++
		}
		n := len(h.Gcs)
		var jobs []gcJob
		// every GC variant (or a seeded choice) on the plain in-memory filesystem
		if perState <= 0 || perState >= n {
			for i := 0; i < n; i++ {
				jobs = append(jobs, gcJob{v: i, be: bes[0]})
			}
		} else {
			var pr, rp []int
			for i, v := range h.Gcs {
				if v.Op == "prune" {
					pr = append(pr, i)
				} else {
					rp = append(rp, i)
				}
			}
			jobs = append(jobs, gcJob{v: pr[rnd.Intn(len(pr))], be: bes[0]})
			for _, i := range rnd.Perm(len(rp))[:perState-1] {
				jobs = append(jobs, gcJob{v: rp[i], be: bes[0]})
			}
		}
		// storage option variants: thorough = three variants on one of them; quick = one variant on each
		bi := 1 + rnd.Intn(2)
		if rep.Thorough() && perState <= 0 {
			for _, i := range rnd.Perm(n)[:3] {
				jobs = append(jobs, gcJob{v: i, be: bes[bi]})
			}
		} else {
			jobs = append(jobs, gcJob{v: rnd.Intn(n), be: bes[1]}, gcJob{v: rnd.Intn(n), be: bes[2]})
		}
		// OS filesystem + git as second witness on a seeded sample
		if gitOn && gitSample > 0 && (hi+int(rep.Seed()))%gitEvery == 0 {
			k := 2
			if rep.Thorough() {
				k = 4
			}
			for _, i := range rnd.Perm(n)[:k] {
				jobs = append(jobs, gcJob{v: i, be: bes[3], git: true})
			}
		}
		g := &gcRun{r: r, h: h, hi: hi, be: bes[0], gitRuns: &gitRuns, gitConfirmed: &gitConfirmed, inits: inits}
		if err := g.replay(jobs); err != nil {
			return err
		}
		if hi%(len(hs)/5+1) == 0 {
			r.Sample(map[string]any{"init_commits": len(h.Init.Cm), "steps": h.Steps, "live": len(h.Live), "objs": len(h.Final.Objs)})
		}
	}
	r.Distinct = len(hs)
	r.Traces = len(hs)
	r.Extra["git_leg_histories"] = gitRuns
	r.Extra["git_leg"] = gitOn
	r.Extra["git_confirms_index_blob_loss"] = gitConfirmed
	r.Extra["gc_variants_per_state"] = perState
	r.Extra["op_counts"] = ops
	var bn []string
	for _, b := range bes {
		bn = append(bn, b.name)
	}
	r.Extra["backends"] = bn
	return r.Emit()
}
