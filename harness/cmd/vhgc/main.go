// Command vhgc is the conformance harness for C22 (garbage collection) and C23 (concurrent reads).
package main

import "verifharness/internal/rep"

func main() { rep.Main() }
