package main

// Rendering of GcModel (spec/abstract/GcModel.tla) repositories and operations with go-git:
// symbols -> real objects, abstract operations -> porcelain / plumbing calls, and the
// projection of a real repository back to the abstract vocabulary.

import (
	"encoding/json"
	"errors"
	"fmt"
	"io"
	"os"
	"sort"
	"strings"
	"time"

	"github.com/go-git/go-billy/v6"
	"github.com/go-git/go-billy/v6/memfs"
	"github.com/go-git/go-billy/v6/osfs"
	git "github.com/go-git/go-git/v6"
	"github.com/go-git/go-git/v6/config"
	"github.com/go-git/go-git/v6/plumbing"
	"github.com/go-git/go-git/v6/plumbing/cache"
	"github.com/go-git/go-git/v6/plumbing/filemode"
	formatcfg "github.com/go-git/go-git/v6/plumbing/format/config"
	"github.com/go-git/go-git/v6/plumbing/format/index"
	"github.com/go-git/go-git/v6/plumbing/format/packfile"
	"github.com/go-git/go-git/v6/plumbing/object"
	"github.com/go-git/go-git/v6/plumbing/storer"
	"github.com/go-git/go-git/v6/storage/filesystem"
)

// ---- abstract vocabulary (JSON printed by TLC)

type oid []string // <<"B","b1">>, <<"T",a,d,m>>, <<"C","c1">>, ... ; <<>> = no object

func (o oid) key() string  { return strings.Join(o, ":") }
func (o oid) kind() string { return o[0] }

type gcCommit struct {
	A   string   `json:"a"`
	D   string   `json:"d"`
	M   string   `json:"m"`
	Par []string `json:"par"`
}

type gcIdx struct {
	A  string `json:"a"`
	D  string `json:"d"`
	M  string `json:"m"`
	U1 string `json:"u1"` // conflict stages of the unmerged path "u" ("none" = stage absent)
	U2 string `json:"u2"`
	U3 string `json:"u3"`
}

var noIdx = gcIdx{"none", "none", "none", "none", "none", "none"}

type gcState struct {
	Cm   []gcCommit     `json:"cm"`
	Tg   []oid          `json:"tg"`
	Refs map[string]oid `json:"refs"`
	Head struct {
		Sym string `json:"sym"`
		Det string `json:"det"`
	} `json:"head"`
	Idx      gcIdx    `json:"idx"`
	Shallow  []string `json:"shallow"`
	Objs     []oid    `json:"objs"`
	Packed   []oid    `json:"packed"`
	Promisor bool     `json:"promisor"`
}

type gcInfo struct {
	O    oid      `json:"o"`
	Via  []string `json:"via"`
	Loc  string   `json:"loc"`
	Kids []oid    `json:"kids"`
}

type gcStep struct {
	Op   string          `json:"op"`
	A    json.RawMessage `json:"a"`
	B    json.RawMessage `json:"b"`
	C    json.RawMessage `json:"c"`
	Keep []oid           `json:"keep"`
	Info []gcInfo        `json:"info"`
	Pre  []gcState       `json:"pre"` // GC steps: the abstract state before the step
}

type gcVariant struct {
	Op   string `json:"op"`
	Rd   string `json:"rd"`
	Age  string `json:"age"`
	Keep string `json:"keep"`
}

type gcHist struct {
	Init  gcState     `json:"init"`
	Steps []gcStep    `json:"steps"`
	Final gcState     `json:"final"`
	Live  []gcInfo    `json:"live"`
	Gcs   []gcVariant `json:"gcs"`
}

func rawStr(r json.RawMessage) string {
	var s string
	json.Unmarshal(r, &s)
	return s
}

func rawOid(r json.RawMessage) oid {
	var o oid
	json.Unmarshal(r, &o)
	return o
}

func rawOids(r json.RawMessage) []oid {
	var o []oid
	json.Unmarshal(r, &o)
	return o
}

// ---- symbols -> bytes

var gcSig = object.Signature{Name: "A U Thor", Email: "author@example.com", When: time.Unix(1000000000, 0).UTC()}

// gitlink target: a commit of another repository, by design absent here
var linkHash = plumbing.NewHash("1234567890123456789012345678901234567890")

const cIds = "c1 c2 c3 c4 c5 c6 c7 c8"
const gIds = "g1 g2 g3 g4 g5 g6"

// entryMode is the concrete kind of a tree / index entry holding blob b: the model only knows the
// tree -> blob edge; which file mode carries it is a rendering choice, spread over the three kinds
// git has for blobs (regular, executable, symbolic link).
func entryMode(b string) filemode.FileMode {
	switch b {
	case "b2":
		return filemode.Symlink
	case "b3":
		return filemode.Executable
	}
	return filemode.Regular
}

func blobContent(b string) []byte {
	// a long common part, so that the pack encoder has deltas to make
	return []byte(strings.Repeat("the quick brown fox jumps over the lazy dog\n", 12) + "blob " + b + "\n")
}

func mkObj(t plumbing.ObjectType, content []byte) plumbing.EncodedObject {
	o := &plumbing.MemoryObject{}
	o.SetType(t)
	o.Write(content)
	return o
}

func encObj(e interface {
	Encode(plumbing.EncodedObject) error
}) plumbing.EncodedObject {
	o := &plumbing.MemoryObject{}
	if err := e.Encode(o); err != nil {
		panic(err)
	}
	return o
}

// gcWorld is one real repository with the symbol table of its history.
type gcWorld struct {
	root    billy.Filesystem // worktree
	dot     billy.Filesystem
	dir     string // osfs directory ("" on memfs)
	opts    filesystem.Options
	small   bool
	st      *filesystem.Storage
	repo    *git.Repository
	wt      *git.Worktree
	commits map[string]plumbing.Hash
	tags    map[string]plumbing.Hash
	nCm     int
	nTg     int
	idx     gcIdx
}

type gcBackend struct {
	name  string
	onOS  bool
	opts  filesystem.Options
	small bool
}

func (w *gcWorld) mkCache() cache.Object {
	if w.small {
		return cache.NewObjectLRU(1)
	}
	return cache.NewObjectLRUDefault()
}

func newGcWorld(be gcBackend) (*gcWorld, error) {
	w := &gcWorld{opts: be.opts, small: be.small, commits: map[string]plumbing.Hash{}, tags: map[string]plumbing.Hash{}}
	if be.onOS {
		d, err := os.MkdirTemp(os.Getenv("VERIF_SCRATCH"), "c22-")
		if err != nil {
			return nil, err
		}
		w.dir = d
		w.root = osfs.New(d)
	} else {
		w.root = memfs.New()
	}
	var err error
	w.dot, err = w.root.Chroot(".git")
	if err != nil {
		return nil, err
	}
	return w, nil
}

func (w *gcWorld) open(init bool) error {
	w.st = filesystem.NewStorageWithOptions(w.dot, w.mkCache(), w.opts)
	var err error
	if init {
		w.repo, err = git.Init(w.st, git.WithWorkTree(w.root), git.WithDefaultBranch("refs/heads/main"))
	} else {
		w.repo, err = git.Open(w.st, w.root)
	}
	if err != nil {
		return err
	}
	w.wt, err = w.repo.Worktree()
	return err
}

func (w *gcWorld) close() {
	if w.st != nil {
		w.st.Close()
		w.st = nil
	}
}

func (w *gcWorld) destroy() {
	w.close()
	if w.dir != "" {
		os.RemoveAll(w.dir)
	}
}

// fresh returns a new storage on the same repository (default options, no shared caches).
func (w *gcWorld) fresh() *filesystem.Storage {
	return filesystem.NewStorageWithOptions(w.dot, cache.NewObjectLRUDefault(), filesystem.Options{})
}

func (w *gcWorld) subtreeObj(d string) plumbing.EncodedObject {
	t := &object.Tree{Entries: []object.TreeEntry{{Name: "b", Mode: entryMode(d), Hash: mkObj(plumbing.BlobObject, blobContent(d)).Hash()}}}
	return encObj(t)
}

func (w *gcWorld) treeObj(a, d, m string) plumbing.EncodedObject {
	t := &object.Tree{}
	if a != "none" {
		t.Entries = append(t.Entries, object.TreeEntry{Name: "a", Mode: entryMode(a), Hash: mkObj(plumbing.BlobObject, blobContent(a)).Hash()})
	}
	if d != "none" {
		t.Entries = append(t.Entries, object.TreeEntry{Name: "d", Mode: filemode.Dir, Hash: w.subtreeObj(d).Hash()})
	}
	if m != "none" {
		t.Entries = append(t.Entries, object.TreeEntry{Name: "m", Mode: filemode.Submodule, Hash: linkHash})
	}
	return encObj(t)
}

// staticObj renders the objects whose bytes are a function of the symbol alone.
func (w *gcWorld) staticObj(o oid) plumbing.EncodedObject {
	switch o.kind() {
	case "B":
		return mkObj(plumbing.BlobObject, blobContent(o[1]))
	case "S":
		return w.subtreeObj(o[1])
	case "T":
		return w.treeObj(o[1], o[2], o[3])
	}
	return nil
}

func (w *gcWorld) hashOf(o oid) (plumbing.Hash, error) {
	switch o.kind() {
	case "C":
		h, ok := w.commits[o[1]]
		if !ok {
			return h, fmt.Errorf("unknown commit symbol %s", o[1])
		}
		return h, nil
	case "G":
		h, ok := w.tags[o[1]]
		if !ok {
			return h, fmt.Errorf("unknown tag symbol %s", o[1])
		}
		return h, nil
	}
	so := w.staticObj(o)
	if so == nil {
		return plumbing.ZeroHash, fmt.Errorf("bad object id %v", o)
	}
	return so.Hash(), nil
}

func (w *gcWorld) mustHash(o oid) plumbing.Hash {
	h, err := w.hashOf(o)
	if err != nil {
		panic(err)
	}
	return h
}

func has(set []oid, o oid) bool {
	for _, x := range set {
		if x.key() == o.key() {
			return true
		}
	}
	return false
}

func (w *gcWorld) indexOf(ix gcIdx) *index.Index {
	idx := &index.Index{Version: 2}
	add := func(name string, h plumbing.Hash, mode filemode.FileMode, size int) {
		idx.Entries = append(idx.Entries, &index.Entry{Name: name, Hash: h, Mode: mode, Size: uint32(size)})
	}
	if ix.A != "none" {
		c := blobContent(ix.A)
		add("a", mkObj(plumbing.BlobObject, c).Hash(), entryMode(ix.A), len(c))
	}
	if ix.D != "none" {
		c := blobContent(ix.D)
		add("d/b", mkObj(plumbing.BlobObject, c).Hash(), entryMode(ix.D), len(c))
	}
	if ix.M != "none" {
		add("m", linkHash, filemode.Submodule, 0)
	}
	// the unmerged path: one entry per conflict stage (index order: by name, then stage)
	for st, b := range []string{ix.U1, ix.U2, ix.U3} {
		if b != "none" && b != "" {
			c := blobContent(b)
			add("u", mkObj(plumbing.BlobObject, c).Hash(), filemode.Regular, len(c))
			idx.Entries[len(idx.Entries)-1].Stage = index.Stage(st + 1)
		}
	}
	return idx
}

// writeEntry materialises blob b at name in the worktree as the kind of entry the rendering gives it
// (entryMode): a regular file, an executable file, or a symbolic link whose target is the blob content.
func writeEntry(fs billy.Filesystem, name, b string) error {
	_ = fs.Remove(name)
	switch entryMode(b) {
	case filemode.Symlink:
		return fs.Symlink(string(blobContent(b)), name)
	case filemode.Executable:
		f, err := fs.OpenFile(name, os.O_CREATE|os.O_WRONLY|os.O_TRUNC, 0o755)
		if err != nil {
			return err
		}
		if _, err := f.Write(blobContent(b)); err != nil {
			f.Close()
			return err
		}
		return f.Close()
	}
	return writeFile(fs, name, blobContent(b))
}

func idxKey(e *index.Entry) string { return fmt.Sprintf("idx %s stage %d", e.Name, e.Stage) }

func sortIndex(idx *index.Index) {
	sort.Slice(idx.Entries, func(i, j int) bool {
		if idx.Entries[i].Name != idx.Entries[j].Name {
			return idx.Entries[i].Name < idx.Entries[j].Name
		}
		return idx.Entries[i].Stage < idx.Entries[j].Stage
	})
}

func writeFile(fs billy.Filesystem, name string, data []byte) error {
	f, err := fs.Create(name)
	if err != nil {
		return err
	}
	if _, err := f.Write(data); err != nil {
		f.Close()
		return err
	}
	return f.Close()
}

// build constructs the abstract state s with plumbing calls (initial states of histories).
func (w *gcWorld) build(s gcState) error {
	if err := w.open(true); err != nil {
		return fmt.Errorf("init: %w", err)
	}
	st := w.st
	for _, o := range s.Objs {
		if so := w.staticObj(o); so != nil {
			if _, err := st.SetEncodedObject(so); err != nil {
				return err
			}
		}
	}
	cs := strings.Fields(cIds)
	for i, r := range s.Cm {
		c := &object.Commit{Author: gcSig, Committer: gcSig, Message: "commit " + cs[i] + "\n", TreeHash: w.treeObj(r.A, r.D, r.M).Hash()}
		for _, p := range r.Par {
			c.ParentHashes = append(c.ParentHashes, w.commits[p])
		}
		eo := encObj(c)
		w.commits[cs[i]] = eo.Hash()
		if has(s.Objs, oid{"C", cs[i]}) {
			if _, err := st.SetEncodedObject(eo); err != nil {
				return err
			}
		}
	}
	w.nCm = len(s.Cm)
	gs := strings.Fields(gIds)
	for i, t := range s.Tg {
		tt := map[string]plumbing.ObjectType{"B": plumbing.BlobObject, "S": plumbing.TreeObject, "T": plumbing.TreeObject, "C": plumbing.CommitObject, "G": plumbing.TagObject}[t.kind()]
		tg := &object.Tag{Name: gs[i], Tagger: gcSig, Message: "tag " + gs[i] + "\n", TargetType: tt, Target: w.mustHash(t)}
		eo := encObj(tg)
		w.tags[gs[i]] = eo.Hash()
		if has(s.Objs, oid{"G", gs[i]}) {
			if _, err := st.SetEncodedObject(eo); err != nil {
				return err
			}
		}
	}
	w.nTg = len(s.Tg)
	for n, v := range s.Refs {
		if len(v) == 0 {
			continue
		}
		if err := st.SetReference(plumbing.NewHashReference(plumbing.ReferenceName(n), w.mustHash(v))); err != nil {
			return err
		}
	}
	if s.Head.Det != "none" {
		if err := st.SetReference(plumbing.NewHashReference(plumbing.HEAD, w.commits[s.Head.Det])); err != nil {
			return err
		}
	} else if err := st.SetReference(plumbing.NewSymbolicReference(plumbing.HEAD, plumbing.ReferenceName(s.Head.Sym))); err != nil {
		return err
	}
	w.idx = s.Idx
	if s.Idx != noIdx {
		if err := st.SetIndex(w.indexOf(s.Idx)); err != nil {
			return err
		}
	}
	if s.Idx.A != "none" {
		writeEntry(w.root, "a", s.Idx.A)
	}
	if s.Idx.D != "none" {
		w.root.MkdirAll("d", 0o755)
		writeEntry(w.root, "d/b", s.Idx.D)
	}
	if len(s.Shallow) > 0 {
		var hs []plumbing.Hash
		for _, c := range s.Shallow {
			hs = append(hs, w.commits[c])
		}
		if err := st.SetShallow(hs); err != nil {
			return err
		}
	}
	if len(s.Packed) > 0 {
		var hs []plumbing.Hash
		for _, o := range s.Packed {
			hs = append(hs, w.mustHash(o))
		}
		if _, err := w.packThese(hs, s.Promisor); err != nil {
			return err
		}
		for _, h := range hs {
			if err := st.DeleteLooseObject(h); err != nil {
				return err
			}
		}
	}
	if s.Promisor {
		if err := w.markPartialClone(); err != nil {
			return err
		}
	}
	w.close()
	return w.open(false)
}

func (w *gcWorld) markPartialClone() error {
	cfg, err := w.st.Config()
	if err != nil {
		return err
	}
	if _, ok := cfg.Remotes["origin"]; ok {
		return nil
	}
	cfg.Remotes["origin"] = &config.RemoteConfig{Name: "origin", URLs: []string{"https://example.invalid/repo.git"},
		Promisor: true, PartialCloneFilter: "blob:none"}
	cfg.Core.RepositoryFormatVersion = formatcfg.Version1
	return w.st.SetConfig(cfg)
}

// packThese writes one new pack with exactly the given objects.
func (w *gcWorld) packThese(hs []plumbing.Hash, promisor bool) (ph plumbing.Hash, err error) {
	var wc io.WriteCloser
	if promisor {
		wc, err = w.st.PromisorPackfileWriter("")
	} else {
		wc, err = w.st.PackfileWriter()
	}
	if err != nil {
		return ph, err
	}
	enc := packfile.NewEncoder(wc, w.st, false)
	if ph, err = enc.Encode(hs, 10); err != nil {
		wc.Close()
		return ph, err
	}
	return ph, wc.Close()
}

func (w *gcWorld) allHashes() ([]plumbing.Hash, error) {
	it, err := w.st.IterEncodedObjects(plumbing.AnyObject)
	if err != nil {
		return nil, err
	}
	seen := map[plumbing.Hash]bool{}
	var hs []plumbing.Hash
	err = it.ForEach(func(o plumbing.EncodedObject) error {
		if !seen[o.Hash()] {
			seen[o.Hash()] = true
			hs = append(hs, o.Hash())
		}
		return nil
	})
	sort.Slice(hs, func(i, j int) bool { return hs[i].Compare(hs[j].Bytes()) < 0 })
	return hs, err
}

func (w *gcWorld) looseHashes() ([]plumbing.Hash, error) {
	var hs []plumbing.Hash
	err := w.st.ForEachObjectHash(func(h plumbing.Hash) error { hs = append(hs, h); return nil })
	return hs, err
}

func (w *gcWorld) reopen() error {
	w.close()
	return w.open(false)
}

// apply performs one abstract operation (not prune/repack) with go-git.
func (w *gcWorld) apply(s gcStep) error {
	switch s.Op {
	case "add":
		p, b := rawStr(s.A), rawStr(s.B)
		name := "a"
		if p == "d" {
			name = "d/b"
			w.root.MkdirAll("d", 0o755)
		}
		if err := writeEntry(w.root, name, b); err != nil {
			return err
		}
		if _, err := w.wt.Add(name); err != nil {
			return err
		}
		if p == "a" {
			w.idx.A = b
		} else {
			w.idx.D = b
		}
	case "addlink":
		idx, err := w.st.Index()
		if err != nil {
			return err
		}
		idx.Entries = append(idx.Entries, &index.Entry{Name: "m", Hash: linkHash, Mode: filemode.Submodule})
		sortIndex(idx)
		if err := w.st.SetIndex(idx); err != nil {
			return err
		}
		w.idx.M = "link"
	case "conflict":
		// what a merge that stops on a conflict leaves behind: the stage blobs are written and the path
		// gets one index entry per stage; nothing else names the blobs
		ix := w.idx
		ix.U1, ix.U2, ix.U3 = rawStr(s.A), rawStr(s.B), rawStr(s.C)
		idx, err := w.st.Index()
		if err != nil {
			return err
		}
		for _, e := range w.indexOf(gcIdx{A: "none", D: "none", M: "none", U1: ix.U1, U2: ix.U2, U3: ix.U3}).Entries {
			if _, err := w.st.SetEncodedObject(mkObj(plumbing.BlobObject, blobContent([]string{"", ix.U1, ix.U2, ix.U3}[e.Stage]))); err != nil {
				return err
			}
			idx.Entries = append(idx.Entries, e)
		}
		sortIndex(idx)
		if err := w.st.SetIndex(idx); err != nil {
			return err
		}
		w.idx = ix
	case "resolve":
		idx, err := w.st.Index()
		if err != nil {
			return err
		}
		var keep []*index.Entry
		for _, e := range idx.Entries {
			if e.Stage == 0 {
				keep = append(keep, e)
			}
		}
		idx.Entries = keep
		if err := w.st.SetIndex(idx); err != nil {
			return err
		}
		w.idx.U1, w.idx.U2, w.idx.U3 = "none", "none", "none"
	case "commit":
		extra, c := rawStr(s.A), rawStr(s.B)
		opts := &git.CommitOptions{AllowEmptyCommits: true, Author: &gcSig, Committer: &gcSig}
		if extra != "none" {
			head, err := w.repo.Head()
			if err != nil {
				return err
			}
			opts.Parents = []plumbing.Hash{head.Hash(), w.commits[extra]}
		}
		h, err := w.wt.Commit("commit "+c+"\n", opts)
		if err != nil {
			return err
		}
		w.commits[c] = h
		w.nCm++
	case "resetsoft":
		return w.wt.Reset(&git.ResetOptions{Commit: w.commits[rawStr(s.A)], Mode: git.SoftReset})
	case "detach":
		return w.wt.Checkout(&git.CheckoutOptions{Hash: w.commits[rawStr(s.A)], Keep: true})
	case "switch":
		return w.wt.Checkout(&git.CheckoutOptions{Branch: plumbing.ReferenceName(rawStr(s.A)), Keep: true})
	case "tag":
		n, o, g := rawStr(s.A), rawOid(s.B), rawStr(s.C)
		ref, err := w.repo.CreateTag(strings.TrimPrefix(n, "refs/tags/"), w.mustHash(o), &git.CreateTagOptions{Tagger: &gcSig, Message: "tag " + g})
		if err != nil {
			return err
		}
		w.tags[g] = ref.Hash()
		w.nTg++
	case "setref":
		return w.st.SetReference(plumbing.NewHashReference(plumbing.ReferenceName(rawStr(s.A)), w.mustHash(rawOid(s.B))))
	case "delref":
		return w.st.RemoveReference(plumbing.ReferenceName(rawStr(s.A)))
	case "packrefs":
		return w.st.PackRefs()
	case "shallow":
		cur, err := w.st.Shallow()
		if err != nil {
			return err
		}
		if err := w.st.SetShallow(append(cur, w.commits[rawStr(s.A)])); err != nil {
			return err
		}
		keep := map[plumbing.Hash]bool{}
		for _, o := range rawOids(s.B) {
			keep[w.mustHash(o)] = true
		}
		ls, err := w.looseHashes()
		if err != nil {
			return err
		}
		for _, h := range ls {
			if !keep[h] {
				if err := w.st.DeleteLooseObject(h); err != nil {
					return err
				}
			}
		}
		return w.reopen()
	case "packall":
		promisor := rawStr(s.A) == "promisor"
		drop := map[plumbing.Hash]bool{}
		for _, o := range rawOids(s.B) {
			drop[w.mustHash(o)] = true
		}
		all, err := w.allHashes()
		if err != nil {
			return err
		}
		var hs []plumbing.Hash
		for _, h := range all {
			if !drop[h] {
				hs = append(hs, h)
			}
		}
		old, err := w.st.ObjectPacks()
		if err != nil {
			return err
		}
		ph, err := w.packThese(hs, promisor)
		if err != nil {
			return err
		}
		ls, err := w.looseHashes()
		if err != nil {
			return err
		}
		for _, h := range ls {
			if err := w.st.DeleteLooseObject(h); err != nil {
				return err
			}
		}
		for _, p := range old {
			if p == ph {
				continue // the new pack is byte-identical to an old one
			}
			if err := w.st.DeleteOldObjectPackAndIndex(p, time.Time{}); err != nil {
				return err
			}
		}
		if promisor {
			if err := w.markPartialClone(); err != nil {
				return err
			}
		}
		return w.reopen()
	case "makeloose":
		all, err := w.allHashes()
		if err != nil {
			return err
		}
		var objs []plumbing.EncodedObject
		for _, h := range all {
			o, err := w.st.EncodedObject(plumbing.AnyObject, h)
			if err != nil {
				return err
			}
			r, err := o.Reader()
			if err != nil {
				return err
			}
			b, err := io.ReadAll(r)
			r.Close()
			if err != nil {
				return err
			}
			objs = append(objs, mkObj(o.Type(), b))
		}
		packs, err := w.st.ObjectPacks()
		if err != nil {
			return err
		}
		for _, p := range packs {
			if err := w.st.DeleteOldObjectPackAndIndex(p, time.Time{}); err != nil {
				return err
			}
		}
		if err := w.reopen(); err != nil {
			return err
		}
		for _, o := range objs {
			if _, err := w.st.SetEncodedObject(o); err != nil {
				return err
			}
		}
		return w.reopen()
	default:
		return fmt.Errorf("unknown op %q", s.Op)
	}
	return nil
}

func gcTime(age string) time.Time {
	switch age {
	case "past":
		return time.Unix(1000, 0)
	case "future":
		return time.Now().Add(24 * time.Hour)
	}
	return time.Time{}
}

// gc runs the real garbage collection.
func (w *gcWorld) gc(op, rd, age string) error {
	switch op {
	case "prune":
		return w.repo.Prune(git.PruneOptions{OnlyObjectsOlderThan: gcTime(age), Handler: w.repo.DeleteObject})
	case "repack":
		return w.repo.RepackObjects(&git.RepackConfig{UseRefDeltas: rd == "ref", OnlyDeletePacksOlderThan: gcTime(age)})
	}
	return fmt.Errorf("unknown gc op %q", op)
}

type objSnap struct {
	typ  plumbing.ObjectType
	data []byte
}

func readObj(s storer.EncodedObjectStorer, h plumbing.Hash) (objSnap, error) {
	o, err := s.EncodedObject(plumbing.AnyObject, h)
	if err != nil {
		return objSnap{}, err
	}
	r, err := o.Reader()
	if err != nil {
		return objSnap{}, err
	}
	defer r.Close()
	b, err := io.ReadAll(r)
	if err != nil {
		return objSnap{}, err
	}
	if o.Hash() != h {
		return objSnap{}, fmt.Errorf("object %s returned for %s", o.Hash(), h)
	}
	return objSnap{o.Type(), b}, nil
}

// kidsOf decodes the object and returns the hashes it refers to (the concrete Content(o)).
func kidsOf(s storer.EncodedObjectStorer, h plumbing.Hash) ([]string, error) {
	o, err := object.GetObject(s, h)
	if err != nil {
		return nil, err
	}
	var ks []string
	switch x := o.(type) {
	case *object.Commit:
		ks = append(ks, x.TreeHash.String())
		for _, p := range x.ParentHashes {
			ks = append(ks, p.String())
		}
	case *object.Tree:
		for _, e := range x.Entries {
			if e.Mode == filemode.Submodule {
				continue // gitlink: the commit lives in another repository
			}
			ks = append(ks, e.Hash.String())
		}
	case *object.Tag:
		ks = append(ks, x.Target.String())
	case *object.Blob:
	}
	sort.Strings(ks)
	return ks, nil
}

func (w *gcWorld) kidHashes(kids []oid) []string {
	var ks []string
	for _, k := range kids {
		ks = append(ks, w.mustHash(k).String())
	}
	sort.Strings(ks)
	return ks
}

// project reads references, HEAD, index and shallow list through s and returns them in abstract form.
func (w *gcWorld) project(s *filesystem.Storage) (map[string]string, error) {
	out := map[string]string{}
	sym := map[plumbing.Hash]string{}
	for c, h := range w.commits {
		sym[h] = "C:" + c
	}
	for g, h := range w.tags {
		sym[h] = "G:" + g
	}
	name := func(h plumbing.Hash) string {
		if v, ok := sym[h]; ok {
			return v
		}
		return h.String()
	}
	it, err := s.IterReferences()
	if err != nil {
		return nil, err
	}
	err = it.ForEach(func(r *plumbing.Reference) error {
		if r.Type() == plumbing.SymbolicReference {
			out["ref "+r.Name().String()] = "sym:" + r.Target().String()
		} else {
			out["ref "+r.Name().String()] = name(r.Hash())
		}
		return nil
	})
	if err != nil {
		return nil, err
	}
	idx, err := s.Index()
	if err != nil {
		return nil, err
	}
	for _, e := range idx.Entries {
		out[idxKey(e)] = e.Hash.String()
	}
	sh, err := s.Shallow()
	if err != nil {
		return nil, err
	}
	for _, h := range sh {
		out["shallow "+name(h)] = "1"
	}
	return out, nil
}

// expectProjection renders the abstract state in the same form as project.
func (w *gcWorld) expectProjection(s gcState) map[string]string {
	out := map[string]string{}
	for n, v := range s.Refs {
		if len(v) == 0 {
			continue
		}
		switch v.kind() {
		case "C", "G":
			out["ref "+n] = v.key()
		default:
			out["ref "+n] = w.mustHash(v).String()
		}
	}
	if s.Head.Det != "none" {
		out["ref HEAD"] = "C:" + s.Head.Det
	} else {
		out["ref HEAD"] = "sym:" + s.Head.Sym
	}
	for _, e := range w.indexOf(s.Idx).Entries {
		out[idxKey(e)] = e.Hash.String()
	}
	for _, c := range s.Shallow {
		out["shallow C:"+c] = "1"
	}
	return out
}

func diffMaps(want, got map[string]string) string {
	var ds []string
	for k, v := range want {
		if got[k] != v {
			ds = append(ds, fmt.Sprintf("%s: want %s got %q", k, v, got[k]))
		}
	}
	for k, v := range got {
		if _, ok := want[k]; !ok {
			ds = append(ds, fmt.Sprintf("%s: unexpected %s", k, v))
		}
	}
	sort.Strings(ds)
	return strings.Join(ds, "; ")
}

func frameClass(d string) string {
	switch {
	case strings.HasPrefix(d, "ref HEAD"):
		return "head"
	case strings.HasPrefix(d, "ref "):
		return "refs"
	case strings.HasPrefix(d, "idx "):
		return "index"
	}
	return "shallow"
}

func isNotFound(err error) bool { return errors.Is(err, plumbing.ErrObjectNotFound) }

// copyTree copies every file below dir from src to dst.
func copyTree(src, dst billy.Filesystem, dir string) error {
	es, err := src.ReadDir(dir)
	if err != nil {
		return err
	}
	if err := dst.MkdirAll(dir, 0o755); err != nil {
		return err
	}
	for _, e := range es {
		p := src.Join(dir, e.Name())
		if e.IsDir() {
			if err := copyTree(src, dst, p); err != nil {
				return err
			}
			continue
		}
		mode := e.Type()
		if fi, err := e.Info(); err == nil {
			mode = fi.Mode()
		}
		if mode&os.ModeSymlink != 0 {
			t, err := src.Readlink(p)
			if err != nil {
				return err
			}
			if err := dst.Symlink(t, p); err != nil {
				return err
			}
			continue
		}
		f, err := src.Open(p)
		if err != nil {
			return err
		}
		b, err := io.ReadAll(f)
		f.Close()
		if err != nil {
			return err
		}
		if mode&0o111 != 0 {
			g, err := dst.OpenFile(p, os.O_CREATE|os.O_WRONLY|os.O_TRUNC, 0o755)
			if err != nil {
				return err
			}
			if _, err := g.Write(b); err != nil {
				g.Close()
				return err
			}
			if err := g.Close(); err != nil {
				return err
			}
			continue
		}
		if err := writeFile(dst, p, b); err != nil {
			return err
		}
	}
	return nil
}

// clone makes an independent copy of the repository (same symbol table) on a new filesystem.
func (w *gcWorld) clone(be gcBackend) (*gcWorld, error) {
	n, err := newGcWorld(be)
	if err != nil {
		return nil, err
	}
	if err := copyTree(w.root, n.root, "/"); err != nil {
		n.destroy()
		return nil, err
	}
	for k, v := range w.commits {
		n.commits[k] = v
	}
	for k, v := range w.tags {
		n.tags[k] = v
	}
	n.nCm, n.nTg, n.idx = w.nCm, w.nTg, w.idx
	if err := n.open(false); err != nil {
		n.destroy()
		return nil, err
	}
	return n, nil
}
