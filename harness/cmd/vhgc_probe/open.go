package main

import (
	"fmt"
	"os"

	git "github.com/go-git/go-git/v6"
)

func init() {
	if len(os.Args) > 3 && os.Args[1] == "open" {
		r, err := git.PlainOpen(os.Args[2])
		must(err)
		if os.Args[3] == "prune" {
			fmt.Println("Prune:", r.Prune(git.PruneOptions{Handler: r.DeleteObject}))
		} else {
			fmt.Println("RepackObjects:", r.RepackObjects(&git.RepackConfig{}))
		}
		os.Exit(0)
	}
}
