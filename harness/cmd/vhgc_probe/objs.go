package main

import (
	"sort"

	"github.com/go-git/go-git/v6/plumbing"
	"github.com/go-git/go-git/v6/plumbing/filemode"
	"github.com/go-git/go-git/v6/plumbing/object"
)

func treeOf(m map[string]plumbing.Hash) plumbing.EncodedObject {
	t := &object.Tree{}
	var ns []string
	for n := range m {
		ns = append(ns, n)
	}
	sort.Strings(ns)
	for _, n := range ns {
		t.Entries = append(t.Entries, object.TreeEntry{Name: n, Mode: filemode.Regular, Hash: m[n]})
	}
	o := &plumbing.MemoryObject{}
	must(t.Encode(o))
	return o
}

func commitOf(tree plumbing.Hash) plumbing.EncodedObject {
	c := &object.Commit{Author: sig, Committer: sig, Message: "c\n", TreeHash: tree}
	o := &plumbing.MemoryObject{}
	must(c.Encode(o))
	return o
}
