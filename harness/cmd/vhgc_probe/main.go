package main

import (
	"fmt"
	"io"
	"os"
	"time"

	"github.com/go-git/go-billy/v6"
	"github.com/go-git/go-billy/v6/memfs"
	"github.com/go-git/go-billy/v6/osfs"
	git "github.com/go-git/go-git/v6"
	"github.com/go-git/go-git/v6/plumbing"
	"github.com/go-git/go-git/v6/plumbing/cache"
	"github.com/go-git/go-git/v6/plumbing/format/packfile"
	"github.com/go-git/go-git/v6/plumbing/object"
	"github.com/go-git/go-git/v6/storage/filesystem"
)

var sig = object.Signature{Name: "a", Email: "a@b", When: time.Unix(1000000000, 0)}

func must(err error) {
	if err != nil {
		panic(err)
	}
}

func main() {
	var root billy.Filesystem
	if len(os.Args) > 1 && os.Args[1] == "os" {
		d, _ := os.MkdirTemp("", "probe")
		fmt.Println("dir", d)
		root = osfs.New(d)
	} else {
		root = memfs.New()
	}
	dot, _ := root.Chroot(".git")
	st := filesystem.NewStorageWithOptions(dot, cache.NewObjectLRUDefault(), filesystem.Options{})
	r, err := git.Init(st, git.WithWorkTree(root))
	must(err)
	w, _ := r.Worktree()
	f, _ := root.Create("a")
	f.Write([]byte("hello\n"))
	f.Close()
	_, err = w.Add("a")
	must(err)
	c1, err := w.Commit("c1", &git.CommitOptions{Author: &sig})
	must(err)
	// pack everything with the plain encoder, delete loose
	var hs []plumbing.Hash
	it, _ := st.IterEncodedObjects(plumbing.AnyObject)
	it.ForEach(func(o plumbing.EncodedObject) error { hs = append(hs, o.Hash()); return nil })
	pw, err := st.PackfileWriter()
	must(err)
	_, err = packfile.NewEncoder(pw, st, false).Encode(hs, 10)
	must(err)
	must(pw.Close())
	for _, h := range hs {
		must(st.DeleteLooseObject(h))
	}
	st.Close()
	// a staged-only change
	st = filesystem.NewStorageWithOptions(dot, cache.NewObjectLRUDefault(), filesystem.Options{})
	r, err = git.Open(st, root)
	must(err)
	w, _ = r.Worktree()
	f, _ = root.Create("a")
	f.Write([]byte("staged only\n"))
	f.Close()
	staged, err := w.Add("a")
	must(err)
	if len(os.Args) > 3 {
		_, err = w.Commit("c2", &git.CommitOptions{Author: &sig})
		must(err)
	}
	mode := "repack"
	if len(os.Args) > 2 {
		mode = os.Args[2]
	}
	if mode == "prune" {
		must(r.Prune(git.PruneOptions{Handler: r.DeleteObject}))
	} else {
		must(r.RepackObjects(&git.RepackConfig{}))
	}
	rd := func(s *filesystem.Storage, h plumbing.Hash) error {
		o, err := s.EncodedObject(plumbing.AnyObject, h)
		if err != nil {
			return err
		}
		r, err := o.Reader()
		if err != nil {
			return fmt.Errorf("Reader: %w", err)
		}
		defer r.Close()
		_, err = io.ReadAll(r)
		return err
	}
	fmt.Println("same instance read c1:", rd(st, c1))
	_, err = st.EncodedObject(plumbing.AnyObject, c1)
	fmt.Println("same instance: commit c1:", err)
	_, err = st.EncodedObject(plumbing.AnyObject, staged)
	fmt.Println("same instance: staged blob:", err)
	st2 := filesystem.NewStorageWithOptions(dot, cache.NewObjectLRUDefault(), filesystem.Options{})
	_, err = st2.EncodedObject(plumbing.AnyObject, c1)
	fmt.Println("fresh instance: commit c1:", err)
	_, err = st2.EncodedObject(plumbing.AnyObject, staged)
	fmt.Println("fresh instance: staged blob:", err)
}
