package main

import (
	"fmt"
	"os"
	"time"

	"github.com/go-git/go-billy/v6/memfs"
	git "github.com/go-git/go-git/v6"
	"github.com/go-git/go-git/v6/plumbing"
	"github.com/go-git/go-git/v6/plumbing/cache"
	"github.com/go-git/go-git/v6/plumbing/format/packfile"
	"github.com/go-git/go-git/v6/storage/filesystem"
)

// repackidx: a staged-only blob that sits in a pack (as after `git gc`) is dropped by RepackObjects.
func init() {
	if len(os.Args) < 2 || os.Args[1] != "repackidx" {
		return
	}
	root := memfs.New()
	dot, _ := root.Chroot(".git")
	st := filesystem.NewStorageWithOptions(dot, cache.NewObjectLRUDefault(), filesystem.Options{})
	r, err := git.Init(st, git.WithWorkTree(root))
	must(err)
	w, _ := r.Worktree()
	f, _ := root.Create("a")
	f.Write([]byte("hello\n"))
	f.Close()
	_, err = w.Add("a")
	must(err)
	_, err = w.Commit("c1", &git.CommitOptions{Author: &sig})
	must(err)
	f, _ = root.Create("a")
	f.Write([]byte("staged only\n"))
	f.Close()
	staged, err := w.Add("a") // staged, never committed
	must(err)
	// pack everything (what `git gc` does: it packs index blobs too), delete the loose copies
	var hs []plumbing.Hash
	it, _ := st.IterEncodedObjects(plumbing.AnyObject)
	it.ForEach(func(o plumbing.EncodedObject) error { hs = append(hs, o.Hash()); return nil })
	pw, err := st.PackfileWriter()
	must(err)
	_, err = packfile.NewEncoder(pw, st, false).Encode(hs, 10)
	must(err)
	must(pw.Close())
	for _, h := range hs {
		must(st.DeleteLooseObject(h))
	}
	st.Close()
	st = filesystem.NewStorageWithOptions(dot, cache.NewObjectLRUDefault(), filesystem.Options{})
	r, err = git.Open(st, root)
	must(err)
	fmt.Println("before repack, staged blob:", st.HasEncodedObject(staged))
	if len(os.Args) > 2 && os.Args[2] == "agelimit" {
		// the old pack is too new to delete: it stays on disk, but does the storage still know it?
		must(r.RepackObjects(&git.RepackConfig{OnlyDeletePacksOlderThan: time.Unix(1000, 0)}))
		fmt.Println("after RepackObjects{OnlyDeletePacksOlderThan: 1970}, object only in the kept old pack, same storage:", st.HasEncodedObject(staged))
		st3 := filesystem.NewStorageWithOptions(dot, cache.NewObjectLRUDefault(), filesystem.Options{})
		fmt.Println("  fresh storage:", st3.HasEncodedObject(staged))
		os.Exit(0)
	}
	must(r.RepackObjects(&git.RepackConfig{}))
	st2 := filesystem.NewStorageWithOptions(dot, cache.NewObjectLRUDefault(), filesystem.Options{})
	fmt.Println("after RepackObjects, staged blob (fresh storage):", st2.HasEncodedObject(staged))
	os.Exit(0)
}
