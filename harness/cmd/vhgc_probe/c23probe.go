package main

import (
	"fmt"
	"os"
	"strings"
	"sync"
	"sync/atomic"
	"time"

	"verifharness/internal/hookfs"

	"github.com/go-git/go-billy/v6/memfs"
	"github.com/go-git/go-git/v6/plumbing"
	"github.com/go-git/go-git/v6/plumbing/cache"
	"github.com/go-git/go-git/v6/plumbing/filemode"
	"github.com/go-git/go-git/v6/plumbing/format/index"
	"github.com/go-git/go-git/v6/plumbing/format/packfile"
	"github.com/go-git/go-git/v6/storage/filesystem"
	"github.com/go-git/go-git/v6/storage/memory"
)

func blob(s string) plumbing.EncodedObject {
	o := &plumbing.MemoryObject{}
	o.SetType(plumbing.BlobObject)
	o.Write([]byte(s))
	return o
}

func addPack(st *filesystem.Storage, objs ...plumbing.EncodedObject) {
	mem := memory.NewStorage()
	var hs []plumbing.Hash
	for _, o := range objs {
		mem.SetEncodedObject(o)
		hs = append(hs, o.Hash())
	}
	pw, err := st.PackfileWriter()
	must(err)
	_, err = packfile.NewEncoder(pw, mem, false).Encode(hs, 10)
	must(err)
	must(pw.Close())
}

func init() {
	if len(os.Args) > 1 && os.Args[1] == "indexhash" {
		// N goroutines read the index of a fresh Storage at the same time
		fs := memfs.New()
		st := filesystem.NewStorageWithOptions(fs, cache.NewObjectLRUDefault(), filesystem.Options{})
		must(st.Init())
		idx := &index.Index{Version: 2}
		for i := 0; i < 200; i++ {
			idx.Entries = append(idx.Entries, &index.Entry{Name: fmt.Sprintf("f%03d", i), Hash: blob(fmt.Sprint(i)).Hash(), Mode: filemode.Regular})
		}
		must(st.SetIndex(idx))
		bad := map[string]int{}
		var mu sync.Mutex
		for round := 0; round < 200; round++ {
			s2 := filesystem.NewStorageWithOptions(fs, cache.NewObjectLRUDefault(), filesystem.Options{})
			var wg sync.WaitGroup
			for g := 0; g < 4; g++ {
				wg.Add(1)
				go func() {
					defer wg.Done()
					if _, err := s2.Index(); err != nil {
						mu.Lock()
						bad[err.Error()]++
						mu.Unlock()
					}
				}()
			}
			wg.Wait()
			s2.Close()
		}
		fmt.Println("800 concurrent Index() calls on 200 fresh storages; errors:", bad)
		os.Exit(0)
	}
	if len(os.Args) > 1 && os.Args[1] == "reindex" {
		base := memfs.New()
		wst := filesystem.NewStorageWithOptions(base, cache.NewObjectLRUDefault(), filesystem.Options{})
		must(wst.Init())
		addPack(wst, blob("zero"))
		var hold atomic.Bool
		var blocked atomic.Int32
		release := make(chan struct{})
		hook := func(op *hookfs.Op) error {
			if hold.Load() && strings.HasSuffix(op.Path, ".idx") {
				blocked.Add(1)
				<-release
			}
			return nil
		}
		rst := filesystem.NewStorageWithOptions(hookfs.New(base, hook), cache.NewObjectLRUDefault(), filesystem.Options{})
		must(rst.HasEncodedObject(blob("zero").Hash())) // cold load
		hold.Store(true)
		aDone := make(chan error, 1)
		go func() { aDone <- rst.Reindex() }() // A: lists objects/pack, then blocks opening the idx
		for blocked.Load() == 0 {
			time.Sleep(time.Millisecond)
		}
		hold.Store(false)
		nb := blob("new object in a new pack")
		addPack(wst, nb) // the other instance publishes a pack, completely
		bDone := make(chan error, 1)
		go func() { bDone <- rst.Reindex() }() // B: called after the pack is in place
		time.Sleep(20 * time.Millisecond)      // B has joined A's flight
		close(release)
		fmt.Println("Reindex A:", <-aDone, " Reindex B (started after the pack was published):", <-bDone)
		fmt.Println("read of the new object after B's Reindex returned:", rst.HasEncodedObject(nb.Hash()))
		must(rst.Reindex())
		fmt.Println("after one more Reindex:", rst.HasEncodedObject(nb.Hash()))
		os.Exit(0)
	}
}
