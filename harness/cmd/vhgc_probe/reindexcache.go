package main

import (
	"fmt"
	"io"
	"os"

	"github.com/go-git/go-billy/v6/memfs"
	git "github.com/go-git/go-git/v6"
	"github.com/go-git/go-git/v6/plumbing"
	"github.com/go-git/go-git/v6/plumbing/cache"
	"github.com/go-git/go-git/v6/storage/filesystem"
	"github.com/go-git/go-git/v6/x/fdpool"
)

// reindexcache: instance R reads a packed object (it enters R's object cache bound to its pack); instance W repacks
// (old pack deleted); R calls Reindex(); R reads the object again.
func init() {
	if len(os.Args) < 2 || os.Args[1] != "reindexcache" {
		return
	}
	fs := memfs.New()
	w := filesystem.NewStorageWithOptions(fs, cache.NewObjectLRUDefault(), filesystem.Options{})
	must(w.Init())
	a, b := blob("first object, packed"), blob("second object, loose until the repack")
	addPack(w, a)
	c := &plumbingCommit{}
	_ = c
	// a commit that references both blobs, so that RepackObjects keeps them
	tree := treeOf(map[string]plumbing.Hash{"a": a.Hash(), "b": b.Hash()})
	commit := commitOf(tree.Hash())
	for _, o := range []plumbing.EncodedObject{b, tree, commit} {
		_, err := w.SetEncodedObject(o)
		must(err)
	}
	must(w.SetReference(plumbing.NewHashReference("refs/heads/main", commit.Hash())))
	must(w.SetReference(plumbing.NewSymbolicReference(plumbing.HEAD, "refs/heads/main")))

	// a small descriptor pool, as a busy server has: idle descriptors get closed
	r := filesystem.NewStorageWithOptions(fs, cache.NewObjectLRUDefault(), filesystem.Options{Pool: fdpool.New(1)})
	read := func() error {
		o, err := r.EncodedObject(plumbing.AnyObject, a.Hash())
		if err != nil {
			return err
		}
		rd, err := o.Reader()
		if err != nil {
			return fmt.Errorf("Reader: %w", err)
		}
		defer rd.Close()
		_, err = io.ReadAll(rd)
		return err
	}
	fmt.Println("R reads the packed object:", read())
	repo, err := git.Open(w, nil)
	must(err)
	must(repo.RepackObjects(&git.RepackConfig{}))
	fmt.Println("W repacked; R reads without Reindex:", read())
	must(r.CloseIdleDescriptors())
	must(r.Reindex())
	fmt.Println("R after its own Reindex():", read())
	r2 := filesystem.NewStorageWithOptions(fs, cache.NewObjectLRUDefault(), filesystem.Options{})
	_, err = r2.EncodedObject(plumbing.AnyObject, a.Hash())
	fmt.Println("a fresh storage:", err)
	os.Exit(0)
}

type plumbingCommit struct{}
