package main

import (
	"encoding/json"
	"fmt"
	"os"
	"path/filepath"
	"strings"

	"verifharness/internal/gitcli"
	"verifharness/internal/rep"

	git "github.com/go-git/go-git/v6"
	"github.com/go-git/go-git/v6/plumbing"
	cgfmt "github.com/go-git/go-git/v6/plumbing/format/commitgraph"
	cgobj "github.com/go-git/go-git/v6/plumbing/object/commitgraph"
)

// c43case reproduces one traversal by hand: the repository is created on disk by git
// (fast-import; HEAD -> master -> highest commit; branches b<c> for "refs"; optionally a
// commit-graph file written by git), git rev-list is asked, and go-git opens the same
// directory with PlainOpen.
//
//	vhdag c43case '{"pseq":[[],[],[2,1],[]],"tm":[1,2,3,4],"order":"ctime","all":true,"refs":[2,3]}'
//	vhdag c43case '{"pseq":[[],[1],[1,2]],"tm":[2,1,1],"node":"topo","backend":"object"}'
//	vhdag c43case '{"pseq":[[],[1],[],[1,2,3]],"tm":[1,2,3,4],"node":"date","backend":"graph","genversion":1}'
func init() { rep.Register("c43case", c43case) }

func c43case(args []string) error {
	if len(args) != 1 {
		return fmt.Errorf("usage: c43case '<json>'")
	}
	var cs struct {
		Pseq       [][]int `json:"pseq"`
		Tm         []int   `json:"tm"`
		Order      string  `json:"order"`
		All        bool    `json:"all"`
		Refs       []int   `json:"refs"`
		Since      int     `json:"since"`
		Until      int     `json:"until"`
		To         int     `json:"to"`
		Node       string  `json:"node"`
		Backend    string  `json:"backend"`
		GenVersion int     `json:"genversion"`
	}
	if err := json.Unmarshal([]byte(args[0]), &cs); err != nil {
		return err
	}
	gi, err := newGitImport("c43case")
	if err != nil {
		return err
	}
	n := len(cs.Pseq)
	ms := make([]int, n+1)
	for c := 1; c <= n; c++ {
		var ps []int
		for _, p := range cs.Pseq[c-1] {
			ps = append(ps, ms[p])
		}
		ms[c] = gi.commit(c, ps, cs.Tm[c-1], nil)
	}
	ids, err := gi.run()
	if err != nil {
		return err
	}
	id := func(c int) string { return ids[ms[c]] }
	name := map[string]string{}
	hnum := map[plumbing.Hash]int{}
	for c := 1; c <= n; c++ {
		name[id(c)] = fmt.Sprintf("c%d", c)
		hnum[plumbing.NewHash(id(c))] = c
	}
	must := func(args ...string) string {
		o, se, err := gitcli.Run(gi.dir, nil, args...)
		if err != nil {
			panic(fmt.Sprintf("git %v: %v %s", args, err, se))
		}
		return o
	}
	must("update-ref", "-d", "refs/heads/tmp")
	must("update-ref", "refs/heads/master", id(n))
	for _, c := range cs.Refs {
		must("update-ref", fmt.Sprintf("refs/heads/b%d", c), id(c))
	}
	pretty := func(out string) string {
		var l []string
		for _, ln := range strings.Fields(out) {
			if v, ok := name[ln]; ok {
				l = append(l, v)
			} else {
				l = append(l, ln)
			}
		}
		return strings.Join(l, " ")
	}
	fmt.Printf("repository %s  (graph %v, committer instants %v, HEAD=c%d, extra branches %v)\n", gi.dir, cs.Pseq, cs.Tm, n, cs.Refs)
	repo, err := git.PlainOpen(gi.dir)
	if err != nil {
		return err
	}
	if cs.Node == "" {
		ga := []string{"rev-list"}
		o := &git.LogOptions{Order: logOrders[cs.Order]}
		if cs.Since > 0 {
			ga = append(ga, fmt.Sprintf("--since=@%d", timeBase+cs.Since*timeStep))
			t := when(cs.Since)
			o.Since = &t
		}
		if cs.Until > 0 {
			ga = append(ga, fmt.Sprintf("--until=@%d", timeBase+cs.Until*timeStep))
			t := when(cs.Until)
			o.Until = &t
		}
		if cs.All {
			ga = append(ga, "--all")
			o.All = true
		} else {
			ga = append(ga, "HEAD")
		}
		if cs.To > 0 {
			ga = append(ga, "^"+id(cs.To))
			o.To = plumbing.NewHash(id(cs.To))
		}
		fmt.Printf("git %s : %s\n", strings.Join(ga, " "), pretty(must(ga...)))
		out, e := runLog(repo, hnum, o)
		fmt.Printf("go-git Repository.Log(order=%s all=%v since=%d until=%d to=%d) : %v %s\n", cs.Order, cs.All, cs.Since, cs.Until, cs.To, out, e)
	} else {
		flag := map[string]string{"topo": "--topo-order", "date": "--date-order", "author": "--author-date-order", "ctime": ""}[cs.Node]
		ga := []string{"rev-list"}
		if flag != "" {
			ga = append(ga, flag)
		}
		ga = append(ga, "HEAD")
		fmt.Printf("git %s : %s\n", strings.Join(ga, " "), pretty(must(ga...)))
		var idx cgobj.CommitNodeIndex = cgobj.NewObjectCommitNodeIndex(repo.Storer)
		if cs.Backend == "graph" {
			gv := cs.GenVersion
			if gv == 0 {
				gv = 2
			}
			must("-c", fmt.Sprintf("commitGraph.generationVersion=%d", gv), "commit-graph", "write", "--reachable")
			f, err := os.Open(filepath.Join(gi.dir, "objects", "info", "commit-graph"))
			if err != nil {
				return err
			}
			fi, err := cgfmt.OpenFileIndex(f)
			if err != nil {
				return err
			}
			fmt.Printf("commit-graph file written by git (generation version %d, has v2 data: %v)\n", gv, fi.HasGenerationV2())
			idx = cgobj.NewGraphCommitNodeIndex(fi, repo.Storer)
		}
		node, err := idx.Get(plumbing.NewHash(id(n)))
		if err != nil {
			return err
		}
		var it cgobj.CommitNodeIter
		switch cs.Node {
		case "topo":
			it = cgobj.NewCommitNodeIterTopoOrder(node, nil, nil)
		case "date":
			it = cgobj.NewCommitNodeIterDateOrder(node, nil, nil)
		case "author":
			it = cgobj.NewCommitNodeIterAuthorDateOrder(node, nil, nil)
		default:
			it = cgobj.NewCommitNodeIterCTime(node, nil, nil)
		}
		var out []string
		err = it.ForEach(func(c cgobj.CommitNode) error {
			out = append(out, fmt.Sprintf("c%d", hnum[c.ID()]))
			if len(out) > 40 {
				return fmt.Errorf("runaway")
			}
			return nil
		})
		fmt.Printf("go-git %s-order node walker on %s-backed index : %s %v\n", cs.Node, map[bool]string{true: "commit-graph", false: "object"}[cs.Backend == "graph"], strings.Join(out, " "), err)
	}
	return rep.New().Emit()
}
