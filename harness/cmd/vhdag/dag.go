package main

import (
	"bytes"
	"fmt"
	"os"
	"os/exec"
	"path/filepath"
	"sort"
	"strconv"
	"strings"
	"time"

	"verifharness/internal/gitcli"

	"github.com/go-git/go-git/v6/plumbing"
	"github.com/go-git/go-git/v6/plumbing/filemode"
	"github.com/go-git/go-git/v6/plumbing/object"
	"github.com/go-git/go-git/v6/plumbing/storer"
)

// Rendering conventions shared by C42 / C37 / C43 (and documented for vhdag2):
// commit number c of a DagUniverse graph becomes a real commit object with message
// "c<c>\n", author = committer = "A U Thor <author@example.com>", committer time
// timeBase + tm[c]*timeStep seconds (+0000).  The message makes two commits with the
// same parents, tree and time distinct objects.
const (
	timeBase = 1000000000
	timeStep = 100
)

func when(t int) time.Time { return time.Unix(timeBase+int64(t)*timeStep, 0).UTC() }

func sigAt(t int) object.Signature {
	return object.Signature{Name: "A U Thor", Email: "author@example.com", When: when(t)}
}

var emptyTreeHash = plumbing.NewHash("4b825dc642cb6eb9a060e54bf8d69288fbee4904")

type encoder interface {
	Encode(plumbing.EncodedObject) error
}

func putObj(st storer.EncodedObjectStorer, e encoder) plumbing.Hash {
	o := st.NewEncodedObject()
	if err := e.Encode(o); err != nil {
		panic(fmt.Errorf("encode: %w", err))
	}
	h, err := st.SetEncodedObject(o)
	if err != nil {
		panic(fmt.Errorf("store: %w", err))
	}
	return h
}

func putBlob(st storer.EncodedObjectStorer, data string) plumbing.Hash {
	o := st.NewEncodedObject()
	o.SetType(plumbing.BlobObject)
	w, _ := o.Writer()
	_, _ = w.Write([]byte(data))
	_ = w.Close()
	h, err := st.SetEncodedObject(o)
	if err != nil {
		panic(err)
	}
	return h
}

// putTree stores a tree; entries are sorted the way git sorts them (all names used by
// the harness are plain lower-case words, so byte order of names is git's order).
func putTree(st storer.EncodedObjectStorer, entries []object.TreeEntry) plumbing.Hash {
	es := append([]object.TreeEntry(nil), entries...)
	sort.Slice(es, func(i, j int) bool { return es[i].Name < es[j].Name })
	return putObj(st, &object.Tree{Entries: es})
}

func putCommit(st storer.EncodedObjectStorer, c int, parents []plumbing.Hash, t int, tree plumbing.Hash) plumbing.Hash {
	s := sigAt(t)
	return putObj(st, &object.Commit{Author: s, Committer: s, Message: fmt.Sprintf("c%d\n", c),
		TreeHash: tree, ParentHashes: parents})
}

func putTag(st storer.EncodedObjectStorer, name string, target plumbing.Hash, typ plumbing.ObjectType, t int) plumbing.Hash {
	return putObj(st, &object.Tag{Name: name, Tagger: sigAt(t), Message: name + "\n", TargetType: typ, Target: target})
}

var _ = filemode.Dir

// parent order renderings of a set-valued DAG
const (
	ordAsc  = 0
	ordDesc = 1
)

func orderPar(par [][]int, mode int) [][]int {
	out := make([][]int, len(par))
	for i, p := range par {
		q := append([]int{}, p...)
		sort.Ints(q)
		if mode == ordDesc {
			for a, b := 0, len(q)-1; a < b; a, b = a+1, b-1 {
				q[a], q[b] = q[b], q[a]
			}
		}
		out[i] = q
	}
	return out
}

// buildDag stores commits 1..n (pseq[c-1] = ordered parents of c, tm[c-1] = instant) and
// returns their hashes indexed by commit number (index 0 unused).  treeOf may be nil
// (empty tree).  keep (optional) says which commits are stored; the others are only hashed.
func buildDag(st storer.EncodedObjectStorer, hashOnly storer.EncodedObjectStorer, pseq [][]int, tm []int, treeOf func(c int) plumbing.Hash, keep map[int]bool) []plumbing.Hash {
	n := len(pseq)
	hs := make([]plumbing.Hash, n+1)
	for c := 1; c <= n; c++ {
		var ps []plumbing.Hash
		for _, p := range pseq[c-1] {
			ps = append(ps, hs[p])
		}
		tree := emptyTreeHash
		if treeOf != nil {
			tree = treeOf(c)
		}
		target := st
		if keep != nil && !keep[c] {
			target = hashOnly
		}
		hs[c] = putCommit(target, c, ps, tm[c-1], tree)
	}
	return hs
}

func numOf(hs []plumbing.Hash) map[plumbing.Hash]int {
	m := make(map[plumbing.Hash]int, len(hs))
	for i := 1; i < len(hs); i++ {
		m[hs[i]] = i
	}
	return m
}

func sortedInts(s []int) []int {
	q := append([]int(nil), s...)
	sort.Ints(q)
	return q
}

func eqInts(a, b []int) bool {
	if len(a) != len(b) {
		return false
	}
	for i := range a {
		if a[i] != b[i] {
			return false
		}
	}
	return true
}

func intsKey(a []int) string {
	var b strings.Builder
	for i, x := range a {
		if i > 0 {
			b.WriteByte(',')
		}
		b.WriteString(strconv.Itoa(x))
	}
	return b.String()
}

// timeClass classifies a committer-time assignment relative to the graph (signature key only).
func timeClass(par [][]int, tm []int) string {
	cls := "monotone"
	for c := range par {
		for _, p := range par[c] {
			if tm[c] < tm[p-1] {
				return "skewed"
			}
			if tm[c] == tm[p-1] {
				cls = "tie"
			}
		}
	}
	return cls
}

// ----------------------------------------------------------------------- git leg

// gitImport accumulates one `git fast-import` stream that creates the commits of many
// scenarios in a single bare repository (one process for all of them).
type gitImport struct {
	dir   string
	buf   bytes.Buffer
	marks int
}

func newGitImport(prefix string) (*gitImport, error) {
	d := filepath.Join(gitcli.TempDir(prefix), "r.git")
	if err := gitcli.Init(d, true); err != nil {
		return nil, err
	}
	return &gitImport{dir: d}, nil
}

func (g *gitImport) newMark() int { g.marks++; return g.marks }

func (g *gitImport) blob(data string) int {
	m := g.newMark()
	fmt.Fprintf(&g.buf, "blob\nmark :%d\ndata %d\n%s\n", m, len(data), data)
	return m
}

// commit appends a commit with the given parents (marks) and file operations
// (fast-import filemodify lines, e.g. "M 100644 :3 f"); every commit starts from an
// empty tree ("deleteall") so the tree is exactly what fileops say.
func (g *gitImport) commit(c int, parents []int, t int, fileops []string) int {
	m := g.newMark()
	msg := fmt.Sprintf("c%d\n", c)
	ts := timeBase + t*timeStep
	fmt.Fprintf(&g.buf, "reset refs/heads/tmp\ncommit refs/heads/tmp\nmark :%d\n", m)
	fmt.Fprintf(&g.buf, "author A U Thor <author@example.com> %d +0000\ncommitter A U Thor <author@example.com> %d +0000\n", ts, ts)
	fmt.Fprintf(&g.buf, "data %d\n%s", len(msg), msg)
	for i, p := range parents {
		if i == 0 {
			fmt.Fprintf(&g.buf, "from :%d\n", p)
		} else {
			fmt.Fprintf(&g.buf, "merge :%d\n", p)
		}
	}
	g.buf.WriteString("deleteall\n")
	for _, op := range fileops {
		g.buf.WriteString(op)
		g.buf.WriteByte('\n')
	}
	g.buf.WriteByte('\n')
	return m
}

func (g *gitImport) tag(name string, target int, t int) int {
	m := g.newMark()
	msg := name + "\n"
	fmt.Fprintf(&g.buf, "tag %s\nmark :%d\nfrom :%d\ntagger A U Thor <author@example.com> %d +0000\ndata %d\n%s\n",
		name, m, target, timeBase+t*timeStep, len(msg), msg)
	return m
}

// run executes the stream and returns mark -> object id.
func (g *gitImport) run() (map[int]string, error) {
	marks := filepath.Join(g.dir, "marks.out")
	g.buf.WriteString("done\n")
	_, se, err := gitcli.Run(g.dir, g.buf.Bytes(), "-c", "gc.auto=0", "fast-import", "--quiet", "--done", "--force", "--export-marks="+marks)
	if err != nil {
		return nil, fmt.Errorf("git fast-import: %v: %s", err, se)
	}
	b, err := os.ReadFile(marks)
	if err != nil {
		return nil, err
	}
	out := map[int]string{}
	for _, ln := range strings.Split(string(b), "\n") {
		if ln == "" {
			continue
		}
		f := strings.Fields(ln)
		if len(f) != 2 || !strings.HasPrefix(f[0], ":") {
			return nil, fmt.Errorf("bad marks line %q", ln)
		}
		n, _ := strconv.Atoi(f[0][1:])
		out[n] = f[1]
	}
	return out, nil
}

// gitScript runs many git commands from one `sh` process (one process per git command,
// none for the bookkeeping) and returns stdout and exit code per query.
type gitScript struct {
	buf bytes.Buffer
	n   int
}

type gitAnswer struct {
	Out string
	RC  int
}

func shq(s string) string { return "'" + strings.ReplaceAll(s, "'", `'\''`) + "'" }

// add appends `pre; git args...`; pre is a shell fragment without external commands (may be "").
func (s *gitScript) add(pre string, args ...string) int {
	id := s.n
	s.n++
	fmt.Fprintf(&s.buf, "echo '#Q %d'\n", id)
	if pre != "" {
		s.buf.WriteString(pre + "\n")
	}
	s.buf.WriteString("git")
	for _, a := range args {
		s.buf.WriteString(" " + shq(a))
	}
	s.buf.WriteString(" 2>/dev/null\necho \"#RC $?\"\n")
	return id
}

func (s *gitScript) run(dir string) ([]gitAnswer, error) {
	if s.n == 0 {
		return nil, nil
	}
	c := exec.Command("sh", "-s")
	c.Dir = dir
	c.Env = append(gitcli.Env(), "GIT_DIR="+dir)
	c.Stdin = bytes.NewReader(s.buf.Bytes())
	var o, e bytes.Buffer
	c.Stdout, c.Stderr = &o, &e
	if err := c.Run(); err != nil {
		return nil, fmt.Errorf("git script: %v: %s", err, e.String())
	}
	res := make([]gitAnswer, s.n)
	cur := -1
	seen := 0
	var out strings.Builder
	for _, ln := range strings.Split(o.String(), "\n") {
		switch {
		case strings.HasPrefix(ln, "#Q "):
			cur, _ = strconv.Atoi(ln[3:])
			out.Reset()
		case strings.HasPrefix(ln, "#RC "):
			rc, _ := strconv.Atoi(ln[4:])
			if cur < 0 || cur >= s.n {
				return nil, fmt.Errorf("git script: stray result")
			}
			res[cur] = gitAnswer{Out: out.String(), RC: rc}
			seen++
			cur = -1
		default:
			if cur >= 0 && ln != "" {
				out.WriteString(ln)
				out.WriteByte('\n')
			}
		}
	}
	if seen != s.n {
		return nil, fmt.Errorf("git script: %d answers for %d queries: %s", seen, s.n, e.String())
	}
	return res, nil
}

// numsOfLines maps a list of object ids (one per line, possibly followed by a path) to commit numbers.
func numsOfLines(out string, num map[string]int) ([]int, error) {
	var r []int
	for _, ln := range strings.Split(out, "\n") {
		ln = strings.TrimSpace(ln)
		if ln == "" {
			continue
		}
		id := strings.Fields(ln)[0]
		n, ok := num[id]
		if !ok {
			return nil, fmt.Errorf("git printed unknown object %s", id)
		}
		r = append(r, n)
	}
	return r, nil
}
