// Command vhdag is the conformance harness of the history-shaped properties
// C42 (ancestry / merge-base queries), C37 (object selection for transfer) and
// C43 (history traversal).  The scenarios (commit graphs, committer times, trees,
// query sets) and the expected answers are enumerated and computed by TLC from
// spec/rules/{DagUniverse,DAGQueries,RevList,LogOrder}.tla; this program only
// renders them as real objects, calls go-git (and git) and projects the answers
// back to commit numbers / object symbols.
package main

import "verifharness/internal/rep"

func main() { rep.Main() }
