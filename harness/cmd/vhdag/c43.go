package main

import (
	"bufio"
	"bytes"
	"encoding/json"
	"flag"
	"fmt"
	"math/rand"
	"os"
	"sort"
	"strings"
	"time"

	"verifharness/internal/gitcli"
	"verifharness/internal/rep"

	git "github.com/go-git/go-git/v6"
	"github.com/go-git/go-git/v6/plumbing"
	cgfmt "github.com/go-git/go-git/v6/plumbing/format/commitgraph"
	"github.com/go-git/go-git/v6/plumbing/object"
	cgobj "github.com/go-git/go-git/v6/plumbing/object/commitgraph"
	"github.com/go-git/go-git/v6/plumbing/storer"
	"github.com/go-git/go-git/v6/storage"
	"github.com/go-git/go-git/v6/storage/memory"
)

// C43: for every scenario of spec/rules/LogOrder.tla (graph with ordered parents x
// committer times) the harness RECORDS what the traversals yield - Repository.Log for
// every order / limit / --all ref set, the commit-graph node walkers on object-backed
// and commit-graph-backed indexes, and (seeded sample) git rev-list on the same commits,
// plus go-git on the repository git wrote.  It judges nothing: LogOrder.tla (Mode =
// "check") evaluates Expected / NoDup / the order contract on every record.

type logRec struct {
	Kind    string  `json:"kind"`    // log | node | git
	Order   string  `json:"order"`   // default dfs dfspost bfs ctime fpp topo date author
	Backend string  `json:"backend"` // memory filesystem object graph1 graph2 graphfile git
	Pseq    [][]int `json:"pseq"`
	Tm      []int   `json:"tm"`
	From    int     `json:"from"`
	All     bool    `json:"all"`
	Refs    []int   `json:"refs"`
	Since   int     `json:"since"`
	Until   int     `json:"until"`
	To      int     `json:"to"`
	Out     []int   `json:"out"`
	Err     string  `json:"err"`
	Tcls    string  `json:"tcls"` // signature key only
}

var logOrders = map[string]git.LogOrder{
	"default": git.LogOrderDefault, "dfs": git.LogOrderDFS, "dfspost": git.LogOrderDFSPost,
	"bfs": git.LogOrderBSF, "ctime": git.LogOrderCommitterTime, "fpp": git.LogOrderDFSPostFirstParent,
}

type recWriter struct {
	w       *bufio.Writer
	n       int
	rep     *rep.Report
	sampled map[string]int
}

func (rw *recWriter) put(r *logRec) {
	if r.Refs == nil {
		r.Refs = []int{}
	}
	if r.Out == nil {
		r.Out = []int{}
	}
	b, err := json.Marshal(r)
	if err != nil {
		panic(err)
	}
	rw.w.Write(b)
	rw.w.WriteByte('\n')
	rw.n++
	if rw.rep != nil && len(r.Pseq) >= 4 && len(r.Out) >= 3 && rw.sampled[r.Kind+r.Order] == 0 && len(rw.sampled) < 5 {
		rw.sampled[r.Kind+r.Order]++
		rw.rep.Sample(map[string]any{"record": r, "judged_by": "LogOrder.tla Fails(rec)"})
	}
}

func init() { rep.Register("c43", c43) }

func maxInt(a []int) int {
	m := 0
	for _, x := range a {
		if x > m {
			m = x
		}
	}
	return m
}

func runLog(repo *git.Repository, num map[plumbing.Hash]int, o *git.LogOptions) ([]int, string) {
	it, err := repo.Log(o)
	if err != nil {
		return nil, "Log: " + err.Error()
	}
	var out []int
	err = it.ForEach(func(c *object.Commit) error {
		out = append(out, num[c.Hash])
		if len(out) > 64 {
			return fmt.Errorf("runaway iterator")
		}
		return nil
	})
	if err != nil {
		return out, "ForEach: " + err.Error()
	}
	return out, ""
}

type closableReader struct{ *bytes.Reader }

func (closableReader) Close() error { return nil }

func c43(args []string) error {
	fs := flag.NewFlagSet("c43", flag.ContinueOnError)
	tsample := fs.Int("tsample", 0, "time assignments per graph (0 = all)")
	gitq := fs.Int("git", 400, "git rev-list processes (seeded sample)")
	minn := fs.Int("minn", 0, "only graphs with at least this many commits")
	if err := fs.Parse(args); err != nil {
		return err
	}
	if fs.NArg() < 3 {
		return fmt.Errorf("usage: c43 [-tsample K] [-git Q] scen.ndjson times_dir_prefix records_out.ndjson")
	}
	var dags [][][]int
	if err := rep.ReadNDJSON(fs.Arg(0), func(b []byte) error {
		var s struct {
			Pseq [][]int `json:"pseq"`
		}
		if err := json.Unmarshal(b, &s); err != nil {
			return err
		}
		for i := range s.Pseq {
			if s.Pseq[i] == nil {
				s.Pseq[i] = []int{}
			}
		}
		if len(s.Pseq) >= *minn {
			dags = append(dags, s.Pseq)
		}
		return nil
	}); err != nil {
		return err
	}
	sort.Slice(dags, func(i, j int) bool {
		if len(dags[i]) != len(dags[j]) {
			return len(dags[i]) < len(dags[j])
		}
		return fmt.Sprint(dags[i]) < fmt.Sprint(dags[j])
	})
	timesByN := map[int][][]int{}
	loadTimes := func(n int) ([][]int, error) {
		if t, ok := timesByN[n]; ok {
			return t, nil
		}
		var ts [][]int
		err := rep.ReadNDJSON(fmt.Sprintf("%s%d.ndjson", fs.Arg(1), n), func(b []byte) error {
			var t struct {
				Tm []int `json:"tm"`
			}
			if err := json.Unmarshal(b, &t); err != nil {
				return err
			}
			ts = append(ts, t.Tm)
			return nil
		})
		sort.Slice(ts, func(i, j int) bool { return intsKey(ts[i]) < intsKey(ts[j]) })
		timesByN[n] = ts
		return ts, err
	}
	of, err := os.Create(fs.Arg(2))
	if err != nil {
		return err
	}
	defer of.Close()
	r := rep.New()
	rw := &recWriter{w: bufio.NewWriterSize(of, 1<<20), rep: r, sampled: map[string]int{}}
	seed := rep.Seed()
	type gitScen struct {
		pseq [][]int
		tm   []int
	}
	var gitCands []gitScen
	scen := 0
	for di, pseq := range dags {
		n := len(pseq)
		times, err := loadTimes(n)
		if err != nil {
			return err
		}
		rnd := rand.New(rand.NewSource(seed*1000003 + int64(di)))
		sel := rnd.Perm(len(times))
		if *tsample > 0 && *tsample < len(sel) {
			sel = sel[:*tsample]
		}
		sort.Ints(sel)
		for ti, tix := range sel {
			tm := times[tix]
			scen++
			c43scenario(rw, pseq, tm, ti < 2, r)
			if rnd.Intn(4) == 0 {
				gitCands = append(gitCands, gitScen{pseq, tm})
			}
		}
	}
	r.Distinct = scen
	// ------------------------------------------------------------------ git leg
	gitOK := gitcli.Available()
	r.Extra["git_leg"] = gitOK
	if gitOK && *gitq > 0 && len(gitCands) > 0 {
		rnd := rand.New(rand.NewSource(seed))
		rnd.Shuffle(len(gitCands), func(i, j int) { gitCands[i], gitCands[j] = gitCands[j], gitCands[i] })
		const perScen = 8
		if len(gitCands) > *gitq/perScen {
			gitCands = gitCands[:max(1, *gitq/perScen)]
		}
		gi, err := newGitImport("c43git")
		if err != nil {
			return err
		}
		marks := make([][]int, len(gitCands))
		for i, g := range gitCands {
			ms := make([]int, len(g.pseq)+1)
			for c := 1; c <= len(g.pseq); c++ {
				var ps []int
				for _, p := range g.pseq[c-1] {
					ps = append(ps, ms[p])
				}
				ms[c] = gi.commit(c, ps, g.tm[c-1], nil)
			}
			marks[i] = ms
		}
		ids, err := gi.run()
		if err != nil {
			return err
		}
		var sc gitScript
		var pend []*logRec
		var pnum []map[string]int
		var plain []int // index of the scenario's plain walk in pend
		fsRepo, err := git.PlainOpen(gi.dir)
		if err != nil {
			return err
		}
		for i, g := range gitCands {
			n := len(g.pseq)
			id := func(c int) string { return ids[marks[i][c]] }
			num := map[string]int{}
			hnum := map[plumbing.Hash]int{}
			for c := 1; c <= n; c++ {
				num[id(c)] = c
				hnum[plumbing.NewHash(id(c))] = c
			}
			tcls := timeClass(parSetOf(g.pseq), g.tm)
			first := 0
			add := func(order string, since, until, to int, refs []int, args ...string) {
				full := append([]string{"rev-list"}, args...)
				sc.add("", full...)
				pend = append(pend, &logRec{Kind: "git", Order: order, Backend: "git", Pseq: g.pseq, Tm: g.tm, From: n,
					All: len(refs) > 0, Refs: refs, Since: since, Until: until, To: to, Tcls: tcls})
				pnum = append(pnum, num)
				plain = append(plain, first)
			}
			first = len(pend)
			add("ctime", 0, 0, 0, nil, id(n))
			add("topo", 0, 0, 0, nil, "--topo-order", id(n))
			add("date", 0, 0, 0, nil, "--date-order", id(n))
			add("fpp", 0, 0, 0, nil, "--first-parent", id(n))
			mt := maxInt(g.tm)
			s := 1 + rnd.Intn(mt)
			u := 1 + rnd.Intn(mt)
			add("ctime", s, 0, 0, nil, fmt.Sprintf("--max-age=%d", timeBase+s*timeStep), id(n))
			add("ctime", 0, u, 0, nil, fmt.Sprintf("--min-age=%d", timeBase+u*timeStep), id(n))
			if n > 1 {
				t := 1 + rnd.Intn(n-1)
				// t..from plus the tail itself: rev-list prints the tail as a boundary commit ("-<id>") only when it
				// is a parent of a listed commit, so ask for the range and add the tail on the spec's terms below
				add("ctime", 0, 0, -t, nil, id(n), "^"+id(t))
				ref := 1 + rnd.Intn(n-1)
				add("ctime", 0, 0, 0, []int{ref}, id(n), id(ref))
			}
			// go-git on the repository git has written (packfile read path), every Log order
			for _, o := range []string{"default", "dfs", "dfspost", "bfs", "ctime", "fpp"} {
				out, e := runLog(fsRepo, hnum, &git.LogOptions{From: plumbing.NewHash(id(n)), Order: logOrders[o]})
				rw.put(&logRec{Kind: "log", Order: o, Backend: "filesystem", Pseq: g.pseq, Tm: g.tm, From: n, Out: out, Err: e, Tcls: tcls})
				r.Eval(1)
			}
		}
		ans, err := sc.run(gi.dir)
		if err != nil {
			return err
		}
		for i, p := range pend {
			if ans[i].RC != 0 {
				return fmt.Errorf("git rev-list failed (rc=%d) for %+v", ans[i].RC, p)
			}
			out, err := numsOfLines(ans[i].Out, pnum[i])
			if err != nil {
				return err
			}
			if p.To < 0 { // range query: the record stands for (t..from) plus the tail itself when git reaches it from the start
				p.To = -p.To
				reached, err := numsOfLines(ans[plain[i]].Out, pnum[i])
				if err != nil {
					return err
				}
				for _, c := range reached {
					if c == p.To {
						out = append(out, p.To)
					}
				}
			}
			p.Out = out
			rw.put(p)
		}
		r.Extra["git_checked"] = len(pend)
		_ = os.RemoveAll(gi.dir)
	}
	if err := rw.w.Flush(); err != nil {
		return err
	}
	r.Traces = rw.n
	r.Extra["records"] = rw.n
	r.Extra["graphs"] = len(dags)
	return r.Emit()
}

func parSetOf(pseq [][]int) [][]int { return pseq }

// c43scenario records every traversal of one (graph, times) scenario.  full = also the
// time-insensitive orders (done for two time assignments per graph only).
func c43scenario(rw *recWriter, pseq [][]int, tm []int, full bool, r *rep.Report) {
	n := len(pseq)
	st := memory.NewStorage()
	hs := buildDag(st, nil, pseq, tm, nil, nil)
	num := numOf(hs)
	repo, err := git.Init(st)
	if err != nil {
		panic(err)
	}
	if err := st.SetReference(plumbing.NewHashReference(branchRef, hs[n])); err != nil {
		panic(err)
	}
	tcls := timeClass(pseq, tm)
	base := logRec{Kind: "log", Backend: "memory", Pseq: pseq, Tm: tm, From: n, Tcls: tcls}
	mt := maxInt(tm)
	emit := func(order string, mod func(*logRec, *git.LogOptions)) {
		rec := base
		rec.Order = order
		o := &git.LogOptions{From: hs[n], Order: logOrders[order]}
		if mod != nil {
			mod(&rec, o)
		}
		rec.Out, rec.Err = runLog(repo, num, o)
		rw.put(&rec)
		r.Eval(1)
	}
	at := func(t int) *time.Time { x := when(t); return &x }
	// unlimited walks
	emit("ctime", nil)
	if full {
		for _, o := range []string{"default", "dfs", "dfspost", "bfs", "fpp"} {
			emit(o, nil)
		}
		// From left empty = HEAD
		emit("dfs", func(rec *logRec, o *git.LogOptions) { o.From = plumbing.ZeroHash })
	}
	// time limits (committer-time order always; the other orders for the first assignments)
	limOrders := []string{"ctime"}
	if full {
		limOrders = []string{"ctime", "dfs", "bfs"}
	}
	for _, ord := range limOrders {
		for s := 2; s <= mt; s++ {
			s := s
			emit(ord, func(rec *logRec, o *git.LogOptions) { rec.Since = s; o.Since = at(s) })
		}
		for u := 1; u < mt; u++ {
			u := u
			emit(ord, func(rec *logRec, o *git.LogOptions) { rec.Until = u; o.Until = at(u) })
		}
		if mt >= 3 {
			emit(ord, func(rec *logRec, o *git.LogOptions) {
				rec.Since, rec.Until = 2, mt-1
				o.Since, o.Until = at(2), at(mt-1)
			})
		}
	}
	// tail limit
	if full {
		for _, ord := range []string{"ctime", "dfs"} {
			for t := 1; t < n; t++ {
				t := t
				emit(ord, func(rec *logRec, o *git.LogOptions) { rec.To = t; o.To = hs[t] })
			}
		}
	}
	// --all with every set of extra branch refs (HEAD -> master -> n)
	allOrders := []string{"ctime"}
	if full {
		allOrders = []string{"ctime", "default", "bfs"}
	}
	for mask := 0; mask < 1<<(n-1); mask++ {
		var refs []int
		for c := 1; c < n; c++ {
			if mask&(1<<(c-1)) != 0 {
				refs = append(refs, c)
				_ = st.SetReference(plumbing.NewHashReference(plumbing.ReferenceName(fmt.Sprintf("refs/heads/b%d", c)), hs[c]))
			}
		}
		for _, ord := range allOrders {
			emit(ord, func(rec *logRec, o *git.LogOptions) {
				rec.All = true
				rec.Refs = refs
				o.All = true
				o.From = plumbing.ZeroHash
			})
		}
		for _, c := range refs {
			_ = st.RemoveReference(plumbing.ReferenceName(fmt.Sprintf("refs/heads/b%d", c)))
		}
	}
	// commit-graph node walkers: object-backed and commit-graph-backed indexes
	c43nodes(rw, st, hs, num, pseq, tm, tcls, r)
}

var _ storage.Storer = (*memory.Storage)(nil)

func c43nodes(rw *recWriter, st storer.EncodedObjectStorer, hs []plumbing.Hash, num map[plumbing.Hash]int, pseq [][]int, tm []int, tcls string, r *rep.Report) {
	n := len(pseq)
	// a well-formed commit-graph for these commits: generation number (topological level) and
	// corrected commit date as git's writer computes them
	gen := make([]uint64, n+1)
	cdate := make([]uint64, n+1)
	mk := func(v2 bool) *cgfmt.MemoryIndex {
		mi := cgfmt.NewMemoryIndex()
		for c := 1; c <= n; c++ {
			gen[c] = 1
			cdate[c] = uint64(when(tm[c-1]).Unix())
			var ph []plumbing.Hash
			for _, p := range pseq[c-1] {
				ph = append(ph, hs[p])
				if gen[p]+1 > gen[c] {
					gen[c] = gen[p] + 1
				}
				if cdate[p]+1 > cdate[c] {
					cdate[c] = cdate[p] + 1
				}
			}
			cd := &cgfmt.CommitData{TreeHash: emptyTreeHash, ParentHashes: ph, Generation: gen[c], When: when(tm[c-1])}
			if v2 {
				cd.GenerationV2 = cdate[c]
			}
			mi.Add(hs[c], cd)
		}
		return mi
	}
	type backend struct {
		name string
		idx  cgobj.CommitNodeIndex
	}
	bes := []backend{{"object", cgobj.NewObjectCommitNodeIndex(st)},
		{"graph1", cgobj.NewGraphCommitNodeIndex(mk(false), st)},
		{"graph2", cgobj.NewGraphCommitNodeIndex(mk(true), st)}}
	var buf bytes.Buffer
	if err := cgfmt.NewEncoder(&buf).Encode(mk(true)); err == nil {
		if fi, err := cgfmt.OpenFileIndex(closableReader{bytes.NewReader(buf.Bytes())}); err == nil {
			bes = append(bes, backend{"graphfile", cgobj.NewGraphCommitNodeIndex(fi, st)})
		} else {
			rw.put(&logRec{Kind: "node", Order: "ctime", Backend: "graphfile", Pseq: pseq, Tm: tm, From: n, Err: "OpenFileIndex: " + err.Error(), Tcls: tcls})
		}
	} else {
		rw.put(&logRec{Kind: "node", Order: "ctime", Backend: "graphfile", Pseq: pseq, Tm: tm, From: n, Err: "Encode: " + err.Error(), Tcls: tcls})
	}
	walkers := []struct {
		name string
		mk   func(cgobj.CommitNode) cgobj.CommitNodeIter
	}{
		{"ctime", func(c cgobj.CommitNode) cgobj.CommitNodeIter { return cgobj.NewCommitNodeIterCTime(c, nil, nil) }},
		{"topo", func(c cgobj.CommitNode) cgobj.CommitNodeIter { return cgobj.NewCommitNodeIterTopoOrder(c, nil, nil) }},
		{"date", func(c cgobj.CommitNode) cgobj.CommitNodeIter { return cgobj.NewCommitNodeIterDateOrder(c, nil, nil) }},
		{"author", func(c cgobj.CommitNode) cgobj.CommitNodeIter {
			return cgobj.NewCommitNodeIterAuthorDateOrder(c, nil, nil)
		}},
	}
	for _, be := range bes {
		for _, w := range walkers {
			rec := logRec{Kind: "node", Order: w.name, Backend: be.name, Pseq: pseq, Tm: tm, From: n, Tcls: tcls}
			node, err := be.idx.Get(hs[n])
			if err != nil {
				rec.Err = "Get: " + err.Error()
				rw.put(&rec)
				continue
			}
			it := w.mk(node)
			err = it.ForEach(func(c cgobj.CommitNode) error {
				rec.Out = append(rec.Out, num[c.ID()])
				if len(rec.Out) > 64 {
					return fmt.Errorf("runaway iterator")
				}
				return nil
			})
			if err != nil {
				rec.Err = "ForEach: " + err.Error()
			}
			rw.put(&rec)
			r.Eval(1)
		}
	}
}

var _ = strings.Join
