package main

import (
	"encoding/json"
	"flag"
	"fmt"
	"math/rand"
	"os"
	"runtime"
	"sort"
	"strings"
	"sync"

	"verifharness/internal/gitcli"
	"verifharness/internal/rep"

	"github.com/go-git/go-billy/v6/osfs"
	"github.com/go-git/go-git/v6/plumbing"
	"github.com/go-git/go-git/v6/plumbing/cache"
	"github.com/go-git/go-git/v6/plumbing/filemode"
	"github.com/go-git/go-git/v6/plumbing/object"
	"github.com/go-git/go-git/v6/plumbing/revlist"
	"github.com/go-git/go-git/v6/plumbing/storer"
	"github.com/go-git/go-git/v6/storage/filesystem"
	"github.com/go-git/go-git/v6/storage/memory"
)

// C37: scenarios of spec/rules/RevList.tla (graph, committer times, a root tree per
// commit, two tags, wants, haves; Need and ReachW computed by TLC) are built as real
// objects in memory storage; revlist.Objects(wants, haves) must satisfy
//      Need  subset of  Result  subset of  ReachW.
// A seeded sample of the scenarios is written as loose objects into one bare repository
// (go-git filesystem storage) where `git rev-list --objects <wants> --not <haves>` must
// satisfy the same contract (otherwise SpecError) and go-git is asked once more on that
// filesystem storage.

type rlQuery struct {
	Wants []string `json:"wants"`
	Haves []string `json:"haves"`
	Need  []string `json:"need"`
	Reach []string `json:"reach"`
}

type rlRow struct {
	N    int      `json:"n"`
	Par  [][]int  `json:"par"`
	Tm   []int    `json:"tm"`
	Tree []string `json:"tree"`
	Tag1 string   `json:"tag1"`
	Tag2 string   `json:"tag2"`
	rlQuery
	Q []rlQuery `json:"q"`
}

var rlRoots = map[string][3]string{ // root -> blob of f, subtree of d ("" none), gitlink?
	"rAA": {"bA", "sA", ""}, "rBA": {"bB", "sA", ""}, "rAB": {"bA", "sB", ""}, "rBB": {"bB", "sB", ""},
	"rAAm": {"bA", "sA", "m"}, "rB": {"bB", "", ""},
}

var (
	rlMissing = plumbing.NewHash("00000000000000000000000000000000000000ff") // "zz": never stored
	rlGitlink = plumbing.NewHash("1111111111111111111111111111111111111111") // "xx": submodule commit, never stored
)

func symKind(s string) string {
	switch {
	case s == "zz":
		return "missing"
	case s == "xx":
		return "submodule-commit"
	case strings.HasPrefix(s, "c"):
		return "commit"
	case strings.HasPrefix(s, "r"), strings.HasPrefix(s, "s"):
		return "tree"
	case strings.HasPrefix(s, "b"):
		return "blob"
	case strings.HasPrefix(s, "t"):
		return "tag"
	}
	return "unknown"
}

func kindsOf(ss []string) string {
	m := map[string]bool{}
	for _, s := range ss {
		m[symKind(s)] = true
	}
	if len(m) == 0 {
		return "none"
	}
	var l []string
	for k := range m {
		l = append(l, k)
	}
	sort.Strings(l)
	return strings.Join(l, "+")
}

// coarse classifies a want/have list for signatures (finite: none|commits|with-tag|objects|with-missing).
func coarse(ss []string) string {
	if len(ss) == 0 {
		return "none"
	}
	k := kindsOf(ss)
	switch {
	case strings.Contains(k, "missing"):
		return "with-missing"
	case strings.Contains(k, "tag"):
		return "with-tag"
	case k == "commit":
		return "commits"
	}
	return "objects"
}

// rlBuild stores the whole scenario and returns symbol -> hash.
func rlBuild(st storer.EncodedObjectStorer, row *rlRow, pseq [][]int, tm []int) map[string]plumbing.Hash {
	h := map[string]plumbing.Hash{"zz": rlMissing}
	h["bA"] = putBlob(st, "A\n")
	h["bB"] = putBlob(st, "B\n")
	h["bC"] = putBlob(st, "C\n")
	// two-entry subtrees: g differs, h is the same blob in both (see SubBlobs in RevList.tla)
	h["sA"] = putTree(st, []object.TreeEntry{{Name: "g", Mode: filemode.Regular, Hash: h["bA"]}, {Name: "h", Mode: filemode.Regular, Hash: h["bC"]}})
	h["sB"] = putTree(st, []object.TreeEntry{{Name: "g", Mode: filemode.Regular, Hash: h["bB"]}, {Name: "h", Mode: filemode.Regular, Hash: h["bC"]}})
	for name, d := range rlRoots {
		es := []object.TreeEntry{{Name: "f", Mode: filemode.Regular, Hash: h[d[0]]}}
		if d[1] != "" {
			es = append(es, object.TreeEntry{Name: "d", Mode: filemode.Dir, Hash: h[d[1]]})
		}
		if d[2] != "" {
			es = append(es, object.TreeEntry{Name: "m", Mode: filemode.Submodule, Hash: rlGitlink})
		}
		h[name] = putTree(st, es)
	}
	hs := buildDag(st, nil, pseq, tm, func(c int) plumbing.Hash { return h[row.Tree[c-1]] }, nil)
	for c := 1; c < len(hs); c++ {
		h[fmt.Sprintf("c%d", c)] = hs[c]
	}
	typ := func(s string) plumbing.ObjectType {
		switch symKind(s) {
		case "commit":
			return plumbing.CommitObject
		case "tree":
			return plumbing.TreeObject
		case "blob":
			return plumbing.BlobObject
		}
		return plumbing.TagObject
	}
	h["t1"] = putTag(st, "t1", h[row.Tag1], typ(row.Tag1), 1)
	h["t2"] = putTag(st, "t2", h[row.Tag2], typ(row.Tag2), 1)
	return h
}

type rlJob struct {
	row  *rlRow
	q    *rlQuery
	pseq [][]int
	tm   []int
}

type rlRes struct {
	evals, scen int
	divs        []c42div
	samples     []any
	jobs        []rlJob
}

func init() { rep.Register("c37", c37) }

// rlJudge compares one result with the contract; returns class ("" = ok), missing, extra.
func rlJudge(res []plumbing.Hash, sym map[plumbing.Hash]string, q *rlQuery) (string, []string, []string, bool) {
	got := map[string]int{}
	for _, h := range res {
		s, ok := sym[h]
		if !ok {
			if h == rlGitlink {
				s = "xx"
			} else {
				s = "?" + h.String()[:7]
			}
		}
		got[s]++
	}
	var missing, extra []string
	dup := false
	for _, n := range q.Need {
		if got[n] == 0 {
			missing = append(missing, n)
		}
	}
	reach := map[string]bool{}
	for _, x := range q.Reach {
		reach[x] = true
	}
	for s, k := range got {
		if !reach[s] {
			extra = append(extra, s)
		}
		if k > 1 {
			dup = true
		}
	}
	sort.Strings(missing)
	sort.Strings(extra)
	cls := ""
	switch {
	case len(missing) > 0 && len(extra) > 0:
		cls = "missing-needed+outside-wants"
	case len(missing) > 0:
		cls = "missing-needed"
	case len(extra) > 0:
		cls = "outside-wants"
	}
	return cls, missing, extra, dup
}

func c37(args []string) error {
	fs := flag.NewFlagSet("c37", flag.ContinueOnError)
	tsample := fs.Int("tsample", 0, "time assignments per grid row (0 = all)")
	gitq := fs.Int("git", 400, "git questions (seeded sample)")
	timesFile := fs.String("times", "", "time table for rows without tm")
	if err := fs.Parse(args); err != nil {
		return err
	}
	if fs.NArg() < 1 {
		return fmt.Errorf("usage: c37 [-times times.ndjson] [-tsample K] [-git Q] rows.ndjson...")
	}
	var rows []*rlRow
	for _, f := range fs.Args() {
		if err := rep.ReadNDJSON(f, func(b []byte) error {
			r := &rlRow{}
			if err := json.Unmarshal(b, r); err != nil {
				return err
			}
			rows = append(rows, r)
			return nil
		}); err != nil {
			return err
		}
	}
	var times [][]int
	if *timesFile != "" {
		if err := rep.ReadNDJSON(*timesFile, func(b []byte) error {
			var t struct {
				Tm []int `json:"tm"`
			}
			if err := json.Unmarshal(b, &t); err != nil {
				return err
			}
			times = append(times, t.Tm)
			return nil
		}); err != nil {
			return err
		}
		sort.Slice(times, func(i, j int) bool { return intsKey(times[i]) < intsKey(times[j]) })
	}
	if len(rows) == 0 {
		return fmt.Errorf("no rows")
	}
	key := func(r *rlRow) string {
		return fmt.Sprint(r.Par, r.Tm, r.Tree, r.Tag1, r.Tag2, r.Wants, r.Haves)
	}
	sort.SliceStable(rows, func(i, j int) bool { return key(rows[i]) < key(rows[j]) })

	seed := rep.Seed()
	res := make([]rlRes, len(rows))
	var wg sync.WaitGroup
	sem := make(chan struct{}, max(2, runtime.NumCPU()))
	for i := range rows {
		wg.Add(1)
		sem <- struct{}{}
		go func(i int) {
			defer wg.Done()
			defer func() { <-sem }()
			rnd := rand.New(rand.NewSource(seed*1000003 + int64(i)))
			c37row(i, rows[i], times, *tsample, rnd, &res[i])
		}(i)
	}
	wg.Wait()
	r := rep.New()
	var jobs []rlJob
	dups := 0
	for i := range res {
		r.Eval(res[i].evals)
		r.Distinct += res[i].scen
		for _, d := range res[i].divs {
			if d.sig == "dup" {
				dups++
				continue
			}
			r.Diverge(d.sig, d.what, d.c)
		}
		for _, s := range res[i].samples {
			r.Sample(s)
		}
		jobs = append(jobs, res[i].jobs...)
	}
	r.Traces = r.Evaluations
	r.Extra["results_with_duplicate_ids"] = dups
	gitOK := gitcli.Available()
	r.Extra["git_leg"] = gitOK
	if gitOK && *gitq > 0 && len(jobs) > 0 {
		rnd := rand.New(rand.NewSource(seed))
		rnd.Shuffle(len(jobs), func(i, j int) { jobs[i], jobs[j] = jobs[j], jobs[i] })
		if len(jobs) > *gitq {
			jobs = jobs[:*gitq]
		}
		n, err := c37git(r, jobs)
		if err != nil {
			return err
		}
		r.Extra["git_checked"] = n
	}
	r.Extra["rows"] = len(rows)
	return r.Emit()
}

func c37row(idx int, row *rlRow, times [][]int, tsample int, rnd *rand.Rand, out *rlRes) {
	qs := row.Q
	if len(qs) == 0 {
		qs = []rlQuery{row.rlQuery}
	}
	var tms [][]int
	if len(row.Tm) > 0 {
		tms = [][]int{row.Tm}
	} else {
		if len(times) == 0 {
			panic("row without tm and no -times table")
		}
		sel := rnd.Perm(len(times))
		if tsample > 0 && tsample < len(sel) {
			sel = sel[:tsample]
		}
		sort.Ints(sel)
		for _, i := range sel {
			tms = append(tms, times[i])
		}
	}
	for ti, tm := range tms {
		ord := (idx + ti) % 2
		pseq := orderPar(row.Par, ord)
		st := memory.NewStorage()
		h := rlBuild(st, row, pseq, tm)
		sym := make(map[plumbing.Hash]string, len(h))
		for s, x := range h {
			sym[x] = s
		}
		out.scen++
		tcls := timeClass(row.Par, tm)
		for qi := range qs {
			q := &qs[qi]
			var w, hv []plumbing.Hash
			// argument order is a rendering choice: seeded shuffle
			ws := append([]string(nil), q.Wants...)
			hs := append([]string(nil), q.Haves...)
			rnd.Shuffle(len(ws), func(i, j int) { ws[i], ws[j] = ws[j], ws[i] })
			rnd.Shuffle(len(hs), func(i, j int) { hs[i], hs[j] = hs[j], hs[i] })
			for _, s := range ws {
				w = append(w, h[s])
			}
			for _, s := range hs {
				hv = append(hv, h[s])
			}
			out.evals++
			got, err := revlist.Objects(st, w, hv)
			cse := map[string]any{"par": pseq, "tm": tm, "tree": row.Tree, "tag1": row.Tag1, "tag2": row.Tag2, "wants": ws, "haves": hs,
				"need": q.Need, "reach": q.Reach}
			ctx := "wants=" + coarse(q.Wants) + "|haves=" + coarse(q.Haves)
			cse["time_class"] = tcls
			if err != nil {
				out.divs = append(out.divs, c42div{"Objects|error|" + ctx, fmt.Sprintf("revlist.Objects(%v, %v) failed: %v", ws, hs, err), cse})
				continue
			}
			cls, missing, extra, dup := rlJudge(got, sym, q)
			if dup {
				out.divs = append(out.divs, c42div{sig: "dup"})
			}
			if cls != "" {
				cse["missing"], cse["extra"] = missing, extra
				objk := kindsOf(append(append([]string(nil), missing...), extra...))
				out.divs = append(out.divs, c42div{"Objects|" + cls + "|obj=" + objk + "|" + ctx,
					fmt.Sprintf("revlist.Objects(wants=%v, haves=%v): needed but not selected %v, selected but not reachable from wants %v", ws, hs, missing, extra), cse})
			}
			if len(out.samples) < 1 && qi == len(qs)/2 {
				out.samples = append(out.samples, map[string]any{"scenario": cse, "result_size": len(got)})
			}
			if rnd.Intn(len(qs)*len(tms)) < 3 {
				out.jobs = append(out.jobs, rlJob{row, q, pseq, tm})
			}
		}
	}
}

func c37git(r *rep.Report, jobs []rlJob) (int, error) {
	dir := gitcli.TempDir("c37git") + "/r.git"
	if err := gitcli.Init(dir, true); err != nil {
		return 0, err
	}
	fst := filesystem.NewStorage(osfs.New(dir), cache.NewObjectLRUDefault())
	var sc gitScript
	type pend struct {
		j   rlJob
		sym map[string]string
		h   map[string]plumbing.Hash
	}
	var ps []pend
	for _, j := range jobs {
		h := rlBuild(fst, j.row, j.pseq, j.tm)
		sym := map[string]string{}
		for s, x := range h {
			sym[x.String()] = s
		}
		args := []string{"rev-list", "--objects"}
		for _, w := range j.q.Wants {
			args = append(args, h[w].String())
		}
		nh := 0
		for _, x := range j.q.Haves {
			if x == "zz" {
				continue // git cannot be asked about an absent object (fatal: bad object)
			}
			if nh == 0 {
				args = append(args, "--not")
			}
			nh++
			args = append(args, h[x].String())
		}
		sc.add("", args...)
		ps = append(ps, pend{j, sym, h})
	}
	ans, err := sc.run(dir)
	if err != nil {
		return 0, err
	}
	for i, p := range ps {
		cse := map[string]any{"par": p.j.pseq, "tm": p.j.tm, "tree": p.j.row.Tree, "tag1": p.j.row.Tag1, "tag2": p.j.row.Tag2,
			"wants": p.j.q.Wants, "haves": p.j.q.Haves, "need": p.j.q.Need, "reach": p.j.q.Reach}
		if ans[i].RC != 0 {
			return 0, fmt.Errorf("git rev-list failed rc=%d on %v", ans[i].RC, cse)
		}
		var res []plumbing.Hash
		for _, ln := range strings.Split(ans[i].Out, "\n") {
			if f := strings.Fields(ln); len(f) > 0 {
				res = append(res, plumbing.NewHash(f[0]))
			}
		}
		symh := map[plumbing.Hash]string{}
		for s, x := range p.h {
			symh[x] = s
		}
		if cls, missing, extra, _ := rlJudge(res, symh, p.j.q); cls != "" {
			cse["git_missing"], cse["git_extra"] = missing, extra
			r.SpecError(cse)
		}
		// go-git once more, on the filesystem storage git has just read
		var w, hv []plumbing.Hash
		for _, s := range p.j.q.Wants {
			w = append(w, p.h[s])
		}
		for _, s := range p.j.q.Haves {
			hv = append(hv, p.h[s])
		}
		r.Eval(1)
		got, err := revlist.Objects(fst, w, hv)
		ctx := "wants=" + coarse(p.j.q.Wants) + "|haves=" + coarse(p.j.q.Haves) + "|storage=filesystem"
		if err != nil {
			r.Diverge("Objects|error|"+ctx, fmt.Sprintf("revlist.Objects on filesystem storage failed: %v", err), cse)
			continue
		}
		if cls, missing, extra, _ := rlJudge(got, symh, p.j.q); cls != "" {
			cse["missing"], cse["extra"] = missing, extra
			objk := kindsOf(append(append([]string(nil), missing...), extra...))
			r.Diverge("Objects|"+cls+"|obj="+objk+"|"+ctx, fmt.Sprintf("revlist.Objects on filesystem storage: needed but not selected %v, outside wants %v", missing, extra), cse)
		}
	}
	_ = os.RemoveAll(dir)
	return len(ps), nil
}
