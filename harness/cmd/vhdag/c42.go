package main

import (
	"encoding/json"
	"errors"
	"flag"
	"fmt"
	"math/rand"
	"os"
	"runtime"
	"sort"
	"strings"
	"sync"

	"verifharness/internal/gitcli"
	"verifharness/internal/rep"

	git "github.com/go-git/go-git/v6"
	"github.com/go-git/go-git/v6/plumbing"
	"github.com/go-git/go-git/v6/plumbing/object"
	"github.com/go-git/go-git/v6/storage/memory"
)

// C42: rows of spec/rules/DAGQueries.tla (one per commit graph, all answers computed by
// TLC) x committer-time assignments (dagq_times.ndjson) x parent-order renderings are
// built as real commits in memory storage; Commit.IsAncestor, Commit.MergeBase,
// object.Independents and the fast-forward test (through Repository.Merge with the
// FastForwardMerge strategy, shallow list set on the storer) are compared with the row.
// A seeded sample of the same scenarios is asked of git (merge-base --is-ancestor /
// --all / --independent, the shallow variants with .git/shallow written accordingly).

type dagqRow struct {
	N   int     `json:"n"`
	Par [][]int `json:"par"`
	Anc [][]int `json:"anc"`
	Mb  []struct {
		A int   `json:"a"`
		B int   `json:"b"`
		R []int `json:"r"`
	} `json:"mb"`
	Ind []struct {
		S []int `json:"s"`
		R []int `json:"r"`
	} `json:"ind"`
	Ff []struct {
		Sh      []int   `json:"sh"`
		Present []int   `json:"present"`
		Yes     [][]int `json:"yes"`
	} `json:"ff"`
}

type c42div struct {
	sig, what string
	c         any
}

type c42job struct { // one git question
	kind   string // anc | mb | ind | ff
	row    int
	tm     []int
	ord    int
	a, b   int
	set    []int
	sh     []int
	expect []int // expected set (mb, ind) ...
	yes    bool  // ... or boolean (anc, ff)
}

type c42res struct {
	evals, scen int
	divs        []c42div
	samples     []any
	jobs        []c42job
}

func init() { rep.Register("c42", c42) }

func perms(s []int) [][]int {
	if len(s) <= 1 {
		return [][]int{append([]int(nil), s...)}
	}
	var out [][]int
	for i := range s {
		rest := append(append([]int(nil), s[:i]...), s[i+1:]...)
		for _, p := range perms(rest) {
			out = append(out, append([]int{s[i]}, p...))
		}
	}
	return out
}

func c42(args []string) error {
	fs := flag.NewFlagSet("c42", flag.ContinueOnError)
	tsample := fs.Int("tsample", 0, "time assignments per graph (0 = all)")
	ffsample := fs.Int("ffsample", 0, "time assignments per graph used for the fast-forward matrix (0 = all)")
	gitq := fs.Int("git", 1500, "git questions (seeded sample)")
	oneOrder := fs.Bool("oneorder", false, "one parent-order rendering per scenario (alternating) instead of both")
	lite := fs.Bool("lite", false, "MergeBase only for a <= b, Independents with 2 seeded argument orders per subset")
	if err := fs.Parse(args); err != nil {
		return err
	}
	if fs.NArg() < 2 {
		return fmt.Errorf("usage: c42 [-tsample K] [-ffsample K] [-git Q] rows.ndjson times.ndjson")
	}
	var rows []dagqRow
	if err := rep.ReadNDJSON(fs.Arg(0), func(b []byte) error {
		var r dagqRow
		if err := json.Unmarshal(b, &r); err != nil {
			return err
		}
		rows = append(rows, r)
		return nil
	}); err != nil {
		return err
	}
	var times [][]int
	if err := rep.ReadNDJSON(fs.Arg(1), func(b []byte) error {
		var t struct {
			Tm []int `json:"tm"`
		}
		if err := json.Unmarshal(b, &t); err != nil {
			return err
		}
		times = append(times, t.Tm)
		return nil
	}); err != nil {
		return err
	}
	if len(rows) == 0 || len(times) == 0 {
		return fmt.Errorf("empty tables")
	}
	// canonical order of both tables (TLC's set order is not part of the contract)
	sort.Slice(rows, func(i, j int) bool { return fmt.Sprint(rows[i].Par) < fmt.Sprint(rows[j].Par) })
	sort.Slice(times, func(i, j int) bool { return intsKey(times[i]) < intsKey(times[j]) })

	seed := rep.Seed()
	res := make([]c42res, len(rows))
	var wg sync.WaitGroup
	sem := make(chan struct{}, max(2, runtime.NumCPU()))
	for i := range rows {
		wg.Add(1)
		sem <- struct{}{}
		go func(i int) {
			defer wg.Done()
			defer func() { <-sem }()
			rnd := rand.New(rand.NewSource(seed*1000003 + int64(i)))
			c42row(i, &rows[i], times, *tsample, *ffsample, *oneOrder, *lite, rnd, &res[i])
		}(i)
	}
	wg.Wait()

	r := rep.New()
	var jobs []c42job
	for i := range res {
		r.Eval(res[i].evals)
		r.Distinct += res[i].scen
		for _, d := range res[i].divs {
			r.Diverge(d.sig, d.what, d.c)
		}
		for _, s := range res[i].samples {
			r.Sample(s)
		}
		jobs = append(jobs, res[i].jobs...)
	}
	r.Traces = r.Evaluations

	// ------------------------------------------------------------- git leg
	gitOK := gitcli.Available()
	r.Extra["git_leg"] = gitOK
	if gitOK && *gitq > 0 {
		rnd := rand.New(rand.NewSource(seed))
		rnd.Shuffle(len(jobs), func(i, j int) { jobs[i], jobs[j] = jobs[j], jobs[i] })
		// keep the kinds balanced
		per := map[string]int{}
		var sel []c42job
		for _, j := range jobs {
			if per[j.kind] >= *gitq/4 {
				continue
			}
			per[j.kind]++
			sel = append(sel, j)
		}
		n, err := c42git(r, rows, sel)
		if err != nil {
			return err
		}
		r.Extra["git_checked"] = n
		r.Extra["git_by_kind"] = per
	}
	r.Extra["graphs"] = len(rows)
	r.Extra["time_assignments"] = len(times)
	return r.Emit()
}

func relOf(anc map[[2]int]bool, mb []int, a, b int) string {
	switch {
	case a == b:
		return "same"
	case anc[[2]int{a, b}]:
		return "a-ancestor-of-b"
	case anc[[2]int{b, a}]:
		return "b-ancestor-of-a"
	case len(mb) == 0:
		return "disjoint"
	case len(mb) == 1:
		return "one-base"
	}
	return "criss-cross"
}

func c42row(idx int, row *dagqRow, times [][]int, tsample, ffsample int, oneOrder, lite bool, rnd *rand.Rand, out *c42res) {
	n := row.N
	anc := map[[2]int]bool{}
	for _, p := range row.Anc {
		anc[[2]int{p[0], p[1]}] = true
	}
	mb := map[[2]int][]int{}
	for _, m := range row.Mb {
		mb[[2]int{m.A, m.B}] = sortedInts(m.R)
		mb[[2]int{m.B, m.A}] = sortedInts(m.R)
	}
	tsel := make([]int, len(times))
	for i := range tsel {
		tsel[i] = i
	}
	if tsample > 0 && tsample < len(times) {
		rnd.Shuffle(len(tsel), func(i, j int) { tsel[i], tsel[j] = tsel[j], tsel[i] })
		tsel = tsel[:tsample]
		sort.Ints(tsel)
	}
	ffEvery := 1
	if ffsample > 0 && ffsample < len(tsel) {
		ffEvery = len(tsel) / ffsample
	}
	orders := []int{ordAsc, ordDesc}
	div := func(sig, what string, c any) { out.divs = append(out.divs, c42div{sig, what, c}) }
	for ti, tix := range tsel {
		tm := times[tix]
		if len(tm) != n {
			panic("time table and row disagree on N")
		}
		tcls := timeClass(row.Par, tm)
		for _, ord := range orders {
			if oneOrder && ord != (idx+ti)%2 {
				continue
			}
			pseq := orderPar(row.Par, ord)
			st := memory.NewStorage()
			hs := buildDag(st, nil, pseq, tm, nil, nil)
			num := numOf(hs)
			cs := make([]*object.Commit, n+1)
			for c := 1; c <= n; c++ {
				cc, err := object.GetCommit(st, hs[c])
				if err != nil {
					panic(err)
				}
				cs[c] = cc
			}
			out.scen++
			scen := func(extra map[string]any) map[string]any {
				m := map[string]any{"par": pseq, "tm": tm}
				for k, v := range extra {
					m[k] = v
				}
				return m
			}
			toNums := func(l []*object.Commit) []int {
				var r []int
				for _, c := range l {
					r = append(r, num[c.Hash])
				}
				sort.Ints(r)
				return r
			}
			// IsAncestor, MergeBase on every ordered pair
			for a := 1; a <= n; a++ {
				for b := 1; b <= n; b++ {
					out.evals++
					got, err := cs[a].IsAncestor(cs[b])
					want := anc[[2]int{a, b}]
					if err != nil {
						div("IsAncestor|error|time="+tcls, fmt.Sprintf("IsAncestor(%d,%d) failed: %v", a, b, err), scen(map[string]any{"a": a, "b": b}))
					} else if got != want {
						cls := "false-negative"
						if got {
							cls = "false-positive"
						}
						div("IsAncestor|"+cls+"|time="+tcls, fmt.Sprintf("IsAncestor(%d,%d)=%v, spec (git merge-base --is-ancestor) says %v", a, b, got, want),
							scen(map[string]any{"a": a, "b": b, "gogit": got, "spec": want}))
					}
					if lite && b < a {
						continue
					}
					out.evals++
					wantMb := mb[[2]int{a, b}]
					gl, err := cs[a].MergeBase(cs[b])
					if err != nil {
						div("MergeBase|error|time="+tcls, fmt.Sprintf("MergeBase(%d,%d) failed: %v", a, b, err), scen(map[string]any{"a": a, "b": b}))
					} else if g := toNums(gl); !eqInts(g, wantMb) || len(gl) != len(wantMb) {
						div("MergeBase|"+setDiffClass(g, wantMb, len(gl))+"|rel="+relOf(anc, wantMb, a, b)+"|time="+tcls,
							fmt.Sprintf("MergeBase(%d,%d)=%v, spec (maximal common ancestors = git merge-base --all) says %v", a, b, g, wantMb),
							scen(map[string]any{"a": a, "b": b, "gogit": g, "spec": wantMb}))
					}
					if rnd.Intn(8) == 0 {
						out.jobs = append(out.jobs, c42job{kind: "anc", row: idx, tm: tm, ord: ord, a: a, b: b, yes: want},
							c42job{kind: "mb", row: idx, tm: tm, ord: ord, a: a, b: b, expect: wantMb})
					}
				}
			}
			// Independents on every subset of <= 3 commits, every argument order, plus a duplicate
			for _, in := range row.Ind {
				want := sortedInts(in.R)
				argss := perms(sortedInts(in.S))
				if len(in.S) == 2 {
					argss = append(argss, []int{in.S[0], in.S[1], in.S[0]})
				}
				if lite && len(argss) > 2 {
					rnd.Shuffle(len(argss), func(i, j int) { argss[i], argss[j] = argss[j], argss[i] })
					argss = argss[:2]
				}
				for _, as := range argss {
					out.evals++
					var l []*object.Commit
					for _, a := range as {
						l = append(l, cs[a])
					}
					gl, err := object.Independents(l)
					if err != nil {
						div("Independents|error|time="+tcls, fmt.Sprintf("Independents(%v) failed: %v", as, err), scen(map[string]any{"args": as}))
						continue
					}
					if g := toNums(gl); !eqInts(g, want) || len(gl) != len(want) {
						div(fmt.Sprintf("Independents|%s|args=%d|time=%s", setDiffClass(g, want, len(gl)), len(as), tcls),
							fmt.Sprintf("Independents(%v)=%v, spec (git merge-base --independent) says %v", as, g, want),
							scen(map[string]any{"args": as, "gogit": g, "spec": want}))
					}
				}
				if len(in.S) >= 2 && rnd.Intn(6) == 0 {
					out.jobs = append(out.jobs, c42job{kind: "ind", row: idx, tm: tm, ord: ord, set: argss[rnd.Intn(len(argss))], expect: want})
				}
			}
			if len(out.samples) < 2 && ti == 0 {
				out.samples = append(out.samples, map[string]any{"par": pseq, "tm": tm, "queries": "all pairs IsAncestor/MergeBase, all subsets<=3 Independents, ff matrix", "time_class": tcls})
			}
			// fast-forward matrix (does not use times: only on every ffEvery-th assignment)
			if ti%ffEvery != 0 {
				continue
			}
			c42ff(idx, row, st, hs, pseq, tm, ord, anc, rnd, out)
		}
	}
}

func setDiffClass(got, want []int, gotLen int) string {
	w := map[int]bool{}
	for _, x := range want {
		w[x] = true
	}
	g := map[int]bool{}
	for _, x := range got {
		g[x] = true
	}
	extra, missing := false, false
	for x := range g {
		if !w[x] {
			extra = true
		}
	}
	for x := range w {
		if !g[x] {
			missing = true
		}
	}
	switch {
	case extra && missing:
		return "wrong-set"
	case extra:
		return "extra-member"
	case missing:
		return "missing-member"
	case gotLen != len(got) || gotLen != len(want):
		return "duplicate-member"
	}
	return "equal"
}

var branchRef = plumbing.ReferenceName("refs/heads/master")

// c42ff: fast-forward test through Repository.Merge(FastForwardMerge) for every shallow set,
// (a) with all objects stored, (b) with only the commits a shallow clone would store.
func c42ff(idx int, row *dagqRow, full *memory.Storage, hs []plumbing.Hash, pseq [][]int, tm []int, ord int, anc map[[2]int]bool, rnd *rand.Rand, out *c42res) {
	n := row.N
	div := func(sig, what string, c any) { out.divs = append(out.divs, c42div{sig, what, c}) }
	fullRepo, err := git.Init(full)
	if err != nil {
		panic(err)
	}
	for _, f := range row.Ff {
		yes := map[[2]int]bool{}
		for _, p := range f.Yes {
			yes[[2]int{p[0], p[1]}] = true
		}
		present := map[int]bool{}
		for _, c := range f.Present {
			present[c] = true
		}
		onBoundary := map[int]bool{}
		for _, s := range f.Sh {
			onBoundary[s] = true
		}
		var shh []plumbing.Hash
		for _, s := range f.Sh {
			shh = append(shh, hs[s])
		}
		for mode := 0; mode < 2; mode++ {
			st, repo := full, fullRepo
			modeName := "all-objects"
			if mode == 1 {
				if len(f.Present) == n {
					continue // identical to mode 0
				}
				modeName = "pruned"
				st = memory.NewStorage()
				buildDag(st, memory.NewStorage(), pseq, tm, nil, present)
				if repo, err = git.Init(st); err != nil {
					panic(err)
				}
			}
			if err := st.SetShallow(shh); err != nil {
				panic(err)
			}
			for o := 1; o <= n; o++ {
				for nw := 1; nw <= n; nw++ {
					if mode == 1 && !present[nw] {
						continue
					}
					want := yes[[2]int{o, nw}]
					if err := st.SetReference(plumbing.NewHashReference(branchRef, hs[o])); err != nil {
						panic(err)
					}
					out.evals++
					err := repo.Merge(*plumbing.NewHashReference("refs/heads/other", hs[nw]), git.MergeOptions{Strategy: git.FastForwardMerge})
					ref, rerr := st.Reference(branchRef)
					if rerr != nil {
						panic(rerr)
					}
					shKind := "no-shallow"
					if len(f.Sh) > 0 {
						shKind = "shallow"
					}
					rel := "old-unrelated"
					if anc[[2]int{o, nw}] {
						rel = "old-behind-boundary" // an ancestor in the full graph
					}
					if want {
						rel = "old-reachable"
					}
					cse := map[string]any{"par": pseq, "tm": tm, "shallow": f.Sh, "old": o, "new": nw, "objects": modeName, "spec": want}
					var got bool
					switch {
					case err == nil:
						got = true
					case errors.Is(err, git.ErrFastForwardMergeNotPossible):
						got = false
					default:
						div("FastForward|error|"+shKind+"|"+rel, fmt.Sprintf("Merge(ff) old=%d new=%d shallow=%v failed: %v", o, nw, f.Sh, err), cse)
						continue
					}
					cse["gogit"] = got
					if got != want {
						cls := "refused-fast-forward"
						if got {
							cls = "accepted-non-fast-forward"
						}
						div("FastForward|"+cls+"|"+shKind+"|"+rel,
							fmt.Sprintf("fast-forward test old=%d new=%d with shallow=%v (%s) says %v; spec (git merge-base --is-ancestor in that repository) says %v", o, nw, f.Sh, modeName, got, want), cse)
					}
					wantRef := hs[o]
					if got {
						wantRef = hs[nw]
					}
					if ref.Hash() != wantRef {
						div("FastForward|branch-not-consistent-with-answer|"+shKind, fmt.Sprintf("after Merge(ff) old=%d new=%d answer=%v the branch points to commit %d", o, nw, got, numOf(hs)[ref.Hash()]), cse)
					}
					if mode == 0 && rnd.Intn(24) == 0 {
						out.jobs = append(out.jobs, c42job{kind: "ff", row: idx, tm: tm, ord: ord, a: o, b: nw, sh: f.Sh, yes: want})
					}
				}
			}
		}
	}
}

// c42git asks git the sampled questions; a disagreement with the spec is a SpecError.
func c42git(r *rep.Report, rows []dagqRow, jobs []c42job) (int, error) {
	gi, err := newGitImport("c42git")
	if err != nil {
		return 0, err
	}
	type skey struct {
		row, ord int
		tm       string
	}
	marks := map[skey][]int{}
	for _, j := range jobs {
		k := skey{j.row, j.ord, intsKey(j.tm)}
		if _, ok := marks[k]; ok {
			continue
		}
		pseq := orderPar(rows[j.row].Par, j.ord)
		ms := make([]int, len(pseq)+1)
		for c := 1; c <= len(pseq); c++ {
			var ps []int
			for _, p := range pseq[c-1] {
				ps = append(ps, ms[p])
			}
			ms[c] = gi.commit(c, ps, j.tm[c-1], nil)
		}
		marks[k] = ms
	}
	ids, err := gi.run()
	if err != nil {
		return 0, err
	}
	// non-shallow questions first: once .git/shallow exists it is only ever rewritten
	sort.SliceStable(jobs, func(a, b int) bool { return (jobs[a].kind == "ff") == false && (jobs[b].kind == "ff") })
	var sc gitScript
	type pend struct {
		j   c42job
		num map[string]int
	}
	var ps []pend
	for _, j := range jobs {
		ms := marks[skey{j.row, j.ord, intsKey(j.tm)}]
		id := func(c int) string { return ids[ms[c]] }
		num := map[string]int{}
		for c := 1; c < len(ms); c++ {
			num[id(c)] = c
		}
		switch j.kind {
		case "anc":
			sc.add("", "merge-base", "--is-ancestor", id(j.a), id(j.b))
		case "mb":
			sc.add("", "merge-base", "--all", id(j.a), id(j.b))
		case "ind":
			args := []string{"merge-base", "--independent"}
			for _, c := range j.set {
				args = append(args, id(c))
			}
			sc.add("", args...)
		case "ff":
			var l []string
			for _, s := range j.sh {
				l = append(l, id(s))
			}
			sort.Strings(l)
			pre := ": > shallow"
			if len(l) > 0 {
				pre = "printf '%s\\n' " + strings.Join(l, " ") + " > shallow"
			}
			sc.add(pre, "merge-base", "--is-ancestor", id(j.a), id(j.b))
		}
		ps = append(ps, pend{j, num})
	}
	ans, err := sc.run(gi.dir)
	if err != nil {
		return 0, err
	}
	for i, p := range ps {
		j := p.j
		cse := map[string]any{"kind": j.kind, "par": orderPar(rows[j.row].Par, j.ord), "tm": j.tm, "a": j.a, "b": j.b, "set": j.set, "shallow": j.sh}
		switch j.kind {
		case "anc", "ff":
			if ans[i].RC > 1 {
				return 0, fmt.Errorf("git merge-base --is-ancestor failed rc=%d on %v", ans[i].RC, cse)
			}
			if g := ans[i].RC == 0; g != j.yes {
				cse["git"], cse["spec"] = g, j.yes
				r.SpecError(cse)
			}
		case "mb", "ind":
			g, err := numsOfLines(ans[i].Out, p.num)
			if err != nil {
				return 0, err
			}
			sort.Ints(g)
			// merge-base --all exits 1 when there is no common ancestor
			if !eqInts(g, j.expect) {
				cse["git"], cse["spec"] = g, j.expect
				r.SpecError(cse)
			}
		}
	}
	_ = os.RemoveAll(gi.dir)
	return len(ps), nil
}
