package main

import (
	"encoding/json"
	"errors"
	"fmt"
	"os"
	"path/filepath"
	"strings"

	"verifharness/internal/gitcli"
	"verifharness/internal/rep"

	git "github.com/go-git/go-git/v6"
	"github.com/go-git/go-git/v6/plumbing"
)

// c42case reproduces one fast-forward case by hand, outside the table machinery:
// the repository is created ON DISK BY GIT (fast-import), .git/shallow is written,
// git is asked `merge-base --is-ancestor old new`, and go-git opens the same directory
// with PlainOpen and is asked Repository.Merge(FastForwardMerge) with HEAD at old.
//
//	vhdag c42case '{"par":[[],[1],[1]],"tm":[1,2,3],"shallow":[2],"old":1,"new":3}'
func init() { rep.Register("c42case", c42case) }

func c42case(args []string) error {
	if len(args) != 1 {
		return fmt.Errorf("usage: c42case '<json>'")
	}
	var cs struct {
		Par     [][]int `json:"par"`
		Tm      []int   `json:"tm"`
		Shallow []int   `json:"shallow"`
		Old     int     `json:"old"`
		New     int     `json:"new"`
	}
	if err := json.Unmarshal([]byte(args[0]), &cs); err != nil {
		return err
	}
	gi, err := newGitImport("c42case")
	if err != nil {
		return err
	}
	ms := make([]int, len(cs.Par)+1)
	for c := 1; c <= len(cs.Par); c++ {
		var ps []int
		for _, p := range cs.Par[c-1] {
			ps = append(ps, ms[p])
		}
		ms[c] = gi.commit(c, ps, cs.Tm[c-1], nil)
	}
	ids, err := gi.run()
	if err != nil {
		return err
	}
	id := func(c int) string { return ids[ms[c]] }
	var sh []string
	for _, s := range cs.Shallow {
		sh = append(sh, id(s))
	}
	if len(sh) > 0 {
		if err := os.WriteFile(filepath.Join(gi.dir, "shallow"), []byte(strings.Join(sh, "\n")+"\n"), 0o644); err != nil {
			return err
		}
	}
	if _, se, err := gitcli.Run(gi.dir, nil, "update-ref", "refs/heads/master", id(cs.Old)); err != nil {
		return fmt.Errorf("update-ref: %v %s", err, se)
	}
	_, _, gerr := gitcli.Run(gi.dir, nil, "merge-base", "--is-ancestor", id(cs.Old), id(cs.New))
	gitSays := gerr == nil
	log, _, _ := gitcli.Run(gi.dir, nil, "log", "--format=%s parents:%p", id(cs.New))
	repo, err := git.PlainOpen(gi.dir)
	if err != nil {
		return err
	}
	merr := repo.Merge(*plumbing.NewHashReference("refs/heads/other", plumbing.NewHash(id(cs.New))), git.MergeOptions{Strategy: git.FastForwardMerge})
	goSays := "true"
	if errors.Is(merr, git.ErrFastForwardMergeNotPossible) {
		goSays = "false"
	} else if merr != nil {
		goSays = "error: " + merr.Error()
	}
	fmt.Printf("repository %s\n.git/shallow = %v\ngit log new (history git sees):\n%s", gi.dir, cs.Shallow, log)
	fmt.Printf("git merge-base --is-ancestor c%d c%d : %v\n", cs.Old, cs.New, gitSays)
	fmt.Printf("go-git Repository.Merge(ff) HEAD=c%d ref=c%d : fast-forward=%s\n", cs.Old, cs.New, goSays)
	r := rep.New()
	return r.Emit()
}
