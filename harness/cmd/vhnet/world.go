package main

import (
	"bytes"
	"fmt"
	"os"
	"path/filepath"
	"sort"
	"strings"

	"verifharness/internal/gitcli"
)

// Interpretation of the abstract object symbols of Transport.tla: a commit
// symbol is a real commit (one file named after it), built with one
// `git fast-import` stream per repository.  Ids are deterministic, so the same
// symbol has the same id in every repository it is imported into.

type commitSpec struct {
	ID      string
	Parents []string
	Time    int // committer time offset (seconds); 0 = position in the list
}

type tagSpec struct {
	ID     string // symbol of the tag object
	Name   string // tag name inside the object (also refs/tags/<Name> during import)
	Target string // commit symbol
}

type repoSpec struct {
	Commits []commitSpec      // parents before children
	Tags    []tagSpec         // annotated tag objects
	Refs    map[string]string // full ref name -> symbol
	Head    string            // symbolic HEAD target ("" = refs/heads/master)
}

// fastImportStream renders a repoSpec.  Every commit goes through one scratch
// branch that is reset to "nothing" at the end, so only Refs remain.
func fastImportStream(rs *repoSpec) ([]byte, map[string]int) {
	var b bytes.Buffer
	marks := map[string]int{}
	next := 1
	const scratch = "refs/verif/scratch"
	for i, c := range rs.Commits {
		marks[c.ID] = next
		t := c.Time
		if t == 0 {
			t = i + 1
		}
		if len(c.Parents) == 0 {
			fmt.Fprintf(&b, "reset %s\n\n", scratch)
		}
		fmt.Fprintf(&b, "commit %s\nmark :%d\ncommitter C O Mitter <c@example.com> %d +0000\n", scratch, next, 1000000000+t)
		msg := "commit " + c.ID + "\n"
		fmt.Fprintf(&b, "data %d\n%s", len(msg), msg)
		for k, p := range c.Parents {
			if k == 0 {
				fmt.Fprintf(&b, "from :%d\n", marks[p])
			} else {
				fmt.Fprintf(&b, "merge :%d\n", marks[p])
			}
		}
		content := "content of " + c.ID + "\n"
		fmt.Fprintf(&b, "M 100644 inline f-%s\ndata %d\n%s\n", c.ID, len(content), content)
		next++
	}
	fmt.Fprintf(&b, "reset %s\n\n", scratch)
	for _, t := range rs.Tags {
		marks[t.ID] = next
		msg := "tag " + t.ID + "\n"
		// fast-import creates refs/tags/<Name>; it is removed again unless listed in Refs
		fmt.Fprintf(&b, "tag %s\nmark :%d\nfrom :%d\ntagger T Agger <t@example.com> %d +0000\ndata %d\n%s\n", t.Name, next, marks[t.Target], 1000000100, len(msg), msg)
		next++
	}
	names := make([]string, 0, len(rs.Refs))
	for n := range rs.Refs {
		names = append(names, n)
	}
	sort.Strings(names)
	isTag := map[string]bool{}
	for _, t := range rs.Tags {
		isTag[t.ID] = true
	}
	for _, n := range names {
		if isTag[rs.Refs[n]] {
			continue // refs/tags/<Name> was created by the tag command (a reference to a tag object must be named after it)
		}
		fmt.Fprintf(&b, "reset %s\nfrom :%d\n\n", n, marks[rs.Refs[n]])
	}
	return b.Bytes(), marks
}

// emptyBare is created once with `git init --bare`; repositories are copies of it.
var emptyBareDir string

func newBare(dir string) error {
	if emptyBareDir == "" {
		d := filepath.Join(gitcli.TempDir("bare-tmpl"), "e.git")
		if err := gitcli.Init(d, true); err != nil {
			return err
		}
		os.RemoveAll(filepath.Join(d, "hooks"))
		os.Remove(filepath.Join(d, "description"))
		emptyBareDir = d
	}
	return copyDir(emptyBareDir, dir)
}

func copyDir(src, dst string) error {
	return filepath.Walk(src, func(p string, info os.FileInfo, err error) error {
		if err != nil {
			return err
		}
		rel, _ := filepath.Rel(src, p)
		t := filepath.Join(dst, rel)
		if info.IsDir() {
			return os.MkdirAll(t, 0o755)
		}
		b, err := os.ReadFile(p)
		if err != nil {
			return err
		}
		return os.WriteFile(t, b, info.Mode().Perm())
	})
}

// buildRepo creates a bare repository at dir holding exactly rs; returns symbol -> hex id.
func buildRepo(dir string, rs *repoSpec) (map[string]string, error) {
	if err := newBare(dir); err != nil {
		return nil, err
	}
	ids := map[string]string{}
	if len(rs.Commits) > 0 {
		stream, marks := fastImportStream(rs)
		mf := filepath.Join(dir, "verif-marks")
		_, e, err := gitcli.Run(dir, stream, "fast-import", "--quiet", "--export-marks="+mf)
		if err != nil {
			return nil, fmt.Errorf("fast-import: %v %s", err, e)
		}
		mb, err := os.ReadFile(mf)
		if err != nil {
			return nil, err
		}
		os.Remove(mf)
		byMark := map[int]string{}
		for _, ln := range strings.Split(strings.TrimSpace(string(mb)), "\n") {
			var m int
			var h string
			if _, err := fmt.Sscanf(ln, ":%d %s", &m, &h); err == nil {
				byMark[m] = h
			}
		}
		for s, m := range marks {
			if byMark[m] == "" {
				return nil, fmt.Errorf("fast-import exported no id for %s", s)
			}
			ids[s] = byMark[m]
		}
		// tags were created under refs/tags/<Name>: drop those not requested (plain files: fast-import writes loose refs)
		for _, t := range rs.Tags {
			n := "refs/tags/" + t.Name
			if _, ok := rs.Refs[n]; !ok {
				os.Remove(filepath.Join(dir, filepath.FromSlash(n)))
			}
		}
	}
	head := rs.Head
	if head == "" {
		head = "refs/heads/master"
	}
	if err := os.WriteFile(filepath.Join(dir, "HEAD"), []byte("ref: "+head+"\n"), 0o644); err != nil {
		return nil, err
	}
	return ids, nil
}

// closure of a set of commit symbols under the parent relation, parents first
func closeCommits(all []commitSpec, tips []string) []commitSpec {
	by := map[string]commitSpec{}
	for _, c := range all {
		by[c.ID] = c
	}
	need := map[string]bool{}
	var visit func(string)
	visit = func(s string) {
		if need[s] {
			return
		}
		need[s] = true
		for _, p := range by[s].Parents {
			visit(p)
		}
	}
	for _, t := range tips {
		visit(t)
	}
	var out []commitSpec
	for _, c := range all {
		if need[c.ID] {
			out = append(out, c)
		}
	}
	return out
}

// writeLooseRefs sets references by writing loose files (no git process).
func writeLooseRefs(dir string, refs map[string]string, ids map[string]string) error {
	for n, v := range refs {
		if v == "none" || v == "" {
			continue
		}
		p := filepath.Join(dir, filepath.FromSlash(n))
		if err := os.MkdirAll(filepath.Dir(p), 0o755); err != nil {
			return err
		}
		if err := os.WriteFile(p, []byte(ids[v]+"\n"), 0o644); err != nil {
			return err
		}
	}
	return nil
}

// gitRefs returns git's view of all references: name -> hex id (for-each-ref).
func gitRefs(dir string) (map[string]string, error) {
	out, e, err := gitcli.RunEnv(dir, nil, []string{"GIT_DIR=" + dir}, "for-each-ref", "--format=%(refname) %(objectname)")
	if err != nil || strings.Contains(e, "fatal") || strings.Contains(e, "error") || strings.Contains(e, "warning") {
		return nil, fmt.Errorf("for-each-ref: %v %s", err, strings.TrimSpace(e))
	}
	m := map[string]string{}
	for _, ln := range strings.Split(strings.TrimSpace(out), "\n") {
		if f := strings.Fields(ln); len(f) == 2 {
			m[f[0]] = f[1]
		}
	}
	return m, nil
}
