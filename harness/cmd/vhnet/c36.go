package main

import (
	"context"
	"encoding/json"
	"errors"
	"fmt"
	"math/rand"
	"net"
	"os"
	"os/exec"
	"path/filepath"
	"sort"
	"strings"
	"time"

	"verifharness/internal/gitcli"
	"verifharness/internal/rep"

	git "github.com/go-git/go-git/v6"
	"github.com/go-git/go-git/v6/config"
	"github.com/go-git/go-git/v6/plumbing"
	"github.com/go-git/go-git/v6/plumbing/object"
	"github.com/go-git/go-git/v6/plumbing/storer"
)

func init() { rep.Register("c36", c36) }

// ---- scenario format (FetchGen.tla) ------------------------------------------

type fTag struct {
	Kind string `json:"kind"`
	At   int    `json:"at"`
}

type fSrv struct {
	A   int  `json:"a"`
	B   int  `json:"b"`
	Tag fTag `json:"tag"`
}

type fOpt struct {
	Refspec string `json:"refspec"`
	Tags    string `json:"tags"`
	Depth   int    `json:"depth"`
}

type fStep struct {
	Srv     fSrv             `json:"srv"`
	Opt     fOpt             `json:"opt"`
	Refs    map[string][]any `json:"refs"`
	Shallow []int            `json:"shallow"`
	Commits []int            `json:"commits"`
}

type fScn struct {
	Scn struct {
		Dag   [][]int `json:"dag"`
		B     int     `json:"b"`
		Tag   fTag    `json:"tag"`
		Prior struct {
			Px    int  `json:"px"`
			D1    int  `json:"d1"`
			Pb    int  `json:"pb"`
			Local bool `json:"local"`
		} `json:"prior"`
		Refspec string `json:"refspec"`
		Tags    string `json:"tags"`
		Depth   int    `json:"depth"`
	} `json:"scn"`
	Steps []fStep `json:"steps"`
}

func (s *fScn) priorKind() string {
	p := s.Scn.Prior
	switch {
	case p.Px == 0:
		return "empty"
	case p.Pb > 0:
		return "shallow1x2" // two branches fetched with depth 1: two independent boundary commits
	case p.D1 > 1:
		return "shallow2" // shallow with non-shallow commits (fetched with depth 2)
	case p.D1 > 0:
		return "shallow"
	case p.Local:
		return "diverged"
	}
	return "partial"
}

// abstract scenario key of a step (spec-level classes only)
func (s *fScn) key(i int) string {
	st := s.Steps[i]
	stage := "fetch"
	if len(s.Steps) == 2 && i == 0 {
		stage = "first-fetch"
	}
	return fmt.Sprintf("%s,prior=%s,depth=%d,tags=%s/%s,refspec=%s", stage, s.priorKind(), st.Opt.Depth, st.Opt.Tags, st.Srv.Tag.Kind, st.Opt.Refspec)
}

// keyFor keeps only the scenario dimensions that matter for the divergence class.
func (s *fScn) keyFor(i int, class string) string {
	st := s.Steps[i]
	prior := s.priorKind()
	if len(s.Steps) == 2 && i == 0 {
		prior = "empty" // the first fetch of a two-stage scenario starts from an empty client
	}
	depth := "full"
	if st.Opt.Depth > 0 {
		depth = "depth"
	}
	if strings.HasSuffix(class, ":tag") {
		return fmt.Sprintf("tags=%s/%s,refspec=%s", st.Opt.Tags, st.Srv.Tag.Kind, st.Opt.Refspec)
	}
	return fmt.Sprintf("prior=%s,%s", prior, depth)
}

func cname(c int) string { return fmt.Sprintf("c%d", c) }

func dagCommits(dag [][]int) []commitSpec {
	var cs []commitSpec
	for i, ps := range dag {
		c := commitSpec{ID: cname(i + 1), Time: i + 1}
		for _, p := range ps {
			c.Parents = append(c.Parents, cname(p))
		}
		cs = append(cs, c)
	}
	return cs
}

// ---- servers (cached per dag + references) -----------------------------------

type fWorld struct {
	base    string
	servers map[string]*fServer
	vsrv    string
	daemon  *exec.Cmd
	port    int
	rnd     *rand.Rand
}

type fServer struct {
	dir string
	ids map[string]string // symbol -> hex ("c3", "t")
}

func srvSpec(dag [][]int, sv fSrv) *repoSpec {
	all := dagCommits(dag)
	refs := map[string]string{"refs/heads/a": cname(sv.A)}
	tips := []string{cname(sv.A)}
	if sv.B != 0 {
		refs["refs/heads/b"] = cname(sv.B)
		tips = append(tips, cname(sv.B))
	}
	rs := &repoSpec{Head: "refs/heads/a"}
	switch sv.Tag.Kind {
	case "ann":
		rs.Tags = []tagSpec{{ID: "t", Name: "t", Target: cname(sv.Tag.At)}}
		refs["refs/tags/t"] = "t"
		tips = append(tips, cname(sv.Tag.At))
	case "lw":
		refs["refs/tags/t"] = cname(sv.Tag.At)
		tips = append(tips, cname(sv.Tag.At))
	}
	rs.Commits = closeCommits(all, tips)
	rs.Refs = refs
	return rs
}

func (w *fWorld) server(dag [][]int, sv fSrv) (*fServer, error) {
	kb, _ := json.Marshal([]any{dag, sv})
	if s, ok := w.servers[string(kb)]; ok {
		return s, nil
	}
	dir := filepath.Join(w.base, fmt.Sprintf("srv%d.git", len(w.servers)))
	ids, err := buildRepo(dir, srvSpec(dag, sv))
	if err != nil {
		return nil, err
	}
	s := &fServer{dir: dir, ids: ids}
	w.servers[string(kb)] = s
	return s, nil
}

func (w *fWorld) startDaemon() error {
	l, err := net.Listen("tcp", "127.0.0.1:0")
	if err != nil {
		return err
	}
	w.port = l.Addr().(*net.TCPAddr).Port
	l.Close()
	c := exec.Command("git", "daemon", "--reuseaddr", "--listen=127.0.0.1", fmt.Sprintf("--port=%d", w.port),
		"--base-path="+w.base, "--export-all", "--enable=receive-pack", w.base)
	c.Env = gitcli.Env()
	c.Dir = w.base
	if err := c.Start(); err != nil {
		return err
	}
	w.daemon = c
	for i := 0; i < 200; i++ {
		cn, err := net.DialTimeout("tcp", fmt.Sprintf("127.0.0.1:%d", w.port), 200*time.Millisecond)
		if err == nil {
			cn.Close()
			return nil
		}
		time.Sleep(50 * time.Millisecond)
	}
	return errors.New("git daemon did not start")
}

func (w *fWorld) stop() {
	if w.daemon != nil {
		w.daemon.Process.Kill()
		w.daemon.Wait()
	}
}

// ---- legs -----------------------------------------------------------------------

type fLeg struct {
	name   string // signature part
	client string // "git" | "gogit"
	server string // "git" | "gogit-vsrv" | "gogit-file" | "git-daemon"
	proto  int    // 0 | 2
}

func (w *fWorld) urlFor(l fLeg, srvDir string) string {
	switch l.server {
	case "git-daemon":
		return fmt.Sprintf("git://127.0.0.1:%d/%s", w.port, filepath.Base(srvDir))
	case "gogit-vsrv":
		return srvDir
	}
	return "file://" + srvDir
}

func (w *fWorld) newClient(l fLeg) (string, error) {
	d := filepath.Join(gitcli.TempDir("cl"), "c.git")
	if err := newBare(d); err != nil {
		return "", err
	}
	cfg := fmt.Sprintf("[protocol]\n\tversion = %d\n[gc]\n\tauto = 0\n[remote \"origin\"]\n\turl = /nonexistent\n\tfetch = +refs/heads/*:refs/remotes/origin/*\n", l.proto)
	if l.server == "gogit-vsrv" {
		cfg += "\tuploadpack = '" + w.vsrv + "' upload-pack\n\treceivepack = '" + w.vsrv + "' receive-pack\n"
	}
	f, err := os.OpenFile(filepath.Join(d, "config"), os.O_APPEND|os.O_WRONLY, 0o644)
	if err != nil {
		return "", err
	}
	f.WriteString(cfg)
	f.Close()
	return d, nil
}

// setRemoteURL rewrites remote.origin.url in the client's config file.
func setRemoteURL(cl, url string) error {
	p := filepath.Join(cl, "config")
	b, err := os.ReadFile(p)
	if err != nil {
		return err
	}
	lines := strings.Split(string(b), "\n")
	for i, l := range lines {
		if strings.HasPrefix(l, "\turl = ") {
			lines[i] = "\turl = " + url
		}
	}
	return os.WriteFile(p, []byte(strings.Join(lines, "\n")), 0o644)
}

var refspecOf = map[string]string{
	"all": "+refs/heads/*:refs/remotes/origin/*",
	"one": "+refs/heads/a:refs/remotes/origin/a",
}

// doFetch runs one fetch; returns an error class ("" = success).
func (w *fWorld) doFetch(l fLeg, cl, url string, o fOpt) (string, string) {
	if err := setRemoteURL(cl, url); err != nil {
		return "error", err.Error()
	}
	if l.client == "git" {
		args := []string{"fetch", "-q"}
		if o.Depth > 0 {
			args = append(args, fmt.Sprintf("--depth=%d", o.Depth))
		}
		switch o.Tags {
		case "all":
			args = append(args, "--tags")
		case "none":
			args = append(args, "--no-tags")
		}
		args = append(args, "origin", refspecOf[o.Refspec])
		ctx, cancel := context.WithTimeout(context.Background(), opTimeout)
		defer cancel()
		c := exec.CommandContext(ctx, "git", args...)
		c.Dir = cl
		c.Env = append(gitcli.Env(), "GIT_DIR="+cl)
		out, err := c.CombinedOutput()
		if ctx.Err() != nil {
			return "timeout", "git fetch did not terminate within the time limit"
		}
		if err != nil {
			return errorClass(string(out)), strings.TrimSpace(string(out))
		}
		return "", ""
	}
	repo, err := git.PlainOpen(cl)
	if err != nil {
		return "error", "open: " + err.Error()
	}
	fo := &git.FetchOptions{RemoteName: "origin", RemoteURL: url, Depth: o.Depth,
		RefSpecs: []config.RefSpec{config.RefSpec(refspecOf[o.Refspec])}}
	switch o.Tags {
	case "all":
		fo.Tags = plumbing.AllTags
	case "none":
		fo.Tags = plumbing.NoTags
	default:
		fo.Tags = plumbing.TagFollowing
	}
	ctx, cancel := context.WithTimeout(context.Background(), opTimeout)
	defer cancel()
	done := make(chan error, 1)
	go func() { done <- repo.FetchContext(ctx, fo) }()
	select {
	case err = <-done:
	case <-time.After(opTimeout + 10*time.Second):
		return "timeout", "go-git Fetch did not return within the time limit"
	}
	if s, ok := repo.Storer.(interface{ Close() error }); ok {
		defer s.Close()
	}
	if ctx.Err() != nil {
		return "timeout", "go-git Fetch did not terminate within the time limit"
	}
	if err != nil && !errors.Is(err, git.NoErrAlreadyUpToDate) {
		return errorClass(err.Error()), err.Error()
	}
	return "", ""
}

// errorClass: a failed fetch, told apart by what the failing side reported (a fetch that does not
// terminate is a different class, "timeout", and never depends on this text)
func errorClass(msg string) string {
	switch {
	case strings.Contains(msg, "unshallow"):
		return "error:bogus-unshallow" // the client refused an unshallow line for a commit it never had as shallow
	case strings.Contains(msg, "getting client objects") && strings.Contains(msg, "object not found"):
		return "error:server-rejects-unknown-have"
	case strings.Contains(msg, "some refs were not updated"):
		return "error:refs-not-updated"
	case strings.Contains(msg, "object not found"):
		return "error:object-not-found"
	}
	return "error:other"
}

// ---- observation ------------------------------------------------------------------

type fObs struct {
	refs    map[string]string // name -> hex
	shallow []string
	fsck    string // "" = connected
}

func readShallow(cl string) []string {
	b, err := os.ReadFile(filepath.Join(cl, "shallow"))
	if err != nil {
		return nil
	}
	var out []string
	for _, l := range strings.Fields(string(b)) {
		out = append(out, l)
	}
	sort.Strings(out)
	return out
}

func gitFsck(cl string) string {
	out, e, err := gitcli.RunEnv(cl, nil, []string{"GIT_DIR=" + cl}, "fsck", "--connectivity-only", "--no-dangling")
	txt := out + e
	if err != nil || strings.Contains(txt, "missing") || strings.Contains(txt, "broken") || strings.Contains(txt, "error") {
		t := strings.TrimSpace(txt)
		if len(t) > 300 {
			t = t[:300]
		}
		if t == "" {
			t = fmt.Sprint(err)
		}
		return t
	}
	return ""
}

// goConnectivity walks every reference with go-git down to the shallow boundary.
func goConnectivity(cl string) (map[string]string, string) {
	repo, err := git.PlainOpen(cl)
	if err != nil {
		return nil, "open: " + err.Error()
	}
	if s, ok := repo.Storer.(interface{ Close() error }); ok {
		defer s.Close()
	}
	refs := map[string]string{}
	sh, _ := repo.Storer.Shallow()
	isShallow := map[plumbing.Hash]bool{}
	for _, h := range sh {
		isShallow[h] = true
	}
	it, err := repo.Storer.IterReferences()
	if err != nil {
		return nil, "refs: " + err.Error()
	}
	var tips []plumbing.Hash
	it.ForEach(func(r *plumbing.Reference) error {
		if r.Type() == plumbing.HashReference && strings.HasPrefix(r.Name().String(), "refs/") {
			refs[r.Name().String()] = r.Hash().String()
			tips = append(tips, r.Hash())
		}
		return nil
	})
	seen := map[plumbing.Hash]bool{}
	var walkTree func(h plumbing.Hash) error
	walkTree = func(h plumbing.Hash) error {
		if seen[h] {
			return nil
		}
		seen[h] = true
		t, err := object.GetTree(repo.Storer, h)
		if err != nil {
			return fmt.Errorf("missing tree %s", h)
		}
		for _, e := range t.Entries {
			if e.Mode.IsFile() {
				if repo.Storer.HasEncodedObject(e.Hash) != nil {
					return fmt.Errorf("missing blob %s", e.Hash)
				}
			} else if err := walkTree(e.Hash); err != nil {
				return err
			}
		}
		return nil
	}
	var walk func(h plumbing.Hash) error
	walk = func(h plumbing.Hash) error {
		if seen[h] {
			return nil
		}
		seen[h] = true
		o, err := repo.Storer.EncodedObject(plumbing.AnyObject, h)
		if err != nil {
			return fmt.Errorf("missing commit %s", h) // a reference target or a parent above the shallow boundary
		}
		switch o.Type() {
		case plumbing.TagObject:
			t, err := object.DecodeTag(repo.Storer, o)
			if err != nil {
				return err
			}
			return walk(t.Target)
		case plumbing.CommitObject:
			c, err := object.DecodeCommit(repo.Storer, o)
			if err != nil {
				return err
			}
			if err := walkTree(c.TreeHash); err != nil {
				return err
			}
			if isShallow[h] {
				return nil
			}
			for _, p := range c.ParentHashes {
				if err := walk(p); err != nil {
					return err
				}
			}
		}
		return nil
	}
	for _, t := range tips {
		if err := walk(t); err != nil {
			return refs, err.Error()
		}
	}
	return refs, ""
}

var _ = storer.ErrStop

// expected reference value of the spec as hex id
func expHex(v []any, ids map[string]string) string {
	kind, _ := v[0].(string)
	at := int(v[1].(float64))
	switch kind {
	case "none":
		return ""
	case "tag":
		return ids["t"]
	}
	return ids[cname(at)]
}

type fDiff struct{ class, what string }

// missingKind: which kind of object of the required closure is absent (commit, tree, blob, tag)
func missingKind(conn string) string {
	for _, k := range []string{"commit", "tag", "tree", "blob"} {
		if strings.Contains(conn, "missing "+k) {
			return k
		}
	}
	if strings.Contains(conn, "invalid sha1 pointer") {
		return "commit" // a reference whose target is absent
	}
	return "other"
}

// compareFetch: observed client state vs the spec's post-state of the step.
func compareFetch(st fStep, ids map[string]string, refs map[string]string, shallow []string, conn string) []fDiff {
	var ds []fDiff
	for _, n := range []string{"refs/remotes/origin/a", "refs/remotes/origin/b", "refs/tags/t"} {
		want := expHex(st.Refs[n], ids)
		if refs[n] != want {
			cls := "extra"
			if refs[n] == "" {
				cls = "missing"
			} else if want != "" {
				cls = "wrong-value"
			}
			short := strings.TrimPrefix(strings.TrimPrefix(n, "refs/remotes/origin/"), "refs/tags/")
			kind := "head"
			if short == "t" {
				kind = "tag"
			}
			ds = append(ds, fDiff{"ref-" + cls + ":" + kind, fmt.Sprintf("%s = %q, specification says %q", n, refs[n], want)})
			break
		}
	}
	for n := range refs {
		if n != "refs/remotes/origin/a" && n != "refs/remotes/origin/b" && n != "refs/tags/t" && n != "refs/heads/local" {
			ds = append(ds, fDiff{"ref-extra:other", "unexpected reference " + n})
			break
		}
	}
	var wantSh []string
	for _, c := range st.Shallow {
		wantSh = append(wantSh, ids[cname(c)])
	}
	sort.Strings(wantSh)
	if strings.Join(wantSh, ",") != strings.Join(shallow, ",") {
		cls := "shallow-mismatch"
		if len(wantSh) == 0 {
			cls = "shallow-unexpected"
		} else if len(shallow) == 0 {
			cls = "shallow-missing"
		}
		symOf := map[string]string{}
		for k, v := range ids {
			symOf[v] = k
		}
		var got []string
		for _, h := range shallow {
			if s, ok := symOf[h]; ok {
				got = append(got, s)
			} else {
				got = append(got, h)
			}
		}
		ds = append(ds, fDiff{cls, fmt.Sprintf("shallow file has %v, specification says %v", got, st.Shallow)})
	}
	if conn != "" {
		ds = append(ds, fDiff{"not-connected:" + missingKind(conn), "the client repository is not connected: " + conn})
	}
	return ds
}

// runLeg plays all steps of one scenario through one pairing.  useGit: observe with git
// (for-each-ref, fsck); otherwise with go-git only.
// opTimeout bounds one fetch/push.  Termination is part of C36, but a verdict must not depend on machine
// load: an operation that exceeds the limit is run again (whole leg, fresh client) with ten times the limit and
// only a second overrun is reported.
var opTimeout = 60 * time.Second

func (w *fWorld) runLeg(s *fScn, l fLeg, useGit bool) (int, []fDiff, map[string]any, error) {
	step, ds, c, err := w.runLeg1(s, l, useGit)
	if err == nil && len(ds) > 0 && ds[0].class == "timeout" {
		old := opTimeout
		opTimeout = 10 * old
		step, ds, c, err = w.runLeg1(s, l, useGit)
		opTimeout = old
	}
	return step, ds, c, err
}

func (w *fWorld) runLeg1(s *fScn, l fLeg, useGit bool) (int, []fDiff, map[string]any, error) {
	cl, err := w.newClient(l)
	if err != nil {
		return 0, nil, nil, err
	}
	defer os.RemoveAll(filepath.Dir(cl))
	ids := map[string]string{}
	for i, st := range s.Steps {
		srv, err := w.server(s.Scn.Dag, st.Srv)
		if err != nil {
			return i, nil, nil, err
		}
		for k, v := range srv.ids {
			ids[k] = v
		}
		cls, msg := w.doFetch(l, cl, w.urlFor(l, srv.dir), st.Opt)
		if cls != "" {
			return i, []fDiff{{cls, msg}}, map[string]any{"leg": l.name, "step": i + 1, "scenario": s.Scn}, nil
		}
		var refs map[string]string
		conn := ""
		if useGit {
			if refs, err = gitRefs(cl); err != nil {
				return i, []fDiff{{"refs-unreadable", err.Error()}}, map[string]any{"leg": l.name, "step": i + 1, "scenario": s.Scn}, nil
			}
			conn = gitFsck(cl)
		} else {
			refs, conn = goConnectivity(cl)
		}
		sh := readShallow(cl)
		if ds := compareFetch(st, ids, refs, sh, conn); len(ds) > 0 {
			return i, ds, map[string]any{"leg": l.name, "step": i + 1, "scenario": s.Scn, "expected": map[string]any{"refs": st.Refs, "shallow": st.Shallow},
				"observed": map[string]any{"refs": refs, "shallow": sh, "connectivity": conn}, "ids": srv.ids}, nil
		}
		// a diverged client commits on top of what it fetched first
		if i == 0 && len(s.Steps) == 2 && s.Scn.Prior.Local {
			px := srv.ids[cname(s.Scn.Prior.Px)]
			stream := fmt.Sprintf("commit refs/heads/local\ncommitter L <l@example.com> 1000000500 +0000\ndata 6\nlocal\n\nfrom %s\nM 100644 inline f-local\ndata 6\nlocal\n\n\n", px)
			if _, e, err := gitcli.RunEnv(cl, []byte(stream), []string{"GIT_DIR=" + cl}, "fast-import", "--quiet"); err != nil {
				return i, nil, nil, fmt.Errorf("local commit: %v %s", err, e)
			}
		}
	}
	return 0, nil, nil, nil
}

func c36(args []string) error {
	if len(args) < 2 {
		return fmt.Errorf("usage: c36 scenarios.ndjson <vsrv binary> [bulk] [peer]")
	}
	var scs []*fScn
	if err := rep.ReadNDJSON(args[0], func(b []byte) error {
		var s fScn
		if err := json.Unmarshal(b, &s); err != nil {
			return err
		}
		scs = append(scs, &s)
		return nil
	}); err != nil {
		return err
	}
	bulk, peer := 90, 3
	if rep.Thorough() {
		bulk, peer = 3000, 120
	}
	if len(args) > 2 {
		fmt.Sscan(args[2], &bulk)
	}
	if len(args) > 3 {
		fmt.Sscan(args[3], &peer)
	}
	rnd := rand.New(rand.NewSource(rep.Seed()))
	// the order of the scenario file is the sample order chosen by the check (seeded, stratified; the first
	// `peer` scenarios go through every pairing)
	w := &fWorld{base: gitcli.TempDir("fworld"), servers: map[string]*fServer{}, vsrv: args[1], rnd: rnd}
	defer w.stop()
	if err := w.startDaemon(); err != nil {
		return err
	}
	r := rep.New()
	witness := fLeg{"git->git", "git", "git", 2}
	peers := func() []fLeg {
		return []fLeg{
			{"git->gogit:v0", "git", "gogit-vsrv", 0},
			{"git->gogit:v2", "git", "gogit-vsrv", 2},
			{fmt.Sprintf("gogit->git:v%d", 2*rnd.Intn(2)), "gogit", "git-daemon", 0},
			{fmt.Sprintf("gogit->gogit:v%d", 2*rnd.Intn(2)), "gogit", "gogit-file", 0},
		}
	}
	fix := func(l fLeg) fLeg {
		if strings.HasSuffix(l.name, "v2") {
			l.proto = 2
		}
		return l
	}
	report := func(s *fScn, l fLeg, step int, ds []fDiff, c map[string]any) {
		for _, d := range ds {
			leg := strings.Split(l.name, ":")[0] // the wire version is recorded in the case, not in the signature
			r.Diverge("Fetch|"+leg+"|"+d.class+"|"+s.keyFor(step, d.class), d.what, c)
		}
	}
	legCount := map[string]int{}
	priorCount := map[string]int{}
	specErrs := 0
	for k, s := range scs {
		if k >= bulk {
			break
		}
		priorCount[s.priorKind()]++
		if k < peer {
			// the specification is first checked against git -> git
			step, ds, c, err := w.runLeg(s, witness, true)
			if err != nil {
				return err
			}
			if len(ds) > 0 {
				specErrs++
				r.SpecError(map[string]any{"git->git disagrees": ds[0].class + ": " + ds[0].what, "key": s.key(step), "case": c})
				continue
			}
			legCount[witness.name]++
			for _, l := range peers() {
				l = fix(l)
				step, ds, c, err := w.runLeg(s, l, true)
				if err != nil {
					return err
				}
				legCount[strings.Split(l.name, ":")[0]]++
				r.Eval(1)
				report(s, l, step, ds, c)
			}
			r.Sample(map[string]any{"scenario": s.Scn, "expect": s.Steps[len(s.Steps)-1].Refs})
			continue
		}
		// bulk: go-git client against go-git server in process, observed with go-git
		vers := []int{2 * rnd.Intn(2)}
		if s.Scn.Prior.D1 > 0 {
			vers = []int{0, 2} // a shallow client takes different server paths per wire version: both
		}
		for _, v := range vers {
			l := fix(fLeg{fmt.Sprintf("gogit->gogit:v%d", v), "gogit", "gogit-file", 0})
			step, ds, c, err := w.runLeg(s, l, false)
			if err != nil {
				return err
			}
			legCount["gogit->gogit"]++
			r.Eval(1)
			report(s, l, step, ds, c)
		}
	}
	r.Distinct = r.Evaluations
	r.Traces = r.Evaluations
	r.Extra["legs"] = legCount
	r.Extra["prior_states"] = priorCount
	r.Extra["server_repositories_built"] = len(w.servers)
	r.Extra["scenarios_enumerated"] = len(scs)
	return r.Emit()
}
