package main

import (
	"bytes"
	"fmt"
	"io"
	"strconv"
)

// Minimal pkt-line reader/writer of the harness (deliberately independent of
// go-git's pktline package: it is used to craft requests and to read replies of
// both go-git and git).

func pktLine(payload string) []byte {
	return []byte(fmt.Sprintf("%04x%s", len(payload)+4, payload))
}

const pktFlush = "0000"

type pkt struct {
	Kind    string // "data", "flush", "delim", "end"
	Payload []byte
}

// readPkt reads one pkt-line from r.
func readPkt(r io.Reader) (pkt, error) {
	var h [4]byte
	if _, err := io.ReadFull(r, h[:]); err != nil {
		return pkt{}, err
	}
	n, err := strconv.ParseUint(string(h[:]), 16, 16)
	if err != nil {
		return pkt{}, fmt.Errorf("bad pkt length %q", h[:])
	}
	switch n {
	case 0:
		return pkt{Kind: "flush"}, nil
	case 1:
		return pkt{Kind: "delim"}, nil
	case 2:
		return pkt{Kind: "end"}, nil
	case 3:
		return pkt{}, fmt.Errorf("bad pkt length 3")
	}
	b := make([]byte, n-4)
	if _, err := io.ReadFull(r, b); err != nil {
		return pkt{}, fmt.Errorf("short pkt: %v", err)
	}
	return pkt{Kind: "data", Payload: b}, nil
}

// readSection reads data pkts up to the next flush.
func readSection(r io.Reader) ([][]byte, error) {
	var out [][]byte
	for {
		p, err := readPkt(r)
		if err != nil {
			return out, err
		}
		if p.Kind != "data" {
			return out, nil
		}
		out = append(out, p.Payload)
	}
}

// demuxSideband concatenates band 1 of a side-band stream (up to flush / EOF);
// band 3 is returned as error text.
func demuxSideband(r io.Reader) ([]byte, string, error) {
	var data bytes.Buffer
	var fatal bytes.Buffer
	for {
		p, err := readPkt(r)
		if err == io.EOF {
			return data.Bytes(), fatal.String(), nil
		}
		if err != nil {
			return data.Bytes(), fatal.String(), err
		}
		if p.Kind != "data" {
			return data.Bytes(), fatal.String(), nil
		}
		if len(p.Payload) == 0 {
			continue
		}
		switch p.Payload[0] {
		case 1:
			data.Write(p.Payload[1:])
		case 3:
			fatal.Write(p.Payload[1:])
		}
	}
}
