package main

import (
	"context"
	"encoding/json"
	"errors"
	"fmt"
	"math/rand"
	"os"
	"os/exec"
	"path/filepath"
	"sort"
	"strings"
	"time"

	"verifharness/internal/gitcli"
	"verifharness/internal/rep"

	git "github.com/go-git/go-git/v6"
	"github.com/go-git/go-git/v6/config"
	"github.com/go-git/go-git/v6/plumbing"
)

func init() { rep.Register("c38", c38) }

// ---- scenario format (PushGen.tla) -------------------------------------------

type pItem struct {
	Src   string `json:"src"`
	Dst   string `json:"dst"`
	Force bool   `json:"force"`
}

type pScn struct {
	Scn struct {
		Dag    [][]int `json:"dag"`
		Items  string  `json:"items"`
		Force  bool    `json:"force"`
		Lease  string  `json:"lease"`
		Atomic bool    `json:"atomic"`
		Ra     int     `json:"ra"`
	} `json:"scn"`
	Loc   map[string]int `json:"loc"`
	Rem   map[string]int `json:"rem"`
	Items []pItem        `json:"items"`
	Out   struct {
		Ok           bool           `json:"ok"`
		Denied       []string       `json:"denied"`
		Verdict      []string       `json:"verdict"`
		GitRefs      map[string]int `json:"gitRefs"`
		AllOrNothing map[string]int `json:"allOrNothing"`
	} `json:"out"`
}

// abstract key: the verdict classes of the items plus the options
func (s *pScn) key() string {
	var v []string
	for i, it := range s.Items {
		kind := "head"
		if strings.HasPrefix(it.Dst, "refs/tags/") {
			kind = "tag"
		}
		op := "update"
		switch {
		case it.Src == "":
			op = "delete"
		case s.Rem[it.Dst] == 0:
			op = "create"
		}
		f := ""
		if it.Force {
			f = "+"
		}
		v = append(v, f+kind+"-"+op+":"+s.Out.Verdict[i])
	}
	opts := ""
	if s.Scn.Force {
		opts += ",force"
	}
	if s.Scn.Lease != "none" {
		opts += ",lease-" + s.Scn.Lease
	}
	if s.Scn.Atomic {
		opts += ",atomic"
	}
	return strings.Join(v, "+") + opts
}

// itemKey: spec-level class of the item that writes dst
func (s *pScn) itemKey(dst string) string {
	for i, it := range s.Items {
		if it.Dst != dst {
			continue
		}
		kind := "head"
		if strings.HasPrefix(it.Dst, "refs/tags/") {
			kind = "tag"
		}
		op := "update"
		switch {
		case it.Src == "":
			op = "delete"
		case s.Rem[it.Dst] == 0:
			op = "create"
		}
		f := ""
		if it.Force || s.Scn.Force {
			f = "forced-"
		}
		k := f + kind + "-" + op + ":" + s.Out.Verdict[i]
		if s.Scn.Lease != "none" && dst == "refs/heads/a" {
			k += ",lease-" + s.Scn.Lease
		}
		return k
	}
	return "untouched-ref"
}

func pRepoSpec(dag [][]int, refs map[string]int) *repoSpec {
	all := dagCommits(dag)
	rs := &repoSpec{Refs: map[string]string{}, Head: "refs/heads/unborn"}
	var tips []string
	for n, v := range refs {
		if v != 0 {
			rs.Refs[n] = cname(v)
			tips = append(tips, cname(v))
		}
	}
	sort.Strings(tips)
	rs.Commits = closeCommits(all, tips)
	return rs
}

type pWorld struct {
	fWorld
	tmpl map[string]string // cache: repo key -> template dir
	ids  map[string]map[string]string
}

// repo returns a fresh copy of the repository (dag, refs) at dst.
func (w *pWorld) repo(dag [][]int, refs map[string]int, dst string) (map[string]string, error) {
	kb, _ := json.Marshal([]any{dag, refs})
	k := string(kb)
	if _, ok := w.tmpl[k]; !ok {
		d := filepath.Join(w.base, fmt.Sprintf("tmpl%d.git", len(w.tmpl)))
		ids, err := buildRepo(d, pRepoSpec(dag, refs))
		if err != nil {
			return nil, err
		}
		w.tmpl[k] = d
		w.ids[k] = ids
	}
	return w.ids[k], copyDir(w.tmpl[k], dst)
}

// allIDs: ids of every commit of the dag (for leases naming commits neither side has referenced)
func (w *pWorld) allIDs(dag [][]int) (map[string]string, error) {
	refs := map[string]int{}
	for i := range dag {
		refs[fmt.Sprintf("refs/heads/x%d", i+1)] = i + 1
	}
	kb, _ := json.Marshal([]any{dag, refs})
	k := string(kb)
	if _, ok := w.tmpl[k]; !ok {
		d := filepath.Join(w.base, fmt.Sprintf("tmpl%d.git", len(w.tmpl)))
		ids, err := buildRepo(d, pRepoSpec(dag, refs))
		if err != nil {
			return nil, err
		}
		w.tmpl[k] = d
		w.ids[k] = ids
	}
	return w.ids[k], nil
}

type pLeg struct {
	name   string
	client string // git | gogit
	server string // git | gogit-vsrv | gogit-file | git-daemon
}

func refspecStr(it pItem) string {
	s := it.Src + ":" + it.Dst
	if it.Force {
		s = "+" + s
	}
	return s
}

// staleCommit: a commit different from the remote's current value of refs/heads/a
func staleCommit(s *pScn) int {
	for c := 1; c <= len(s.Scn.Dag); c++ {
		if c != s.Rem["refs/heads/a"] {
			return c
		}
	}
	return 1
}

// doPush returns "ok" | "rejected" | "error:<class>" and the message.
func (w *pWorld) doPush(l pLeg, s *pScn, cl, url string, ids map[string]string) (string, string) {
	leaseHex := ""
	switch s.Scn.Lease {
	case "ok":
		leaseHex = ids[cname(s.Rem["refs/heads/a"])]
	case "stale":
		leaseHex = ids[cname(staleCommit(s))]
	}
	if l.client == "git" {
		args := []string{"push", "-q"}
		if l.server == "gogit-vsrv" {
			args = append(args, "--receive-pack='"+w.vsrv+"' receive-pack")
		}
		if s.Scn.Force {
			args = append(args, "--force")
		}
		if s.Scn.Atomic {
			args = append(args, "--atomic")
		}
		if leaseHex != "" {
			args = append(args, "--force-with-lease=refs/heads/a:"+leaseHex)
		}
		args = append(args, url)
		for _, it := range s.Items {
			args = append(args, refspecStr(it))
		}
		ctx, cancel := context.WithTimeout(context.Background(), opTimeout)
		defer cancel()
		c := exec.CommandContext(ctx, "git", args...)
		c.Dir = cl
		c.Env = append(gitcli.Env(), "GIT_DIR="+cl)
		out, err := c.CombinedOutput()
		if ctx.Err() != nil {
			return "error:timeout", "git push did not terminate"
		}
		if err != nil {
			o := string(out)
			if strings.Contains(o, "[rejected]") || strings.Contains(o, "! [remote rejected]") || strings.Contains(o, "failed to push some refs") {
				return "rejected", strings.TrimSpace(o)
			}
			return "error:other", strings.TrimSpace(o)
		}
		return "ok", ""
	}
	repo, err := git.PlainOpen(cl)
	if err != nil {
		return "error:open", err.Error()
	}
	if st, ok := repo.Storer.(interface{ Close() error }); ok {
		defer st.Close()
	}
	po := &git.PushOptions{RemoteName: "origin", RemoteURL: url, Force: s.Scn.Force, Atomic: s.Scn.Atomic}
	for _, it := range s.Items {
		po.RefSpecs = append(po.RefSpecs, config.RefSpec(refspecStr(it)))
	}
	if leaseHex != "" {
		po.ForceWithLease = &git.ForceWithLease{RefName: "refs/heads/a", Hash: plumbing.NewHash(leaseHex)}
	}
	ctx, cancel := context.WithTimeout(context.Background(), opTimeout)
	defer cancel()
	done := make(chan error, 1)
	go func() { done <- repo.PushContext(ctx, po) }()
	select {
	case err = <-done:
	case <-time.After(opTimeout + 10*time.Second):
		return "error:timeout", "go-git Push did not return"
	}
	if err == nil || errors.Is(err, git.NoErrAlreadyUpToDate) {
		return "ok", ""
	}
	return "rejected", err.Error()
}

func (w *pWorld) runPushLeg(s *pScn, l pLeg, useGit bool) ([]fDiff, map[string]any, bool, error) {
	ds, c, ab, err := w.runPushLeg1(s, l, useGit)
	if err == nil && len(ds) > 0 && strings.HasPrefix(ds[0].class, "client-error:timeout") {
		old := opTimeout
		opTimeout = 10 * old // a verdict must not depend on machine load: only a second overrun counts
		ds, c, ab, err = w.runPushLeg1(s, l, useGit)
		opTimeout = old
	}
	return ds, c, ab, err
}

func (w *pWorld) runPushLeg1(s *pScn, l pLeg, useGit bool) ([]fDiff, map[string]any, bool, error) {
	base := gitcli.TempDir("push")
	defer os.RemoveAll(base)
	// the daemon serves w.base: remote repositories of daemon legs live there
	remDir := filepath.Join(base, "remote.git")
	if l.server == "git-daemon" {
		d, err := os.MkdirTemp(w.base, "rem")
		if err != nil {
			return nil, nil, false, err
		}
		defer os.RemoveAll(d)
		remDir = filepath.Join(d, "remote.git")
	}
	ids, err := w.allIDs(s.Scn.Dag)
	if err != nil {
		return nil, nil, false, err
	}
	if _, err := w.repo(s.Scn.Dag, s.Rem, remDir); err != nil {
		return nil, nil, false, err
	}
	cl := filepath.Join(base, "local.git")
	if _, err := w.repo(s.Scn.Dag, s.Loc, cl); err != nil {
		return nil, nil, false, err
	}
	// remote-tracking view of the client (as after a fetch): needed by go-git's lease check
	track := map[string]string{}
	for n, v := range s.Rem {
		if v != 0 && strings.HasPrefix(n, "refs/heads/") {
			track["refs/remotes/origin/"+strings.TrimPrefix(n, "refs/heads/")] = cname(v)
		}
	}
	// the reference was deleted on the remote meanwhile: the client still tracks the value it
	// last saw, which is what the lease expects
	if s.Scn.Lease == "stale" && s.Rem["refs/heads/a"] == 0 {
		track["refs/remotes/origin/a"] = cname(staleCommit(s))
	}
	// tracking refs may name commits the client does not have: only write those it has
	have := map[string]bool{}
	for _, c := range pRepoSpec(s.Scn.Dag, s.Loc).Commits {
		have[c.ID] = true
	}
	for n, v := range track {
		if !have[v] {
			delete(track, n)
		}
	}
	if err := writeLooseRefs(cl, track, ids); err != nil {
		return nil, nil, false, err
	}
	cfg := "[gc]\n\tauto = 0\n[remote \"origin\"]\n\turl = /nonexistent\n\tfetch = +refs/heads/*:refs/remotes/origin/*\n"
	f, err := os.OpenFile(filepath.Join(cl, "config"), os.O_APPEND|os.O_WRONLY, 0o644)
	if err != nil {
		return nil, nil, false, err
	}
	f.WriteString(cfg)
	f.Close()
	fl := fLeg{server: l.server}
	url := w.urlFor(fl, remDir)
	if l.server == "git-daemon" {
		rel, _ := filepath.Rel(w.base, remDir)
		url = fmt.Sprintf("git://127.0.0.1:%d/%s", w.port, filepath.ToSlash(rel))
	}
	status, msg := w.doPush(l, s, cl, url, ids)
	c := map[string]any{"leg": l.name, "scenario": s.Scn, "local": s.Loc, "remote": s.Rem, "items": s.Items, "expected": s.Out, "status": status, "message": msg}
	if strings.HasPrefix(status, "error:") {
		return []fDiff{{"client-" + status + "|" + s.itemKey(s.Items[0].Dst), msg}}, c, false, nil
	}
	var gr map[string]string
	conn := ""
	if useGit {
		gr, err = gitRefs(remDir)
		if err == nil {
			conn = gitFsck(remDir)
		}
	} else {
		gr, conn = goConnectivity(remDir)
		if gr == nil {
			err = errors.New(conn)
		}
	}
	if err != nil {
		return []fDiff{{"remote-refs-unreadable|after-push", err.Error()}}, c, false, nil
	}
	sym := map[string]string{}
	for k, v := range ids {
		sym[v] = k
	}
	obs := map[string]int{}
	for n := range s.Rem {
		obs[n] = 0
		if hx, ok := gr[n]; ok {
			var cnum int
			if _, err := fmt.Sscanf(sym[hx], "c%d", &cnum); err != nil {
				cnum = -1
			}
			obs[n] = cnum
		}
	}
	c["observed_remote"] = obs
	eq := func(a map[string]int) bool {
		for n := range s.Rem {
			if a[n] != obs[n] {
				return false
			}
		}
		return true
	}
	var ds []fDiff
	aborted := false
	for n := range gr {
		if _, ok := s.Rem[n]; !ok {
			ds = append(ds, fDiff{"remote-ref-extra|other-name", "unexpected remote reference " + n})
		}
	}
	denied := map[string]bool{}
	for _, n := range s.Out.Denied {
		denied[n] = true
	}
	switch {
	case eq(s.Out.GitRefs):
	case l.client == "gogit" && !s.Out.Ok && eq(s.Out.AllOrNothing):
		aborted = true // admitted: the failed push changed nothing at all (git applies the allowed items)
	default:
		// classify the first offending reference
		names := make([]string, 0)
		for n := range s.Rem {
			names = append(names, n)
		}
		sort.Strings(names)
		for _, n := range names {
			if obs[n] == s.Out.GitRefs[n] {
				continue
			}
			cls := "remote-ref-wrong"
			switch {
			case denied[n] && obs[n] != s.Rem[n]:
				cls = "denied-update-applied"
			case !denied[n] && obs[n] == s.Rem[n]:
				cls = "allowed-update-not-applied"
			}
			if cls == "allowed-update-not-applied" && status != "ok" {
				cls = "partial-push" // a failed push that applied some but not all allowed items and is not all-or-nothing
			}
			ds = append(ds, fDiff{cls + "|" + s.itemKey(n), fmt.Sprintf("remote %s = c%d afterwards, specification says c%d (was c%d)", n, obs[n], s.Out.GitRefs[n], s.Rem[n])})
			break
		}
	}
	refusedValid := false
	if s.Out.Ok && status != "ok" {
		// refusing an allowed push is outside C38 (which constrains successful pushes and forbidden updates)
		// as long as nothing was changed; it is counted, not reported
		if eq(s.Rem) {
			refusedValid = true
			ds = nil
		} else {
			ds = append(ds, fDiff{"client-failed-but-remote-changed|" + s.itemKey(s.Items[0].Dst), "the client reported failure but the remote changed: " + msg})
		}
	}
	if !s.Out.Ok && status == "ok" {
		ds = append(ds, fDiff{"client-reported-success-for-denied|" + s.itemKey(s.Out.Denied[0]), "the client reported success although an item must be denied"})
	}
	c["refused_valid_push"] = refusedValid
	if conn != "" {
		ds = append(ds, fDiff{"remote-not-connected|" + s.itemKey(s.Items[0].Dst), conn})
	}
	return ds, c, aborted, nil
}

func c38(args []string) error {
	if len(args) < 2 {
		return fmt.Errorf("usage: c38 scenarios.ndjson <vsrv binary> [n]")
	}
	var scs []*pScn
	if err := rep.ReadNDJSON(args[0], func(b []byte) error {
		var s pScn
		if err := json.Unmarshal(b, &s); err != nil {
			return err
		}
		scs = append(scs, &s)
		return nil
	}); err != nil {
		return err
	}
	n, bulk := 6, 200
	if rep.Thorough() {
		n, bulk = 150, 3000
	}
	if len(args) > 2 {
		fmt.Sscan(args[2], &n)
	}
	if len(args) > 3 {
		fmt.Sscan(args[3], &bulk)
	}
	rnd := rand.New(rand.NewSource(rep.Seed()))
	w := &pWorld{fWorld: fWorld{base: gitcli.TempDir("pworld"), servers: map[string]*fServer{}, vsrv: args[1], rnd: rnd}, tmpl: map[string]string{}, ids: map[string]map[string]string{}}
	defer w.stop()
	if err := w.startDaemon(); err != nil {
		return err
	}
	r := rep.New()
	legs := []pLeg{
		{"git->gogit", "git", "gogit-vsrv"},
		{"gogit->git", "gogit", "git-daemon"},
		{"gogit->gogit", "gogit", "gogit-file"},
	}
	legCount := map[string]int{}
	abortedWhole, atomicSkipped, refusedValid := 0, 0, 0
	keys := map[string]int{}
	for k, s := range scs {
		if k >= n+bulk {
			break
		}
		keys[s.key()]++
		if k >= n {
			// bulk: go-git client against go-git server in process, observed with go-git (the spec was
			// confirmed by git on the first n scenarios, which cover the verdict keys round-robin)
			l := legs[2]
			ds, c, aborted, err := w.runPushLeg(s, l, false)
			if err != nil {
				return err
			}
			legCount[l.name]++
			r.Eval(1)
			if aborted {
				abortedWhole++
			}
			if c["refused_valid_push"] == true {
				refusedValid++
			}
			for _, d := range ds {
				r.Diverge("Push|"+l.name+"|"+d.class, d.what, c)
			}
			continue
		}
		ds, c, _, err := w.runPushLeg(s, pLeg{"git->git", "git", "git"}, true)
		if err != nil {
			return err
		}
		if len(ds) > 0 {
			r.SpecError(map[string]any{"git->git disagrees": ds[0].class + ": " + ds[0].what, "key": s.key(), "case": c})
			continue
		}
		legCount["git->git"]++
		for _, l := range legs {
			if l.name == "git->gogit" && s.Scn.Atomic {
				// go-git's receive-pack does not advertise `atomic`; git refuses to start such a push
				atomicSkipped++
				continue
			}
			ds, c, aborted, err := w.runPushLeg(s, l, true)
			if err != nil {
				return err
			}
			legCount[l.name]++
			r.Eval(1)
			if aborted {
				abortedWhole++
			}
			for _, d := range ds {
				r.Diverge("Push|"+l.name+"|"+d.class, d.what, c)
			}
		}
		r.Sample(map[string]any{"scenario": s.Scn, "items": s.Items, "expect": s.Out})
	}
	r.Distinct = r.Evaluations
	r.Traces = r.Evaluations
	r.Extra["legs"] = legCount
	r.Extra["gogit_client_aborted_whole_push_where_git_applies_allowed_items"] = abortedWhole
	r.Extra["gogit_client_refused_an_allowed_push_remote_unchanged"] = refusedValid
	r.Extra["atomic_scenarios_skipped_on_git_to_gogit"] = atomicSkipped
	r.Extra["scenario_keys_covered"] = len(keys)
	r.Extra["scenarios_enumerated"] = len(scs)
	return r.Emit()
}
