package main

import (
	"bytes"
	"context"
	"encoding/json"
	"fmt"
	"io"
	"math/rand"
	"os"
	"path/filepath"
	"sort"
	"strings"

	"verifharness/internal/fsutil"
	"verifharness/internal/gitcli"
	"verifharness/internal/rep"

	"github.com/go-git/go-billy/v6"
	"github.com/go-git/go-billy/v6/osfs"
	"github.com/go-git/go-git/v6/plumbing"
	"github.com/go-git/go-git/v6/plumbing/storer"
	"github.com/go-git/go-git/v6/plumbing/transport"
	"github.com/go-git/go-git/v6/storage"
	"github.com/go-git/go-git/v6/storage/filesystem"
	"github.com/go-git/go-git/v6/storage/memory"
)

func init() { rep.Register("c39", c39) }

// ---- scenario format (RecvPackGen.tla / RecvPackConc.tla) -------------------

type rpCmd struct {
	Name string `json:"name"`
	Old  string `json:"old"`
	New  string `json:"new"`
}

type rpStatus struct {
	Name   string `json:"name"`
	Status string `json:"status"`
	Why    string `json:"why"`
	Kind   string `json:"kind"`
}

type rpStep struct {
	Cmds   []rpCmd           `json:"cmds"`
	Report []rpStatus        `json:"report"`
	Unpack string            `json:"unpack"`
	Refs   map[string]string `json:"refs"`
	Pack   bool              `json:"pack"`
}

type rpInit struct {
	Refs map[string]string `json:"refs"`
	Objs []string          `json:"objs"`
}

type rpHist struct {
	Init  rpInit   `json:"init"`
	Steps []rpStep `json:"steps"`
}

type rpOutcome struct {
	Refs map[string]string `json:"refs"`
	Rep1 []string          `json:"rep1"`
	Rep2 []string          `json:"rep2"`
}

type rpConc struct {
	Init    rpInit      `json:"init"`
	C1      []rpCmd     `json:"c1"`
	C2      []rpCmd     `json:"c2"`
	Allowed []rpOutcome `json:"allowed"`
	Pack    []bool      `json:"pack"`
	Kinds   [][]string  `json:"kinds"`
}

// ---- world ---------------------------------------------------------------

type rpWorld struct {
	ids    map[string]string // symbol -> hex id (c1 c2 c3 cx)
	sym    map[string]string // hex -> symbol
	pack   []byte            // pack with c3 (and its tree/blob), as git sends it for "c3 ^c2"
	tmpl   *fsutil.Tree      // bare server holding c1, c2
	tmplOb []plumbing.EncodedObject
}

const zeroHex = "0000000000000000000000000000000000000000"

func (w *rpWorld) hex(s string) string {
	if s == "none" {
		return zeroHex
	}
	h, ok := w.ids[s]
	if !ok {
		panic("unknown object symbol " + s)
	}
	return h
}

func (w *rpWorld) symOf(hex string) string {
	if s, ok := w.sym[hex]; ok {
		return s
	}
	return "hash:" + hex
}

func buildRPWorld() (*rpWorld, error) {
	base := gitcli.TempDir("rpworld")
	all := []commitSpec{{ID: "c1"}, {ID: "c2", Parents: []string{"c1"}}, {ID: "c3", Parents: []string{"c2"}}, {ID: "cx", Parents: []string{"c1"}}}
	seed := filepath.Join(base, "seed.git")
	ids, err := buildRepo(seed, &repoSpec{Commits: all, Refs: map[string]string{"refs/heads/c3": "c3", "refs/heads/cx": "cx"}})
	if err != nil {
		return nil, err
	}
	w := &rpWorld{ids: ids, sym: map[string]string{}}
	for s, h := range ids {
		w.sym[h] = s
	}
	out, e, err := gitcli.Run(seed, []byte(ids["c3"]+"\n^"+ids["c2"]+"\n"), "pack-objects", "--revs", "--stdout", "-q")
	if err != nil {
		return nil, fmt.Errorf("pack-objects: %v %s", err, e)
	}
	w.pack = []byte(out)
	srv := filepath.Join(base, "srv.git")
	sids, err := buildRepo(srv, &repoSpec{Commits: closeCommits(all, []string{"c2"}), Head: "refs/heads/unborn"})
	if err != nil {
		return nil, err
	}
	for _, s := range []string{"c1", "c2"} {
		if sids[s] != ids[s] {
			return nil, fmt.Errorf("object ids are not reproducible: %s", s)
		}
	}
	// no background gc / hooks in the witness runs
	cfgp := filepath.Join(srv, "config")
	cb, _ := os.ReadFile(cfgp)
	os.WriteFile(cfgp, append(cb, []byte("[receive]\n\tautogc = false\n[gc]\n\tauto = 0\n")...), 0o644)
	if w.tmpl, err = fsutil.SnapshotOS(srv); err != nil {
		return nil, err
	}
	mf, err := w.tmpl.Mem()
	if err != nil {
		return nil, err
	}
	st := filesystem.NewStorage(mf, nil)
	it, err := st.IterEncodedObjects(plumbing.AnyObject)
	if err != nil {
		return nil, err
	}
	err = it.ForEach(func(o plumbing.EncodedObject) error {
		m := &plumbing.MemoryObject{}
		m.SetType(o.Type())
		rd, err := o.Reader()
		if err != nil {
			return err
		}
		b, err := io.ReadAll(rd)
		rd.Close()
		if err != nil {
			return err
		}
		m.Write(b)
		w.tmplOb = append(w.tmplOb, m)
		return nil
	})
	st.Close()
	if err != nil {
		return nil, err
	}
	if len(w.tmplOb) < 6 {
		return nil, fmt.Errorf("server template has only %d objects", len(w.tmplOb))
	}
	return w, nil
}

// ---- servers -----------------------------------------------------------------

type rpServer struct {
	name    string
	st      storage.Storer // shared instance
	open    func() storage.Storer
	dir     string // osfs only
	cleanup func()
}

func (w *rpWorld) newServer(kind string, init rpInit) (*rpServer, error) {
	if len(init.Objs) != 2 {
		return nil, fmt.Errorf("the server template holds c1,c2; spec asked for %v", init.Objs)
	}
	s := &rpServer{name: kind, cleanup: func() {}}
	switch kind {
	case "memory":
		m := memory.NewStorage()
		for _, o := range w.tmplOb {
			if _, err := m.SetEncodedObject(o); err != nil {
				return nil, err
			}
		}
		s.st = m
		s.open = func() storage.Storer { return m }
	case "fs-memfs", "fs-osfs":
		var f billy.Filesystem
		if kind == "fs-osfs" {
			d := gitcli.TempDir("rpsrv")
			s.dir = d
			f = osfs.New(d)
			if err := w.tmpl.Materialise(f); err != nil {
				return nil, err
			}
			s.cleanup = func() { os.RemoveAll(d) }
		} else {
			var err error
			if f, err = w.tmpl.Mem(); err != nil {
				return nil, err
			}
		}
		var opened []*filesystem.Storage
		s.open = func() storage.Storer {
			st := filesystem.NewStorage(f, nil)
			opened = append(opened, st)
			return st
		}
		s.st = s.open()
		c := s.cleanup
		s.cleanup = func() {
			for _, st := range opened {
				st.Close()
			}
			c()
		}
	default:
		return nil, fmt.Errorf("unknown backend %s", kind)
	}
	for n, v := range init.Refs {
		if v == "none" {
			continue
		}
		if err := s.st.SetReference(plumbing.NewHashReference(plumbing.ReferenceName(n), plumbing.NewHash(w.hex(v)))); err != nil {
			return nil, err
		}
	}
	return s, nil
}

// refsOf: abstract view of the references under refs/ and whether each target exists.
func (w *rpWorld) refsOf(st storage.Storer, names []string) (map[string]string, []string, error) {
	view := map[string]string{}
	for _, n := range names {
		view[n] = "none"
	}
	var dangling []string
	it, err := st.IterReferences()
	if err != nil {
		return nil, nil, err
	}
	err = it.ForEach(func(r *plumbing.Reference) error {
		if r.Name() == plumbing.HEAD {
			return nil
		}
		if r.Type() != plumbing.HashReference {
			view[r.Name().String()] = "sym:" + r.Target().String()
			return nil
		}
		view[r.Name().String()] = w.symOf(r.Hash().String())
		if st.HasEncodedObject(r.Hash()) != nil {
			dangling = append(dangling, r.Name().String())
		}
		return nil
	})
	sort.Strings(dangling)
	return view, dangling, err
}

// ---- wire ----------------------------------------------------------------------

func (w *rpWorld) request(cmds []rpCmd, pack bool, caps string) []byte {
	var b bytes.Buffer
	for i, c := range cmds {
		l := w.hex(c.Old) + " " + w.hex(c.New) + " " + c.Name
		if i == 0 {
			l += "\x00" + caps
		}
		b.Write(pktLine(l + "\n"))
	}
	b.WriteString(pktFlush)
	if pack {
		b.Write(w.pack)
	}
	return b.Bytes()
}

type rpReport struct {
	Unpack   string
	Statuses [][2]string // name, "ok"/"ng"
	Reasons  []string
	Problem  string // the reply could not be read as a report-status
}

// parseReply reads (optional advertisement,) report-status from a receive-pack reply.
func parseReply(out []byte, advertised, sideband bool) rpReport {
	r := bytes.NewReader(out)
	if advertised {
		if _, err := readSection(r); err != nil {
			return rpReport{Problem: "no-advertisement"}
		}
	}
	var body io.Reader = r
	if sideband {
		d, fatal, err := demuxSideband(r)
		if err != nil {
			return rpReport{Problem: "bad-sideband"}
		}
		if fatal != "" {
			return rpReport{Problem: "sideband-fatal"}
		}
		body = bytes.NewReader(d)
	}
	lines, err := readSection(body)
	if err != nil && len(lines) == 0 {
		return rpReport{Problem: "no-report"}
	}
	if err != nil {
		return rpReport{Problem: "report-not-terminated"}
	}
	var rp rpReport
	for i, l := range lines {
		s := strings.TrimSuffix(string(l), "\n")
		switch {
		case i == 0 && strings.HasPrefix(s, "unpack "):
			rp.Unpack = s[7:]
		case i > 0 && strings.HasPrefix(s, "ok "):
			rp.Statuses = append(rp.Statuses, [2]string{s[3:], "ok"})
			rp.Reasons = append(rp.Reasons, "")
		case i > 0 && strings.HasPrefix(s, "ng "):
			f := strings.SplitN(s[3:], " ", 2)
			rp.Statuses = append(rp.Statuses, [2]string{f[0], "ng"})
			if len(f) > 1 {
				rp.Reasons = append(rp.Reasons, f[1])
			} else {
				rp.Reasons = append(rp.Reasons, "")
			}
		default:
			rp.Problem = "malformed-report-line"
		}
	}
	return rp
}

type nopWC struct{ io.Writer }

func (nopWC) Close() error { return nil }

func goReceivePack(st storage.Storer, req []byte, stateless bool) []byte {
	var out bytes.Buffer
	// the returned error repeats a refused command; the wire reply is the observation
	_ = transport.ReceivePack(context.Background(), st, io.NopCloser(bytes.NewReader(req)), nopWC{&out},
		&transport.ReceivePackRequest{StatelessRPC: stateless})
	return out.Bytes()
}

// ---- comparison with the specification ---------------------------------------

type rpDiff struct {
	class string // divergence class
	key   string // abstract scenario key (kind:why of the command concerned)
	what  string
}

func hasDupNames(cmds []rpCmd) bool {
	seen := map[string]bool{}
	for _, c := range cmds {
		if seen[c.Name] {
			return true
		}
		seen[c.Name] = true
	}
	return false
}

// compareStep compares one observed (report, refs) with the step the spec computed.
func compareStep(st rpStep, rp rpReport, refs map[string]string, dangling []string, names []string) []rpDiff {
	var ds []rpDiff
	firstNG := "all-ok"
	for _, s := range st.Report {
		if s.Status == "ng" {
			firstNG = s.Kind + ":" + s.Why
			break
		}
	}
	if rp.Problem != "" {
		return []rpDiff{{"report-unreadable:" + rp.Problem, firstNG, "the reply is not a report-status: " + rp.Problem}}
	}
	if rp.Unpack != st.Unpack {
		ds = append(ds, rpDiff{"unpack-status", "command-refused", fmt.Sprintf("unpack status is %q, specification says %q (the pack was unpacked)", rp.Unpack, st.Unpack)})
	}
	// report: one status per command, in order
	switch {
	case len(rp.Statuses) != len(st.Report):
		key := fmt.Sprintf("cmds=%d", len(st.Report))
		if hasDupNames(st.Cmds) {
			key = "dup-name"
		}
		ds = append(ds, rpDiff{"report-count", key, fmt.Sprintf("%d statuses reported for %d commands", len(rp.Statuses), len(st.Report))})
	default:
		sameOrder := true
		for k := range st.Report {
			if rp.Statuses[k][0] != st.Report[k].Name {
				sameOrder = false
			}
		}
		got := rp.Statuses
		if !sameOrder {
			// match by name (stable) to judge the statuses themselves
			a := append([][2]string{}, rp.Statuses...)
			got = make([][2]string, 0, len(a))
			okMatch := true
			for _, s := range st.Report {
				found := -1
				for i, x := range a {
					if x[0] == s.Name {
						found = i
						break
					}
				}
				if found < 0 {
					okMatch = false
					break
				}
				got = append(got, a[found])
				a = append(a[:found], a[found+1:]...)
			}
			if !okMatch {
				ds = append(ds, rpDiff{"report-names", firstNG, "reported names are not the command names"})
				got = nil
			} else {
				ds = append(ds, rpDiff{"report-order", fmt.Sprintf("cmds=%d", len(st.Report)), "statuses are not in command order"})
			}
		}
		for k := range got {
			if got[k][1] != st.Report[k].Status {
				s := st.Report[k]
				cls := "reported-ok-for-refused"
				if s.Status == "ok" {
					cls = "reported-ng-for-applied"
				}
				ds = append(ds, rpDiff{cls, s.Kind + ":" + s.Why, fmt.Sprintf("command %d (%s %s) reported %s, specification says %s (%s)", k+1, s.Kind, s.Name, got[k][1], s.Status, s.Why)})
				break
			}
		}
	}
	// references afterwards
	count := map[string]int{}
	for _, c := range st.Cmds {
		count[c.Name]++
	}
	isDangling := map[string]bool{}
	for _, n := range dangling {
		isDangling[n] = true
	}
	for _, n := range names {
		if refs[n] == st.Refs[n] || isDangling[n] {
			continue
		}
		key, cls := "", "ref-not-updated"
		for _, s := range st.Report {
			if s.Name == n && s.Status == "ng" {
				key, cls = s.Kind+":"+s.Why, "applied-refused"
				break
			}
		}
		if key == "" {
			for _, s := range st.Report {
				if s.Name == n {
					key = s.Kind + ":" + s.Why
					break
				}
			}
		}
		if key == "" {
			key, cls = "untouched-name", "ref-changed"
		}
		if count[n] > 1 {
			key = "dup-name"
		}
		ds = append(ds, rpDiff{cls, key, fmt.Sprintf("%s is %s afterwards, specification says %s", n, refs[n], st.Refs[n])})
		break
	}
	for n := range refs {
		if _, ok := st.Refs[n]; !ok {
			ds = append(ds, rpDiff{"ref-changed", "unexpected-name", "unexpected reference " + n})
			break
		}
	}
	if len(dangling) > 0 {
		n := dangling[0]
		key := "untouched-name"
		for _, s := range st.Report {
			if s.Name == n {
				key = s.Kind
			}
		}
		if count[n] > 1 {
			key = "dup-name"
		}
		ds = append(ds, rpDiff{"dangling-ref", key, fmt.Sprintf("%s points to %s, an object the repository does not have (specification: %s)", n, refs[n], st.Refs[n])})
	}
	return ds
}

// ---- git as second witness ---------------------------------------------------

func (w *rpWorld) gitReplay(h *rpHist, names []string, sideband bool) (string, error) {
	d := gitcli.TempDir("rpgit")
	defer os.RemoveAll(d)
	if err := w.tmpl.Materialise(osfs.New(d)); err != nil {
		return "", err
	}
	if err := writeLooseRefs(d, h.Init.Refs, w.ids); err != nil {
		return "", err
	}
	caps := "report-status"
	if sideband {
		caps += " side-band-64k"
	}
	for i, st := range h.Steps {
		out, _, _ := gitcli.Run(d, w.request(st.Cmds, st.Pack, caps), "receive-pack", d)
		rp := parseReply([]byte(out), true, sideband)
		gr, err := gitRefs(d)
		if err != nil {
			return "", err
		}
		view := map[string]string{}
		for _, n := range names {
			view[n] = "none"
		}
		for n, hx := range gr {
			view[n] = w.symOf(hx)
		}
		if ds := compareStep(st, rp, view, nil, names); len(ds) > 0 {
			return fmt.Sprintf("push %d: %s|%s: %s", i+1, ds[0].class, ds[0].key, ds[0].what), nil
		}
	}
	return "", nil
}

// ---- sequential replay --------------------------------------------------------

func namesOf(m map[string]string) []string {
	var ns []string
	for n := range m {
		ns = append(ns, n)
	}
	sort.Strings(ns)
	return ns
}

func (w *rpWorld) replay(r *rep.Report, h *rpHist, backend string, stateless, sideband bool) (*rpServer, bool) {
	names := namesOf(h.Init.Refs)
	srv, err := w.newServer(backend, h.Init)
	if err != nil {
		panic(err)
	}
	caps := "report-status"
	if sideband {
		caps += " side-band-64k"
	}
	for i, st := range h.Steps {
		out := goReceivePack(srv.st, w.request(st.Cmds, st.Pack, caps), stateless)
		rp := parseReply(out, !stateless, sideband)
		refs, dangling, err := w.refsOf(srv.st, names)
		var ds []rpDiff
		if err != nil {
			ds = []rpDiff{{"refs-unreadable", "after-push", "IterReferences failed: " + err.Error()}}
		} else {
			ds = compareStep(st, rp, refs, dangling, names)
		}
		if len(ds) > 0 {
			c := map[string]any{"backend": backend, "stateless": stateless, "sideband": sideband, "init": h.Init, "steps": h.Steps[:i+1],
				"observed": map[string]any{"unpack": rp.Unpack, "statuses": rp.Statuses, "refs": refs, "dangling": dangling}}
			for _, d := range ds {
				r.Diverge("ReceivePack|"+d.class+"|"+d.key, d.what, c)
			}
			return srv, false
		}
	}
	return srv, true
}

func c39(args []string) error {
	if len(args) < 1 {
		return fmt.Errorf("usage: c39 hist.ndjson [conc.ndjson]")
	}
	var hs []*rpHist
	if err := rep.ReadNDJSON(args[0], func(b []byte) error {
		var h rpHist
		if err := json.Unmarshal(b, &h); err != nil {
			return err
		}
		hs = append(hs, &h)
		return nil
	}); err != nil {
		return err
	}
	if !gitcli.Available() {
		return fmt.Errorf("git is needed to build the object world")
	}
	w, err := buildRPWorld()
	if err != nil {
		return err
	}
	r := rep.New()
	rnd := rand.New(rand.NewSource(rep.Seed()))
	gitBudget := 60
	if rep.Thorough() {
		gitBudget = 300
	}
	if v := os.Getenv("VERIF_C39_GIT"); v != "" {
		fmt.Sscan(v, &gitBudget)
	}
	pGit := float64(gitBudget) / float64(len(hs)+1)
	distinct := map[string]bool{}
	gitRuns, osRuns := 0, 0
	covered := map[string]int{}
	for _, h := range hs {
		kb, _ := json.Marshal(h)
		distinct[string(kb)] = true
		for _, st := range h.Steps {
			for _, s := range st.Report {
				covered[s.Kind+":"+s.Why]++
			}
		}
		for _, be := range []string{"memory", "fs-memfs"} {
			stateless := rnd.Intn(2) == 0
			sideband := rnd.Intn(4) == 0
			srv, _ := w.replay(r, h, be, stateless, sideband)
			srv.cleanup()
			r.Eval(1)
		}
		if rnd.Float64() < pGit {
			names := namesOf(h.Init.Refs)
			sideband := rnd.Intn(4) == 0
			// spec vs git
			msg, err := w.gitReplay(h, names, sideband)
			if err != nil {
				return err
			}
			gitRuns++
			if msg != "" {
				r.SpecError(map[string]any{"git-disagrees": msg, "init": h.Init, "steps": h.Steps})
			}
			// go-git on a real directory, observed by git
			srv, ok := w.replay(r, h, "fs-osfs", rnd.Intn(2) == 0, sideband)
			r.Eval(1)
			if ok {
				osRuns++
				gr, err := gitRefs(srv.dir)
				want := h.Init.Refs
				if len(h.Steps) > 0 {
					want = h.Steps[len(h.Steps)-1].Refs
				}
				c := map[string]any{"backend": "fs-osfs+git", "init": h.Init, "steps": h.Steps}
				if err != nil {
					r.Diverge("ReceivePack|git-view|unreadable", "git cannot list the references after go-git's receive-pack: "+err.Error(), c)
				} else {
					for _, n := range names {
						got := "none"
						if hx, ok := gr[n]; ok {
							got = w.symOf(hx)
						}
						if got != want[n] {
							r.Diverge("ReceivePack|git-view|mismatch", fmt.Sprintf("git sees %s = %s, specification says %s", n, got, want[n]), c)
							break
						}
					}
				}
			}
			srv.cleanup()
		}
		r.Sample(map[string]any{"init": h.Init.Refs, "cmds": h.Steps[0].Cmds, "expect": h.Steps[0].Report})
	}
	r.Distinct = len(distinct)
	r.Traces = len(hs)
	r.Extra["git_witness_histories"] = gitRuns
	r.Extra["osfs_histories_observed_by_git"] = osRuns
	r.Extra["command_classes_covered"] = covered
	if len(args) > 1 {
		if err := c39conc(r, w, args[1], rnd); err != nil {
			return err
		}
	}
	return r.Emit()
}

// ---- concurrent pushes ----------------------------------------------------------

// gatedStorer parks before every reference operation until the scheduler grants the step.
type gatedStorer struct {
	storage.Storer
	gate func()
}

func (g *gatedStorer) SetReference(r *plumbing.Reference) error {
	g.gate()
	return g.Storer.SetReference(r)
}

func (g *gatedStorer) CheckAndSetReference(n, o *plumbing.Reference) error {
	g.gate()
	return g.Storer.CheckAndSetReference(n, o)
}

func (g *gatedStorer) Reference(n plumbing.ReferenceName) (*plumbing.Reference, error) {
	g.gate()
	return g.Storer.Reference(n)
}

func (g *gatedStorer) RemoveReference(n plumbing.ReferenceName) error {
	g.gate()
	return g.Storer.RemoveReference(n)
}

func (g *gatedStorer) IterReferences() (storer.ReferenceIter, error) {
	g.gate()
	return g.Storer.IterReferences()
}

type yieldEv struct {
	proc int
	done bool
}

// runSchedule runs two ReceivePack calls; exactly one goroutine runs at any time.
// sched is a sequence of process ids (1, 2); an id whose process has finished is skipped;
// after the schedule the remaining processes run to completion (1 first).
// Returns the two wire replies and the effective grant sequence.
func runSchedule(sts [2]storage.Storer, reqs [2][]byte, sched []int) ([2][]byte, []int) {
	var grant [2]chan struct{}
	yield := make(chan yieldEv)
	var outs [2][]byte
	for p := 0; p < 2; p++ {
		grant[p] = make(chan struct{})
		p := p
		g := &gatedStorer{Storer: sts[p]}
		g.gate = func() {
			yield <- yieldEv{p, false}
			<-grant[p]
		}
		go func() {
			<-grant[p]
			outs[p] = goReceivePack(g, reqs[p], true)
			yield <- yieldEv{p, true}
		}()
	}
	done := [2]bool{}
	var eff []int
	step := func(p int) {
		grant[p] <- struct{}{}
		ev := <-yield
		if ev.proc != p {
			panic("scheduler: a process ran without the token")
		}
		eff = append(eff, p+1)
		if ev.done {
			done[p] = true
		}
	}
	for _, s := range sched {
		if !done[s-1] {
			step(s - 1)
		}
	}
	for p := 0; p < 2; p++ {
		for !done[p] {
			step(p)
		}
	}
	return outs, eff
}

func statusesOnly(rp rpReport) []string {
	out := []string{}
	for _, s := range rp.Statuses {
		out = append(out, s[1])
	}
	return out
}

func eqStr(a, b []string) bool {
	if len(a) != len(b) {
		return false
	}
	for i := range a {
		if a[i] != b[i] {
			return false
		}
	}
	return true
}

func eqMap(a, b map[string]string) bool {
	if len(a) != len(b) {
		return false
	}
	for k, v := range a {
		if b[k] != v {
			return false
		}
	}
	return true
}

// contendKey names the spec-level class of the contention.  For single-command pushes it is the pair of
// command kinds.  With several commands per push the commands that actually race cannot be told from the
// outcome, so the key names the kinds that take part on the contended names: a push set that contains a
// delete (check-then-remove), else one that contains a create (check-then-set), else updates only.
func contendKey(sc *rpConc) string {
	if len(sc.C1) == 1 && len(sc.C2) == 1 {
		k := []string{sc.Kinds[0][0], sc.Kinds[1][0]}
		sort.Strings(k)
		if sc.C1[0].Name != sc.C2[0].Name {
			return "disjoint"
		}
		return k[0] + "||" + k[1]
	}
	contended := map[string]bool{}
	for _, a := range sc.C1 {
		for _, b := range sc.C2 {
			if a.Name == b.Name {
				contended[a.Name] = true
			}
		}
	}
	has := map[string]bool{}
	for i, a := range sc.C1 {
		if contended[a.Name] {
			has[sc.Kinds[0][i]] = true
		}
	}
	for j, b := range sc.C2 {
		if contended[b.Name] {
			has[sc.Kinds[1][j]] = true
		}
	}
	switch {
	case len(contended) == 0:
		return "disjoint"
	case has["delete"]:
		return "multi:with-delete"
	case has["create"]:
		return "multi:with-create"
	}
	return "multi:updates-only"
}

func c39conc(r *rep.Report, w *rpWorld, path string, rnd *rand.Rand) error {
	var scs []*rpConc
	if err := rep.ReadNDJSON(path, func(b []byte) error {
		var s rpConc
		if err := json.Unmarshal(b, &s); err != nil {
			return err
		}
		scs = append(scs, &s)
		return nil
	}); err != nil {
		return err
	}
	runs, schedules := 0, map[string]bool{}
	raceScen, serialScen := 0, 0
	for _, sc := range scs {
		names := namesOf(sc.Init.Refs)
		for _, be := range []string{"memory", "fs-memfs"} {
			try := func(s []int) (bool, map[string]any, []int) {
				srv, err := w.newServer(be, sc.Init)
				if err != nil {
					panic(err)
				}
				defer srv.cleanup()
				sts := [2]storage.Storer{srv.st, srv.open()}
				reqs := [2][]byte{w.request(sc.C1, sc.Pack[0], "report-status"), w.request(sc.C2, sc.Pack[1], "report-status")}
				outs, eff := runSchedule(sts, reqs, s)
				runs++
				schedules[fmt.Sprint(eff)] = true
				rp1, rp2 := parseReply(outs[0], false, false), parseReply(outs[1], false, false)
				refs, _, err := w.refsOf(srv.open(), names)
				if err != nil {
					return false, map[string]any{"error": err.Error()}, eff
				}
				obs := rpOutcome{Refs: refs, Rep1: statusesOnly(rp1), Rep2: statusesOnly(rp2)}
				for _, a := range sc.Allowed {
					if eqMap(a.Refs, obs.Refs) && eqStr(a.Rep1, obs.Rep1) && eqStr(a.Rep2, obs.Rep2) {
						return true, nil, eff
					}
				}
				return false, map[string]any{"backend": be, "init": sc.Init, "c1": sc.C1, "c2": sc.C2, "schedule": eff, "observed": obs, "allowed": sc.Allowed}, eff
			}
			serialOK := true
			g := [3]int{}
			for _, s := range [][]int{repeatInt(1, 64), repeatInt(2, 64)} { // one process to completion, then the other
				ok, c, eff := try(s)
				cnt := [3]int{}
				for _, p := range eff {
					cnt[p]++
				}
				for p := 1; p <= 2; p++ {
					if cnt[p] > g[p] {
						g[p] = cnt[p]
					}
				}
				if !ok {
					serialOK = false
					serialScen++
					r.Diverge("ReceivePack-concurrent|serial-schedule-not-serialisable|"+contendKey(sc),
						"two pushes run one after the other leave an outcome no serial execution of the commands allows", c)
					break
				}
			}
			r.Eval(1)
			if !serialOK {
				continue // interleavings of a sequentially wrong server add nothing
			}
			for _, s := range interleavings(g[1], g[2], rnd) {
				if ok, c, _ := try(s); !ok {
					raceScen++
					r.Diverge("ReceivePack-concurrent|race|"+contendKey(sc),
						"an interleaving of two pushes leaves an outcome no serial execution of the commands allows (an applied update did not see its old value)", c)
					break
				}
			}
		}
	}
	r.Extra["concurrent_scenarios"] = len(scs)
	r.Extra["concurrent_runs"] = runs
	r.Extra["distinct_effective_schedules"] = len(schedules)
	r.Extra["concurrent_scenarios_serially_wrong"] = serialScen
	r.Extra["concurrent_scenarios_racy_only"] = raceScen
	r.Traces += runs
	return nil
}

func repeatInt(v, n int) []int {
	s := make([]int, n)
	for i := range s {
		s[i] = v
	}
	return s
}

// interleavings: every sequence with a ones and b twos (each grant lets the process perform
// its pending reference operation and run to its next one); a seeded sample when there are many.
func interleavings(a, b int, rnd *rand.Rand) [][]int {
	total := 1
	for i := 1; i <= a; i++ {
		total = total * (b + i) / i
	}
	limit := 80
	if rep.Thorough() {
		limit = 120
	}
	if total > limit {
		var out [][]int
		for k := 0; k < limit; k++ {
			s := make([]int, 0, a+b)
			x, y := a, b
			for x+y > 0 {
				if rnd.Intn(x+y) < x {
					s = append(s, 1)
					x--
				} else {
					s = append(s, 2)
					y--
				}
			}
			out = append(out, s)
		}
		return out
	}
	var out [][]int
	var rec func(pre []int, x, y int)
	rec = func(pre []int, x, y int) {
		if x+y == 0 {
			out = append(out, append([]int{}, pre...))
			return
		}
		if x > 0 {
			rec(append(pre, 1), x-1, y)
		}
		if y > 0 {
			rec(append(pre, 2), x, y-1)
		}
	}
	rec(nil, a, b)
	return out
}
