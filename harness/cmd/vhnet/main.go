// Command vhnet is the conformance harness of the transport properties
// (C36 fetch/clone, C38 push, C39 receive-pack).  It binds the TLA+ module
// spec/abstract/Transport.tla (through its generator modules) to go-git's
// transport code and to the installed git as peer and second witness.
package main

import "verifharness/internal/rep"

func main() { rep.Main() }
