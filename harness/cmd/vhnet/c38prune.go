package main

import (
	"context"
	"encoding/json"
	"errors"
	"fmt"
	"math/rand"
	"os"
	"os/exec"
	"path/filepath"
	"sort"
	"strings"
	"time"

	"verifharness/internal/gitcli"
	"verifharness/internal/rep"

	git "github.com/go-git/go-git/v6"
	"github.com/go-git/go-git/v6/config"
)

func init() { rep.Register("c38prune", c38prune) }

// ---- scenario format (PruneGen.tla) --------------------------------------------

type prScn struct {
	Scn struct {
		Dag   [][]int `json:"dag"`
		La    int     `json:"la"`
		Lb    int     `json:"lb"`
		Kind  string  `json:"kind"`
		Force bool    `json:"force"`
		Prune bool    `json:"prune"`
	} `json:"scn"`
	Loc map[string]int `json:"loc"` // short local head name -> commit
	Rem map[string]int `json:"rem"` // remote reference name -> commit
	Out struct {
		Ok           bool              `json:"ok"`
		Denied       []string          `json:"denied"`
		Pruned       []string          `json:"pruned"`
		Verdict      map[string]string `json:"verdict"`
		GitRefs      map[string]int    `json:"gitRefs"`
		AllOrNothing map[string]int    `json:"allOrNothing"`
	} `json:"out"`
}

func (s *prScn) key() string {
	k := s.Scn.Kind
	if s.Scn.Force {
		k += ",force"
	}
	if s.Scn.Prune {
		k += ",prune"
	}
	return k
}

var pruneRefspec = map[string]string{
	"id":        "refs/heads/*:refs/heads/*",
	"wild-ren":  "refs/heads/*:refs/remotes/laptop/*",
	"exact-ren": "refs/heads/a:refs/heads/m",
}

// forceForm: how the spec-level "forced" is rendered: "+" on the refspec or the --force / Force option
func (w *pWorld) prunePush(l pLeg, s *prScn, cl, url, forceForm string) (string, string) {
	spec := pruneRefspec[s.Scn.Kind]
	if s.Scn.Force && forceForm == "+" {
		spec = "+" + spec
	}
	if l.client == "git" {
		args := []string{"push", "-q"}
		if l.server == "gogit-vsrv" {
			args = append(args, "--receive-pack='"+w.vsrv+"' receive-pack")
		}
		if s.Scn.Force && forceForm != "+" {
			args = append(args, "--force")
		}
		if s.Scn.Prune {
			args = append(args, "--prune")
		}
		args = append(args, url, spec)
		ctx, cancel := context.WithTimeout(context.Background(), opTimeout)
		defer cancel()
		c := exec.CommandContext(ctx, "git", args...)
		c.Dir = cl
		c.Env = append(gitcli.Env(), "GIT_DIR="+cl)
		out, err := c.CombinedOutput()
		if ctx.Err() != nil {
			return "error:timeout", "git push did not terminate"
		}
		if err != nil {
			o := string(out)
			if strings.Contains(o, "[rejected]") || strings.Contains(o, "! [remote rejected]") || strings.Contains(o, "failed to push some refs") {
				return "rejected", strings.TrimSpace(o)
			}
			return "error:other", strings.TrimSpace(o)
		}
		return "ok", ""
	}
	repo, err := git.PlainOpen(cl)
	if err != nil {
		return "error:open", err.Error()
	}
	if st, ok := repo.Storer.(interface{ Close() error }); ok {
		defer st.Close()
	}
	po := &git.PushOptions{RemoteName: "origin", RemoteURL: url, Prune: s.Scn.Prune,
		Force: s.Scn.Force && forceForm != "+", RefSpecs: []config.RefSpec{config.RefSpec(spec)}}
	ctx, cancel := context.WithTimeout(context.Background(), opTimeout)
	defer cancel()
	done := make(chan error, 1)
	go func() {
		defer func() {
			if p := recover(); p != nil {
				done <- fmt.Errorf("PANIC: %v", p)
			}
		}()
		done <- repo.PushContext(ctx, po)
	}()
	select {
	case err = <-done:
	case <-time.After(opTimeout + 10*time.Second):
		return "error:timeout", "go-git Push did not return"
	}
	if err != nil && strings.HasPrefix(err.Error(), "PANIC: ") {
		return "error:panic", err.Error()
	}
	if err == nil || errors.Is(err, git.NoErrAlreadyUpToDate) {
		return "ok", ""
	}
	return "rejected", err.Error()
}

func (w *pWorld) runPruneLeg(s *prScn, l pLeg, useGit bool, forceForm string) ([]fDiff, map[string]any, string, error) {
	ds, c, note, err := w.runPruneLeg1(s, l, useGit, forceForm)
	if err == nil && len(ds) > 0 && strings.HasPrefix(ds[0].class, "client-error:timeout") {
		old := opTimeout
		opTimeout = 10 * old // a verdict must not depend on machine load: only a second overrun counts
		ds, c, note, err = w.runPruneLeg1(s, l, useGit, forceForm)
		opTimeout = old
	}
	return ds, c, note, err
}

// returns divergences, the case, and a note ("aborted" / "refused-valid" / "") for admitted deviations
func (w *pWorld) runPruneLeg1(s *prScn, l pLeg, useGit bool, forceForm string) ([]fDiff, map[string]any, string, error) {
	base := gitcli.TempDir("prune")
	defer os.RemoveAll(base)
	remDir := filepath.Join(base, "remote.git")
	if l.server == "git-daemon" {
		d, err := os.MkdirTemp(w.base, "rem")
		if err != nil {
			return nil, nil, "", err
		}
		defer os.RemoveAll(d)
		remDir = filepath.Join(d, "remote.git")
	}
	ids, err := w.allIDs(s.Scn.Dag)
	if err != nil {
		return nil, nil, "", err
	}
	if _, err := w.repo(s.Scn.Dag, s.Rem, remDir); err != nil {
		return nil, nil, "", err
	}
	loc := map[string]int{}
	for x, v := range s.Loc {
		loc["refs/heads/"+x] = v
	}
	cl := filepath.Join(base, "local.git")
	if _, err := w.repo(s.Scn.Dag, loc, cl); err != nil {
		return nil, nil, "", err
	}
	f, err := os.OpenFile(filepath.Join(cl, "config"), os.O_APPEND|os.O_WRONLY, 0o644)
	if err != nil {
		return nil, nil, "", err
	}
	f.WriteString("[gc]\n\tauto = 0\n[remote \"origin\"]\n\turl = /nonexistent\n\tfetch = +refs/heads/*:refs/remotes/origin/*\n")
	f.Close()
	url := w.urlFor(fLeg{server: l.server}, remDir)
	if l.server == "git-daemon" {
		rel, _ := filepath.Rel(w.base, remDir)
		url = fmt.Sprintf("git://127.0.0.1:%d/%s", w.port, filepath.ToSlash(rel))
	}
	status, msg := w.prunePush(l, s, cl, url, forceForm)
	c := map[string]any{"leg": l.name, "scenario": s.Scn, "local": s.Loc, "remote": s.Rem, "refspec": pruneRefspec[s.Scn.Kind], "force_rendered_as": forceForm,
		"expected": s.Out, "status": status, "message": msg}
	if strings.HasPrefix(status, "error:") {
		return []fDiff{{"client-" + status, msg}}, c, "", nil
	}
	var gr map[string]string
	conn := ""
	if useGit {
		gr, err = gitRefs(remDir)
		if err == nil {
			conn = gitFsck(remDir)
		}
	} else {
		gr, conn = goConnectivity(remDir)
		if gr == nil {
			err = errors.New(conn)
		}
	}
	if err != nil {
		return []fDiff{{"remote-refs-unreadable", err.Error()}}, c, "", nil
	}
	sym := map[string]string{}
	for k, v := range ids {
		sym[v] = k
	}
	obs := map[string]int{}
	for n := range s.Rem {
		obs[n] = 0
		if hx, ok := gr[n]; ok {
			var cnum int
			if _, err := fmt.Sscanf(sym[hx], "c%d", &cnum); err != nil {
				cnum = -1
			}
			obs[n] = cnum
		}
	}
	c["observed_remote"] = obs
	eq := func(a map[string]int) bool {
		for n := range s.Rem {
			if a[n] != obs[n] {
				return false
			}
		}
		return true
	}
	var ds []fDiff
	note := ""
	for n := range gr {
		if _, ok := s.Rem[n]; !ok {
			ds = append(ds, fDiff{"remote-ref-extra", "unexpected remote reference " + n})
		}
	}
	denied := map[string]bool{}
	for _, n := range s.Out.Denied {
		denied[n] = true
	}
	pruned := map[string]bool{}
	for _, n := range s.Out.Pruned {
		pruned[n] = true
	}
	switch {
	case eq(s.Out.GitRefs):
	case l.client == "gogit" && !s.Out.Ok && eq(s.Out.AllOrNothing):
		note = "aborted"
	case l.client == "gogit" && s.Out.Ok && status != "ok" && eq(s.Rem):
		note = "refused-valid" // refusing an allowed push without touching the remote is outside C38
	default:
		names := make([]string, 0)
		for n := range s.Rem {
			names = append(names, n)
		}
		sort.Strings(names)
		for _, n := range names {
			want := s.Out.GitRefs[n]
			if obs[n] == want {
				continue
			}
			cls := "remote-ref-wrong"
			switch {
			case obs[n] == 0 && want != 0:
				cls = "deleted-ref-that-must-stay" // it has a local source, or lies outside the pruned namespace, or prune was not asked
			case pruned[n] && obs[n] != 0:
				cls = "orphan-not-pruned"
			case denied[n] && obs[n] != s.Rem[n]:
				cls = "denied-update-applied"
			case obs[n] == s.Rem[n]:
				cls = "allowed-update-not-applied"
			}
			ds = append(ds, fDiff{cls, fmt.Sprintf("remote %s = c%d afterwards, specification says c%d (was c%d)", n, obs[n], want, s.Rem[n])})
			break
		}
	}
	if s.Out.Ok && status != "ok" && note == "" && len(ds) == 0 {
		ds = append(ds, fDiff{"client-failed-although-applied", "the client reported failure although the push was applied as specified: " + msg})
	}
	if !s.Out.Ok && status == "ok" {
		ds = append(ds, fDiff{"client-reported-success-for-denied", "the client reported success although an update must be denied"})
	}
	if conn != "" {
		ds = append(ds, fDiff{"remote-not-connected", conn})
	}
	return ds, c, note, nil
}

func c38prune(args []string) error {
	if len(args) < 2 {
		return fmt.Errorf("usage: c38prune scenarios.ndjson <vsrv binary> [peers] [bulk]")
	}
	var scs []*prScn
	if err := rep.ReadNDJSON(args[0], func(b []byte) error {
		var s prScn
		if err := json.Unmarshal(b, &s); err != nil {
			return err
		}
		scs = append(scs, &s)
		return nil
	}); err != nil {
		return err
	}
	n, bulk := 3, 150
	if rep.Thorough() {
		n, bulk = 60, 2000
	}
	if len(args) > 2 {
		fmt.Sscan(args[2], &n)
	}
	if len(args) > 3 {
		fmt.Sscan(args[3], &bulk)
	}
	rnd := rand.New(rand.NewSource(rep.Seed()))
	w := &pWorld{fWorld: fWorld{base: gitcli.TempDir("prworld"), servers: map[string]*fServer{}, vsrv: args[1], rnd: rnd}, tmpl: map[string]string{}, ids: map[string]map[string]string{}}
	defer w.stop()
	if err := w.startDaemon(); err != nil {
		return err
	}
	r := rep.New()
	legs := []pLeg{
		{"git->gogit", "git", "gogit-vsrv"},
		{"gogit->git", "gogit", "git-daemon"},
		{"gogit->gogit", "gogit", "gogit-file"},
	}
	legCount := map[string]int{}
	notes := map[string]int{}
	keys := map[string]int{}
	forms := []string{"+", "option"}
	report := func(l pLeg, s *prScn, ds []fDiff, c map[string]any) {
		for _, d := range ds {
			r.Diverge("Push-prune|"+l.name+"|"+d.class+"|"+s.key(), d.what, c)
		}
	}
	for k, s := range scs {
		if k >= n+bulk {
			break
		}
		keys[s.key()]++
		form := forms[rnd.Intn(2)]
		if k >= n {
			l := legs[2]
			ds, c, note, err := w.runPruneLeg(s, l, false, form)
			if err != nil {
				return err
			}
			legCount[l.name]++
			r.Eval(1)
			if note != "" {
				notes[note]++
			}
			report(l, s, ds, c)
			continue
		}
		ds, c, _, err := w.runPruneLeg(s, pLeg{"git->git", "git", "git"}, true, form)
		if err != nil {
			return err
		}
		if len(ds) > 0 {
			r.SpecError(map[string]any{"git->git disagrees": ds[0].class + ": " + ds[0].what, "key": s.key(), "case": c})
			continue
		}
		legCount["git->git"]++
		for _, l := range legs {
			ds, c, note, err := w.runPruneLeg(s, l, true, form)
			if err != nil {
				return err
			}
			legCount[l.name]++
			r.Eval(1)
			if note != "" {
				notes[note]++
			}
			report(l, s, ds, c)
		}
		r.Sample(map[string]any{"scenario": s.Scn, "expect": s.Out.GitRefs})
	}
	r.Distinct = r.Evaluations
	r.Traces = r.Evaluations
	r.Extra["prune_legs"] = legCount
	r.Extra["prune_admitted_deviations"] = notes
	r.Extra["prune_keys_covered"] = len(keys)
	r.Extra["prune_scenarios_enumerated"] = len(scs)
	return r.Emit()
}
