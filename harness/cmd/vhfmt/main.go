// Command vhfmt is the conformance harness for the format / codec properties
// C12 (index files), C45 (unified patches) and C35 (protocol messages).  It binds
// the TLA+ rule modules spec/rules/{IndexFile,Unified,Wire}.tla to the real go-git
// code.  The last line of stdout is a JSON report (see internal/rep).
package main

import "verifharness/internal/rep"

func main() { rep.Main() }
