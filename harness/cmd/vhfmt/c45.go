package main

// C45: unified patches apply with git and reproduce the target.
//
// Cases (pairs of abstract trees) come from spec/rules/Unified.tla (TLC).  This file renders
// them into blobs / trees, asks go-git for the patch (Tree.Patch + UnifiedEncoder with the
// requested context), tokenises the patch text into the abstract patch record of the spec and
// writes one ndjson record per case.  The verdict (well-formedness, ApplyPatch(old) = new,
// statistics) is computed by TLC in UnifiedCheck.tla.  For a seeded sample the record also
// carries what git did with go-git's patch (git apply) and git's own patch for the same pair.

import (
	"bytes"
	"encoding/json"
	"fmt"
	"math/rand"
	"os"
	"path/filepath"
	"regexp"
	"sort"
	"strconv"
	"strings"

	"verifharness/internal/gitcli"
	"verifharness/internal/rep"

	"github.com/go-git/go-billy/v6/osfs"
	"github.com/go-git/go-git/v6/plumbing"
	"github.com/go-git/go-git/v6/plumbing/cache"
	"github.com/go-git/go-git/v6/plumbing/filemode"
	fdiff "github.com/go-git/go-git/v6/plumbing/format/diff"
	"github.com/go-git/go-git/v6/plumbing/object"
	"github.com/go-git/go-git/v6/plumbing/storer"
	"github.com/go-git/go-git/v6/storage/filesystem"
	"github.com/go-git/go-git/v6/storage/memory"
)

func init() { rep.Register("c45", c45) }

type uFile struct {
	P     bool     `json:"p"`
	Lines []string `json:"lines"`
	Nl    bool     `json:"nl"`
	Mode  string   `json:"mode"`
	Bin   bool     `json:"bin"`
}
type uCase struct {
	Fam string           `json:"fam"`
	Ctx int              `json:"ctx"`
	Old map[string]uFile `json:"old"`
	New map[string]uFile `json:"new"`
	Min map[string]struct {
		Add int `json:"add"`
		Del int `json:"del"`
	} `json:"min"`
}
type uLine struct {
	T    string `json:"t"`
	S    string `json:"s"`
	Nonl bool   `json:"nonl"`
}
type uHunk struct {
	Os    int     `json:"os"`
	Ol    int     `json:"ol"`
	Ns    int     `json:"ns"`
	Nl    int     `json:"nl"`
	Lines []uLine `json:"lines"`
}
type uFP struct {
	Kind   string  `json:"kind"`
	Opath  string  `json:"opath"`
	Npath  string  `json:"npath"`
	Omode  string  `json:"omode"`
	Nmode  string  `json:"nmode"`
	Binary bool    `json:"binary"`
	Rename bool    `json:"rename"`
	Hunks  []uHunk `json:"hunks"`
}
type uStat struct {
	Name string `json:"name"`
	Add  int    `json:"add"`
	Del  int    `json:"del"`
}
type uRec struct {
	ID       int              `json:"id"`
	Case     *uCase           `json:"c"`
	Err      string           `json:"err"` // "" | encode / parse error of go-git's patch
	FPs      []uFP            `json:"fps"` // go-git's patch
	Stats    []uStat          `json:"stats"`
	Solo     map[string][]uFP `json:"solo"` // go-git's patch for the same case restricted to one path
	SoloErr  string           `json:"soloerr"`
	HasGit   bool             `json:"hasgit"`
	GitApply string           `json:"gitapply"` // "ok" | "rejected" | "wrong-tree" | ""
	GitErr   string           `json:"giterr"`
	GErr     string           `json:"gerr"` // parse error of git's own patch
	GFPs     []uFP            `json:"gfps"` // git's own patch for the same pair
	GStats   []uStat          `json:"gstats"`
}

func uRender(f uFile) []byte {
	if f.Bin {
		return []byte("\x00\x01binary " + strings.Join(f.Lines, " ") + "\x00\n\xff\xfe")
	}
	var b bytes.Buffer
	for i, l := range f.Lines {
		b.WriteString(l)
		if i < len(f.Lines)-1 || f.Nl {
			b.WriteByte('\n')
		}
	}
	return b.Bytes()
}

func uStoreBlob(s storer.EncodedObjectStorer, data []byte) (plumbing.Hash, error) {
	o := s.NewEncodedObject()
	o.SetType(plumbing.BlobObject)
	w, err := o.Writer()
	if err != nil {
		return plumbing.ZeroHash, err
	}
	if _, err := w.Write(data); err != nil {
		return plumbing.ZeroHash, err
	}
	if err := w.Close(); err != nil {
		return plumbing.ZeroHash, err
	}
	return s.SetEncodedObject(o)
}

func uStoreTree(s storer.EncodedObjectStorer, t map[string]uFile) (*object.Tree, error) {
	var names []string
	for n, f := range t {
		if f.P {
			names = append(names, n)
		}
	}
	sort.Strings(names)
	tr := &object.Tree{}
	for _, n := range names {
		f := t[n]
		h, err := uStoreBlob(s, uRender(f))
		if err != nil {
			return nil, err
		}
		m, _ := strconv.ParseUint(f.Mode, 8, 32)
		tr.Entries = append(tr.Entries, object.TreeEntry{Name: n, Mode: filemode.FileMode(m), Hash: h})
	}
	o := s.NewEncodedObject()
	if err := tr.Encode(o); err != nil {
		return nil, err
	}
	h, err := s.SetEncodedObject(o)
	if err != nil {
		return nil, err
	}
	return object.GetTree(s, h)
}

var (
	uHunkRe = regexp.MustCompile(`^@@ -(\d+)(?:,(\d+))? \+(\d+)(?:,(\d+))? @@`)
	uDiffRe = regexp.MustCompile(`^diff --git a/(\S+) b/(\S+)$`)
)

// uParse tokenises a git-style patch into file patches.  No rule of the format is judged here:
// anything that cannot be tokenised is reported as an error string and judged by the spec.
func uParse(txt string) ([]uFP, string) {
	var fps []uFP
	var cur *uFP
	var hk *uHunk
	flush := func() {
		if cur != nil {
			if hk != nil {
				cur.Hunks = append(cur.Hunks, *hk)
				hk = nil
			}
			if cur.Hunks == nil {
				cur.Hunks = []uHunk{}
			}
			fps = append(fps, *cur)
			cur = nil
		}
	}
	lines := strings.Split(txt, "\n")
	if len(lines) > 0 && lines[len(lines)-1] == "" {
		lines = lines[:len(lines)-1]
	} else if txt != "" {
		return nil, "patch does not end with a newline"
	}
	for _, ln := range lines {
		// inside a hunk: consume body lines while the hunk is incomplete
		if hk != nil {
			old, nw := 0, 0
			for _, l := range hk.Lines {
				if l.T != "+" {
					old++
				}
				if l.T != "-" {
					nw++
				}
			}
			if strings.HasPrefix(ln, `\ `) {
				if len(hk.Lines) == 0 {
					return nil, "no-newline marker before any line"
				}
				hk.Lines[len(hk.Lines)-1].Nonl = true
				continue
			}
			if old < hk.Ol || nw < hk.Nl {
				if ln == "" {
					return nil, "empty line inside hunk"
				}
				c := ln[:1]
				if c != " " && c != "+" && c != "-" {
					return nil, "unexpected line inside hunk: " + ixShort(ln)
				}
				hk.Lines = append(hk.Lines, uLine{T: c, S: ln[1:]})
				continue
			}
			cur.Hunks = append(cur.Hunks, *hk)
			hk = nil
		}
		switch {
		case strings.HasPrefix(ln, "diff --git "):
			flush()
			m := uDiffRe.FindStringSubmatch(ln)
			if m == nil {
				return nil, "unparsable diff header: " + ixShort(ln)
			}
			cur = &uFP{Kind: "modify", Opath: m[1], Npath: m[2]}
		case cur == nil:
			return nil, "text before first diff header: " + ixShort(ln)
		case strings.HasPrefix(ln, "old mode "):
			cur.Omode = ln[9:]
		case strings.HasPrefix(ln, "new mode "):
			cur.Nmode = ln[9:]
		case strings.HasPrefix(ln, "new file mode "):
			cur.Kind, cur.Nmode = "new", ln[14:]
		case strings.HasPrefix(ln, "deleted file mode "):
			cur.Kind, cur.Omode = "delete", ln[18:]
		case strings.HasPrefix(ln, "rename from "):
			cur.Rename = true
			cur.Opath = ln[12:]
		case strings.HasPrefix(ln, "rename to "):
			cur.Rename = true
			cur.Npath = ln[10:]
		case strings.HasPrefix(ln, "similarity index "), strings.HasPrefix(ln, "dissimilarity index "):
		case strings.HasPrefix(ln, "index "):
			f := strings.Fields(ln)
			if len(f) == 3 && cur.Omode == "" && cur.Nmode == "" {
				cur.Omode, cur.Nmode = f[2], f[2]
			}
		case strings.HasPrefix(ln, "--- "), strings.HasPrefix(ln, "+++ "):
		case strings.HasPrefix(ln, "Binary files "):
			cur.Binary = true
		case strings.HasPrefix(ln, "@@ "):
			m := uHunkRe.FindStringSubmatch(ln)
			if m == nil {
				return nil, "unparsable hunk header: " + ixShort(ln)
			}
			hk = &uHunk{Ol: 1, Nl: 1, Lines: []uLine{}}
			hk.Os, _ = strconv.Atoi(m[1])
			if m[2] != "" {
				hk.Ol, _ = strconv.Atoi(m[2])
			}
			hk.Ns, _ = strconv.Atoi(m[3])
			if m[4] != "" {
				hk.Nl, _ = strconv.Atoi(m[4])
			}
		default:
			return nil, "unexpected line: " + ixShort(ln)
		}
	}
	if hk != nil {
		old, nw := 0, 0
		for _, l := range hk.Lines {
			if l.T != "+" {
				old++
			}
			if l.T != "-" {
				nw++
			}
		}
		if old < hk.Ol || nw < hk.Nl {
			return nil, "patch ends inside a hunk"
		}
	}
	flush()
	if fps == nil {
		fps = []uFP{}
	}
	return fps, ""
}

func uMaterialise(dir string, t map[string]uFile) error {
	for _, n := range []string{"f1", "f2"} {
		p := filepath.Join(dir, n)
		os.Remove(p)
		f := t[n]
		if !f.P {
			continue
		}
		switch f.Mode {
		case "120000":
			if err := os.Symlink(string(uRender(f)), p); err != nil {
				return err
			}
		default:
			perm := os.FileMode(0o644)
			if f.Mode == "100755" {
				perm = 0o755
			}
			if err := os.WriteFile(p, uRender(f), perm); err != nil {
				return err
			}
			if err := os.Chmod(p, perm); err != nil {
				return err
			}
		}
	}
	return nil
}

// uSameTree reports whether the work tree in dir holds exactly tree t.
func uSameTree(dir string, t map[string]uFile) string {
	for _, n := range []string{"f1", "f2"} {
		p := filepath.Join(dir, n)
		f := t[n]
		st, err := os.Lstat(p)
		if !f.P {
			if err == nil {
				return n + ": exists, should be absent"
			}
			continue
		}
		if err != nil {
			return n + ": missing"
		}
		if f.Mode == "120000" {
			if st.Mode()&os.ModeSymlink == 0 {
				return n + ": not a symlink"
			}
			tg, _ := os.Readlink(p)
			if tg != string(uRender(f)) {
				return n + ": symlink target differs"
			}
			continue
		}
		if !st.Mode().IsRegular() {
			return n + ": not a regular file"
		}
		if (st.Mode()&0o100 != 0) != (f.Mode == "100755") {
			return n + ": executable bit differs"
		}
		b, _ := os.ReadFile(p)
		if !bytes.Equal(b, uRender(f)) {
			return n + ": content differs"
		}
	}
	return ""
}

// patches made without context need --unidiff-zero (git-apply(1)); git diff -U0 output does too
func uApplyArgs(ctx int, pf string) []string {
	if ctx == 0 {
		return []string{"apply", "--unidiff-zero", pf}
	}
	return []string{"apply", pf}
}

func fileEq(a, b uFile) bool {
	return a.P == b.P && a.Nl == b.Nl && a.Mode == b.Mode && a.Bin == b.Bin && strings.Join(a.Lines, "\n") == strings.Join(b.Lines, "\n")
}

func c45(args []string) error {
	if len(args) < 2 {
		return fmt.Errorf("usage: c45 cases.ndjson out.ndjson")
	}
	r := rep.New()
	rnd := rand.New(rand.NewSource(rep.Seed()))
	var cases []*uCase
	if err := rep.ReadNDJSON(args[0], func(l []byte) error {
		var c uCase
		if err := json.Unmarshal(l, &c); err != nil {
			return err
		}
		cases = append(cases, &c)
		return nil
	}); err != nil {
		return err
	}
	// deterministic order independent of TLC's set order
	keys := make([]string, len(cases))
	for i, c := range cases {
		b, _ := json.Marshal(c)
		keys[i] = string(b)
	}
	idx := make([]int, len(cases))
	for i := range idx {
		idx[i] = i
	}
	sort.Slice(idx, func(a, b int) bool { return keys[idx[a]] < keys[idx[b]] })
	sorted := make([]*uCase, len(cases))
	for i, j := range idx {
		sorted[i] = cases[j]
	}
	cases = sorted

	gitOK := gitcli.Available()
	budget := 450
	if rep.Thorough() {
		budget = 2000
	}
	// the git leg always covers the tree-shaped families and a seeded sample of the rest
	var pick = map[int]bool{}
	if gitOK {
		var rest, tree []int
		for i, c := range cases {
			switch c.Fam {
			case "M": // multi-file patches: a seeded half (all of them in thorough)
				if rep.Thorough() || rnd.Intn(2) == 0 {
					pick[i] = true
				}
			case "T", "R":
				tree = append(tree, i)
			default:
				rest = append(rest, i)
			}
		}
		rnd.Shuffle(len(tree), func(i, j int) { tree[i], tree[j] = tree[j], tree[i] })
		for _, i := range tree {
			if len(pick) < budget*2/3 {
				pick[i] = true
			}
		}
		rnd.Shuffle(len(rest), func(i, j int) { rest[i], rest[j] = rest[j], rest[i] })
		for _, i := range rest {
			if len(pick) >= budget {
				break
			}
			pick[i] = true
		}
	}
	var repo string
	var fsStore *filesystem.Storage
	if gitOK {
		repo = filepath.Join(gitcli.TempDir("c45"), "r")
		if err := gitcli.Init(repo, false); err != nil {
			return err
		}
		fsStore = filesystem.NewStorage(osfs.New(filepath.Join(repo, ".git")), cache.NewObjectLRUDefault())
	}
	out, err := os.Create(args[1])
	if err != nil {
		return err
	}
	defer out.Close()
	enc := json.NewEncoder(out)
	mem := memory.NewStorage()
	nGit := 0
	for i, c := range cases {
		r.Eval(1)
		rec := uRec{ID: i + 1, Case: c, FPs: []uFP{}, Stats: []uStat{}, GFPs: []uFP{}, GStats: []uStat{}}
		var st storer.EncodedObjectStorer = mem
		if pick[i] {
			st = fsStore
		}
		ot, err := uStoreTree(st, c.Old)
		if err != nil {
			return err
		}
		nt, err := uStoreTree(st, c.New)
		if err != nil {
			return err
		}
		var txt string
		patch, err := ot.Patch(nt)
		if err != nil {
			rec.Err = "Tree.Patch: " + err.Error()
		} else {
			var buf bytes.Buffer
			if err := fdiff.NewUnifiedEncoder(&buf, c.Ctx).Encode(patch); err != nil {
				rec.Err = "UnifiedEncoder.Encode: " + err.Error()
			} else {
				txt = buf.String()
				fps, perr := uParse(txt)
				if perr != "" {
					rec.Err = "parse: " + perr
				} else {
					rec.FPs = fps
				}
				for _, s := range patch.Stats() {
					rec.Stats = append(rec.Stats, uStat{s.Name, s.Addition, s.Deletion})
				}
			}
		}
		// the same case one path at a time (memory storage; no git involved)
		rec.Solo = map[string][]uFP{"f1": {}, "f2": {}}
		for _, pth := range []string{"f1", "f2"} {
			if fileEq(c.Old[pth], c.New[pth]) {
				continue
			}
			so, err := uStoreTree(mem, map[string]uFile{pth: c.Old[pth]})
			if err != nil {
				return err
			}
			sn, err := uStoreTree(mem, map[string]uFile{pth: c.New[pth]})
			if err != nil {
				return err
			}
			sp, err := so.Patch(sn)
			if err != nil {
				rec.SoloErr = "Tree.Patch: " + err.Error()
				continue
			}
			var sb bytes.Buffer
			if err := fdiff.NewUnifiedEncoder(&sb, c.Ctx).Encode(sp); err != nil {
				rec.SoloErr = "UnifiedEncoder.Encode: " + err.Error()
				continue
			}
			sf, perr := uParse(sb.String())
			if perr != "" {
				rec.SoloErr = "parse: " + perr
				continue
			}
			rec.Solo[pth] = sf
		}
		if pick[i] && rec.Err == "" {
			nGit++
			rec.HasGit = true
			if err := uMaterialise(repo, c.Old); err != nil {
				return err
			}
			pf := filepath.Join(repo, ".git", "p.patch")
			if err := os.WriteFile(pf, []byte(txt), 0o644); err != nil {
				return err
			}
			if strings.TrimSpace(txt) == "" {
				rec.GitApply = "ok"
				if d := uSameTree(repo, c.New); d != "" {
					rec.GitApply, rec.GitErr = "wrong-tree", "empty patch; "+d
				}
			} else if _, stderr, err := gitcli.Run(repo, nil, uApplyArgs(c.Ctx, pf)...); err != nil {
				rec.GitApply, rec.GitErr = "rejected", ixShort(strings.TrimSpace(stderr))
			} else if d := uSameTree(repo, c.New); d != "" {
				rec.GitApply, rec.GitErr = "wrong-tree", d
			} else {
				rec.GitApply = "ok"
			}
			// git's own patch and statistics for the same pair
			gout, stderr, err := gitcli.Run(repo, nil, "diff", "--no-color", "--no-ext-diff", "--full-index", "--numstat", "-p",
				fmt.Sprintf("-U%d", c.Ctx), ot.Hash.String(), nt.Hash.String())
			if err != nil {
				return fmt.Errorf("git diff: %v: %s", err, stderr)
			}
			ns, ptxt := gout, ""
			if k := strings.Index(gout, "diff --git "); k >= 0 {
				ns, ptxt = gout[:k], gout[k:]
			}
			for _, ln := range strings.Split(strings.TrimSpace(ns), "\n") {
				f := strings.Split(ln, "\t")
				if len(f) != 3 {
					continue
				}
				if f[0] == "-" {
					continue // binary: no line statistics
				}
				a, _ := strconv.Atoi(f[0])
				d, _ := strconv.Atoi(f[1])
				rec.GStats = append(rec.GStats, uStat{f[2], a, d})
			}
			gf, perr := uParse(ptxt)
			if perr != "" {
				rec.GErr = "parse: " + perr
			} else {
				rec.GFPs = gf
			}
		}
		if err := enc.Encode(&rec); err != nil {
			return err
		}
		if i%997 == 0 {
			r.Sample(map[string]any{"case": i + 1, "fam": c.Fam, "ctx": c.Ctx, "file_patches": len(rec.FPs), "git_apply": rec.GitApply, "err": rec.Err})
		}
	}
	r.Traces = len(cases)
	r.Distinct = len(cases)
	r.Extra["git_leg"] = gitOK
	r.Extra["cases_with_git_apply_and_git_diff"] = nGit
	return r.Emit()
}
