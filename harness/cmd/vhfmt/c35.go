package main

// C35: protocol messages round-trip and match git's encoding.
//
// Values come from spec/rules/Wire.tla (TLC).  For every value this file
//   (a) builds the go-git message, encodes it, decodes the bytes into a fresh message and
//       compares the projection with the value (plain equality),
//   (b) tokenises go-git's bytes into pkt-line tokens and writes a record for WireCheck.tla,
//       where the Grammar predicate is evaluated by TLC,
//   (c) for reference advertisements lets git read go-git's bytes (git ls-remote --symref through
//       --upload-pack=) and records what git saw; and decodes git's own advertisements.

import (
	"bytes"
	"encoding/json"
	"fmt"
	"math/rand"
	"os"
	"path/filepath"
	"sort"
	"strconv"
	"strings"
	"time"

	"verifharness/internal/gitcli"
	"verifharness/internal/rep"

	"github.com/go-git/go-git/v6/plumbing"
	"github.com/go-git/go-git/v6/plumbing/protocol"
	"github.com/go-git/go-git/v6/plumbing/protocol/capability"
	"github.com/go-git/go-git/v6/plumbing/protocol/packp"
)

func init() { rep.Register("c35", c35) }

type wRef struct {
	N string `json:"n"`
	H string `json:"h"`
	P string `json:"p"`
}
type wVal struct {
	T        string     `json:"t"`
	Ver      int        `json:"ver"`
	Refs     []wRef     `json:"refs"`
	Caps     []string   `json:"caps"`
	Shallows []string   `json:"shallows"`
	Exp      [][]string `json:"exp"`
	Wants    []string   `json:"wants"`
	Depth    string     `json:"depth"`
	Filter   string     `json:"filter"`
	Haves    []string   `json:"haves"`
	Done     bool       `json:"done"`
	Acks     []struct {
		H string `json:"h"`
		S string `json:"s"`
	} `json:"acks"`
	Sh   []string `json:"sh"`
	Unsh []string `json:"unsh"`
	Cmds []struct {
		Old  string `json:"old"`
		New  string `json:"new"`
		Name string `json:"name"`
	} `json:"cmds"`
	Opts   []string `json:"opts"`
	Unpack string   `json:"unpack"`
	St     []struct {
		Name string `json:"name"`
		S    string `json:"s"`
	} `json:"st"`
	Cmd  string   `json:"cmd"`
	Args []string `json:"args"`
	// lsrefs uses Refs with sym
	LRefs []struct {
		N   string `json:"n"`
		H   string `json:"h"`
		Sym string `json:"sym"`
		P   string `json:"p"`
	} `json:"-"`
}
type wTok struct {
	K    string   `json:"k"`
	W    []string `json:"w"`
	Caps []string `json:"caps"`
	Nul  bool     `json:"nul"`
	Nl   bool     `json:"nl"`
}
type wRec struct {
	ID     int             `json:"id"`
	V      json.RawMessage `json:"v"`
	T      string          `json:"t"`
	Err    string          `json:"err"`
	Toks   []wTok          `json:"toks"`
	HasGit bool            `json:"hasgit"`
	GitOK  bool            `json:"gitok"`
	GitSaw string          `json:"gitsaw"`
}

var wIDs = map[string]string{
	"h1": strings.Repeat("1", 40), "h2": strings.Repeat("2", 40), "h3": strings.Repeat("3", 40), "zero": strings.Repeat("0", 40),
}

func wHash(sym string) plumbing.Hash { return plumbing.NewHash(wIDs[sym]) }
func wSym(hex string) string {
	for k, v := range wIDs {
		if v == hex {
			return k
		}
	}
	return hex
}
func wHashes(s []string) []plumbing.Hash {
	r := make([]plumbing.Hash, 0, len(s))
	for _, x := range s {
		r = append(r, wHash(x))
	}
	return r
}
func wSyms(hs []plumbing.Hash) []string {
	r := make([]string, 0, len(hs))
	for _, h := range hs {
		r = append(r, wSym(h.String()))
	}
	sort.Strings(r)
	return r
}
func wSorted(s []string) []string {
	r := append([]string{}, s...)
	sort.Strings(r)
	return r
}
func wCaps(l *capability.List, caps []string) {
	for _, c := range caps {
		if k, v, ok := strings.Cut(c, "="); ok {
			l.Add(k, v)
		} else {
			l.Add(c)
		}
	}
}
func wCapSet(l *capability.List) []string {
	var r []string
	for _, k := range l.All() {
		vs := l.Get(k)
		if len(vs) == 0 {
			r = append(r, k)
		}
		for _, v := range vs {
			r = append(r, k+"="+v)
		}
	}
	sort.Strings(r)
	return r
}

// wTokenise splits a pkt-line stream into tokens (object ids become symbols).
func wTokenise(b []byte) ([]wTok, error) {
	toks := []wTok{}
	for len(b) > 0 {
		if len(b) < 4 {
			return nil, fmt.Errorf("truncated pkt-line length")
		}
		n, err := strconv.ParseUint(string(b[:4]), 16, 32)
		if err != nil {
			return nil, fmt.Errorf("bad pkt-line length %q", b[:4])
		}
		switch {
		case n == 0:
			toks = append(toks, wTok{K: "flush", W: []string{}, Caps: []string{}})
			b = b[4:]
			continue
		case n == 1:
			toks = append(toks, wTok{K: "delim", W: []string{}, Caps: []string{}})
			b = b[4:]
			continue
		case n < 4 || int(n) > len(b):
			return nil, fmt.Errorf("pkt-line length %d out of range", n)
		}
		p := string(b[4:n])
		b = b[n:]
		t := wTok{K: "data", W: []string{}, Caps: []string{}}
		if strings.HasSuffix(p, "\n") {
			t.Nl = true
			p = p[:len(p)-1]
		}
		main := p
		if i := strings.IndexByte(p, 0); i >= 0 {
			t.Nul = true
			main = p[:i]
			for _, c := range strings.Split(p[i+1:], " ") {
				if c != "" {
					t.Caps = append(t.Caps, c)
				}
			}
		}
		for _, w := range strings.Split(main, " ") {
			t.W = append(t.W, wSymWord(w))
		}
		toks = append(toks, t)
	}
	return toks, nil
}

func wSymWord(w string) string {
	if len(w) == 40 {
		return wSym(w)
	}
	if k, v, ok := strings.Cut(w, ":"); ok && k == "peeled" && len(v) == 40 {
		return "peeled:" + wSym(v)
	}
	return w
}

// wRoundTrip builds the message for v, encodes it, decodes it again and returns the bytes and the
// first field in which the decoded message differs from v ("" = equal).
func wRoundTrip(v *wVal, raw json.RawMessage, rnd *rand.Rand) (enc []byte, diff string, err error) {
	var buf bytes.Buffer
	eq := func(a, b []string) bool { return strings.Join(a, "\x00") == strings.Join(b, "\x00") }
	switch v.T {
	case "adv":
		m := &packp.AdvRefs{Version: protocol.Version(v.Ver)}
		wCaps(&m.Capabilities, v.Caps)
		var refs []*plumbing.Reference
		for _, r := range v.Refs {
			refs = append(refs, plumbing.NewHashReference(plumbing.ReferenceName(r.N), wHash(r.H)))
			if r.P != "" {
				refs = append(refs, plumbing.NewHashReference(plumbing.ReferenceName(r.N+"^{}"), wHash(r.P)))
			}
		}
		// References need not be given in wire order
		rnd.Shuffle(len(refs), func(i, j int) { refs[i], refs[j] = refs[j], refs[i] })
		m.References = refs
		m.Shallows = wHashes(v.Shallows)
		if err := m.Encode(&buf); err != nil {
			return nil, "", err
		}
		var d packp.AdvRefs
		if err := d.Decode(bytes.NewReader(buf.Bytes())); err != nil {
			if len(v.Refs) == 0 && err == packp.ErrEmptyAdvRefs {
				return buf.Bytes(), "", nil
			}
			return buf.Bytes(), "decode-error", nil
		}
		got := map[string]string{}
		for _, r := range d.References {
			got[r.Name().String()] = wSym(r.Hash().String())
		}
		want := map[string]string{}
		for _, e := range v.Exp {
			want[e[0]] = e[1]
		}
		switch {
		case int(d.Version) != v.Ver:
			diff = "version"
		case len(got) != len(want) || len(d.References) != len(want):
			diff = "references"
		case !eq(wCapSet(&d.Capabilities), wSorted(v.Caps)):
			diff = "capabilities"
		case !eq(wSyms(d.Shallows), wSorted(v.Shallows)):
			diff = "shallows"
		}
		for k, h := range want {
			if got[k] != h && diff == "" {
				diff = "references"
			}
		}
	case "ulreq":
		m := &packp.UploadRequest{Wants: wHashes(v.Wants), Shallows: wHashes(v.Shallows), Filter: packp.Filter(v.Filter)}
		wCaps(&m.Capabilities, v.Caps)
		since := time.Unix(1000000000, 0).UTC()
		switch v.Depth {
		case "deepen":
			m.Depth.Deepen = 1
		case "since":
			m.Depth.DeepenSince = since
		case "not":
			m.Depth.DeepenNot = []string{"refs/heads/m"}
		case "since+not":
			m.Depth.DeepenSince = since
			m.Depth.DeepenNot = []string{"refs/heads/m"}
		}
		if err := m.Encode(&buf); err != nil {
			return nil, "", err
		}
		var d packp.UploadRequest
		if err := d.Decode(bytes.NewReader(buf.Bytes())); err != nil {
			return buf.Bytes(), "decode-error", nil
		}
		gd := "none"
		switch {
		case d.Depth.Deepen == 1 && d.Depth.DeepenSince.IsZero() && len(d.Depth.DeepenNot) == 0:
			gd = "deepen"
		case d.Depth.Deepen == 0 && d.Depth.DeepenSince.Equal(since) && len(d.Depth.DeepenNot) == 0:
			gd = "since"
		case d.Depth.Deepen == 0 && d.Depth.DeepenSince.IsZero() && eq(d.Depth.DeepenNot, []string{"refs/heads/m"}):
			gd = "not"
		case d.Depth.Deepen == 0 && d.Depth.DeepenSince.Equal(since) && eq(d.Depth.DeepenNot, []string{"refs/heads/m"}):
			gd = "since+not"
		case !d.Depth.IsZero():
			gd = "other"
		}
		switch {
		case !eq(wSyms(d.Wants), wSorted(v.Wants)):
			diff = "wants"
		case !eq(wCapSet(&d.Capabilities), wSorted(v.Caps)):
			diff = "capabilities"
		case !eq(wSyms(d.Shallows), wSorted(v.Shallows)):
			diff = "shallows"
		case gd != v.Depth:
			diff = "depth"
		case string(d.Filter) != v.Filter:
			diff = "filter"
		}
	case "haves":
		m := &packp.UploadHaves{Haves: wHashes(v.Haves), Done: v.Done}
		if err := m.Encode(&buf); err != nil {
			return nil, "", err
		}
		var d packp.UploadHaves
		if err := d.Decode(bytes.NewReader(buf.Bytes())); err != nil {
			return buf.Bytes(), "decode-error", nil
		}
		switch {
		case !eq(wSyms(d.Haves), wSorted(v.Haves)):
			diff = "haves"
		case d.Done != v.Done:
			diff = "done"
		}
	case "srvresp":
		m := &packp.ServerResponse{}
		st := map[string]packp.ACKStatus{"": 0, "continue": packp.ACKContinue, "common": packp.ACKCommon, "ready": packp.ACKReady}
		for _, a := range v.Acks {
			m.ACKs = append(m.ACKs, packp.ACK{Hash: wHash(a.H), Status: st[a.S]})
		}
		if err := m.Encode(&buf); err != nil {
			return nil, "", err
		}
		var d packp.ServerResponse
		if err := d.Decode(bytes.NewReader(buf.Bytes())); err != nil {
			return buf.Bytes(), "decode-error", nil
		}
		if len(d.ACKs) != len(v.Acks) {
			diff = "ack-count"
		} else {
			for i, a := range v.Acks {
				if wSym(d.ACKs[i].Hash.String()) != a.H {
					diff = "ack-hash"
				} else if d.ACKs[i].Status != st[a.S] {
					diff = "ack-status"
				}
			}
		}
	case "shupd":
		m := &packp.ShallowUpdate{Shallows: wHashes(v.Sh), Unshallows: wHashes(v.Unsh)}
		if err := m.Encode(&buf); err != nil {
			return nil, "", err
		}
		var d packp.ShallowUpdate
		if err := d.Decode(bytes.NewReader(buf.Bytes())); err != nil {
			return buf.Bytes(), "decode-error", nil
		}
		switch {
		case !eq(wSyms(d.Shallows), wSorted(v.Sh)):
			diff = "shallows"
		case !eq(wSyms(d.Unshallows), wSorted(v.Unsh)):
			diff = "unshallows"
		}
	case "updreq":
		m := &packp.UpdateRequests{Shallows: wHashes(v.Shallows)}
		wCaps(&m.Capabilities, v.Caps)
		for _, c := range v.Cmds {
			m.Commands = append(m.Commands, &packp.Command{Name: plumbing.ReferenceName(c.Name), Old: wHash(c.Old), New: wHash(c.New)})
		}
		if err := m.Encode(&buf); err != nil {
			return nil, "", err
		}
		var d packp.UpdateRequests
		if err := d.Decode(bytes.NewReader(buf.Bytes())); err != nil {
			return buf.Bytes(), "decode-error", nil
		}
		switch {
		case len(d.Commands) != len(v.Cmds):
			diff = "command-count"
		case !eq(wCapSet(&d.Capabilities), wSorted(v.Caps)):
			diff = "capabilities"
		case !eq(wSyms(d.Shallows), wSorted(v.Shallows)):
			diff = "shallows"
		default:
			for i, c := range v.Cmds {
				g := d.Commands[i]
				if g.Name.String() != c.Name || wSym(g.Old.String()) != c.Old || wSym(g.New.String()) != c.New {
					diff = "command"
				}
			}
		}
	case "pushopts":
		m := &packp.PushOptions{Options: v.Opts}
		if err := m.Encode(&buf); err != nil {
			return nil, "", err
		}
		var d packp.PushOptions
		if err := d.Decode(bytes.NewReader(buf.Bytes())); err != nil {
			return buf.Bytes(), "decode-error", nil
		}
		if !eq(d.Options, v.Opts) {
			diff = "options"
		}
	case "report":
		m := &packp.ReportStatus{UnpackStatus: v.Unpack}
		for _, s := range v.St {
			m.CommandStatuses = append(m.CommandStatuses, &packp.CommandStatus{ReferenceName: plumbing.ReferenceName(s.Name), Status: s.S})
		}
		if err := m.Encode(&buf); err != nil {
			return nil, "", err
		}
		var d packp.ReportStatus
		if err := d.Decode(bytes.NewReader(buf.Bytes())); err != nil {
			return buf.Bytes(), "decode-error", nil
		}
		switch {
		case d.UnpackStatus != v.Unpack:
			diff = "unpack-status"
		case len(d.CommandStatuses) != len(v.St):
			diff = "status-count"
		default:
			for i, s := range v.St {
				if d.CommandStatuses[i].ReferenceName.String() != s.Name || d.CommandStatuses[i].Status != s.S {
					diff = "command-status"
				}
			}
		}
	case "v2cmd":
		m := &packp.CommandRequest{Command: v.Cmd}
		wCaps(&m.Capabilities, v.Caps)
		if len(v.Args) > 0 {
			a := &packp.LsRefsArgs{}
			for _, x := range v.Args {
				switch {
				case x == "peel":
					a.Peel = true
				case x == "symrefs":
					a.Symrefs = true
				case strings.HasPrefix(x, "ref-prefix "):
					a.RefPrefixes = append(a.RefPrefixes, x[11:])
				}
			}
			m.Args = a
		}
		if err := m.Encode(&buf); err != nil {
			return nil, "", err
		}
		d := &packp.CommandRequest{Args: &packp.LsRefsArgs{}}
		if err := d.Decode(bytes.NewReader(buf.Bytes())); err != nil {
			return buf.Bytes(), "decode-error", nil
		}
		var gargs []string
		if a, ok := d.Args.(*packp.LsRefsArgs); ok && a != nil {
			if a.Peel {
				gargs = append(gargs, "peel")
			}
			if a.Symrefs {
				gargs = append(gargs, "symrefs")
			}
			for _, p := range a.RefPrefixes {
				gargs = append(gargs, "ref-prefix "+p)
			}
		}
		switch {
		case d.Command != v.Cmd:
			diff = "command"
		case !eq(wCapSet(&d.Capabilities), wSorted(v.Caps)):
			diff = "capabilities"
		case !eq(gargs, v.Args):
			diff = "arguments"
		}
	case "lsrefs":
		var lr struct {
			Refs []struct {
				N   string `json:"n"`
				H   string `json:"h"`
				Sym string `json:"sym"`
				P   string `json:"p"`
			} `json:"refs"`
		}
		if err := json.Unmarshal(raw, &lr); err != nil {
			return nil, "", err
		}
		m := &packp.LsRefsOutput{}
		want := map[string]string{}
		for _, r := range lr.Refs {
			if r.Sym != "" {
				m.References = append(m.References, plumbing.NewSymbolicReference(plumbing.ReferenceName(r.N), plumbing.ReferenceName(r.Sym)))
				want[r.N] = "->" + r.Sym
				continue
			}
			m.References = append(m.References, plumbing.NewHashReference(plumbing.ReferenceName(r.N), wHash(r.H)))
			want[r.N] = r.H
			if r.P != "" {
				m.References = append(m.References, plumbing.NewHashReference(plumbing.ReferenceName(r.N+"^{}"), wHash(r.P)))
				want[r.N+"^{}"] = r.P
			}
		}
		// a symbolic ref is written with the id of its target, which must be in the list
		if err := m.Encode(&buf); err != nil {
			return nil, "", err
		}
		var d packp.LsRefsOutput
		if err := d.Decode(bytes.NewReader(buf.Bytes())); err != nil {
			return buf.Bytes(), "decode-error", nil
		}
		got := map[string]string{}
		for _, r := range d.References {
			if r.Type() == plumbing.SymbolicReference {
				got[r.Name().String()] = "->" + r.Target().String()
			} else if _, dup := got[r.Name().String()]; !dup {
				got[r.Name().String()] = wSym(r.Hash().String())
			}
		}
		if len(got) != len(want) {
			diff = "references"
		}
		for k, x := range want {
			if got[k] != x && diff == "" {
				diff = "references"
			}
		}
	default:
		return nil, "", fmt.Errorf("unknown message type %q", v.T)
	}
	return buf.Bytes(), diff, nil
}

func c35(args []string) error {
	if len(args) < 2 {
		return fmt.Errorf("usage: c35 values.ndjson out.ndjson")
	}
	r := rep.New()
	rnd := rand.New(rand.NewSource(rep.Seed()))
	var raws []json.RawMessage
	if err := rep.ReadNDJSON(args[0], func(l []byte) error {
		raws = append(raws, append(json.RawMessage{}, l...))
		return nil
	}); err != nil {
		return err
	}
	sort.Slice(raws, func(i, j int) bool { return string(raws[i]) < string(raws[j]) })
	gitOK := gitcli.Available()
	budget := 500
	if rep.Thorough() {
		budget = 4000
	}
	var advIdx []int
	vals := make([]*wVal, len(raws))
	for i, raw := range raws {
		var v wVal
		if err := json.Unmarshal(raw, &v); err != nil {
			return fmt.Errorf("value %d: %v", i, err)
		}
		vals[i] = &v
		if v.T == "adv" {
			advIdx = append(advIdx, i)
		}
	}
	pick := map[int]bool{}
	if gitOK {
		rnd.Shuffle(len(advIdx), func(i, j int) { advIdx[i], advIdx[j] = advIdx[j], advIdx[i] })
		for k, i := range advIdx {
			if k < budget {
				pick[i] = true
			}
		}
	}
	dir := gitcli.TempDir("c35")
	// a real repository for the upload-pack leg: three commits, branch m, HEAD
	var realIDs map[string]string
	upRepo := filepath.Join(dir, "up")
	nUp, upBudget := 0, 120
	if rep.Thorough() {
		upBudget = 1000
	}
	if gitOK {
		var err error
		if realIDs, err = wMakeRepo(upRepo); err != nil {
			return err
		}
	}
	out, err := os.Create(args[1])
	if err != nil {
		return err
	}
	defer out.Close()
	encd := json.NewEncoder(out)
	nGit := 0
	perType := map[string]int{}
	for i, v := range vals {
		r.Eval(1)
		perType[v.T]++
		rec := wRec{ID: i + 1, V: raws[i], T: v.T, Toks: []wTok{}}
		enc, diff, err := wRoundTrip(v, raws[i], rnd)
		key := wKey(v)
		if err != nil {
			rec.Err = "encode: " + err.Error()
			r.Diverge("RoundTrip|"+v.T+"|encode-error|"+key, "Encode refuses a well-formed value: "+err.Error(), map[string]any{"value": raws[i]})
		} else {
			if diff != "" {
				r.Diverge("RoundTrip|"+v.T+"|"+diff+"|"+key, fmt.Sprintf("Decode(Encode(v)) differs from v in %q", diff), map[string]any{"value": raws[i], "encoded": string(enc)})
			}
			toks, terr := wTokenise(enc)
			if terr != nil {
				rec.Err = "tokenise: " + terr.Error()
			} else {
				rec.Toks = toks
			}
			if pick[i] {
				nGit++
				rec.HasGit = true
				rec.GitOK, rec.GitSaw = wLsRemote(dir, enc, v)
			}
			// git upload-pack parses go-git's upload-request (+ "done"): same value rendered with real ids
			// (git refuses a filter line unless the request also names the filter capability: the value
			// domain does not tie the two together, so such values are left to the spec and the round trip)
			if v.T == "ulreq" && (v.Filter == "" || strings.Contains(" "+strings.Join(v.Caps, " ")+" ", " filter ")) && gitOK && nUp < upBudget && rnd.Intn(3) == 0 {
				nUp++
				fake := wIDs
				wIDs = realIDs
				enc2, _, err2 := wRoundTrip(v, raws[i], rnd)
				wIDs = fake
				if err2 == nil {
					rec.HasGit = true
					rec.GitOK, rec.GitSaw = wUploadPack(upRepo, enc2)
				}
			}
		}
		if err := encd.Encode(&rec); err != nil {
			return err
		}
		if i%211 == 0 {
			r.Sample(map[string]any{"type": v.T, "bytes": len(enc), "roundtrip_diff": diff, "git": rec.GitSaw != ""})
		}
	}
	if gitOK {
		if err := wGitAdvertisements(r, dir); err != nil {
			return err
		}
	}
	r.Traces = len(vals)
	r.Distinct = len(vals)
	r.Extra["values_per_type"] = perType
	r.Extra["git_leg"] = gitOK
	r.Extra["advertisements_read_by_git_ls_remote"] = nGit
	r.Extra["upload_requests_parsed_by_git_upload_pack"] = nUp
	return r.Emit()
}

// abstract scenario key for round-trip signatures
func wKey(v *wVal) string {
	switch v.T {
	case "adv":
		head, peeled := "no-HEAD", "no-peeled"
		for _, r := range v.Refs {
			if r.N == "HEAD" {
				head = "HEAD"
			}
			if r.P != "" {
				peeled = "peeled"
			}
		}
		if len(v.Refs) == 0 {
			return "no-refs"
		}
		return head + "," + peeled
	case "ulreq":
		if v.Filter != "" {
			return "with-filter"
		}
		return "no-filter"
	case "srvresp":
		multi, final := "single", ""
		for i, a := range v.Acks {
			if a.S != "" {
				multi = "multi"
			} else if i > 0 {
				final = "+final"
			}
		}
		if len(v.Acks) == 0 {
			return "nak"
		}
		return multi + final
	}
	return "-"
}

// wMakeRepo creates a repository with three commits (h1 <- h2 <- h3), branch m at h1, master at h3.
func wMakeRepo(repo string) (map[string]string, error) {
	if err := gitcli.Init(repo, false); err != nil {
		return nil, err
	}
	ids := map[string]string{"zero": strings.Repeat("0", 40)}
	for _, k := range []string{"h1", "h2", "h3"} {
		// (dated after the deepen-since value of the spec, so that a since-request selects commits)
		if _, stderr, err := gitcli.RunEnv(repo, nil, []string{"GIT_COMMITTER_DATE=@1500000000 +0000", "GIT_AUTHOR_DATE=@1500000000 +0000"},
			"commit", "--allow-empty", "-q", "-m", k); err != nil {
			return nil, fmt.Errorf("git commit: %v: %s", err, stderr)
		}
		out, _, err := gitcli.Run(repo, nil, "rev-parse", "HEAD")
		if err != nil {
			return nil, err
		}
		ids[k] = strings.TrimSpace(out)
	}
	for _, a := range [][]string{{"branch", "m", ids["h1"]}, {"config", "uploadpack.allowFilter", "true"}, {"config", "uploadpack.allowAnySHA1InWant", "true"}} {
		if _, stderr, err := gitcli.Run(repo, nil, a...); err != nil {
			return nil, fmt.Errorf("git %v: %v: %s", a, err, stderr)
		}
	}
	return ids, nil
}

// wUploadPack feeds an upload-request followed by "done" to git upload-pack --stateless-rpc and
// reports whether git accepted the request (it answers with shallow info / NAK / a pack).
func wUploadPack(repo string, req []byte) (bool, string) {
	in := append(append([]byte{}, req...), []byte("0009done\n")...)
	out, stderr, err := gitcli.Run(repo, in, "upload-pack", "--stateless-rpc", ".")
	if strings.Contains(stderr, "no commits selected for shallow requests") {
		// the request was parsed completely; the wanted commits are all excluded by deepen-not / -since
		return true, "accepted (empty shallow selection)"
	}
	if err != nil || strings.Contains(stderr, "fatal") {
		return false, "git upload-pack: " + ixShort(strings.TrimSpace(stderr))
	}
	if !strings.Contains(out, "NAK") && !strings.Contains(out, "ACK") {
		return false, "git upload-pack answered without NAK/ACK"
	}
	return true, "accepted"
}

// wLsRemote lets git read go-git's advertisement: git ls-remote --symref with an upload-pack
// command that just prints the bytes.  Returns whether git listed exactly the expected refs.
func wLsRemote(dir string, adv []byte, v *wVal) (bool, string) {
	f := filepath.Join(dir, "adv.bin")
	if err := os.WriteFile(f, adv, 0o644); err != nil {
		return false, err.Error()
	}
	out, stderr, err := gitcli.Run(dir, nil, "ls-remote", "--symref", "--upload-pack=cat "+f+"; cat >/dev/null #", dir)
	if err != nil {
		return false, "git ls-remote failed: " + ixShort(strings.TrimSpace(stderr))
	}
	got := map[string]string{}
	sym := ""
	for _, ln := range strings.Split(strings.TrimSpace(out), "\n") {
		if ln == "" {
			continue
		}
		f := strings.SplitN(ln, "\t", 2)
		if len(f) != 2 {
			return false, "unparsable: " + ln
		}
		if strings.HasPrefix(f[0], "ref: ") {
			sym = f[0][5:] + "<-" + f[1]
			continue
		}
		got[f[1]] = wSym(f[0])
	}
	var lines []string
	for k, h := range got {
		lines = append(lines, k+"="+h)
	}
	sort.Strings(lines)
	saw := strings.Join(lines, " ")
	if sym != "" {
		saw += " symref:" + sym
	}
	want := map[string]string{}
	for _, e := range v.Exp {
		want[e[0]] = e[1]
	}
	ok := len(got) == len(want)
	for k, h := range want {
		if got[k] != h {
			ok = false
		}
	}
	// the symref capability must reach git when HEAD is advertised
	hasHead := false
	for _, rf := range v.Refs {
		if rf.N == "HEAD" {
			hasHead = true
		}
	}
	for _, c := range v.Caps {
		if c == "symref=HEAD:refs/heads/m" && hasHead && sym != "refs/heads/m<-HEAD" {
			ok = false
		}
	}
	return ok, saw
}

// wGitAdvertisements: go-git decodes what git upload-pack / receive-pack advertise for real
// repositories (HEAD present / detached / unborn, annotated and lightweight tags) and the result
// is compared with git's own listing (git show-ref --head -d).
func wGitAdvertisements(r *rep.Report, dir string) error {
	repo := filepath.Join(dir, "real")
	if err := gitcli.Init(repo, false); err != nil {
		return err
	}
	git := func(a ...string) (string, error) {
		out, stderr, err := gitcli.Run(repo, nil, a...)
		if err != nil {
			return out, fmt.Errorf("git %v: %v: %s", a, err, stderr)
		}
		return out, nil
	}
	check := func(scenario string) error {
		want := map[string]string{}
		out, _, _ := gitcli.Run(repo, nil, "show-ref", "--head", "-d")
		for _, ln := range strings.Split(strings.TrimSpace(out), "\n") {
			if f := strings.Fields(ln); len(f) == 2 {
				want[f[1]] = f[0]
			}
		}
		for _, svc := range []string{"upload-pack", "receive-pack"} {
			for _, ver := range []string{"0", "1"} {
				raw, stderr, err := gitcli.RunEnv(repo, nil, []string{"GIT_PROTOCOL=version=" + ver}, svc, "--advertise-refs", ".")
				if err != nil {
					return fmt.Errorf("git %s --advertise-refs: %v: %s", svc, err, stderr)
				}
				r.Eval(1)
				var a packp.AdvRefs
				cs := map[string]any{"scenario": scenario, "service": svc, "protocol": ver}
				if err := a.Decode(strings.NewReader(raw)); err != nil {
					if len(want) == 0 && err == packp.ErrEmptyAdvRefs {
						continue
					}
					r.Diverge("DecodeGit|adv|decode-error|"+scenario, "AdvRefs.Decode fails on git "+svc+"'s advertisement: "+err.Error(), cs)
					continue
				}
				got := map[string]string{}
				for _, rf := range a.References {
					got[rf.Name().String()] = rf.Hash().String()
				}
				w := want
				if svc == "receive-pack" { // receive-pack does not advertise HEAD nor peeled entries
					w = map[string]string{}
					for k, h := range want {
						if k != "HEAD" && !strings.HasSuffix(k, "^{}") {
							w[k] = h
						}
					}
				}
				bad := len(got) != len(w)
				for k, h := range w {
					if got[k] != h {
						bad = true
					}
				}
				if bad {
					cs["gogit"], cs["git"] = got, w
					r.Diverge("DecodeGit|adv|references|"+scenario, "AdvRefs decoded from git "+svc+" differs from git show-ref --head -d", cs)
				}
				if (ver == "1") != (a.Version == protocol.V1) {
					r.Diverge("DecodeGit|adv|version|"+scenario, "AdvRefs.Version does not reflect the version line", cs)
				}
				if !a.Capabilities.Supports("agent") || (svc == "upload-pack" && scenario == "branch+tags" && strings.Join(a.Capabilities.Get("symref"), ",") != "HEAD:refs/heads/master") {
					r.Diverge("DecodeGit|adv|capabilities|"+scenario, "capabilities of git's advertisement are not decoded", cs)
				}
			}
		}
		return nil
	}
	if err := check("unborn"); err != nil {
		return err
	}
	for _, step := range [][]string{
		{"commit", "--allow-empty", "-q", "-m", "c1"},
		{"tag", "-a", "-m", "t", "t"},
		{"commit", "--allow-empty", "-q", "-m", "c2"},
		{"tag", "u"},
		{"tag", "-a", "-m", "a", "a", "HEAD~1"},
	} {
		if _, err := git(step...); err != nil {
			return err
		}
	}
	if err := check("branch+tags"); err != nil {
		return err
	}
	if _, err := git("checkout", "-q", "--detach"); err != nil {
		return err
	}
	if err := check("detached"); err != nil {
		return err
	}
	if _, err := git("update-ref", "-d", "refs/heads/master"); err != nil {
		return err
	}
	return check("tags-only")
}
