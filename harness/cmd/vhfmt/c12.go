package main

// C12: index files interoperate with git in both directions.
//
// Rows come from spec/rules/IndexFile.tla (TLC): abstract entry sets with, per entry in
// index order, the values of every field the format forces.  This file only
//   - renders an abstract state into an index.Index value (encode direction) or into git
//     commands (decode direction),
//   - tokenises index bytes into fields (no rule is evaluated here: padding is measured by
//     counting NULs or, for git-written files, by following the layout the spec predicted),
//   - projects go-git / git observations back to the abstract vocabulary and compares.

import (
	"bytes"
	"crypto"
	"crypto/sha1"
	"encoding/binary"
	"encoding/hex"
	"encoding/json"
	"fmt"
	"math/rand"
	"os"
	"path/filepath"
	"reflect"
	"regexp"
	"sort"
	"strconv"
	"strings"
	"time"

	"verifharness/internal/gitcli"
	"verifharness/internal/rep"

	"github.com/go-git/go-git/v6/plumbing"
	"github.com/go-git/go-git/v6/plumbing/filemode"
	"github.com/go-git/go-git/v6/plumbing/format/index"
	"github.com/go-git/go-git/v6/plumbing/hash"
)

func init() { rep.Register("c12", c12) }

type ixLay struct {
	N    string `json:"n"`
	St   int    `json:"st"`
	Mode string `json:"mode"`
	ID   string `json:"id"`
	Av   bool   `json:"av"`
	Sw   bool   `json:"sw"`
	Ita  bool   `json:"ita"`
	Ext  bool   `json:"ext"`
	Nlen int    `json:"nlen"`
	Pad  int    `json:"pad"`
	Smin int    `json:"smin"`
	Smax int    `json:"smax"`
	Vmin []int  `json:"vmin"`
}
type ixUndo struct {
	N  string `json:"n"`
	St []struct {
		Mode string `json:"mode"`
		ID   string `json:"id"`
	} `json:"st"`
}
type ixTreeNode struct {
	Path  []int `json:"path"`
	Count int   `json:"count"`
	Subs  int   `json:"subs"`
}
type ixRow struct {
	Ents []struct {
		N string `json:"n"`
		K string `json:"k"`
	} `json:"ents"`
	Lay    []ixLay      `json:"lay"`
	HasExt bool         `json:"hasext"`
	Reuc   []ixUndo     `json:"reuc"`
	TreeOK bool         `json:"treeok"`
	Tree   []ixTreeNode `json:"tree"`
	Unm    bool         `json:"unm"`
	HasAv  bool         `json:"hasav"`
	HasIta bool         `json:"hasita"`
}
type ixTail struct {
	T      string   `json:"t"`
	X      []string `json:"x"`
	Tr     string   `json:"tr"`
	Accept bool     `json:"accept"`
}
type ixMeta struct {
	MustKeep []string `json:"mustkeep"`
	MayDrop  []string `json:"maydrop"`
	GitVer   map[string]struct {
		Plain    int `json:"plain"`
		Extended int `json:"extended"`
	} `json:"gitver"`
}

func (t ixTail) has(x string) bool {
	for _, y := range t.X {
		if x == y {
			return true
		}
	}
	return false
}
func (r *ixRow) key() string {
	var p []string
	for _, e := range r.Ents {
		p = append(p, e.N+"="+e.K)
	}
	sort.Strings(p)
	return strings.Join(p, ",")
}
func (r *ixRow) kinds() string {
	m := map[string]bool{}
	for _, e := range r.Ents {
		m[e.K] = true
	}
	var p []string
	for k := range m {
		p = append(p, k)
	}
	sort.Strings(p)
	return strings.Join(p, "+")
}

// ---------------------------------------------------------------- tokeniser

type ixTok struct {
	Stat                 [10]uint32 // ctime s, ns, mtime s, ns, dev, ino, mode, uid, gid, size
	ID                   string
	Av, Ext              bool
	Stage, Nlen          int
	Sw, Ita              bool
	ExtOther             uint16
	Name                 []byte
	Pad                  int
	Strip                int
	StripRaw, Suffix     []byte
	PadNonNul, NoNameNul bool
}
type ixExtTok struct {
	Sig  string
	Off  int
	Data []byte
}
type ixFile struct {
	Version uint32
	Count   int
	Ents    []ixTok
	EntEnd  int
	Exts    []ixExtTok
	Trailer []byte
	ShaOK   bool
	Zero    bool
}

// tokenise splits index bytes into fields.  padHint(i) >= 0 gives the number of NUL bytes to
// expect after the name of entry i (v2/v3; used for git-written files whose stat data is all
// zero, where NULs cannot be counted); -1 = count the NULs (requires a non-zero ctime in the
// following entry; the last entry is delimited by the end of the file).  nExt = number of
// extension bytes known to follow the entries when padHint is -1 (go-git writes none).
func ixTokenise(b []byte, padHint func(i int) int) (f *ixFile, err error) {
	defer func() {
		if x := recover(); x != nil {
			f, err = nil, fmt.Errorf("tokeniser ran off the data: %v", x)
		}
	}()
	f = &ixFile{}
	if len(b) < 12+20 || string(b[:4]) != "DIRC" {
		return nil, fmt.Errorf("no DIRC header")
	}
	f.Version = binary.BigEndian.Uint32(b[4:])
	f.Count = int(binary.BigEndian.Uint32(b[8:]))
	pos := 12
	end := len(b) - 20
	var prev []byte
	for i := 0; i < f.Count; i++ {
		if pos+62 > end {
			return nil, fmt.Errorf("entry %d: truncated", i)
		}
		var t ixTok
		for k := 0; k < 10; k++ {
			t.Stat[k] = binary.BigEndian.Uint32(b[pos+4*k:])
		}
		t.ID = hex.EncodeToString(b[pos+40 : pos+60])
		fl := binary.BigEndian.Uint16(b[pos+60:])
		pos += 62
		t.Av = fl&0x8000 != 0
		t.Ext = fl&0x4000 != 0
		t.Stage = int(fl>>12) & 3
		t.Nlen = int(fl & 0xfff)
		if t.Ext {
			if pos+2 > end {
				return nil, fmt.Errorf("entry %d: truncated ext flags", i)
			}
			x := binary.BigEndian.Uint16(b[pos:])
			pos += 2
			t.Ita = x&(1<<13) != 0
			t.Sw = x&(1<<14) != 0
			t.ExtOther = x &^ (1<<13 | 1<<14)
		}
		if f.Version == 4 {
			// offset varint
			st := pos
			c := b[pos]
			pos++
			v := int(c & 0x7f)
			for c&0x80 != 0 {
				if pos >= end {
					return nil, fmt.Errorf("entry %d: truncated varint", i)
				}
				v++
				c = b[pos]
				pos++
				v = v<<7 + int(c&0x7f)
			}
			t.Strip = v
			t.StripRaw = b[st:pos]
			z := bytes.IndexByte(b[pos:end], 0)
			if z < 0 {
				return nil, fmt.Errorf("entry %d: unterminated v4 name", i)
			}
			t.Suffix = b[pos : pos+z]
			pos += z + 1
			if v > len(prev) {
				return nil, fmt.Errorf("entry %d: strip %d > previous name length %d", i, v, len(prev))
			}
			t.Name = append(append([]byte{}, prev[:len(prev)-v]...), t.Suffix...)
		} else {
			var n int
			if t.Nlen < 0xfff {
				n = t.Nlen
			} else {
				n = bytes.IndexByte(b[pos:end], 0)
				if n < 0 {
					return nil, fmt.Errorf("entry %d: unterminated long name", i)
				}
			}
			if pos+n > end {
				return nil, fmt.Errorf("entry %d: truncated name", i)
			}
			t.Name = b[pos : pos+n]
			pos += n
			h := padHint(i)
			if h >= 0 {
				if pos+h > end {
					return nil, fmt.Errorf("entry %d: truncated padding", i)
				}
				for _, c := range b[pos : pos+h] {
					if c != 0 {
						t.PadNonNul = true
					}
				}
				t.Pad = h
				pos += h
			} else if i == f.Count-1 {
				t.Pad = end - pos
				for _, c := range b[pos:end] {
					if c != 0 {
						t.PadNonNul = true
					}
				}
				pos = end
			} else {
				for pos < end && b[pos] == 0 {
					t.Pad++
					pos++
				}
			}
		}
		prev = t.Name
		f.Ents = append(f.Ents, t)
	}
	f.EntEnd = pos
	for pos+8 <= end {
		sig := string(b[pos : pos+4])
		n := int(binary.BigEndian.Uint32(b[pos+4:]))
		if pos+8+n > end {
			return nil, fmt.Errorf("extension %q overruns file", sig)
		}
		f.Exts = append(f.Exts, ixExtTok{sig, pos, b[pos+8 : pos+8+n]})
		pos += 8 + n
	}
	if pos != end {
		return nil, fmt.Errorf("%d stray bytes before trailer", end-pos)
	}
	f.Trailer = b[end:]
	sum := sha1.Sum(b[:end])
	f.ShaOK = bytes.Equal(sum[:], f.Trailer)
	f.Zero = bytes.Equal(f.Trailer, make([]byte, 20))
	return f, nil
}

// ---------------------------------------------------------------- shared state

type ixCtx struct {
	r        *rep.Report
	names    map[string][]byte
	ids      map[string]string // h1, h2, e -> hex
	meta     ixMeta
	hasAvFld bool
	rnd      *rand.Rand
}

func ixBlobID(content string) string {
	s := sha1.Sum([]byte(fmt.Sprintf("blob %d\x00%s", len(content), content)))
	return hex.EncodeToString(s[:])
}

func ixMode(s string) filemode.FileMode {
	v, _ := strconv.ParseUint(s, 8, 32)
	return filemode.FileMode(v)
}

func ixAvField(e *index.Entry) (reflect.Value, bool) {
	v := reflect.ValueOf(e).Elem()
	for _, n := range []string{"AssumeValid", "AssumeUnchanged"} {
		if f := v.FieldByName(n); f.IsValid() && f.Kind() == reflect.Bool {
			return f, true
		}
	}
	return reflect.Value{}, false
}

// abstract entry as observed (from go-git, git or the tokeniser)
type ixObs struct {
	Name         string
	Stage        int
	Mode         uint32
	ID           string
	Av, Sw, Ita  bool
	Stat         [7]uint32 // ctime s, ns, mtime s, ns, dev, ino, size  (uid/gid kept apart)
	UID, GID     uint32
	StatObserved bool
}

func ixFromEntry(e *index.Entry) ixObs {
	o := ixObs{Name: e.Name, Stage: int(e.Stage), Mode: uint32(e.Mode), ID: e.Hash.String(), Sw: e.SkipWorktree, Ita: e.IntentToAdd, StatObserved: true}
	if f, ok := ixAvField(e); ok {
		o.Av = f.Bool()
	}
	ts := func(t time.Time) (uint32, uint32) {
		if t.IsZero() {
			return 0, 0
		}
		return uint32(t.Unix()), uint32(t.Nanosecond())
	}
	o.Stat[0], o.Stat[1] = ts(e.CreatedAt)
	o.Stat[2], o.Stat[3] = ts(e.ModifiedAt)
	o.Stat[4], o.Stat[5], o.Stat[6] = e.Dev, e.Inode, e.Size
	o.UID, o.GID = e.UID, e.GID
	return o
}

func ixFromTok(t *ixTok) ixObs {
	o := ixObs{Name: string(t.Name), Stage: t.Stage, Mode: t.Stat[6], ID: t.ID, Av: t.Av, Sw: t.Sw, Ita: t.Ita, StatObserved: true}
	o.Stat = [7]uint32{t.Stat[0], t.Stat[1], t.Stat[2], t.Stat[3], t.Stat[4], t.Stat[5], t.Stat[9]}
	o.UID, o.GID = t.Stat[7], t.Stat[8]
	return o
}

// first field in which an observed entry list differs from the spec's list ("" = equal)
func (c *ixCtx) diffLay(lay []ixLay, obs []ixObs, checkAv bool) string {
	if len(lay) != len(obs) {
		return "count"
	}
	for i, l := range lay {
		o := obs[i]
		switch {
		case o.Name != string(c.names[l.N]):
			if len(c.names[l.N]) >= 0xfff {
				return "name:long"
			}
			return "name"
		case o.Stage != l.St:
			return "stage"
		case o.Mode != uint32(ixMode(l.Mode)):
			return "mode"
		case o.ID != c.ids[l.ID]:
			return "id"
		case o.Sw != l.Sw:
			return "skip-worktree"
		case o.Ita != l.Ita:
			return "intent-to-add"
		case checkAv && o.Av != l.Av:
			return "assume-valid"
		}
	}
	return ""
}

func ixStatDiff(a, b []ixObs) string {
	for i := range a {
		if i >= len(b) {
			break
		}
		if a[i].Stat != b[i].Stat || a[i].UID != b[i].UID || a[i].GID != b[i].GID {
			return fmt.Sprintf("entry %d stat %v/%d/%d vs %v/%d/%d", i, a[i].Stat, a[i].UID, a[i].GID, b[i].Stat, b[i].UID, b[i].GID)
		}
	}
	return ""
}

var ixLsRe = regexp.MustCompile(`^([0-7]{6}) ([0-9a-f]{40}) ([0-3])\t(.*)$`)

// parse `git ls-files --stage --debug`
func ixParseLsFiles(out string) ([]ixObs, error) {
	var res []ixObs
	lines := strings.Split(out, "\n")
	for i := 0; i < len(lines); i++ {
		if lines[i] == "" {
			continue
		}
		m := ixLsRe.FindStringSubmatch(lines[i])
		if m == nil {
			return nil, fmt.Errorf("unparsable ls-files line %q", ixShort(lines[i]))
		}
		mode, _ := strconv.ParseUint(m[1], 8, 32)
		st, _ := strconv.Atoi(m[3])
		o := ixObs{Name: m[4], Stage: st, Mode: uint32(mode), ID: m[2]}
		if i+5 < len(lines) && strings.HasPrefix(lines[i+1], "  ctime: ") {
			var fl uint32
			var sz uint32
			if _, err := fmt.Sscanf(lines[i+1], "  ctime: %d:%d", &o.Stat[0], &o.Stat[1]); err != nil {
				return nil, err
			}
			if _, err := fmt.Sscanf(lines[i+2], "  mtime: %d:%d", &o.Stat[2], &o.Stat[3]); err != nil {
				return nil, err
			}
			if _, err := fmt.Sscanf(lines[i+3], "  dev: %d\tino: %d", &o.Stat[4], &o.Stat[5]); err != nil {
				return nil, err
			}
			if _, err := fmt.Sscanf(lines[i+4], "  uid: %d\tgid: %d", &o.UID, &o.GID); err != nil {
				return nil, err
			}
			if _, err := fmt.Sscanf(lines[i+5], "  size: %d\tflags: %x", &sz, &fl); err != nil {
				return nil, err
			}
			o.Stat[6] = sz
			o.Av = fl&0x8000 != 0
			o.Ita = fl&(1<<29) != 0
			o.Sw = fl&(1<<30) != 0
			o.StatObserved = true
			i += 5
		}
		res = append(res, o)
	}
	return res, nil
}

func ixShort(s string) string {
	if len(s) > 80 {
		return s[:40] + fmt.Sprintf("...(%d bytes)", len(s))
	}
	return s
}

func (c *ixCtx) caseOf(row *ixRow, ver int, extra map[string]any) map[string]any {
	m := map[string]any{"entries": row.key(), "version": ver}
	for k, v := range extra {
		m[k] = v
	}
	return m
}

// ---------------------------------------------------------------- main

func c12(args []string) error {
	if len(args) < 4 {
		return fmt.Errorf("usage: c12 rows.ndjson tails.ndjson names.ndjson meta.ndjson")
	}
	c := &ixCtx{r: rep.New(), names: map[string][]byte{}, ids: map[string]string{}}
	c.rnd = rand.New(rand.NewSource(rep.Seed()))
	c.ids["h1"] = ixBlobID("one\n")
	c.ids["h2"] = ixBlobID("two\n")
	c.ids["e"] = ixBlobID("")
	_, c.hasAvFld = ixAvField(&index.Entry{})
	var rows []*ixRow
	var tails []ixTail
	if err := rep.ReadNDJSON(args[0], func(l []byte) error {
		var r ixRow
		if err := json.Unmarshal(l, &r); err != nil {
			return err
		}
		rows = append(rows, &r)
		return nil
	}); err != nil {
		return err
	}
	if err := rep.ReadNDJSON(args[1], func(l []byte) error {
		var t ixTail
		if err := json.Unmarshal(l, &t); err != nil {
			return err
		}
		tails = append(tails, t)
		return nil
	}); err != nil {
		return err
	}
	if err := rep.ReadNDJSON(args[2], func(l []byte) error {
		var n struct {
			N     string `json:"n"`
			Bytes []int  `json:"bytes"`
		}
		if err := json.Unmarshal(l, &n); err != nil {
			return err
		}
		b := make([]byte, len(n.Bytes))
		for i, x := range n.Bytes {
			b[i] = byte(x)
		}
		c.names[n.N] = b
		return nil
	}); err != nil {
		return err
	}
	if err := rep.ReadNDJSON(args[3], func(l []byte) error { return json.Unmarshal(l, &c.meta) }); err != nil {
		return err
	}
	if len(rows) == 0 || len(tails) == 0 || len(c.names) == 0 {
		return fmt.Errorf("empty tables")
	}
	sort.Slice(rows, func(i, j int) bool { return rows[i].key() < rows[j].key() })
	sort.Slice(tails, func(i, j int) bool { return tails[i].T < tails[j].T })

	gitOK := gitcli.Available()
	var repoA, repoB string
	if gitOK {
		repoA = filepath.Join(gitcli.TempDir("c12a"), "r")
		repoB = filepath.Join(gitcli.TempDir("c12b"), "r")
		for _, d := range []string{repoA, repoB} {
			if err := gitcli.Init(d, false); err != nil {
				return err
			}
		}
	}
	// ---- encode direction: every row x version x trailer
	t0 := time.Now()
	gitBudgetA, gitBudgetB := 300, 330
	if rep.Thorough() {
		gitBudgetA, gitBudgetB = 6000, 6000
	}
	nA := len(rows) * 6
	pA := float64(gitBudgetA) / float64(nA)
	unrep := 0
	gitA := 0
	for _, row := range rows {
		if row.HasAv && !c.hasAvFld {
			unrep++
			continue
		}
		for _, ver := range []int{2, 3, 4} {
			for _, tr := range []string{"sha", "zero"} {
				useGit := gitOK && c.rnd.Float64() < pA
				if useGit {
					gitA++
				}
				if err := c.encodeCase(row, ver, tr, useGit, repoA); err != nil {
					return err
				}
			}
		}
	}
	tEnc := time.Since(t0)
	// ---- decode direction: seeded sample of row x version x tail, produced by git
	gitB, unprod := 0, 0
	if gitOK {
		for tries := 0; gitB < gitBudgetB && tries < 20*gitBudgetB; tries++ {
			row := rows[c.rnd.Intn(len(rows))]
			ver := 2 + c.rnd.Intn(3)
			tail := tails[c.rnd.Intn(len(tails))]
			if len(row.Lay) == 0 {
				continue
			}
			ok, err := c.decodeCase(row, ver, tail, repoB)
			if err != nil {
				return err
			}
			if ok {
				gitB++
			} else {
				unprod++
			}
		}
	}
	c.r.Distinct = len(rows)*6 + gitB
	c.r.Extra["git_leg"] = gitOK
	c.r.Extra["wall_encode_s"] = tEnc.Seconds()
	c.r.Extra["wall_decode_s"] = (time.Since(t0) - tEnc).Seconds()
	c.r.Extra["encode_cases_read_by_git"] = gitA
	c.r.Extra["git_written_cases_decoded"] = gitB
	c.r.Extra["states_git_cli_cannot_produce"] = unprod
	c.r.Extra["rows_not_representable_in_index.Entry(assume-valid)"] = unrep
	c.r.Extra["entry_has_assume_valid_field"] = c.hasAvFld
	return c.r.Emit()
}

// ---------------------------------------------------------------- encode direction

func (c *ixCtx) buildIndex(row *ixRow, ver int) *index.Index {
	idx := &index.Index{Version: uint32(ver)}
	perm := c.rnd.Perm(len(row.Lay))
	for _, i := range perm {
		l := row.Lay[i]
		e := &index.Entry{Name: string(c.names[l.N]), Stage: index.Stage(l.St), Mode: ixMode(l.Mode),
			Hash: plumbing.NewHash(c.ids[l.ID]), SkipWorktree: l.Sw, IntentToAdd: l.Ita}
		if l.Av {
			if f, ok := ixAvField(e); ok {
				f.SetBool(true)
			}
		}
		// non-zero stat data (the tokeniser counts NUL padding up to the next entry's ctime)
		k := uint32(i + 1)
		e.CreatedAt = time.Unix(int64(1000000000+k), int64(k))
		e.ModifiedAt = time.Unix(int64(1100000000+k), int64(10+k))
		e.Dev, e.Inode, e.UID, e.GID, e.Size = 40+k, 50+k, 60+k, 70+k, 80+k
		idx.Entries = append(idx.Entries, e)
	}
	return idx
}

func (c *ixCtx) encodeCase(row *ixRow, ver int, tr string, useGit bool, repo string) error {
	r := c.r
	r.Eval(1)
	idx := c.buildIndex(row, ver)
	want := make([]ixObs, len(idx.Entries)) // stat data by name+stage
	statOf := map[string]ixObs{}
	for _, e := range idx.Entries {
		statOf[fmt.Sprintf("%s\x00%d", e.Name, e.Stage)] = ixFromEntry(e)
	}
	if len(row.Reuc) > 0 {
		ru := &index.ResolveUndo{}
		for _, u := range row.Reuc {
			en := index.ResolveUndoEntry{Path: string(c.names[u.N]), Stages: map[index.Stage]plumbing.Hash{}}
			for s, x := range u.St {
				if x.Mode != "0" {
					en.Stages[index.Stage(s+1)] = plumbing.NewHash(c.ids[x.ID])
				}
			}
			ru.Entries = append(ru.Entries, en)
		}
		idx.ResolveUndo = ru
	}
	var opts []index.Option
	if tr == "zero" {
		opts = append(opts, index.WithSkipHash())
	}
	var buf bytes.Buffer
	vkey := fmt.Sprintf("v%d", ver)
	if err := index.NewEncoder(&buf, hash.New(crypto.SHA1), opts...).Encode(idx); err != nil {
		r.Diverge("Encode|error|"+vkey+":"+row.kinds(), "Encoder.Encode failed on a well-formed index: "+err.Error(), c.caseOf(row, ver, map[string]any{"trailer": tr}))
		return nil
	}
	b := buf.Bytes()
	bad := func(field, what string) {
		r.Diverge("Encode|layout|"+field+":"+vkey, what, c.caseOf(row, ver, map[string]any{"trailer": tr, "spec_layout": ixLayBrief(row.Lay)}))
	}
	f, err := ixTokenise(b, func(int) int { return -1 })
	layoutOK := true
	if err != nil {
		bad("unparsable", "go-git's encoded index cannot be tokenised: "+err.Error())
		layoutOK = false
	} else {
		fld := c.layoutDiff(row, ver, f)
		if fld == "" {
			if tr == "sha" && !f.ShaOK {
				fld = "trailer-checksum"
			} else if tr == "zero" && !f.Zero {
				fld = "trailer-not-zero"
			} else if len(f.Exts) > 0 && len(row.Reuc) == 0 {
				fld = "unexpected-extension"
			}
		}
		if fld != "" {
			bad(fld, fmt.Sprintf("Encoder output field %q differs from the layout the format forces (entries %s, version %d)", fld, row.key(), ver))
			layoutOK = false
		}
		// stat data must be written verbatim
		if layoutOK {
			for i := range f.Ents {
				o := ixFromTok(&f.Ents[i])
				w := statOf[fmt.Sprintf("%s\x00%d", o.Name, o.Stage)]
				want[i] = w
				if o.Stat != w.Stat || o.UID != w.UID || o.GID != w.GID {
					bad("stat", fmt.Sprintf("stat data of entry %d not written verbatim", i))
					layoutOK = false
					break
				}
			}
		}
	}
	// go-git reads its own output back (with and without WithSkipHash)
	for _, sk := range []bool{false, true} {
		var o []index.Option
		if sk {
			o = append(o, index.WithSkipHash())
		}
		var back index.Index
		if err := index.NewDecoder(bytes.NewReader(b), hash.New(crypto.SHA1), o...).Decode(&back); err != nil {
			r.Diverge("Encode|roundtrip|decode-error:"+vkey, "Decoder cannot read Encoder's output: "+err.Error(), c.caseOf(row, ver, map[string]any{"trailer": tr, "skiphash_decoder": sk}))
			continue
		}
		obs := make([]ixObs, len(back.Entries))
		for i, e := range back.Entries {
			obs[i] = ixFromEntry(e)
		}
		fld := c.diffLay(row.Lay, obs, true)
		if fld == "" && int(back.Version) != ver {
			fld = "version"
		}
		if fld == "" && layoutOK {
			if d := ixStatDiff(want, obs); d != "" {
				fld = "stat"
			}
		}
		if fld != "" {
			r.Diverge("Encode|roundtrip|"+fld+":"+vkey, fmt.Sprintf("Decode(Encode(index)) differs from the index in %q", fld), c.caseOf(row, ver, map[string]any{"trailer": tr}))
		}
		// extensions that carry information must survive a rewrite (spec: MustKeep)
		if len(row.Reuc) > 0 && !sk {
			for _, k := range c.meta.MustKeep {
				if k == "REUC" && (back.ResolveUndo == nil || len(back.ResolveUndo.Entries) != len(row.Reuc)) {
					r.Diverge("Encode|extension-dropped|REUC", "Encoder drops the resolve-undo extension of the Index it is given (Decode(Encode(idx)).ResolveUndo is nil)", c.caseOf(row, ver, nil))
				}
			}
		}
	}
	if len(r.Samples) < 5 {
		r.Sample(map[string]any{"dir": "encode", "entries": row.key(), "version": ver, "trailer": tr, "bytes": len(b), "layout_ok": layoutOK})
	}
	// git reads go-git's file
	if useGit {
		if err := os.WriteFile(filepath.Join(repo, ".git", "index"), b, 0o644); err != nil {
			return err
		}
		out, stderr, gerr := gitcli.Run(repo, nil, "-c", "core.quotePath=false", "ls-files", "--stage", "--debug")
		var fld string
		if gerr != nil {
			fld = "git-rejects"
		} else {
			obs, perr := ixParseLsFiles(out)
			if perr != nil {
				fld = "git-output-garbled"
			} else {
				fld = c.diffLay(row.Lay, obs, true)
				if fld == "" && layoutOK {
					if d := ixStatDiff(want, obs); d != "" {
						fld = "stat"
					}
				}
			}
		}
		if fld != "" {
			cs := c.caseOf(row, ver, map[string]any{"trailer": tr, "git_stderr": ixShort(stderr)})
			if layoutOK {
				// go-git wrote exactly the layout the spec demands, yet git reads something else
				r.SpecError(map[string]any{"what": "git reads a spec-conformant file differently", "field": fld, "case": cs})
			} else {
				r.Diverge("Encode|git-reads-differently|"+fld+":"+vkey, "git ls-files on go-git's index: "+fld, cs)
			}
		}
	}
	return nil
}

func ixLayBrief(l []ixLay) []string {
	var s []string
	for _, x := range l {
		s = append(s, fmt.Sprintf("%s/%d ext=%v nlen=%d pad=%d strip=[%d,%d]", x.N, x.St, x.Ext, x.Nlen, x.Pad, x.Smin, x.Smax))
	}
	return s
}

// compares tokens with the layout computed by the spec; returns the first differing field
func (c *ixCtx) layoutDiff(row *ixRow, ver int, f *ixFile) string {
	if int(f.Version) != ver {
		return "header-version"
	}
	if f.Count != len(row.Lay) || len(f.Ents) != len(row.Lay) {
		return "header-count"
	}
	var prev []byte
	for i, l := range row.Lay {
		t := &f.Ents[i]
		name := c.names[l.N]
		sfx := ""
		if len(name) >= 0xfff {
			sfx = ":long"
		}
		switch {
		case !bytes.Equal(t.Name, name):
			if ver == 4 {
				return "v4-name-reconstruction" + sfx
			}
			return "order-or-name" + sfx
		case t.Stage != l.St:
			return "order-or-stage"
		case t.Stat[6] != uint32(ixMode(l.Mode)):
			return "mode"
		case t.ID != c.ids[l.ID]:
			return "id"
		case t.Ext != l.Ext:
			return "extended-bit"
		case t.Av != l.Av:
			return "assume-valid-bit"
		case t.Sw != l.Sw:
			return "skip-worktree-bit"
		case t.Ita != l.Ita:
			return "intent-to-add-bit"
		case t.ExtOther != 0:
			return "unknown-extended-bits"
		case t.Nlen != l.Nlen:
			return "name-length-field" + sfx
		}
		if ver == 4 {
			if t.Strip < l.Smin || t.Strip > l.Smax {
				return "v4-strip-length"
			}
			if t.Strip == l.Smin {
				if len(t.StripRaw) != len(l.Vmin) {
					return "v4-strip-varint"
				}
				for k, x := range l.Vmin {
					if int(t.StripRaw[k]) != x {
						return "v4-strip-varint"
					}
				}
			}
			if !bytes.Equal(t.Suffix, name[len(prev)-t.Strip:]) {
				return "v4-suffix"
			}
		} else {
			if t.PadNonNul {
				return "padding-not-nul" + sfx
			}
			if t.Pad != l.Pad {
				return "padding" + sfx
			}
		}
		prev = name
	}
	return ""
}

// ---------------------------------------------------------------- decode direction

func (c *ixCtx) decodeCase(row *ixRow, ver int, tail ixTail, repo string) (bool, error) {
	r := c.r
	// what the git CLI cannot be asked for: intent-to-add needs a work tree file (PATH_MAX)
	for _, l := range row.Lay {
		if l.Ita && len(c.names[l.N]) > 3000 {
			return false, nil
		}
	}
	kindOf := map[string]string{}
	for _, e := range row.Ents {
		kindOf[e.N] = e.K
	}
	_ = os.Remove(filepath.Join(repo, ".git", "index"))
	cfg := []string{"-c", fmt.Sprintf("index.version=%d", ver), "-c", "core.quotePath=false"}
	if tail.has("EOIE") {
		cfg = append(cfg, "-c", "index.recordEndOfIndexEntries=true")
	} else {
		cfg = append(cfg, "-c", "index.recordEndOfIndexEntries=false")
	}
	git := func(stdin []byte, a ...string) (string, error) {
		out, stderr, err := gitcli.Run(repo, stdin, append(append([]string{}, cfg...), a...)...)
		if err != nil {
			return out, fmt.Errorf("git %v: %v: %s", a, err, ixShort(stderr))
		}
		return out, nil
	}
	var info bytes.Buffer
	var itas, sws, avs []string
	for _, u := range row.Reuc {
		for s, x := range u.St {
			if x.Mode != "0" {
				fmt.Fprintf(&info, "%s %s %d\t%s\n", x.Mode, c.ids[x.ID], s+1, c.names[u.N])
			}
		}
	}
	for _, l := range row.Lay {
		n := string(c.names[l.N])
		if l.Ita {
			itas = append(itas, n)
			continue
		}
		fmt.Fprintf(&info, "%s %s %d\t%s\n", l.Mode, c.ids[l.ID], l.St, n)
		if l.Sw {
			sws = append(sws, n)
		}
		if l.Av {
			avs = append(avs, n)
		}
	}
	if info.Len() > 0 {
		if _, err := git(info.Bytes(), "update-index", "--index-info"); err != nil {
			return false, err
		}
	}
	if len(itas) > 0 {
		for _, n := range itas {
			p := filepath.Join(repo, filepath.FromSlash(n))
			if err := os.MkdirAll(filepath.Dir(p), 0o755); err != nil {
				return false, err
			}
			if err := os.WriteFile(p, []byte("x\n"), 0o644); err != nil {
				return false, err
			}
		}
		_, err := git(nil, append([]string{"add", "-N", "--"}, itas...)...)
		for _, n := range itas {
			os.RemoveAll(filepath.Join(repo, strings.SplitN(n, "/", 2)[0]))
		}
		if err != nil {
			return false, err
		}
	}
	if len(sws)+len(avs) > 0 {
		a := []string{"update-index"}
		if len(sws) > 0 {
			a = append(append(a, "--skip-worktree"), sws...)
		}
		if len(avs) > 0 {
			a = append(append(a, "--assume-unchanged"), avs...)
		}
		if _, err := git(nil, a...); err != nil {
			return false, err
		}
	}
	wantTree := tail.has("TREE") && row.TreeOK
	treeIDs := map[string]string{}
	if wantTree {
		out, err := git(nil, "write-tree", "--missing-ok")
		if err != nil {
			return false, err
		}
		root := strings.TrimSpace(out)
		treeIDs[""] = root
		if len(row.Tree) > 1 {
			out, err := git(nil, "ls-tree", "-d", root)
			if err != nil {
				return false, err
			}
			for _, ln := range strings.Split(strings.TrimSpace(out), "\n") {
				var m, t, id, p string
				if _, err := fmt.Sscanf(ln, "%s %s %s\t%s", &m, &t, &id, &p); err == nil {
					treeIDs[p] = id
				}
			}
		}
	}
	b, err := os.ReadFile(filepath.Join(repo, ".git", "index"))
	if err != nil {
		return false, err
	}
	r.Eval(1)
	// ---- spec vs git: the file git wrote must have the layout the spec predicts
	gv := c.meta.GitVer[strconv.Itoa(ver)]
	gitver := gv.Plain
	if row.HasExt {
		gitver = gv.Extended
	}
	f, err := ixTokenise(b, func(i int) int {
		if i < len(row.Lay) {
			return row.Lay[i].Pad
		}
		return 1
	})
	specErr := func(what string, x map[string]any) {
		r.SpecError(map[string]any{"what": what, "case": c.caseOf(row, ver, x), "tail": tail.T})
	}
	if err != nil {
		specErr("git-written index does not tokenise along the spec layout: "+err.Error(), nil)
		return true, nil
	}
	if fld := c.layoutDiff(row, gitver, f); fld != "" {
		specErr("git-written index differs from spec layout in "+fld, map[string]any{"git_header_version": f.Version, "spec_version": gitver})
		return true, nil
	}
	for i := range f.Ents {
		if f.Ents[i].Strip != row.Lay[i].Smin && f.Version == 4 {
			specErr("git does not use the maximal prefix", nil)
		}
	}
	wantExt := map[string]bool{}
	if wantTree {
		wantExt["TREE"] = true
	}
	if len(row.Reuc) > 0 {
		wantExt["REUC"] = true
	}
	if tail.has("EOIE") {
		wantExt["EOIE"] = true
	}
	gotExt := map[string]bool{}
	for _, x := range f.Exts {
		gotExt[x.Sig] = true
	}
	if !reflect.DeepEqual(wantExt, gotExt) || !f.ShaOK {
		specErr("git wrote a different extension set / checksum than the spec predicts", map[string]any{"git": gotExt, "spec": wantExt, "sha_ok": f.ShaOK})
		return true, nil
	}
	// ---- render the rest of the tail (what the git CLI cannot be asked to write)
	body := append([]byte{}, b[:len(b)-20]...)
	addExt := func(sig string, data []byte) {
		var h [8]byte
		copy(h[:], sig)
		binary.BigEndian.PutUint32(h[4:], uint32(len(data)))
		body = append(append(body, h[:]...), data...)
	}
	if tail.has("UNKOPT") {
		addExt("ZZZZ", []byte("opaque payload \x00\x01\x02 of an optional extension"))
	}
	if tail.has("UNKMAND") {
		addExt("zzzz", []byte("payload of an extension that must be understood"))
	}
	if tail.Tr == "zero" {
		body = append(body, make([]byte, 20)...)
	} else {
		s := sha1.Sum(body)
		body = append(body, s[:]...)
	}
	b = body
	if err := os.WriteFile(filepath.Join(repo, ".git", "index"), b, 0o644); err != nil {
		return false, err
	}
	// ---- git's own report of the file
	lsArgs := []string{"-c", "core.quotePath=false", "ls-files", "--stage", "--debug"}
	if len(row.Reuc) > 0 {
		lsArgs = append(lsArgs, "--resolve-undo")
	}
	out, stderr, gerr := gitcli.Run(repo, nil, lsArgs...)
	if (gerr == nil) != tail.Accept {
		specErr("git acceptance differs from spec", map[string]any{"git_ok": gerr == nil, "spec_accept": tail.Accept, "stderr": ixShort(stderr)})
		return true, nil
	}
	var gitObs []ixObs
	gitUndo := map[string][3]string{}
	if gerr == nil {
		all, err := ixParseLsFiles(out)
		if err != nil {
			return false, err
		}
		var gitRU []ixObs
		for _, o := range all {
			if o.StatObserved {
				gitObs = append(gitObs, o)
			} else {
				gitRU = append(gitRU, o)
			}
		}
		if fld := c.diffLay(row.Lay, gitObs, true); fld != "" {
			specErr("git ls-files reports entries different from the spec state: "+fld, nil)
			return true, nil
		}
		if len(row.Reuc) > 0 {
			// (--resolve-undo records are printed by the same command, without the --debug lines)
			for _, o := range gitRU {
				g := gitUndo[o.Name]
				g[o.Stage-1] = fmt.Sprintf("%06o %s", o.Mode, o.ID)
				gitUndo[o.Name] = g
			}
			for _, u := range row.Reuc {
				var w [3]string
				for s, x := range u.St {
					if x.Mode != "0" {
						w[s] = x.Mode + " " + c.ids[x.ID]
					}
				}
				if gitUndo[string(c.names[u.N])] != w {
					specErr("git ls-files --resolve-undo differs from the spec's undo record", map[string]any{"git": gitUndo, "name": u.N})
					return true, nil
				}
			}
			if len(gitUndo) != len(row.Reuc) {
				specErr("git reports extra resolve-undo records", map[string]any{"git": gitUndo})
				return true, nil
			}
		}
	}
	// ---- go-git decodes the same bytes, twice
	tkey := fmt.Sprintf("v%d:ext=%s:trailer=%s", f.Version, strings.Join(tail.X, "+"), tail.Tr)
	cs := c.caseOf(row, ver, map[string]any{"tail": tail.T, "extensions_in_file": ixSigs(gotExt, tail), "trailer": tail.Tr, "git_version_written": f.Version})
	var dec [2]*index.Index
	for k := 0; k < 2; k++ {
		var idx index.Index
		derr := index.NewDecoder(bytes.NewReader(b), hash.New(crypto.SHA1)).Decode(&idx)
		if (derr == nil) != tail.Accept {
			if derr != nil {
				r.Diverge("Decode|rejects-valid|"+tkey, "Decoder fails on an index git reads: "+derr.Error(), cs)
			} else {
				r.Diverge("Decode|accepts-unknown-mandatory-extension|"+tkey, "Decoder accepts an index with an unknown extension whose signature is not upper-case (git refuses it)", cs)
			}
			return true, nil
		}
		if derr != nil {
			return true, nil // correctly rejected
		}
		dec[k] = &idx
	}
	for k, idx := range dec {
		obs := make([]ixObs, len(idx.Entries))
		for i, e := range idx.Entries {
			obs[i] = ixFromEntry(e)
		}
		vk := fmt.Sprintf("v%d", f.Version)
		if fld := c.diffLay(row.Lay, obs, c.hasAvFld); fld != "" {
			r.Diverge("Decode|entries-differ|"+fld+":"+vk, fmt.Sprintf("Decoder returns entries that differ from what git reports (%s)", fld), cs)
			break
		}
		if row.HasAv && !c.hasAvFld && k == 0 {
			r.Diverge("Decode|flag-dropped|assume-valid", "index.Entry has no field for the assume-valid bit (CE_VALID, git update-index --assume-unchanged): Decoder drops it and a rewrite clears it", cs)
		}
		if d := ixStatDiff(gitObs, obs); d != "" {
			r.Diverge("Decode|entries-differ|stat:"+vk, "Decoder's stat data differs from git ls-files --debug: "+d, cs)
			break
		}
		if int(idx.Version) != int(f.Version) {
			r.Diverge("Decode|version|"+vk, fmt.Sprintf("Index.Version=%d, file says %d", idx.Version, f.Version), cs)
		}
		// resolve-undo
		got := map[string][3]string{}
		gotModes := true
		if idx.ResolveUndo != nil {
			for _, e := range idx.ResolveUndo.Entries {
				var g [3]string
				for s, h := range e.Stages {
					if s >= 1 && s <= 3 {
						g[s-1] = h.String()
					}
				}
				got[e.Path] = g
			}
		}
		_ = gotModes
		for _, u := range row.Reuc {
			var w [3]string
			n := 0
			for s, x := range u.St {
				if x.Mode != "0" {
					w[s] = c.ids[x.ID]
					n++
				}
			}
			g, ok := got[string(c.names[u.N])]
			if !ok {
				r.Diverge("Decode|REUC|record-missing", "resolve-undo record reported by git ls-files --resolve-undo is missing from Index.ResolveUndo", cs)
			} else if g != w {
				present := func(a [3]string) (s string) {
					for _, x := range a {
						if x != "" {
							s += "1"
						} else {
							s += "0"
						}
					}
					return
				}
				if present(g) != present(w) {
					r.Diverge(fmt.Sprintf("Decode|REUC|stage-set:stages=%d", n), "resolve-undo record has a different set of stages than git reports", cs)
				} else {
					r.Diverge(fmt.Sprintf("Decode|REUC|stage-hash:stages=%d", n), fmt.Sprintf("resolve-undo record assigns object ids to the wrong stages: go-git %v, git %v", g, w), cs)
				}
			}
		}
		if len(got) > len(row.Reuc) {
			r.Diverge("Decode|REUC|extra-record", "Index.ResolveUndo has records git does not report", cs)
		}
		// cache tree
		if wantTree {
			if idx.Cache == nil || len(idx.Cache.Entries) != len(row.Tree) {
				r.Diverge("Decode|TREE|node-count", "cached tree nodes differ from the tree git recorded", cs)
			} else {
				for i, tn := range row.Tree {
					p := make([]byte, len(tn.Path))
					for j, x := range tn.Path {
						p[j] = byte(x)
					}
					e := idx.Cache.Entries[i]
					fld := ""
					switch {
					case e.Path != string(p):
						fld = "path-or-order"
					case e.Entries != tn.Count:
						fld = "entry-count"
					case e.Trees != tn.Subs:
						fld = "subtree-count"
					case e.Hash.String() != treeIDs[string(p)]:
						fld = "tree-id"
					}
					if fld != "" {
						r.Diverge("Decode|TREE|"+fld, fmt.Sprintf("cached tree node %q differs from git's (%s)", p, fld), cs)
						break
					}
				}
			}
		} else if idx.Cache != nil && len(idx.Cache.Entries) > 0 {
			r.Diverge("Decode|TREE|phantom", "Index.Cache set although the file has no TREE extension", cs)
		}
		if tail.has("EOIE") {
			var x *ixExtTok
			for i := range f.Exts {
				if f.Exts[i].Sig == "EOIE" {
					x = &f.Exts[i]
				}
			}
			if idx.EndOfIndexEntry == nil || x == nil || int(idx.EndOfIndexEntry.Offset) != f.EntEnd ||
				idx.EndOfIndexEntry.Hash.String() != hex.EncodeToString(x.Data[4:]) {
				r.Diverge("Decode|EOIE|offset-or-hash", "EndOfIndexEntry differs from the extension in the file", cs)
			}
		} else if idx.EndOfIndexEntry != nil {
			r.Diverge("Decode|EOIE|phantom", "Index.EndOfIndexEntry set although the file has no EOIE extension", cs)
		}
	}
	if dec[0] != nil && dec[1] != nil && !reflect.DeepEqual(dec[0], dec[1]) {
		what := "other"
		if !reflect.DeepEqual(dec[0].ResolveUndo, dec[1].ResolveUndo) {
			what = "REUC"
		}
		r.Diverge("Decode|nondeterministic|"+what, "decoding the same bytes twice gives different Index values ("+what+")", cs)
	}
	if len(r.Samples) < 5 && c.rnd.Intn(20) == 0 {
		r.Sample(map[string]any{"dir": "decode", "entries": row.key(), "version_requested": ver, "version_written": f.Version, "tail": tail.T, "git_accepts": gerr == nil})
	}
	return true, nil
}

func ixSigs(m map[string]bool, t ixTail) []string {
	var s []string
	for k := range m {
		s = append(s, k)
	}
	if t.has("UNKOPT") {
		s = append(s, "ZZZZ")
	}
	if t.has("UNKMAND") {
		s = append(s, "zzzz")
	}
	sort.Strings(s)
	return s
}
