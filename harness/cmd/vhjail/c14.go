package main

// C14: reference and reflog storage cannot escape the refs namespace.
//
// Rows (name tokens, refuse, tags) come from spec/rules/RefJail.tla.  Every name is rendered to bytes
// and driven through the reference / reflog API of storage/filesystem over a jailfs recording wrapper,
// on a fresh sandbox with decoys (config, index, objects/..., files outside the git dir) and - in the
// "links" scenario - planted symlinked directories inside refs/ and logs/.  The recorded filesystem
// requests go to c14_trace.ndjson and are judged by spec/rules/RefJailTrace.tla (PathJail).  Two
// observations are compared here with values computed by the spec: a mutating call that succeeds on a
// name the spec says must be refused, and a changed sentinel file.

import (
	"crypto/sha1"
	"encoding/json"
	"fmt"
	"io"
	mrand "math/rand"
	"os"
	"path/filepath"
	"sort"
	"strings"
	"time"

	"github.com/go-git/go-billy/v6/osfs"

	"github.com/go-git/go-git/v6/plumbing"
	"github.com/go-git/go-git/v6/plumbing/cache"
	"github.com/go-git/go-git/v6/plumbing/format/reflog"
	"github.com/go-git/go-git/v6/plumbing/storer"
	"github.com/go-git/go-git/v6/storage/filesystem"

	"verifharness/internal/jailfs"
	"verifharness/internal/rep"
)

func init() { rep.Register("c14", c14) }

var refTokBytes = map[string][]string{
	"refs": {"refs"}, "heads": {"heads"}, "w": {"a", "x1", "Zz", "lockx", "tags"}, "/": {"/"},
	"d": {"."}, "dd": {".."}, "ddsp": {".. ", "..  ", ".. ."}, "ddzw": {".‌.", "..‌", "‌.."},
	"ddads": {"..::$DATA", "..::$INDEX_ALLOCATION"}, "dsp": {". "}, "bs": {"\\"},
	"ctl": {"\x01", "\x7f", "\n", "\t"}, ":": {":"},
	"config": {"config", "index", "objects", "packed-refs", "description", "logs"},
	"HEAD":   {"HEAD"}, "PSEUDO": {"FOO_HEAD", "ORIG_HEAD", "X"}, "evil": {"evil"},
}

type refRowJ struct {
	Name   []string `json:"name"`
	Refuse bool     `json:"refuse"`
	Tags   []string `json:"tags"`
	Key    string   `json:"key"`
	Valid  bool     `json:"valid"`
}

// byteClass projects a byte to the character classes used by PathJail!IsPseudoCls.
func byteClasses(s string) []string {
	out := make([]string, len(s))
	for i := 0; i < len(s); i++ {
		c := s[i]
		switch {
		case c >= 'A' && c <= 'Z':
			out[i] = "U"
		case c == '_':
			out[i] = "_"
		case c >= 'a' && c <= 'z':
			out[i] = "l"
		case c >= '0' && c <= '9':
			out[i] = "d"
		case c == '.':
			out[i] = "."
		default:
			out[i] = "o"
		}
	}
	return out
}

// traceRec is one line of c14_trace.ndjson / c40 / c26 traces.
type traceRec struct {
	ID   int        `json:"id"`
	Sc   int        `json:"sc"`
	API  string     `json:"api"`
	Op   string     `json:"op"`
	Base []string   `json:"base"`
	P    []string   `json:"p"`
	Pc   [][]string `json:"pc"`
	Tmp  bool       `json:"tmp"`
}

type jailLink struct {
	At   []string `json:"at"`
	To   []string `json:"to"`
	Kind string   `json:"kind"`
}

type jailScen struct {
	Name   string     `json:"name"`
	Gitdir []string   `json:"gitdir"`
	Links  []jailLink `json:"links"`
}

func splitRaw(p string) []string {
	if p == "" {
		return []string{}
	}
	return strings.Split(p, "/")
}

func mustWrite(p, content string) {
	if err := os.MkdirAll(filepath.Dir(p), 0o755); err != nil {
		panic(err)
	}
	if err := os.WriteFile(p, []byte(content), 0o644); err != nil {
		panic(err)
	}
}

const (
	c14h1 = "1111111111111111111111111111111111111111"
	c14h2 = "2222222222222222222222222222222222222222"
	c14h3 = "3333333333333333333333333333333333333333"
)

// c14Sandbox builds S/{outside,repo/.git,...}; returns sentinel paths (relative to S).
func c14Sandbox(S string, links bool) []string {
	g := filepath.Join(S, "repo", ".git")
	mustWrite(filepath.Join(S, "outside", "secret"), "outside secret\n")
	mustWrite(filepath.Join(S, "outside", "refs", "heads", "x"), c14h3+"\n")
	mustWrite(filepath.Join(S, "repo", "work.txt"), "worktree file\n")
	mustWrite(filepath.Join(g, "HEAD"), "ref: refs/heads/master\n")
	mustWrite(filepath.Join(g, "config"), "[core]\n\trepositoryformatversion = 0\n\tbare = false\n")
	mustWrite(filepath.Join(g, "index"), "DIRC-decoy\n")
	mustWrite(filepath.Join(g, "description"), "decoy\n")
	mustWrite(filepath.Join(g, "objects", "aa", "bbbb"), "decoy object\n")
	mustWrite(filepath.Join(g, "objects", "info", "alternates-decoy"), "x\n")
	mustWrite(filepath.Join(g, "packed-refs"), "# pack-refs with: peeled fully-peeled sorted \n"+c14h1+" refs/heads/packed\n"+c14h2+" refs/tags/v1\n")
	mustWrite(filepath.Join(g, "refs", "heads", "master"), c14h1+"\n")
	mustWrite(filepath.Join(g, "refs", "tags", "t1"), c14h2+"\n")
	mustWrite(filepath.Join(g, "ORIG_HEAD"), c14h1+"\n")
	mustWrite(filepath.Join(g, "logs", "HEAD"), "")
	mustWrite(filepath.Join(g, "logs", "refs", "heads", "master"), "")
	if links {
		must(os.Symlink("../..", filepath.Join(g, "refs", "heads", "evil")))
		must(os.Symlink("../../../outside", filepath.Join(g, "refs", "out")))
		must(os.Symlink("../../..", filepath.Join(g, "logs", "refs", "heads", "evil")))
	}
	return []string{"outside/secret", "outside/refs/heads/x", "repo/work.txt", "repo/.git/config", "repo/.git/index",
		"repo/.git/description", "repo/.git/objects/aa/bbbb", "repo/.git/objects/info/alternates-decoy"}
}

func must(err error) {
	if err != nil {
		panic(err)
	}
}

var c14Scens = []jailScen{
	{Name: "plain", Gitdir: []string{"repo", ".git"}, Links: []jailLink{}},
	{Name: "links", Gitdir: []string{"repo", ".git"}, Links: []jailLink{
		{At: []string{"repo", ".git", "refs", "heads", "evil"}, To: []string{"..", ".."}, Kind: "rel"},
		{At: []string{"repo", ".git", "refs", "out"}, To: []string{"..", "..", "..", "outside"}, Kind: "rel"},
		{At: []string{"repo", ".git", "logs", "refs", "heads", "evil"}, To: []string{"..", "..", ".."}, Kind: "rel"},
	}},
}

func hashFile(p string) string {
	fi, err := os.Lstat(p)
	if err != nil {
		return "absent"
	}
	if !fi.Mode().IsRegular() {
		return "not-regular:" + fi.Mode().Type().String()
	}
	f, err := os.Open(p)
	if err != nil {
		return "unreadable"
	}
	defer f.Close()
	h := sha1.New()
	io.Copy(h, f)
	return fmt.Sprintf("%x", h.Sum(nil))
}

// listDir returns the sorted entry names of a directory ("" if unreadable).
func listDir(p string) string {
	es, err := os.ReadDir(p)
	if err != nil {
		return ""
	}
	var n []string
	for _, e := range es {
		n = append(n, e.Name())
	}
	sort.Strings(n)
	return strings.Join(n, "\x00")
}

type traceWriter struct {
	f   *os.File
	n   int
	enc *json.Encoder
}

func newTraceWriter(p string) (*traceWriter, error) {
	f, err := os.Create(p)
	if err != nil {
		return nil, err
	}
	return &traceWriter{f: f, enc: json.NewEncoder(f)}, nil
}

// add writes the records of one run, de-duplicated on what the judgement depends on (scenario, fs op,
// base, path, tmp); returns for each record its id in the trace and the API label it was made under.
// The final component of a TempFile-issued name is random: it is replaced by "<tmp>".
func (t *traceWriter) add(sc int, recs []jailfs.Rec, dedupe map[string]int) (ids []int, apis []string) {
	for _, r := range recs {
		p := splitRaw(r.Path)
		if r.Tmp && len(p) > 0 {
			p[len(p)-1] = "<tmp>"
		}
		k := fmt.Sprint(sc, "\x00", r.Op, "\x00", strings.Join(r.Base, "/"), "\x00", strings.Join(p, "/"), "\x00", r.Tmp)
		id, ok := dedupe[k]
		if !ok {
			t.n++
			id = t.n
			pc := make([][]string, len(p))
			for i, c := range p {
				pc[i] = byteClasses(c)
			}
			base := r.Base
			if base == nil {
				base = []string{}
			}
			_ = t.enc.Encode(traceRec{ID: id, Sc: sc, API: r.Label, Op: r.Op, Base: base, P: p, Pc: pc, Tmp: r.Tmp})
			dedupe[k] = id
		}
		ids = append(ids, id)
		apis = append(apis, r.Label)
	}
	return ids, apis
}

func c14(args []string) error {
	if len(args) < 2 {
		return fmt.Errorf("usage: c14 rows.ndjson outdir")
	}
	outdir := args[1]
	r := rep.New()
	rnd := mrand.New(mrand.NewSource(rep.Seed()))
	var rows []*refRowJ
	if err := rep.ReadNDJSON(args[0], func(line []byte) error {
		var row refRowJ
		if err := json.Unmarshal(line, &row); err != nil {
			return err
		}
		rows = append(rows, &row)
		return nil
	}); err != nil {
		return err
	}
	sort.Slice(rows, func(i, j int) bool { return fmt.Sprint(rows[i].Name) < fmt.Sprint(rows[j].Name) })
	// Phase A: the name-directed operations for (a budget of) all rows on a reusable sandbox - a refused name makes
	// no filesystem call at all, so this is cheap.  Phase B: the full sequence (names arriving through symbolic
	// targets, a planted HEAD, planted packed-refs lines, IterReferences, PackRefs) on a fresh sandbox for a sample.
	budgetA, budgetB := 4000, 150
	if rep.Thorough() {
		budgetA, budgetB = 14000, 2500
	}
	if len(rows) > budgetA {
		sort.SliceStable(rows, func(i, j int) bool { return len(rows[i].Name) < len(rows[j].Name) })
		keep := budgetA / 2
		rest := rows[keep:]
		rnd.Shuffle(len(rest), func(i, j int) { rest[i], rest[j] = rest[j], rest[i] })
		rows = append(rows[:keep], rest[:budgetA-keep]...)
	}
	inB := map[int]bool{}
	{
		// full sequence: every name with a short body first, then a seeded sample
		idx := rnd.Perm(len(rows))
		sort.SliceStable(idx, func(i, j int) bool { return len(rows[idx[i]].Name) < len(rows[idx[j]].Name) })
		for k, i := range idx {
			if k < budgetB/3 {
				inB[i] = true
			}
		}
		for _, i := range rnd.Perm(len(rows)) {
			if len(inB) >= budgetB {
				break
			}
			inB[i] = true
		}
	}

	tw, err := newTraceWriter(filepath.Join(outdir, "c14_trace.ndjson"))
	if err != nil {
		return err
	}
	defer tw.f.Close()
	sf, _ := os.Create(filepath.Join(outdir, "c14_scen.ndjson"))
	for _, s := range c14Scens {
		b, _ := json.Marshal(s)
		sf.Write(append(b, '\n'))
	}
	sf.Close()

	info := map[string]map[string]any{} // "<record id>|<api>" -> case info (first case that produced it)
	dedupe := map[string]int{}
	scratch := rep.Scratch()
	distinct := map[string]bool{}
	accepted, refusedOK := 0, 0
	caseNo, rebuilt := 0, 0

	type sandbox struct {
		S         string
		st        *filesystem.Storage
		log       *jailfs.Log
		sentinels []string
		before    map[string]string
		dirs      string
		uses      int
	}
	dirsOf := func(S string) string {
		return listDir(S) + "|" + listDir(filepath.Join(S, "repo")) + "|" + listDir(filepath.Join(S, "outside")) + "|" + listDir(filepath.Join(S, "repo", ".git", "objects"))
	}
	newSandbox := func(sci int) (*sandbox, error) {
		S, err := os.MkdirTemp(scratch, "c14sb")
		if err != nil {
			return nil, err
		}
		rebuilt++
		sb := &sandbox{S: S, before: map[string]string{}}
		sb.sentinels = c14Sandbox(S, sci == 1)
		for _, s := range sb.sentinels {
			sb.before[s] = hashFile(filepath.Join(S, s))
		}
		sb.dirs = dirsOf(S)
		sb.log = jailfs.NewLog()
		fs := jailfs.New(osfs.New(filepath.Join(S, "repo", ".git")), []string{"repo", ".git"}, sb.log)
		sb.log.Off = true
		sb.st = filesystem.NewStorage(fs, cache.NewObjectLRUDefault())
		sb.log.Off = false
		return sb, nil
	}
	drop := func(sb *sandbox) {
		_ = sb.st.Close()
		os.RemoveAll(sb.S)
	}
	readOnly := map[string]bool{"Stat": true, "Lstat": true, "Open": true, "ReadDir": true, "Readlink": true}
	shared := make([]*sandbox, len(c14Scens))

	runCase := func(row *refRowJ, name string, sci int, full bool) error {
		caseNo++
		var sb *sandbox
		var err error
		if full {
			sb, err = newSandbox(sci)
		} else {
			if shared[sci] == nil || shared[sci].uses >= 400 {
				if shared[sci] != nil {
					drop(shared[sci])
				}
				shared[sci], err = newSandbox(sci)
			}
			sb = shared[sci]
		}
		if err != nil {
			return err
		}
		sb.uses++
		outcome := c14Ops(sb.st, sb.log, name, filepath.Join(sb.S, "repo", ".git"), full)
		recs := sb.log.Take()
		ids, apis := tw.add(sci+1, recs, dedupe)
		tagKey := row.Key
		if tagKey == "symlinked-dir" && sci != 1 { // no link planted in this scenario: the name is an ordinary one
			tagKey = "plain"
		}
		ci := map[string]any{"name": name, "abstract": row.Name, "tags": row.Tags, "key": tagKey, "scenario": c14Scens[sci].Name, "spec_refuse": row.Refuse, "full_sequence": full}
		for i, id := range ids {
			k := fmt.Sprintf("%d|%s", id, apis[i])
			if _, ok := info[k]; !ok {
				info[k] = ci
			}
		}
		r.Eval(len(outcome))
		// observation 1: a mutating call succeeded although the spec says the name must be refused
		for _, o := range outcome {
			if !o.mutator {
				continue
			}
			if row.Refuse && o.err == nil {
				r.Diverge(o.api+"|accepts-escaping-name|"+tagKey,
					fmt.Sprintf("%s(%q) succeeded; the name lands outside the loose-ref slots under the permissive reading (spec MustRefuse)", o.api, name), ci)
			} else if row.Refuse {
				refusedOK++
			} else if o.err == nil {
				accepted++
			}
		}
		// observation 2: sentinels (only when something other than a read went through the recorder)
		wrote := full
		for _, rc := range recs {
			if !readOnly[rc.Op] {
				wrote = true
			}
		}
		bad := false
		if wrote {
			for _, s := range sb.sentinels {
				if h := hashFile(filepath.Join(sb.S, s)); h != sb.before[s] {
					bad = true
					cls := "gitdir-metadata"
					if !strings.HasPrefix(s, "repo/.git/") {
						cls = "outside-gitdir"
					}
					r.Diverge("sentinel|"+cls+"-changed|"+tagKey,
						fmt.Sprintf("sentinel %s changed (%s -> %s) after reference ops on %q", s, sb.before[s], h, name), ci)
				}
			}
			if d := dirsOf(sb.S); d != sb.dirs {
				bad = true
				r.Diverge("sentinel|new-entry-outside-refs|"+tagKey,
					fmt.Sprintf("directory listing outside the refs namespace changed after reference ops on %q", name), ci)
			}
		}
		if caseNo%97 == 1 {
			r.Sample(map[string]any{"name": name, "scenario": c14Scens[sci].Name, "spec_refuse": row.Refuse, "fs_calls": len(recs), "full_sequence": full})
		}
		if full {
			drop(sb)
		} else if bad {
			drop(sb)
			shared[sci] = nil
		}
		return nil
	}

	for ri, row := range rows {
		for v := 0; v < 2; v++ {
			var b strings.Builder
			for _, t := range row.Name {
				c := refTokBytes[t]
				if v == 0 {
					b.WriteString(c[0])
				} else {
					b.WriteString(c[rnd.Intn(len(c))])
				}
			}
			name := b.String()
			if distinct[name] {
				continue
			}
			distinct[name] = true
			for sci := range c14Scens {
				// the links scenario matters for names that can reach a planted link; run it for those and a sample
				if sci == 1 && !strings.Contains(name, "evil") && !strings.Contains(name, "out") && (ri+v)%8 != 0 {
					continue
				}
				if err := runCase(row, name, sci, false); err != nil {
					return err
				}
				if inB[ri] {
					if err := runCase(row, name, sci, true); err != nil {
						return err
					}
				}
			}
		}
	}
	for _, sb := range shared {
		if sb != nil {
			drop(sb)
		}
	}
	ib, _ := json.Marshal(info)
	if err := os.WriteFile(filepath.Join(outdir, "c14_cases.json"), ib, 0o644); err != nil {
		return err
	}
	r.Distinct = len(distinct)
	r.Traces = tw.n
	r.Extra["c14_cases"] = caseNo
	r.Extra["c14_sandboxes_built"] = rebuilt
	r.Extra["c14_full_sequence_rows"] = len(inB)
	r.Extra["c14_mutators_accepted"] = accepted
	r.Extra["c14_mutators_refused_as_required"] = refusedOK
	r.Extra["c14_rows"] = len(rows)
	return r.Emit()
}

type c14Outcome struct {
	api     string
	err     error
	mutator bool
}

// c14Ops drives the reference / reflog API with one name.  Errors are expected (refusal is fine).
func c14Ops(st *filesystem.Storage, log *jailfs.Log, name, gitdir string, full bool) []c14Outcome {
	var out []c14Outcome
	n := plumbing.ReferenceName(name)
	do := func(api string, mut bool, f func() error) {
		log.SetLabel(api)
		var err error
		func() {
			defer func() {
				if p := recover(); p != nil {
					err = fmt.Errorf("panic: %v", p)
				}
			}()
			err = f()
		}()
		out = append(out, c14Outcome{api, err, mut})
	}
	drain := func() error {
		it, err := st.IterReferences()
		if err != nil {
			return err
		}
		defer it.Close()
		return it.ForEach(func(*plumbing.Reference) error { return nil })
	}
	do("Reference", false, func() error { _, err := st.Reference(n); return err })
	do("SetReference", true, func() error { return st.SetReference(plumbing.NewHashReference(n, plumbing.NewHash(c14h1))) })
	do("CheckAndSetReference", true, func() error {
		return st.CheckAndSetReference(plumbing.NewHashReference(n, plumbing.NewHash(c14h2)), plumbing.NewHashReference(n, plumbing.NewHash(c14h1)))
	})
	do("Reference", false, func() error { _, err := st.Reference(n); return err })
	if full {
		do("ResolveSymbolic", false, func() error {
			if err := st.SetReference(plumbing.NewSymbolicReference("refs/heads/sym", n)); err != nil {
				return err
			}
			_, err := storer.ResolveReference(st, "refs/heads/sym")
			return err
		})
	}
	ent := &reflog.Entry{OldHash: plumbing.NewHash(c14h1), NewHash: plumbing.NewHash(c14h2), Message: "m",
		Committer: reflog.Signature{Name: "A", Email: "a@b", When: time.Unix(1000000000, 0).UTC()}}
	do("AppendReflog", true, func() error { return st.AppendReflog(n, ent) })
	do("Reflog", false, func() error { _, err := st.Reflog(n); return err })
	do("DeleteReflog", false, func() error { return st.DeleteReflog(n) })
	if full {
		do("IterReferences", false, drain)
	}
	do("RemoveReference", false, func() error { return st.RemoveReference(n) })
	if !full {
		return out
	}
	// names arriving from disk content
	if !strings.ContainsAny(name, "\n") {
		log.Off = true
		_ = os.WriteFile(filepath.Join(gitdir, "HEAD"), []byte("ref: "+name+"\n"), 0o644)
		log.Off = false
		do("ResolvePlantedHEAD", false, func() error {
			_, _ = st.Reference(plumbing.HEAD)
			_, err := storer.ResolveReference(st, plumbing.HEAD)
			_ = drain()
			return err
		})
		if !strings.ContainsAny(name, " \t") {
			log.Off = true
			f, err := os.OpenFile(filepath.Join(gitdir, "packed-refs"), os.O_APPEND|os.O_WRONLY, 0o644)
			if err == nil {
				fmt.Fprintf(f, "%s %s\n", c14h3, name)
				f.Close()
			}
			log.Off = false
			do("PlantedPackedRefs", false, func() error {
				_, _ = st.Reference(n)
				_ = drain()
				_ = st.RemoveReference("refs/heads/packed")
				return st.PackRefs()
			})
		}
	}
	do("PackRefs", false, func() error { return st.PackRefs() })
	return out
}
