package main

// C26: worktree operations never touch paths outside the worktree or in .git.
//
// Scenarios come from spec/rules/TreeJail.tla (malicious tree entries, symlink entries, planted symlinks,
// symlink-then-directory swaps, protectNTFS x protectHFS).  For each one the harness writes the trees as RAW
// objects (bypassing Tree.Encode validation), plants the symlinks, and drives Checkout / Reset / Status / Add /
// Restore / Move / Remove / Clean of the real Worktree over a jailfs recorder that sits below go-git's own
// path-validating wrapper.  One trace per API call (the requests in order + the symlinks present when the call
// started) goes to c26_trace.ndjson; spec/rules/TreeJailTrace.tla judges it.  Sentinel files in .git and outside
// the worktree are hashed before/after as an independent observation.  Refusing an operation is fine.

import (
	"bytes"
	"encoding/json"
	"fmt"
	mrand "math/rand"
	"os"
	"path/filepath"
	"sort"
	"strings"
	"time"

	"github.com/go-git/go-billy/v6"
	"github.com/go-git/go-billy/v6/osfs"

	git "github.com/go-git/go-git/v6"
	"github.com/go-git/go-git/v6/config"
	"github.com/go-git/go-git/v6/plumbing"
	"github.com/go-git/go-git/v6/plumbing/cache"
	"github.com/go-git/go-git/v6/plumbing/object"
	"github.com/go-git/go-git/v6/plumbing/storer"
	"github.com/go-git/go-git/v6/storage/filesystem"

	"verifharness/internal/jailfs"
	"verifharness/internal/rep"
)

func init() { rep.Register("c26", c26) }

var tjTok = map[string]string{
	"<git~1>": "git~1", "<dotgit-sp>": ".git ", "<dotgit-dot>": ".git.", "<dotgit-ads>": ".git::$INDEX_ALLOCATION",
	"<dotgit-zw>": ".g‌it",
}
var tjInv = func() map[string]string {
	m := map[string]string{}
	for k, v := range tjTok {
		m[v] = k
	}
	return m
}()

func tjRender(c string) string {
	if v, ok := tjTok[c]; ok {
		return v
	}
	return c
}

func tjTokens(p string) []string {
	parts := splitRaw(p)
	for i, s := range parts {
		if t, ok := tjInv[s]; ok {
			parts[i] = t
		}
	}
	return parts
}

type tjEntry struct {
	Path   []string `json:"path"`
	Kind   string   `json:"kind"`
	Target []string `json:"target"`
}

type tjPlant struct {
	At []string `json:"at"`
	To []string `json:"to"`
}

type tjRow struct {
	C1      []tjEntry `json:"c1"`
	C2      []tjEntry `json:"c2"`
	Planted []tjPlant `json:"planted"`
	NTFS    bool      `json:"ntfs"`
	HFS     bool      `json:"hfs"`
	Key     string    `json:"key"`
	Benign  bool      `json:"benign"`
}

type tjRec struct {
	Op   string   `json:"op"`
	Base []string `json:"base"`
	P    []string `json:"p"`
	Err  bool     `json:"err"`
	To   []string `json:"to"`
	Tk   string   `json:"tk"`
}

type tjTrace struct {
	ID    int        `json:"id"`
	API   string     `json:"api"`
	NTFS  bool       `json:"ntfs"`
	HFS   bool       `json:"hfs"`
	Links []jailLink `json:"links"`
	Recs  []tjRec    `json:"recs"`
	SRecs []tjRec    `json:"srecs"` // submodule operations: requests on the storage filesystem
}

type tjSub struct {
	Name    []string  `json:"name"`
	Path    []string  `json:"path"`
	Planted []tjPlant `json:"planted"`
	NTFS    bool      `json:"ntfs"`
	HFS     bool      `json:"hfs"`
	Key     string    `json:"key"`
}

func toTjRecs(recs []jailfs.Rec) []tjRec {
	out := make([]tjRec, 0, len(recs))
	for _, rc := range recs {
		base := rc.Base
		if base == nil {
			base = []string{}
		}
		x := tjRec{Op: rc.Op, Base: base, P: tjTokens(rc.Path), Err: rc.Err, To: []string{}, Tk: "rel"}
		if rc.Op == "Symlink" {
			x.To = tjTokens(rc.Path2)
			if filepath.IsAbs(rc.Path2) {
				x.Tk = "out"
			}
		}
		out = append(out, x)
	}
	return out
}

func renderPath(p []string) string {
	out := make([]string, len(p))
	for i, c := range p {
		out[i] = tjRender(c)
	}
	return strings.Join(out, "/")
}

func putObj(st storer.EncodedObjectStorer, t plumbing.ObjectType, data []byte) (plumbing.Hash, error) {
	o := st.NewEncodedObject()
	o.SetType(t)
	w, err := o.Writer()
	if err != nil {
		return plumbing.ZeroHash, err
	}
	if _, err := w.Write(data); err != nil {
		return plumbing.ZeroHash, err
	}
	if err := w.Close(); err != nil {
		return plumbing.ZeroHash, err
	}
	return st.SetEncodedObject(o)
}

// rawTree writes the entries as raw tree objects (no validation) and returns the root tree hash.
func rawTree(st storer.EncodedObjectStorer, ents []tjEntry, depth int) (plumbing.Hash, error) {
	type item struct {
		name string
		mode string
		h    plumbing.Hash
	}
	var items []item
	groups := map[string][]tjEntry{}
	var order []string
	for _, e := range ents {
		name := tjRender(e.Path[depth])
		if len(e.Path) == depth+1 {
			if e.Kind == "link" {
				h, err := putObj(st, plumbing.BlobObject, []byte(renderPath(e.Target)))
				if err != nil {
					return plumbing.ZeroHash, err
				}
				items = append(items, item{name, "120000", h})
			} else {
				h, err := putObj(st, plumbing.BlobObject, []byte("content of "+renderPath(e.Path)+"\n"))
				if err != nil {
					return plumbing.ZeroHash, err
				}
				items = append(items, item{name, "100644", h})
			}
			continue
		}
		if _, ok := groups[name]; !ok {
			order = append(order, name)
		}
		groups[name] = append(groups[name], e)
	}
	for _, name := range order {
		h, err := rawTree(st, groups[name], depth+1)
		if err != nil {
			return plumbing.ZeroHash, err
		}
		items = append(items, item{name, "40000", h})
	}
	sort.SliceStable(items, func(i, j int) bool {
		a, b := items[i].name, items[j].name
		if items[i].mode == "40000" {
			a += "/"
		}
		if items[j].mode == "40000" {
			b += "/"
		}
		return a < b
	})
	var buf bytes.Buffer
	for _, it := range items {
		buf.WriteString(it.mode + " " + it.name + "\x00")
		buf.Write(it.h.Bytes())
	}
	return putObj(st, plumbing.TreeObject, buf.Bytes())
}

func rawCommit(st storer.EncodedObjectStorer, tree plumbing.Hash, msg string) (plumbing.Hash, error) {
	sig := object.Signature{Name: "A", Email: "a@b", When: time.Unix(1000000000, 0).UTC()}
	c := &object.Commit{Author: sig, Committer: sig, Message: msg, TreeHash: tree}
	o := st.NewEncodedObject()
	if err := c.Encode(o); err != nil {
		return plumbing.ZeroHash, err
	}
	return st.SetEncodedObject(o)
}

// snapshotLinks lists the symbolic links currently in the worktree (not below .git).
func snapshotLinks(wt string) []jailLink {
	links := []jailLink{}
	_ = filepath.Walk(wt, func(p string, fi os.FileInfo, err error) error {
		if err != nil {
			return nil
		}
		rel, _ := filepath.Rel(wt, p)
		if rel == ".git" {
			return filepath.SkipDir
		}
		if fi.Mode()&os.ModeSymlink != 0 {
			t, err := os.Readlink(p)
			if err != nil {
				return nil
			}
			kind := "rel"
			if filepath.IsAbs(t) {
				kind = "out"
			}
			links = append(links, jailLink{At: append([]string{"wt"}, tjTokens(filepath.ToSlash(rel))...), To: tjTokens(t), Kind: kind})
		}
		return nil
	})
	return links
}

func c26(args []string) error {
	if len(args) < 2 {
		return fmt.Errorf("usage: c26 rows.ndjson outdir")
	}
	outdir := args[1]
	r := rep.New()
	rnd := mrand.New(mrand.NewSource(rep.Seed()))
	var rows []*tjRow
	if err := rep.ReadNDJSON(args[0], func(line []byte) error {
		var row tjRow
		if err := json.Unmarshal(line, &row); err != nil {
			return err
		}
		rows = append(rows, &row)
		return nil
	}); err != nil {
		return err
	}
	sort.Slice(rows, func(i, j int) bool {
		a, _ := json.Marshal(rows[i])
		b, _ := json.Marshal(rows[j])
		return string(a) < string(b)
	})
	budget := 400
	if rep.Thorough() {
		budget = 4000
	}
	if len(rows) > budget {
		// stratified by scenario key so that every attack shape is present
		byKey := map[string][]*tjRow{}
		var keys []string
		for _, row := range rows {
			// strata: scenario key x longest entry path (so that middle-position components are always present)
			ml := 0
			for _, e := range row.C2 {
				if len(e.Path) > ml {
					ml = len(e.Path)
				}
			}
			sk := fmt.Sprintf("%s/%d", row.Key, ml)
			if _, ok := byKey[sk]; !ok {
				keys = append(keys, sk)
			}
			byKey[sk] = append(byKey[sk], row)
		}
		sort.Strings(keys)
		var sel []*tjRow
		per := budget / len(keys)
		for _, k := range keys {
			g := byKey[k]
			rnd.Shuffle(len(g), func(i, j int) { g[i], g[j] = g[j], g[i] })
			if len(g) > per {
				g = g[:per]
			}
			sel = append(sel, g...)
		}
		rows = sel
	}

	tf, err := os.Create(filepath.Join(outdir, "c26_trace.ndjson"))
	if err != nil {
		return err
	}
	defer tf.Close()
	enc := json.NewEncoder(tf)
	info := map[string]any{}
	ntr := 0
	opsOK, benignOK, benignN := 0, 0, 0
	keyCount := map[string]int{}

	for _, row := range rows {
		keyCount[row.Key]++
		S, err := os.MkdirTemp(rep.Scratch(), "c26sb")
		if err != nil {
			return err
		}
		wt := filepath.Join(S, "wt")
		must(os.MkdirAll(wt, 0o755))
		mustWrite(filepath.Join(S, "outside", "secret"), "outside secret\n")
		mustWrite(filepath.Join(S, "outside", "hooks", "x"), "x\n")
		log := jailfs.NewLog()
		log.Off = true
		wfs := jailfs.New(osfs.New(wt), []string{"wt"}, log)
		st := filesystem.NewStorage(osfs.New(filepath.Join(wt, ".git")), cache.NewObjectLRUDefault())
		repo, err := git.Init(st, git.WithWorkTree(wfs))
		if err != nil {
			return fmt.Errorf("init: %w", err)
		}
		cfg, err := repo.Config()
		if err != nil {
			return err
		}
		cfg.Core.ProtectNTFS = config.NewOptBool(row.NTFS)
		cfg.Core.ProtectHFS = config.NewOptBool(row.HFS)
		if err := repo.SetConfig(cfg); err != nil {
			return err
		}
		mustWrite(filepath.Join(wt, ".git", "hooks", "pre-commit"), "#!/bin/sh\n# decoy\n")
		mustWrite(filepath.Join(wt, ".git", "decoy"), "decoy\n")
		var c1, c2 plumbing.Hash
		if len(row.C1) > 0 {
			t, err := rawTree(st, row.C1, 0)
			if err != nil {
				return err
			}
			if c1, err = rawCommit(st, t, "c1"); err != nil {
				return err
			}
		}
		t2, err := rawTree(st, row.C2, 0)
		if err != nil {
			return err
		}
		if c2, err = rawCommit(st, t2, "c2"); err != nil {
			return err
		}
		for _, pl := range row.Planted {
			p := filepath.Join(wt, renderPath(pl.At))
			must(os.MkdirAll(filepath.Dir(p), 0o755))
			must(os.Symlink(renderPath(pl.To), p))
		}
		sentinels := []string{"outside/secret", "outside/hooks/x", "wt/.git/hooks/pre-commit", "wt/.git/decoy"}
		before := map[string]string{}
		for _, s := range sentinels {
			before[s] = hashFile(filepath.Join(S, s))
		}
		dirs := func() string {
			return listDir(S) + "|" + listDir(filepath.Join(S, "outside")) + "|" + listDir(filepath.Join(S, "outside", "hooks")) + "|" + listDir(filepath.Join(wt, ".git", "hooks"))
		}
		dirsBefore := dirs()
		w, err := repo.Worktree()
		if err != nil {
			return err
		}
		ci := map[string]any{"key": row.Key, "c1": row.C1, "c2": row.C2, "planted": row.Planted, "ntfs": row.NTFS, "hfs": row.HFS}

		do := func(api string, f func() error) error {
			links := snapshotLinks(wt)
			log.Take()
			log.Off = false
			var err error
			func() {
				defer func() {
					if p := recover(); p != nil {
						err = fmt.Errorf("panic: %v", p)
					}
				}()
				err = f()
			}()
			log.Off = true
			recs := log.Take()
			if err == nil {
				opsOK++
			}
			r.Eval(1)
			if len(recs) == 0 {
				return err
			}
			ntr++
			tr := tjTrace{ID: ntr, API: api, NTFS: row.NTFS, HFS: row.HFS, Links: links, Recs: make([]tjRec, 0, len(recs)), SRecs: []tjRec{}}
			for _, rc := range recs {
				base := rc.Base
				if base == nil {
					base = []string{}
				}
				x := tjRec{Op: rc.Op, Base: base, P: tjTokens(rc.Path), Err: rc.Err, To: []string{}, Tk: "rel"}
				if rc.Op == "Symlink" {
					x.To = tjTokens(rc.Path2)
					if filepath.IsAbs(rc.Path2) {
						x.Tk = "out"
					}
				}
				tr.Recs = append(tr.Recs, x)
			}
			_ = enc.Encode(&tr)
			info[fmt.Sprint(ntr)] = map[string]any{"api": api, "scenario": ci, "error": fmt.Sprint(err)}
			return err
		}

		// cherry-pick of the attack commit onto a harmless base: entries are INSERTED over whatever is planted
		// (no preceding removal as in a forced checkout)
		if t0, err := rawTree(st, []tjEntry{{Path: []string{"base.txt"}, Kind: "file"}}, 0); err == nil {
			if c0, err := rawCommit(st, t0, "base"); err == nil {
				_ = do("Checkout", func() error { return w.Checkout(&git.CheckoutOptions{Hash: c0, Force: true}) })
				_ = do("CherryPick", func() error {
					co, err := repo.CommitObject(c2)
					if err != nil {
						return err
					}
					sig := &object.Signature{Name: "A", Email: "a@b", When: time.Unix(1000000000, 0).UTC()}
					return w.CherryPick(&git.CommitOptions{Author: sig, Committer: sig, AllowEmptyCommits: true}, git.TheirsMergeStrategy, co)
				})
			}
		}
		if !c1.IsZero() {
			_ = do("Checkout", func() error { return w.Checkout(&git.CheckoutOptions{Hash: c1, Force: true}) })
		}
		errCo := do("Checkout", func() error { return w.Checkout(&git.CheckoutOptions{Hash: c2, Force: true}) })
		if row.Benign {
			benignN++
			if errCo == nil {
				if _, err := os.Lstat(filepath.Join(wt, renderPath(row.C2[0].Path))); err == nil {
					benignOK++
				}
			}
		}
		if !c1.IsZero() {
			_ = do("Reset", func() error { return w.Reset(&git.ResetOptions{Commit: c1, Mode: git.HardReset}) })
		}
		_ = do("Reset", func() error { return w.Reset(&git.ResetOptions{Commit: c2, Mode: git.HardReset}) })
		_ = do("Status", func() error { _, err := w.Status(); return err })
		// pre-existing worktree state for the path-taking calls: the entry paths exist on disk (written by the
		// harness, not through the recorder) unless they contain dot components or start at the real .git
		for i, e := range row.C2 {
			ok := e.Path[0] != ".git"
			for _, c := range e.Path {
				if c == ".." || c == "." {
					ok = false
				}
			}
			// never plant through a symbolic link (that would be the harness escaping, not go-git)
			cur := wt
			for _, c := range e.Path[:len(e.Path)-1] {
				cur = filepath.Join(cur, tjRender(c))
				if fi, err := os.Lstat(cur); err == nil && !fi.IsDir() {
					ok = false
				}
			}
			if ok {
				full := filepath.Join(wt, renderPath(e.Path))
				if os.MkdirAll(filepath.Dir(full), 0o755) == nil {
					if _, err := os.Lstat(full); err != nil {
						_ = os.WriteFile(full, []byte("planted\n"), 0o644)
					}
				}
			}
			_ = os.WriteFile(filepath.Join(wt, fmt.Sprintf("src-%d.txt", i)), []byte("src\n"), 0o644)
		}
		for i, e := range row.C2 {
			p := renderPath(e.Path)
			_ = do("Add", func() error { _, err := w.Add(p); return err })
			_ = do("Restore", func() error {
				return w.Restore(&git.RestoreOptions{Staged: true, Worktree: true, Files: []string{p}})
			})
			_ = do("Move", func() error { _, err := w.Move(p, fmt.Sprintf("moved-%d", i)); return err })
			_ = do("Move", func() error { _, err := w.Move(fmt.Sprintf("src-%d.txt", i), p); return err })
			_ = do("Remove", func() error { _, err := w.Remove(p); return err })
		}
		_ = do("Clean", func() error { return w.Clean(&git.CleanOptions{Dir: true}) })

		for _, s := range sentinels {
			if h := hashFile(filepath.Join(S, s)); h != before[s] {
				cls := "dotgit"
				if strings.HasPrefix(s, "outside/") {
					cls = "outside-worktree"
				}
				r.Diverge("sentinel|"+cls+"-changed|"+row.Key, fmt.Sprintf("sentinel %s changed (%s -> %s)", s, before[s], h), ci)
			}
		}
		if d := dirs(); d != dirsBefore {
			r.Diverge("sentinel|new-entry|"+row.Key, "a directory outside the worktree or .git/hooks gained or lost an entry", ci)
		}
		if ntr%53 == 1 {
			r.Sample(map[string]any{"scenario": ci})
		}
		_ = st.Close()
		os.RemoveAll(S)
	}
	// ---- submodule scenarios (treejail_subs.ndjson next to the rows): .gitmodules name / path attacks
	var subs []*tjSub
	_ = rep.ReadNDJSON(filepath.Join(filepath.Dir(args[0]), "treejail_subs.ndjson"), func(line []byte) error {
		var x tjSub
		if err := json.Unmarshal(line, &x); err != nil {
			return err
		}
		subs = append(subs, &x)
		return nil
	})
	sort.Slice(subs, func(i, j int) bool {
		a, _ := json.Marshal(subs[i])
		b, _ := json.Marshal(subs[j])
		return string(a) < string(b)
	})
	subBudget := 120
	if rep.Thorough() {
		subBudget = len(subs)
	}
	if len(subs) > subBudget {
		rnd.Shuffle(len(subs), func(i, j int) { subs[i], subs[j] = subs[j], subs[i] })
		subs = subs[:subBudget]
	}
	subInit, subRepo := 0, 0
	for _, sb := range subs {
		keyCount[sb.Key]++
		S, err := os.MkdirTemp(rep.Scratch(), "c26sub")
		if err != nil {
			return err
		}
		wt := filepath.Join(S, "wt")
		must(os.MkdirAll(wt, 0o755))
		mustWrite(filepath.Join(S, "outside", "secret"), "outside secret\n")
		mustWrite(filepath.Join(S, "evil-marker"), "x\n")
		log, slog := jailfs.NewLog(), jailfs.NewLog()
		log.Off, slog.Off = true, true
		wfs := jailfs.New(osfs.New(wt), []string{"wt"}, log)
		sfs := jailfs.New(osfs.New(filepath.Join(wt, ".git")), []string{"wt", ".git"}, slog)
		st := filesystem.NewStorage(sfs, cache.NewObjectLRUDefault())
		repo, err := git.Init(st, git.WithWorkTree(wfs))
		if err != nil {
			return fmt.Errorf("init: %w", err)
		}
		cfg, _ := repo.Config()
		cfg.Core.ProtectNTFS = config.NewOptBool(sb.NTFS)
		_ = repo.SetConfig(cfg)
		mustWrite(filepath.Join(wt, ".git", "hooks", "pre-commit"), "#!/bin/sh\n# decoy\n")
		gm := fmt.Sprintf("[submodule %q]\n\tpath = %s\n\turl = file:///nonexistent/verif-sub.git\n", renderPath(sb.Name), renderPath(sb.Path))
		gmh, err := putObj(st, plumbing.BlobObject, []byte(gm))
		if err != nil {
			return err
		}
		// root tree: .gitmodules + a + gitlink at path (nested raw trees)
		var mk func(comps []string) (plumbing.Hash, string, error)
		mk = func(comps []string) (plumbing.Hash, string, error) {
			if len(comps) == 1 {
				return plumbing.NewHash(c14h1), "160000", nil
			}
			h, mode, err := mk(comps[1:])
			if err != nil {
				return plumbing.ZeroHash, "", err
			}
			var b bytes.Buffer
			b.WriteString(mode + " " + tjRender(comps[1]) + "\x00")
			b.Write(h.Bytes())
			th, err := putObj(st, plumbing.TreeObject, b.Bytes())
			return th, "40000", err
		}
		lh, lmode, err := mk(sb.Path)
		if err != nil {
			return err
		}
		ah, _ := putObj(st, plumbing.BlobObject, []byte("a\n"))
		type it struct {
			n, m string
			h    plumbing.Hash
		}
		items := []it{{".gitmodules", "100644", gmh}, {"a", "100644", ah}, {tjRender(sb.Path[0]), lmode, lh}}
		sort.SliceStable(items, func(i, j int) bool {
			a, b := items[i].n, items[j].n
			if items[i].m == "40000" {
				a += "/"
			}
			if items[j].m == "40000" {
				b += "/"
			}
			return a < b
		})
		var tb bytes.Buffer
		for _, x := range items {
			tb.WriteString(x.m + " " + x.n + "\x00")
			tb.Write(x.h.Bytes())
		}
		th, err := putObj(st, plumbing.TreeObject, tb.Bytes())
		if err != nil {
			return err
		}
		ch, err := rawCommit(st, th, "sub")
		if err != nil {
			return err
		}
		for _, pl := range sb.Planted {
			must(os.Symlink(renderPath(pl.To), filepath.Join(wt, renderPath(pl.At))))
		}
		sentinels := []string{"outside/secret", "evil-marker", "wt/.git/hooks/pre-commit"}
		before := map[string]string{}
		for _, s := range sentinels {
			before[s] = hashFile(filepath.Join(S, s))
		}
		dirsB := listDir(S) + "|" + listDir(filepath.Join(S, "outside")) + "|" + listDir(filepath.Join(wt, ".git", "hooks"))
		w, err := repo.Worktree()
		if err != nil {
			return err
		}
		ci := map[string]any{"key": sb.Key, "submodule_name": renderPath(sb.Name), "submodule_path": renderPath(sb.Path), "planted": sb.Planted, "ntfs": sb.NTFS}
		do := func(api string, f func() error) error {
			links := snapshotLinks(wt)
			log.Take()
			slog.Take()
			log.Off, slog.Off = false, false
			var err error
			func() {
				defer func() {
					if p := recover(); p != nil {
						err = fmt.Errorf("panic: %v", p)
					}
				}()
				err = f()
			}()
			log.Off, slog.Off = true, true
			recs, srecs := log.Take(), slog.Take()
			r.Eval(1)
			if err == nil {
				opsOK++
			}
			if len(recs)+len(srecs) == 0 {
				return err
			}
			ntr++
			tr := tjTrace{ID: ntr, API: api, NTFS: sb.NTFS, HFS: sb.HFS, Links: links, Recs: toTjRecs(recs), SRecs: []tjRec{}}
			if api != "Checkout" { // the storage side of a checkout is ordinary object / index / ref traffic
				tr.SRecs = toTjRecs(srecs)
			}
			_ = enc.Encode(&tr)
			info[fmt.Sprint(ntr)] = map[string]any{"api": api, "scenario": ci, "error": fmt.Sprint(err)}
			return err
		}
		_ = do("Checkout", func() error { return w.Checkout(&git.CheckoutOptions{Hash: ch, Force: true}) })
		var sms git.Submodules
		_ = do("Submodules", func() error { var err error; sms, err = w.Submodules(); return err })
		for _, sm := range sms {
			if do("SubmoduleInit", func() error { return sm.Init() }) == nil {
				subInit++
			}
			if do("SubmoduleRepository", func() error {
				rr, err := sm.Repository()
				if err == nil && rr != nil {
					_ = rr.Close()
				}
				return err
			}) == nil {
				subRepo++
			}
		}
		for _, s := range sentinels {
			if h := hashFile(filepath.Join(S, s)); h != before[s] {
				r.Diverge("sentinel|changed|"+sb.Key, fmt.Sprintf("sentinel %s changed after submodule operations", s), ci)
			}
		}
		if d := listDir(S) + "|" + listDir(filepath.Join(S, "outside")) + "|" + listDir(filepath.Join(wt, ".git", "hooks")); d != dirsB {
			r.Diverge("sentinel|new-entry|"+sb.Key, "a directory outside the worktree or .git/hooks gained or lost an entry after submodule operations", ci)
		}
		_ = st.Close()
		os.RemoveAll(S)
	}
	// ---- histories on one long-lived handle (spec/rules/TreeJailHist.tla): the kind of component d changes between
	// operations (directory -> symlink by checkout / reset / directly on disk); every step is recorded as its own
	// trace with the link table of the CURRENT tree.  On-disk worktree; handle "reused" = one *Worktree for the whole
	// history, "fresh" = a new one per step (control).
	type hStep struct {
		Op   string   `json:"op"`
		Arg  string   `json:"arg"`
		Path []string `json:"path"`
		Dk   string   `json:"dk"`
		Tgt  []string `json:"tgt"`
	}
	type hHist struct {
		Steps []hStep `json:"steps"`
		Must  []bool  `json:"must"`
	}
	var hists []*hHist
	_ = rep.ReadNDJSON(filepath.Join(filepath.Dir(args[0]), "treejail_hist.ndjson"), func(line []byte) error {
		var x hHist
		if err := json.Unmarshal(line, &x); err != nil {
			return err
		}
		hists = append(hists, &x)
		return nil
	})
	sort.Slice(hists, func(i, j int) bool {
		a, _ := json.Marshal(hists[i])
		b, _ := json.Marshal(hists[j])
		return string(a) < string(b)
	})
	hBudget := 72
	if rep.Thorough() {
		hBudget = 1200
	}
	if len(hists) > hBudget {
		// strata: (prime, swap-by, target, first probe op); short histories first inside a stratum
		strata := map[string][]*hHist{}
		var sk []string
		for _, h := range hists {
			k := ""
			for _, st := range h.Steps[1:] {
				if st.Path == nil || len(st.Path) == 0 || st.Dk == "dir" {
					k += st.Op + ":" + st.Arg + ":" + strings.Join(st.Tgt, "/") + "|"
				} else {
					k += st.Op
					break
				}
			}
			if _, ok := strata[k]; !ok {
				sk = append(sk, k)
			}
			strata[k] = append(strata[k], h)
		}
		sort.Strings(sk)
		var sel []*hHist
		for round := 0; len(sel) < hBudget && round < 64; round++ {
			for _, k := range sk {
				g := strata[k]
				if round == 0 {
					rnd.Shuffle(len(g), func(i, j int) { g[i], g[j] = g[j], g[i] })
					sort.SliceStable(g, func(i, j int) bool { return len(g[i].Steps) < len(g[j].Steps) })
				}
				if round < len(g) && len(sel) < hBudget {
					sel = append(sel, g[round])
				}
			}
		}
		hists = sel
	}
	histSteps, kindMismatch, mustSteps, mustRefused := 0, 0, 0, 0
	for hi, h := range hists {
		for _, mode := range []struct{ env, handle string }{{"recorded", "reused"}, {"ondisk", "reused"}, {"ondisk", "fresh"}} {
			// env "recorded": the worktree filesystem is the jailfs recorder (go-git then uses its generic code path);
			// env "ondisk": a plain osfs (*BoundOS) worktree exactly as PlainInit/PlainOpen make it - go-git takes its
			// os.Root based path for checkout / reset / cherry-pick there, which no billy wrapper can see, so the step is
			// judged by its EFFECTS: paths newly staged in the index (their content was read from that worktree path,
			// resolved through the links of the current tree) and the sentinels.
			env, handle := mode.env, mode.handle
			S, err := os.MkdirTemp(rep.Scratch(), "c26hist")
			if err != nil {
				return err
			}
			wt := filepath.Join(S, "wt")
			must(os.MkdirAll(wt, 0o755))
			for _, n := range []string{"secret", "a", "config", "packed-refs"} {
				mustWrite(filepath.Join(S, "outside", n), "outside "+n+"\n")
			}
			log := jailfs.NewLog()
			log.Off = true
			var wfs billy.Filesystem = osfs.New(wt)
			if env == "recorded" {
				wfs = jailfs.New(osfs.New(wt), []string{"wt"}, log)
			}
			st := filesystem.NewStorage(osfs.New(filepath.Join(wt, ".git")), cache.NewObjectLRUDefault())
			repo, err := git.Init(st, git.WithWorkTree(wfs))
			if err != nil {
				return fmt.Errorf("init: %w", err)
			}
			mustWrite(filepath.Join(wt, ".git", "hooks", "pre-commit"), "#!/bin/sh\n# decoy\n")
			mustWrite(filepath.Join(wt, ".git", "a"), "decoy a in .git\n")
			indexNames := func() map[string]string {
				m := map[string]string{}
				if idx, err := st.Index(); err == nil {
					for _, e := range idx.Entries {
						m[e.Name] = e.Hash.String()
					}
				}
				return m
			}
			var tgt []string
			for _, stp := range h.Steps {
				if len(stp.Tgt) > 0 {
					tgt = stp.Tgt
				}
			}
			tDir, err := rawTree(st, []tjEntry{{Path: []string{"d", "a"}, Kind: "file"}, {Path: []string{"a"}, Kind: "file"}}, 0)
			if err != nil {
				return err
			}
			cDir, err := rawCommit(st, tDir, "dir")
			if err != nil {
				return err
			}
			tLink, err := rawTree(st, []tjEntry{{Path: []string{"d"}, Kind: "link", Target: tgt}, {Path: []string{"a"}, Kind: "file"}}, 0)
			if err != nil {
				return err
			}
			cLink, err := rawCommit(st, tLink, "link")
			if err != nil {
				return err
			}
			sentinels := []string{"outside/secret", "outside/a", "outside/config", "outside/packed-refs", "outside/new", "outside/payload",
				"wt/.git/config", "wt/.git/packed-refs", "wt/.git/new", "wt/.git/a", "wt/.git/hooks/pre-commit"}
			before := map[string]string{}
			for _, sn := range sentinels {
				before[sn] = hashFile(filepath.Join(S, sn))
			}
			w, err := repo.Worktree()
			if err != nil {
				return err
			}
			key := "dir-to-symlink-swap/" + env + "-" + handle
			for si, stp := range h.Steps {
				if handle == "fresh" {
					if w, err = repo.Worktree(); err != nil {
						return err
					}
				}
				// observed kind of d before the step vs the kind the spec predicts (not a verdict: a refused swap is fine)
				obs := "absent"
				if fi, err := os.Lstat(filepath.Join(wt, "d")); err == nil {
					if fi.Mode()&os.ModeSymlink != 0 {
						obs = "link"
					} else if fi.IsDir() {
						obs = "dir"
					} else {
						obs = "file"
					}
				}
				if obs != stp.Dk {
					kindMismatch++
				}
				histSteps++
				ci := map[string]any{"key": key, "history": h.Steps, "step": si + 1, "handle": handle, "env": env, "spec_d_kind": stp.Dk, "observed_d_kind": obs,
					"spec_must_not_go_through_d": h.Must[si]}
				child := strings.Join(stp.Path, "/")
				commit := cDir
				if stp.Arg == "link" {
					commit = cLink
				}
				var f func() error
				api := ""
				switch stp.Op {
				case "checkout":
					api, f = "Checkout", func() error { return w.Checkout(&git.CheckoutOptions{Hash: commit, Force: true}) }
				case "reset":
					api, f = "Reset", func() error { return w.Reset(&git.ResetOptions{Commit: commit, Mode: git.HardReset}) }
				case "disk": // behind the handle's back
					_ = os.RemoveAll(filepath.Join(wt, "d"))
					_ = os.Symlink(renderPath(stp.Tgt), filepath.Join(wt, "d"))
					continue
				case "status":
					api, f = "Status", func() error { _, err := w.Status(); return err }
				case "add":
					api, f = "Add", func() error { _, err := w.Add(child); return err }
				case "move-in":
					_ = os.WriteFile(filepath.Join(wt, "payload"), []byte("payload\n"), 0o644)
					api, f = "Move", func() error { _, err := w.Move("payload", child); return err }
				case "move-out":
					api, f = "Move", func() error { _, err := w.Move(child, fmt.Sprintf("out-%d", si)); return err }
				case "remove":
					api, f = "Remove", func() error { _, err := w.Remove(child); return err }
				default:
					continue
				}
				links := snapshotLinks(wt)
				idxBefore := indexNames()
				log.Take()
				log.Off = false
				var opErr error
				func() {
					defer func() {
						if p := recover(); p != nil {
							opErr = fmt.Errorf("panic: %v", p)
						}
					}()
					opErr = f()
				}()
				log.Off = true
				recs := log.Take()
				if env == "ondisk" && (stp.Op == "add" || stp.Op == "move-in" || stp.Op == "move-out") {
					// effect records: a path staged by this step was read from the worktree at that path
					var names []string
					for n, hsh := range indexNames() {
						if idxBefore[n] != hsh {
							names = append(names, n)
						}
					}
					sort.Strings(names)
					for _, n := range names {
						recs = append(recs, jailfs.Rec{Label: api, Op: "Open", Base: []string{"wt"}, Path: n})
					}
				}
				r.Eval(1)
				if opErr == nil {
					opsOK++
				}
				if h.Must[si] && obs == "link" {
					mustSteps++
					if opErr != nil {
						mustRefused++
					}
				}
				if len(recs) > 0 {
					ntr++
					tr := tjTrace{ID: ntr, API: api, NTFS: true, HFS: false, Links: links, Recs: toTjRecs(recs), SRecs: []tjRec{}}
					_ = enc.Encode(&tr)
					info[fmt.Sprint(ntr)] = map[string]any{"api": api, "scenario": ci, "error": fmt.Sprint(opErr)}
				}
				for _, sn := range sentinels {
					if hh := hashFile(filepath.Join(S, sn)); hh != before[sn] {
						cls := "dotgit"
						if strings.HasPrefix(sn, "outside/") {
							cls = "outside-worktree"
						}
						r.Diverge("sentinel|"+cls+"-changed|"+key, fmt.Sprintf("sentinel %s changed (%s -> %s) after %s(%s) with d a %s", sn, before[sn], hh, api, child, obs), ci)
						before[sn] = hh
					}
				}
			}
			keyCount[key]++
			if hi%37 == 0 {
				r.Sample(map[string]any{"history": h.Steps, "handle": handle, "env": env})
			}
			_ = st.Close()
			os.RemoveAll(S)
		}
	}
	r.Extra["c26_histories"] = len(hists)
	r.Extra["c26_history_steps"] = histSteps
	r.Extra["c26_history_d_kind_mismatches"] = kindMismatch
	r.Extra["c26_history_steps_below_link"] = mustSteps
	r.Extra["c26_history_steps_below_link_refused"] = mustRefused

	r.Extra["c26_submodule_scenarios"] = len(subs)
	r.Extra["c26_submodule_init_ok"] = subInit
	r.Extra["c26_submodule_repository_ok"] = subRepo

	ib, _ := json.Marshal(info)
	if err := os.WriteFile(filepath.Join(outdir, "c26_cases.json"), ib, 0o644); err != nil {
		return err
	}
	r.Distinct = len(rows)
	r.Traces = ntr
	r.Extra["c26_scenarios"] = len(rows)
	r.Extra["c26_api_calls_succeeded"] = opsOK
	r.Extra["c26_benign_scenarios"] = benignN
	r.Extra["c26_benign_checked_out"] = benignOK
	r.Extra["c26_scenarios_per_key"] = keyCount
	return r.Emit()
}
