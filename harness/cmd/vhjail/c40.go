package main

// C40: repository loaders never serve a repository outside their root.
//
// The sandbox tree and the requests come from spec/rules/LoaderJail.tla (loaderjail_tree.json,
// loaderjail_rows.ndjson).  Every request is rendered to a path and given to the real loader rooted at
// R = <sandbox>/root: transport.FilesystemLoader.Load (strict and non-strict) and the backend HTTP handler
// (GET <path>/HEAD through Backend.ServeHTTP), over a jailfs recorder.  Recorded outcome per request:
// served or not, where the returned storage's filesystem is rooted, which repository identity its HEAD
// shows, and every filesystem request made while loading.  spec/rules/LoaderJailTrace.tla judges them.

import (
	"encoding/json"
	"fmt"
	"io"
	mrand "math/rand"
	"net/http"
	"net/http/httptest"
	"net/url"
	"os"
	"path/filepath"
	"sort"
	"strings"

	"github.com/go-git/go-billy/v6"
	"github.com/go-git/go-billy/v6/osfs"

	"github.com/go-git/go-git/v6/backend"
	"github.com/go-git/go-git/v6/plumbing/storer"
	"github.com/go-git/go-git/v6/plumbing/transport"

	"verifharness/internal/jailfs"
	"verifharness/internal/rep"
)

func init() { rep.Register("c40", c40) }

type ljEntry struct {
	Kind string   `json:"kind"`
	At   []string `json:"at"`
	To   []string `json:"to"`
	Tk   string   `json:"tk"`
	ID   string   `json:"id"`
}

type ljTree struct {
	Root []string  `json:"root"`
	Tree []ljEntry `json:"tree"`
}

type ljRow struct {
	Req    []string `json:"req"`
	Key    string   `json:"key"`
	LexIn  bool     `json:"lexin"`
	PhysIn bool     `json:"physin"`
}

type ljTouch struct {
	Op   string   `json:"op"`
	Base []string `json:"base"`
	P    []string `json:"p"`
	Err  bool     `json:"err"`
}

type ljRec struct {
	ID      int       `json:"id"`
	Req     []string  `json:"req"`
	Mode    string    `json:"mode"`
	Served  bool      `json:"served"`
	Root    []string  `json:"root"`
	Ident   string    `json:"ident"`
	Touches []ljTouch `json:"touches"`
}

func writeGitDir(dir, id string) {
	mustWrite(filepath.Join(dir, "HEAD"), "ref: refs/heads/"+id+"\n")
	mustWrite(filepath.Join(dir, "config"), "[core]\n\trepositoryformatversion = 0\n[verif]\n\tident = "+id+"\n")
	must(os.MkdirAll(filepath.Join(dir, "objects", "info"), 0o755))
	must(os.MkdirAll(filepath.Join(dir, "refs", "heads"), 0o755))
}

// materialise builds the tree described by the spec below S.
func ljMaterialise(S string, t *ljTree) {
	for _, e := range t.Tree {
		at := filepath.Join(append([]string{S}, e.At...)...)
		// targets are written exactly as the spec gives them (no cleaning: "root/../x" stays un-normalised)
		target := strings.Join(e.To, "/")
		if e.Tk == "root" {
			target = S + "/" + strings.Join(e.To, "/")
		}
		switch e.Kind {
		case "repo":
			writeGitDir(filepath.Join(at, ".git"), e.ID)
			mustWrite(filepath.Join(at, "file.txt"), e.ID+"\n")
		case "bare":
			writeGitDir(at, e.ID)
		case "gitfile":
			mustWrite(filepath.Join(at, ".git"), "gitdir: "+target+"\n")
		case "link":
			must(os.MkdirAll(filepath.Dir(at), 0o755))
			must(os.Symlink(target, at))
		}
	}
}

func ljSplitRel(S, host string) []string {
	rel, err := filepath.Rel(S, host)
	if err != nil {
		return []string{"..", "unrelated"}
	}
	if rel == "." {
		return []string{}
	}
	return strings.Split(filepath.ToSlash(rel), "/")
}

func identOf(headContent string) string {
	const p = "ref: refs/heads/"
	s := strings.TrimSpace(headContent)
	if strings.HasPrefix(s, p) {
		return s[len(p):]
	}
	return "?"
}

func c40(args []string) error {
	if len(args) < 3 {
		return fmt.Errorf("usage: c40 rows.ndjson tree.json outdir")
	}
	outdir := args[2]
	r := rep.New()
	rnd := mrand.New(mrand.NewSource(rep.Seed()))
	var tree ljTree
	tb, err := os.ReadFile(args[1])
	if err != nil {
		return err
	}
	if err := json.Unmarshal(tb, &tree); err != nil {
		return err
	}
	var rows []*ljRow
	if err := rep.ReadNDJSON(args[0], func(line []byte) error {
		var row ljRow
		if err := json.Unmarshal(line, &row); err != nil {
			return err
		}
		rows = append(rows, &row)
		return nil
	}); err != nil {
		return err
	}
	sort.Slice(rows, func(i, j int) bool { return fmt.Sprint(rows[i].Req) < fmt.Sprint(rows[j].Req) })
	budget := 1500
	if rep.Thorough() {
		budget = 6000
	}
	if len(rows) > budget {
		sort.SliceStable(rows, func(i, j int) bool { return len(rows[i].Req) < len(rows[j].Req) })
		keep := budget / 2
		rest := rows[keep:]
		rnd.Shuffle(len(rest), func(i, j int) { rest[i], rest[j] = rest[j], rest[i] })
		rows = append(rows[:keep], rest[:budget-keep]...)
	}

	S, err := os.MkdirTemp(rep.Scratch(), "c40sb")
	if err != nil {
		return err
	}
	S, _ = filepath.EvalSymlinks(S)
	defer os.RemoveAll(S)
	ljMaterialise(S, &tree)
	R := filepath.Join(append([]string{S}, tree.Root...)...)
	// sentinels: everything outside R
	outsideBefore := map[string]string{}
	_ = filepath.Walk(filepath.Join(S, "outside"), func(p string, fi os.FileInfo, err error) error {
		if err == nil && fi.Mode().IsRegular() {
			outsideBefore[p] = hashFile(p)
		}
		return nil
	})

	tf, err := os.Create(filepath.Join(outdir, "c40_trace.ndjson"))
	if err != nil {
		return err
	}
	defer tf.Close()
	enc := json.NewEncoder(tf)
	nrec := 0
	served, servedInside := 0, 0
	info := map[string]any{}

	mkTouches := func(recs []jailfs.Rec) []ljTouch {
		seen := map[string]bool{}
		out := []ljTouch{}
		for _, rc := range recs {
			base := rc.Base
			if base == nil {
				base = []string{}
			}
			k := fmt.Sprint(rc.Op, "\x00", strings.Join(base, "/"), "\x00", rc.Path, "\x00", rc.Err)
			if seen[k] {
				continue
			}
			seen[k] = true
			if rc.Op == "Chroot" && !rc.Err && rc.Res != nil {
				// a successful Chroot is judged by where the returned filesystem is rooted, not by its argument
				out = append(out, ljTouch{Op: rc.Op, Base: rc.Res, P: []string{}, Err: false})
				continue
			}
			out = append(out, ljTouch{Op: rc.Op, Base: base, P: splitRaw(rc.Path), Err: rc.Err})
		}
		return out
	}
	rootOf := func(fs billy.Filesystem) []string {
		if jf, ok := fs.(*jailfs.FS); ok {
			return jf.Base()
		}
		return ljSplitRel(S, fs.Root())
	}

	for _, row := range rows {
		var parts []string
		absTok := map[string]string{"ABS": S, "ABSR": R, "ABSR..": R + "/..", "ABSRX": R + "-private"}
		for _, t := range row.Req {
			if h, ok := absTok[t]; ok {
				parts = append(parts, strings.TrimPrefix(h, "/"))
			} else {
				parts = append(parts, t)
			}
		}
		base := strings.Join(parts, "/")
		for _, lead := range []string{"", "/"} {
			if _, isAbs := absTok[row.Req[0]]; isAbs && lead == "" {
				continue // a host-absolute path starts with a slash
			}
			path := lead + base
			for _, mode := range []string{"load", "load-strict", "http"} {
				log := jailfs.NewLog()
				log.Origin = S
				fs := jailfs.New(osfs.New(R), tree.Root, log)
				rec := ljRec{Req: row.Req, Mode: mode, Root: []string{}, Ident: "?", Touches: []ljTouch{}}
				switch mode {
				case "load", "load-strict":
					ld := transport.NewFilesystemLoader(fs, mode == "load-strict")
					log.SetLabel("Load")
					st, err := func() (st any, err error) {
						defer func() {
							if p := recover(); p != nil {
								err = fmt.Errorf("panic: %v", p)
							}
						}()
						return ld.Load(&url.URL{Scheme: "file", Path: path})
					}()
					if err == nil && st != nil {
						if fss, ok := st.(storer.FilesystemStorer); ok {
							rec.Served = true
							sfs := fss.Filesystem()
							rec.Root = rootOf(sfs)
							log.Off = true
							if f, err := sfs.Open("HEAD"); err == nil {
								b, _ := io.ReadAll(f)
								f.Close()
								rec.Ident = identOf(string(b))
							}
							log.Off = false
						}
						if c, ok := st.(io.Closer); ok {
							_ = c.Close()
						}
					}
				case "http":
					be := backend.New(transport.NewFilesystemLoader(fs, false))
					log.SetLabel("HTTP")
					w := httptest.NewRecorder()
					rq := httptest.NewRequest(http.MethodGet, "http://example.invalid/x", nil)
					rq.URL.Path = "/" + strings.TrimPrefix(path, "/") + "/HEAD"
					if lead == "/" {
						rq.URL.Path = "/" + path + "/HEAD" // double slash: an absolute repository path in the URL
					}
					func() {
						defer func() { _ = recover() }()
						be.ServeHTTP(w, rq)
					}()
					if w.Code == http.StatusOK {
						rec.Served = true
						rec.Ident = identOf(w.Body.String())
						// the HTTP handler does not expose the storage: the root is taken from the last successful Chroot
						rec.Root = tree.Root
					}
				}
				recs := log.Take()
				rec.Touches = mkTouches(recs)
				if mode == "http" && rec.Served {
					// root of the served storage = base of the deepest filesystem a successful call was made on
					for _, t := range rec.Touches {
						if !t.Err && t.Op != "Chroot" && len(t.Base) >= len(rec.Root) {
							rec.Root = t.Base
						}
					}
				}
				nrec++
				rec.ID = nrec
				if err := enc.Encode(&rec); err != nil {
					return err
				}
				r.Eval(1)
				if rec.Served {
					served++
					if strings.HasPrefix(rec.Ident, "in-") {
						servedInside++
					}
				}
				info[fmt.Sprint(rec.ID)] = map[string]any{"path": path, "mode": mode, "abstract": row.Req, "served": rec.Served,
					"root": strings.Join(rec.Root, "/"), "ident": rec.Ident, "spec_lexin": row.LexIn, "spec_physin": row.PhysIn}
				if nrec%211 == 1 {
					r.Sample(info[fmt.Sprint(rec.ID)])
				}
			}
		}
	}
	// independent observation: nothing outside R changed
	changed := 0
	for p, h := range outsideBefore {
		if hashFile(p) != h {
			changed++
			r.Diverge("sentinel|outside-root-changed|any", "file outside the loader root changed: "+strings.TrimPrefix(p, S), nil)
		}
	}
	ib, _ := json.Marshal(info)
	if err := os.WriteFile(filepath.Join(outdir, "c40_cases.json"), ib, 0o644); err != nil {
		return err
	}
	r.Distinct = nrec
	r.Traces = nrec
	r.Extra["c40_requests"] = len(rows)
	r.Extra["c40_served"] = served
	r.Extra["c40_served_inside_identity"] = servedInside
	return r.Emit()
}
