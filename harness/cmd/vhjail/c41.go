package main

// C41: remote command quoting is injection-free.
//
// Rows (ws = path and extra args, line, words) come from spec/rules/ShellQuote.tla.  For every row the
// real command line is obtained from go-git's ssh transport (transport/ssh.Transport.Connect against an
// in-process gliderlabs/ssh server on loopback; the exec request payload is the command line).
//   * byte-equal to the spec's Line()  -> proven by the TLC theorem, counted;
//   * every line (canonical or not) that is selected for the trace is tokenised back into symbol
//     classes and written to c41_trace.ndjson; spec/rules/ShellQuoteTrace.tla evaluates the acceptance
//     predicate (the verdict is TLC's, checks/C41.py reads it).
// Second witnesses (spec vs the real tools; a disagreement is a SPEC-ERROR, never a violation):
//   /bin/sh evaluating the spec's line must produce the spec's words; git-shell (git's sq_dequote)
//   must recover the path.  For non-canonical go-git lines the same observations are recorded next
//   to the trace record (shok / gsok) so that checks/C41.py can cross-check TLC's verdict.

import (
	"bytes"
	"context"
	"crypto/ed25519"
	"crypto/rand"
	"encoding/json"
	"fmt"
	mrand "math/rand"
	"net"
	"net/url"
	"os"
	"os/exec"
	"path/filepath"
	"sort"
	"strings"
	"time"

	gssh "github.com/gliderlabs/ssh"
	"github.com/kevinburke/ssh_config"
	gossh "golang.org/x/crypto/ssh"

	"github.com/go-git/go-git/v6/plumbing/transport"
	tssh "github.com/go-git/go-git/v6/plumbing/transport/ssh"

	"verifharness/internal/rep"
)

func init() { rep.Register("c41", c41) }

var shSym = map[string][]string{
	"a":  {"a", "Z", "0", "-", "=", "%", ",", ".", "/", ":", "@", "+", "^", "]", "}", "{", "\r", "\x01", "\x7f", "\x80", "\xff", "\xc3\xa9"},
	"sq": {"'"}, "dq": {`"`}, "bs": {`\`}, "bang": {"!"}, "sp": {" ", "\t"}, "nl": {"\n"},
	"exp": {"$", "`"}, "op": {";", "|", "&", "(", ")", "<", ">"}, "glob": {"*", "?", "["},
	"tilde": {"~"}, "hash": {"#"}, "SP": {" "},
}

var shTok = func() map[byte]string {
	m := map[byte]string{}
	for cls, bs := range shSym {
		if cls == "a" || cls == "SP" {
			continue
		}
		for _, b := range bs {
			if len(b) == 1 {
				m[b[0]] = cls
			}
		}
	}
	m['\t'] = "tab"
	return m
}()

// tokenise maps bytes back to the symbol classes of ShellQuote; ordinary bytes keep their identity
// ("x61"), which the Sh automaton treats as ordinary characters (OTHER branch).
func shTokenise(s string) []string {
	out := make([]string, 0, len(s))
	for i := 0; i < len(s); i++ {
		if c, ok := shTok[s[i]]; ok {
			out = append(out, c)
		} else {
			out = append(out, fmt.Sprintf("x%02x", s[i]))
		}
	}
	return out
}

var sshServices = []string{"git-upload-pack", "git-receive-pack", "git-upload-archive", "git-lfs-authenticate"}

type sqRow struct {
	Ws    [][]string `json:"ws"`
	Line  []string   `json:"line"`
	Words [][]string `json:"words"`
}

type sqCase struct {
	id       int
	row      *sqRow
	svc      string
	words    []string // rendered ws
	specLine string
	expWords []string // rendered spec words (svc first)
	actual   string
	variant  int
}

type sshCapture struct {
	addr string
	ch   chan string
	srv  *gssh.Server
	tr   *tssh.Transport
}

func newSSHCapture() (*sshCapture, error) {
	_, priv, err := ed25519.GenerateKey(rand.Reader)
	if err != nil {
		return nil, err
	}
	signer, err := gossh.NewSignerFromKey(priv)
	if err != nil {
		return nil, err
	}
	c := &sshCapture{ch: make(chan string, 4)}
	c.srv = &gssh.Server{Handler: func(s gssh.Session) {
		c.ch <- s.RawCommand()
		_ = s.Exit(0)
	}}
	c.srv.AddHostKey(signer)
	l, err := net.Listen("tcp", "127.0.0.1:0")
	if err != nil {
		return nil, err
	}
	c.addr = l.Addr().String()
	go func() { _ = c.srv.Serve(l) }()
	us := &ssh_config.UserSettings{}
	us.ConfigFinder(func() string { return "/nonexistent/ssh_config" })
	c.tr = tssh.NewTransport(tssh.Options{
		ClientConfig: func(context.Context, *transport.Request) (*gossh.ClientConfig, error) {
			return &gossh.ClientConfig{User: "git", Auth: []gossh.AuthMethod{gossh.Password("x")},
				HostKeyCallback: gossh.InsecureIgnoreHostKey(), HostKeyAlgorithms: []string{gossh.KeyAlgoED25519},
				Timeout: 20 * time.Second}, nil
		},
		UserSettings: func(context.Context, *transport.Request) (*ssh_config.UserSettings, error) { return us, nil },
	})
	return c, nil
}

// commandLine returns the exec payload go-git sends for (svc, path, args).
func (c *sshCapture) commandLine(svc, path string, args []string) (string, error) {
	req := &transport.Request{URL: &url.URL{Scheme: "ssh", Host: c.addr, Path: path}, Command: svc, Args: args}
	ctx, cancel := context.WithTimeout(context.Background(), 30*time.Second)
	defer cancel()
	conn, err := c.tr.Connect(ctx, req)
	if err != nil {
		return "", fmt.Errorf("ssh connect: %w", err)
	}
	defer conn.Close()
	select {
	case s := <-c.ch:
		return s, nil
	case <-ctx.Done():
		return "", fmt.Errorf("no exec request captured")
	}
}

func renderWith(s []string, m map[string]string, svc string) string {
	var b strings.Builder
	for _, x := range s {
		if x == "svc" {
			b.WriteString(svc)
		} else {
			b.WriteString(m[x])
		}
	}
	return b.String()
}

// ---------------------------------------------------------------- real /bin/sh

type shRunner struct {
	fakebin string
	nonce   string
	procs   int
}

func newShRunner(scratch string) (*shRunner, error) {
	d := filepath.Join(scratch, "c41-fakebin")
	if err := os.MkdirAll(d, 0o755); err != nil {
		return nil, err
	}
	// fake services: print argv NUL-separated (tiny /bin/sh scripts: exec'ing the Go binary is slow here).
	// `git` (exec'ed by git-shell as `git upload-pack <arg>`) prints only its arguments.
	for _, s := range append([]string{"git"}, sshServices...) {
		body := "#!/bin/sh\nprintf '%s\\0' \"${0##*/}\" \"$@\"\n"
		if s == "git" {
			body = "#!/bin/sh\nprintf '%s\\0' \"$@\"\n"
		}
		_ = os.Remove(filepath.Join(d, s))
		if err := os.WriteFile(filepath.Join(d, s), []byte(body), 0o755); err != nil {
			return nil, err
		}
	}
	return &shRunner{fakebin: d, nonce: fmt.Sprintf("\x02N%d", rep.Seed())}, nil
}

type shObs struct {
	words []string
	ok    bool // exit 0 and empty stderr
}

// many runs every line through `/bin/sh -c <line>` (kind "sh": only the fake services on PATH) or
// `git-shell -c <line>` (kind "git-shell": fake `git` on GIT_EXEC_PATH), all driven by one xargs
// process (forking from the Go process is slow under load here).  Lines must not contain NUL.
func (s *shRunner) many(kind string, lines []string) ([]shObs, error) {
	res := make([]shObs, len(lines))
	if len(lines) == 0 {
		return res, nil
	}
	dir, err := os.MkdirTemp(filepath.Dir(s.fakebin), "c41-"+kind+"-")
	if err != nil {
		return nil, err
	}
	defer os.RemoveAll(dir)
	var in bytes.Buffer
	for i, l := range lines {
		fmt.Fprintf(&in, "%d\x00%s\x00", i, l)
	}
	var script string
	env := []string{"HOME=" + s.fakebin, "ENV=", "OUT=" + dir, "FAKE=" + s.fakebin}
	switch kind {
	case "sh":
		script = `PATH="$FAKE" /bin/sh -c "$2" >"$OUT/$1.out" 2>"$OUT/$1.err"; echo $? >"$OUT/$1.rc"`
	default:
		script = `GIT_EXEC_PATH="$FAKE" GIT_CONFIG_NOSYSTEM=1 GIT_CONFIG_GLOBAL=/dev/null /usr/lib/git-core/git-shell -c "$2" >"$OUT/$1.out" 2>"$OUT/$1.err"; echo $? >"$OUT/$1.rc"`
	}
	c := exec.Command("xargs", "-0", "-n", "2", "-P", "8", "/bin/sh", "-c", script, "_")
	c.Env = append(env, "PATH="+s.fakebin+":/usr/bin:/bin")
	c.Dir = s.fakebin
	c.Stdin = &in
	var e bytes.Buffer
	c.Stderr = &e
	if err := c.Run(); err != nil {
		return nil, fmt.Errorf("xargs %s: %v: %s", kind, err, e.String())
	}
	s.procs += 3 * len(lines)
	for i := range lines {
		o, err1 := os.ReadFile(filepath.Join(dir, fmt.Sprintf("%d.out", i)))
		er, err2 := os.ReadFile(filepath.Join(dir, fmt.Sprintf("%d.err", i)))
		rc, err3 := os.ReadFile(filepath.Join(dir, fmt.Sprintf("%d.rc", i)))
		if err1 != nil || err2 != nil || err3 != nil {
			return nil, fmt.Errorf("%s driver: no result for line %d", kind, i)
		}
		res[i] = shObs{splitNul(o), strings.TrimSpace(string(rc)) == "0" && len(er) == 0}
	}
	return res, nil
}

func splitNul(b []byte) []string {
	if len(b) == 0 {
		return nil
	}
	parts := strings.Split(string(b), "\x00")
	if parts[len(parts)-1] == "" {
		parts = parts[:len(parts)-1]
	}
	return parts
}

// batch evaluates many "svc rest" lines in one shell; returns per line the words (svc first) or nil when
// the batch could not be framed (caller falls back to one()).
func (s *shRunner) batch(lines []string, svcs []string) [][]string {
	res := make([][]string, len(lines))
	var sc bytes.Buffer
	sc.WriteString("N=\"$1\"\ne() { i=$1; shift; printf '%sB%s\\0' \"$N\" \"$i\"; for w in \"$@\"; do printf '%s\\0' \"$w\"; done; printf '%sE%s\\0' \"$N\" \"$i\"; }\n")
	idx := []int{}
	for i, l := range lines {
		if !strings.HasPrefix(l, svcs[i]+" ") && l != svcs[i] {
			continue
		}
		fmt.Fprintf(&sc, "e %d%s\n", i, l[len(svcs[i]):])
		idx = append(idx, i)
	}
	f := filepath.Join(s.fakebin, "..", "c41-batch.sh")
	if err := os.WriteFile(f, sc.Bytes(), 0o644); err != nil {
		return res
	}
	c := exec.Command("/bin/sh", f, s.nonce)
	c.Env = []string{"PATH=" + s.fakebin, "HOME=/nonexistent", "ENV="}
	c.Dir = s.fakebin
	var o, e bytes.Buffer
	c.Stdout, c.Stderr = &o, &e
	err := c.Run()
	s.procs++
	if err != nil || e.Len() != 0 {
		return res
	}
	toks := splitNul(o.Bytes())
	tmp := make([][]string, len(lines))
	p := 0
	for _, i := range idx {
		if p >= len(toks) || toks[p] != fmt.Sprintf("%sB%d", s.nonce, i) {
			return res
		}
		p++
		w := []string{svcs[i]}
		end := fmt.Sprintf("%sE%d", s.nonce, i)
		for p < len(toks) && toks[p] != end {
			if strings.HasPrefix(toks[p], s.nonce) {
				return res
			}
			w = append(w, toks[p])
			p++
		}
		if p >= len(toks) {
			return res
		}
		p++
		tmp[i] = w
	}
	if p != len(toks) {
		return res
	}
	return tmp
}

func eqStrs(a, b []string) bool {
	if len(a) != len(b) {
		return false
	}
	for i := range a {
		if a[i] != b[i] {
			return false
		}
	}
	return true
}

func c41(args []string) error {
	if len(args) < 2 {
		return fmt.Errorf("usage: c41 rows.ndjson outdir")
	}
	outdir := args[1]
	r := rep.New()
	rnd := mrand.New(mrand.NewSource(rep.Seed()))
	thorough := rep.Thorough()

	var rows []*sqRow
	if err := rep.ReadNDJSON(args[0], func(line []byte) error {
		var row sqRow
		if err := json.Unmarshal(line, &row); err != nil {
			return err
		}
		rows = append(rows, &row)
		return nil
	}); err != nil {
		return err
	}
	// deterministic order independent of TLC's set order
	sort.Slice(rows, func(i, j int) bool {
		return fmt.Sprint(rows[i].Ws) < fmt.Sprint(rows[j].Ws)
	})
	// budget: all single-path rows; a seeded sample of the multi-argument rows
	maxCases := 1600
	if thorough {
		maxCases = 12000
	}
	var single, multi []*sqRow
	for _, row := range rows {
		if len(row.Ws) == 1 {
			single = append(single, row)
		} else {
			multi = append(multi, row)
		}
	}
	rnd.Shuffle(len(multi), func(i, j int) { multi[i], multi[j] = multi[j], multi[i] })
	rnd.Shuffle(len(single), func(i, j int) { single[i], single[j] = single[j], single[i] })
	nSingle := len(single)
	if nSingle > maxCases*2/3 {
		nSingle = maxCases * 2 / 3
	}
	nMulti := maxCases - nSingle
	if nMulti > len(multi) {
		nMulti = len(multi)
	}
	sel := append(append([]*sqRow{}, single[:nSingle]...), multi[:nMulti]...)

	capt, err := newSSHCapture()
	if err != nil {
		return err
	}
	defer capt.srv.Close()

	canon := map[string]string{}
	for cls, bs := range shSym {
		canon[cls] = bs[0]
	}
	var cases []*sqCase
	t0 := time.Now()
	distinct := map[string]bool{}
	nonCanonical := 0
	for ri, row := range sel {
		nvar := 1
		for v := 0; v <= nvar; v++ {
			m := canon
			if v > 0 {
				m = map[string]string{}
				for cls, bs := range shSym {
					m[cls] = bs[rnd.Intn(len(bs))]
				}
				m["SP"] = " "
			}
			svc := sshServices[(ri+v)%len(sshServices)]
			if len(row.Ws) == 1 && (ri+v)%len(sshServices) == 3 {
				svc = sshServices[0] // lfs-authenticate always has an operation argument
			}
			c := &sqCase{id: len(cases) + 1, row: row, svc: svc, variant: v}
			for _, w := range row.Ws {
				c.words = append(c.words, renderWith(w, m, svc))
			}
			key := svc + "\x00" + strings.Join(c.words, "\x00")
			if distinct[key] {
				continue
			}
			distinct[key] = true
			c.specLine = renderWith(row.Line, m, svc)
			for _, w := range row.Words {
				c.expWords = append(c.expWords, renderWith(w, m, svc))
			}
			act, err := capt.commandLine(svc, c.words[0], c.words[1:])
			if err != nil {
				return fmt.Errorf("case %v: %w", c.words, err)
			}
			c.actual = act
			r.Eval(1)
			if act != c.specLine {
				nonCanonical++
			}
			cases = append(cases, c)
			r.Sample(map[string]any{"svc": svc, "words": c.words, "sent": act, "canonical": act == c.specLine})
		}
	}

	tCap := time.Since(t0)
	// ---- real sh: spec lines (witness for the spec) and non-canonical go-git lines (observation)
	sh, err := newShRunner(rep.Scratch())
	if err != nil {
		return err
	}
	type obs struct {
		words []string
		ok    bool
		known bool
	}
	shRes := map[string]*obs{} // by line
	var lines, svcs []string
	seenLine := map[string]bool{}
	addLine := func(l, svc string) {
		if !seenLine[l] && !strings.Contains(l, "\x00") {
			seenLine[l] = true
			lines = append(lines, l)
			svcs = append(svcs, svc)
		}
	}
	for _, c := range cases {
		addLine(c.specLine, c.svc)
		if c.actual != c.specLine {
			addLine(c.actual, c.svc)
		}
	}
	const bsz = 1000
	var fallback []string
	for lo := 0; lo < len(lines); lo += bsz {
		hi := lo + bsz
		if hi > len(lines) {
			hi = len(lines)
		}
		res := sh.batch(lines[lo:hi], svcs[lo:hi])
		for i := lo; i < hi; i++ {
			if res[i-lo] != nil {
				shRes[lines[i]] = &obs{res[i-lo], true, true}
			} else if len(fallback) < 400 {
				fallback = append(fallback, lines[i])
			}
		}
	}
	fres, err := sh.many("sh", fallback)
	if err != nil {
		return err
	}
	for i, l := range fallback {
		shRes[l] = &obs{fres[i].words, fres[i].ok, true}
	}
	// verbatim `sh -c <line>` for a seeded sample (the batch replaces the service word by a function)
	nVerb := 120
	if thorough {
		nVerb = 2500
	}
	perm := rnd.Perm(len(cases))
	var vcases []*sqCase
	var vlines []string
	for _, k := range perm {
		if len(vcases) >= nVerb {
			break
		}
		if c := cases[k]; !strings.Contains(c.actual, "\x00") {
			vcases = append(vcases, c)
			vlines = append(vlines, c.actual)
		}
	}
	vres, err := sh.many("sh", vlines)
	if err != nil {
		return err
	}
	verb := len(vcases)
	for i, c := range vcases {
		w, ok := vres[i].words, vres[i].ok
		shRes["v\x00"+c.actual] = &obs{w, ok, true}
		if c.actual == c.specLine && (!ok || !eqStrs(w, c.expWords)) {
			r.SpecError(map[string]any{"leg": "sh -c", "line": c.specLine, "spec_words": c.expWords, "sh_words": w, "sh_clean": ok})
		}
	}
	shChecked := 0
	for _, c := range cases {
		o := shRes[c.specLine]
		if o == nil || !o.known {
			continue
		}
		shChecked++
		if !o.ok || !eqStrs(o.words, c.expWords) {
			r.SpecError(map[string]any{"leg": "sh", "line": c.specLine, "spec_words": c.expWords, "sh_words": o.words, "sh_clean": o.ok})
		}
	}
	// ---- git-shell (sq_dequote): single-argument rows of the three pack services
	nGs := 120
	if thorough {
		nGs = 2500
	}
	gsRes := map[string]*obs{}
	var gcases []*sqCase
	var glines []string
	_, gsErr := os.Stat("/usr/lib/git-core/git-shell")
	for _, k := range perm {
		c := cases[k]
		if gsErr != nil || len(gcases) >= nGs {
			break
		}
		if len(c.words) != 1 || c.svc == "git-lfs-authenticate" || strings.HasPrefix(c.words[0], "-") || strings.Contains(c.actual+c.specLine, "\x00") {
			continue
		}
		gcases = append(gcases, c)
		glines = append(glines, c.specLine)
		if c.actual != c.specLine {
			glines = append(glines, c.actual)
		}
	}
	gres, err := sh.many("git-shell", glines)
	if err != nil {
		return err
	}
	gs := len(gcases)
	gi := 0
	for _, c := range gcases {
		want := []string{strings.TrimPrefix(c.svc, "git-"), c.words[0]}
		w, ok := gres[gi].words, gres[gi].ok
		gi++
		if !ok || !eqStrs(w, want) {
			r.SpecError(map[string]any{"leg": "git-shell", "line": c.specLine, "spec_argv": want, "git_shell_argv": w, "ok": ok})
		}
		if c.actual != c.specLine {
			gsRes[c.actual] = &obs{gres[gi].words, gres[gi].ok && eqStrs(gres[gi].words, want), true}
			gi++
		} else {
			gsRes[c.actual] = &obs{w, true, true}
		}
	}

	// ---- trace for TLC: every non-canonical line + a seeded sample of canonical ones
	nCanon := 600
	if thorough {
		nCanon = 8000
	}
	tf, err := os.Create(filepath.Join(outdir, "c41_trace.ndjson"))
	if err != nil {
		return err
	}
	defer tf.Close()
	info := map[string]any{}
	nrec := 0
	for _, k := range perm {
		c := cases[k]
		isCanon := c.actual == c.specLine
		if isCanon {
			if nCanon <= 0 {
				continue
			}
			nCanon--
		}
		var line []string
		if strings.HasPrefix(c.actual, c.svc) {
			line = append([]string{"svc"}, shTokenise(c.actual[len(c.svc):])...)
		} else {
			line = shTokenise(c.actual)
		}
		ws := make([][]string, len(c.words))
		for i, w := range c.words {
			ws[i] = shTokenise(w)
		}
		b, _ := json.Marshal(map[string]any{"id": c.id, "ws": ws, "line": line})
		tf.Write(append(b, '\n'))
		nrec++
		ci := map[string]any{"svc": c.svc, "words": c.words, "sent": c.actual, "spec_line": c.specLine, "abstract": c.row.Ws}
		if !isCanon {
			if o := shRes[c.actual]; o != nil && o.known {
				ci["shok"] = o.ok && eqStrs(o.words, c.expWords)
				ci["sh_words"] = o.words
			}
			if o := shRes["v\x00"+c.actual]; o != nil {
				ci["shok_verbatim"] = o.ok && eqStrs(o.words, c.expWords)
			}
			if o := gsRes[c.actual]; o != nil {
				ci["gsok"] = o.ok
			}
		}
		info[fmt.Sprint(c.id)] = ci
	}
	ib, _ := json.Marshal(info)
	if err := os.WriteFile(filepath.Join(outdir, "c41_cases.json"), ib, 0o644); err != nil {
		return err
	}
	r.Distinct = len(cases)
	r.Traces = nrec
	r.Extra["c41_rows_total"] = len(rows)
	r.Extra["c41_rows_selected"] = len(sel)
	r.Extra["c41_non_canonical_lines"] = nonCanonical
	r.Extra["c41_sh_lines_checked"] = shChecked
	r.Extra["c41_sh_verbatim"] = verb
	r.Extra["c41_git_shell_checked"] = gs
	r.Extra["c41_processes"] = sh.procs
	r.Extra["c41_capture_s"] = tCap.Seconds()
	r.Extra["c41_total_s"] = time.Since(t0).Seconds()
	return r.Emit()
}
