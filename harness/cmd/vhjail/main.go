// Command vhjail: conformance harness for the jail properties C41, C14, C40, C26.
package main

import "verifharness/internal/rep"

func main() { rep.Main() }
