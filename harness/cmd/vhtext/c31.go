package main

import (
	"bytes"
	"crypto/sha1"
	"encoding/hex"
	"encoding/json"
	"fmt"
	"io"
	"math/rand"
	"os"
	"path/filepath"
	"sort"
	"strings"
	"time"

	"verifharness/internal/gitcli"
	"verifharness/internal/rep"

	"github.com/go-git/go-billy/v6"
	"github.com/go-git/go-billy/v6/memfs"
	"github.com/go-git/go-billy/v6/osfs"
	"github.com/go-git/go-billy/v6/util"
	git "github.com/go-git/go-git/v6"
	"github.com/go-git/go-git/v6/plumbing"
	"github.com/go-git/go-git/v6/plumbing/cache"
	"github.com/go-git/go-git/v6/plumbing/filemode"
	"github.com/go-git/go-git/v6/plumbing/format/index"
	"github.com/go-git/go-git/v6/plumbing/object"
	"github.com/go-git/go-git/v6/storage"
	"github.com/go-git/go-git/v6/storage/filesystem"
	"github.com/go-git/go-git/v6/storage/memory"
	"github.com/go-git/go-git/v6/utils/convert"
)

// C31: rows of spec/rules/EOL.tla (input string over byte classes + every conversion result
// computed by TLC) are rendered to bytes and replayed into
//   level 1: convert.GetStat / IsBinary, convert.NewCRLFWriter / NewLFWriter (every split of the
//            input into two Write calls, and byte-wise writes),
//   level 2: Worktree.Add / Checkout / checkout-then-add under core.autocrlf = true|input|false,
// and into git (add, checkout-index, ls-files --eol; attribute text eol=crlf for the bare loops).
// The harness never decides what the right bytes are: it renders the spec's output symbols.

type eolStat struct {
	Nul, Lonecr, Lonelf, Crlf, Printable, Nonprintable int
}

type eolRow struct {
	S              []string
	St             eolStat
	Bin            bool
	Cls            string
	Tags           []string
	Hci            bool
	Wt, G0, G1, Rt map[string]json.RawMessage
	Kw, Kg, Kl, Ks json.RawMessage
}

// one rendering of the byte classes
type eolVariant struct {
	a, ctl byte
	p      []byte
}

var eolPrintable = []byte{'a', 'Z', ' ', '~', '\t', '\b', 0x1b, 0x0c, 0x80, 0xff, 0xc3, '0'}
var eolCtl = []byte{0x01, 0x7f, 0x0b, 0x1f, 0x0e, 0x07, 0x19}

func eolMkVariant(k int) eolVariant {
	v := eolVariant{a: eolPrintable[k%len(eolPrintable)], ctl: eolCtl[k%len(eolCtl)]}
	v.p = make([]byte, 128)
	for i := range v.p {
		if k == 0 {
			v.p[i] = 'p'
		} else {
			v.p[i] = eolPrintable[(i+k)%len(eolPrintable)]
		}
	}
	return v
}

const eolBuf = 32 * 1024 // utils/sync byte slice size used by ioutil.CopyBufferPool

// render maps symbols to bytes.  bigLen is the length of the "big" run.
func (v eolVariant) render(s []string, bigLen int) []byte {
	var b bytes.Buffer
	for _, x := range s {
		switch x {
		case "LF":
			b.WriteByte('\n')
		case "CR":
			b.WriteByte('\r')
		case "NUL":
			b.WriteByte(0)
		case "Z":
			b.WriteByte(0x1a)
		case "a":
			b.WriteByte(v.a)
		case "ctl":
			b.WriteByte(v.ctl)
		case "P":
			b.Write(v.p)
		case "big":
			b.Write(bytes.Repeat([]byte{'b'}, bigLen))
		default:
			panic("unknown symbol " + x)
		}
	}
	return b.Bytes()
}

type eolCase struct {
	row    *eolRow
	v      eolVariant
	vi     int
	bigLen int
	in     []byte
	bounds []int // byte offsets of symbol boundaries (0 and len included)
	name   string
}

func (c *eolCase) out(enc json.RawMessage) []byte {
	if string(enc) == `"="` {
		return c.in
	}
	var s []string
	if err := json.Unmarshal(enc, &s); err != nil {
		panic(fmt.Sprintf("bad encoded output %s", enc))
	}
	return c.v.render(s, c.bigLen)
}

func (c *eolCase) tags() string {
	t := append([]string{}, c.row.Tags...)
	sort.Strings(t)
	return strings.Join(t, "+")
}

func eolShow(b []byte) string {
	if len(b) > 48 {
		return fmt.Sprintf("%q...(%d bytes)...%q", b[:16], len(b), b[len(b)-24:])
	}
	return fmt.Sprintf("%q", b)
}

func eolClass(got, want, in []byte) string {
	switch {
	case bytes.Equal(got, in) && !bytes.Equal(want, in):
		return "unchanged-but-spec-converts"
	case bytes.Equal(want, in) && !bytes.Equal(got, in):
		return "converted-but-spec-leaves"
	}
	return "wrong-bytes"
}

func blobSha(b []byte) string {
	h := sha1.New()
	fmt.Fprintf(h, "blob %d\x00", len(b))
	h.Write(b)
	return hex.EncodeToString(h.Sum(nil))
}

func init() { rep.Register("c31", c31) }

func c31(args []string) error {
	if len(args) < 1 {
		return fmt.Errorf("usage: c31 eol_rows.ndjson")
	}
	r := rep.New()
	tStart := time.Now()
	rnd := rand.New(rand.NewSource(rep.Seed()))
	var rows []*eolRow
	if err := rep.ReadNDJSON(args[0], func(line []byte) error {
		row := &eolRow{}
		if err := json.Unmarshal(line, row); err != nil {
			return err
		}
		rows = append(rows, row)
		return nil
	}); err != nil {
		return err
	}
	// deterministic order (TLC's set order is stable, but do not depend on it)
	sort.Slice(rows, func(i, j int) bool { return strings.Join(rows[i].S, ",") < strings.Join(rows[j].S, ",") })

	// ---- concrete cases
	var cases []*eolCase
	distinct := map[string]bool{}
	addCase := func(row *eolRow, vi, bigLen int) {
		c := &eolCase{row: row, vi: vi, v: eolMkVariant(vi), bigLen: bigLen}
		c.in = c.v.render(row.S, bigLen)
		k := string(c.in)
		if distinct[k] {
			return
		}
		distinct[k] = true
		off := 0
		c.bounds = append(c.bounds, 0)
		for _, x := range row.S {
			off += len(c.v.render([]string{x}, bigLen))
			c.bounds = append(c.bounds, off)
		}
		c.name = fmt.Sprintf("f%06d", len(cases))
		cases = append(cases, c)
	}
	for _, row := range rows {
		if len(row.S) > 0 && row.S[0] == "big" {
			// one case per position of the copy-buffer boundary inside the tail
			off := 0
			offs := []int{0}
			for _, x := range row.S[1:] {
				off += len(eolMkVariant(0).render([]string{x}, 0))
				offs = append(offs, off)
			}
			for _, o := range offs {
				addCase(row, 0, eolBuf-o)
			}
			continue
		}
		// canonical rendering + one (quick) or two (thorough) seeded variants
		addCase(row, 0, 0)
		addCase(row, 1+rnd.Intn(40), 0)
		if rep.Thorough() {
			addCase(row, 1+rnd.Intn(40), 0)
		}
	}
	// big cases last, in batches of their own (they run on real files)
	sort.SliceStable(cases, func(i, j int) bool { return (cases[i].bigLen > 0) != (cases[j].bigLen > 0) && cases[j].bigLen > 0 })
	for i, c := range cases {
		c.name = fmt.Sprintf("f%06d", i)
	}

	// ---- level 1: stats and stream writers
	for _, c := range cases {
		eolLevel1(r, c)
	}

	// ---- level 2: go-git end to end; git leg on gitSel (thorough: all; quick: seeded sample + all big cases)
	t1 := time.Now()
	pair := eolPairs(cases, rnd)
	gitOK := gitcli.Available()
	gitFiles, gitCases := 0, 0
	// git leg: quick = seeded sample of 1200 cases + 40 long-line cases; thorough = every canonical
	// rendering of a row of <= 5 symbols, every long-line case, and a seeded sample of 20000 others
	gitBudget, gitBig := 1200, 40
	gitSel := make([]bool, len(cases))
	if rep.Thorough() {
		gitBudget, gitBig = 20000, len(cases)
		for i, c := range cases {
			if c.vi == 0 && c.bigLen == 0 && len(c.row.S) <= 5 {
				gitSel[i] = true
				gitCases++
			}
		}
	}
	for _, i := range rnd.Perm(len(cases)) {
		if gitSel[i] {
			continue
		}
		if cases[i].bigLen > 0 && gitBig > 0 {
			gitSel[i] = true
			gitBig--
			gitCases++
		} else if cases[i].bigLen == 0 && gitBudget > 0 {
			gitSel[i] = true
			gitBudget--
			gitCases++
		}
	}
	var tGo, tGit time.Duration
	for _, cfg := range []string{"true", "input", "false"} {
		var sub, gsub []*eolCase
		var subPair, gsubPair []int
		for i, c := range cases {
			// autocrlf=false is the identity in the spec (theorem OnlyTrueConverts): seeded 1/8 sample
			if cfg == "false" && rnd.Intn(8) != 0 && c.bigLen == 0 && !gitSel[i] {
				continue
			}

			sub = append(sub, c)
			subPair = append(subPair, pair[i])
			if gitSel[i] {
				gsub = append(gsub, c)
				gsubPair = append(gsubPair, pair[i])
			}
		}
		t0 := time.Now()
		if err := eolGoGit(r, cfg, sub, subPair, cases); err != nil {
			return err
		}
		tGo += time.Since(t0)
		if gitOK {
			t0 = time.Now()
			n, err := eolGit(r, cfg, gsub, gsubPair, cases)
			if err != nil {
				return err
			}
			gitFiles += n
			tGit += time.Since(t0)
		}
	}
	if gitOK {
		t0 := time.Now()
		var gsub []*eolCase
		for i, c := range cases {
			if gitSel[i] {
				gsub = append(gsub, c)
			}
		}
		n, err := eolGitText(r, gsub)
		if err != nil {
			return err
		}
		gitFiles += n
		tGit += time.Since(t0)
	}
	r.Extra["git_cases"] = gitCases
	r.Extra["wall_level1_s"] = t1.Sub(tStart).Seconds()
	r.Extra["wall_gogit_s"] = tGo.Seconds()
	r.Extra["wall_git_s"] = tGit.Seconds()
	r.Distinct = len(cases)
	r.Extra["git_leg"] = gitOK
	r.Extra["git_files"] = gitFiles
	r.Extra["rows"] = len(rows)
	r.Extra["concrete_cases"] = len(cases)
	return r.Emit()
}

// eolPairs: for the "add over an existing index entry" flow, which case's input is the blob
// already in the index.  Half of the partners are drawn from the blobs the spec says trigger
// the index rule (hci), so that both sides of the rule are exercised for many worktree contents.
func eolPairs(cases []*eolCase, rnd *rand.Rand) []int {
	var hci []int
	for i, c := range cases {
		if c.row.Hci && c.bigLen == 0 {
			hci = append(hci, i)
		}
	}
	p := make([]int, len(cases))
	for i := range cases {
		if len(hci) > 0 && rnd.Intn(2) == 0 {
			p[i] = hci[rnd.Intn(len(hci))]
		} else {
			p[i] = rnd.Intn(len(cases))
		}
	}
	return p
}

// ------------------------------------------------------------------ level 1

func eolLevel1(r *rep.Report, c *eolCase) {
	row := c.row
	// GetStat / IsBinary
	st, err := convert.GetStat(bytes.NewReader(c.in))
	r.Eval(1)
	if err != nil {
		r.Diverge("GetStat|error|"+c.tags(), fmt.Sprintf("GetStat(%s) failed: %v", eolShow(c.in), err), map[string]any{"abstract": row.S})
	} else {
		if st.IsBinary() != row.Bin {
			r.Diverge("IsBinary|differs|"+c.tags(), fmt.Sprintf("Stat.IsBinary()=%v for %s, spec (convert_is_binary) says %v", st.IsBinary(), eolShow(c.in), row.Bin),
				map[string]any{"abstract": row.S, "variant": c.vi, "gogit_stat": st, "spec_stat": row.St})
		}
		for _, f := range []struct {
			n    string
			g, s int
		}{{"LoneCR", int(st.LoneCR), row.St.Lonecr}, {"LoneLF", int(st.LoneLF), row.St.Lonelf}, {"CRLF", int(st.CRLF), row.St.Crlf}, {"NUL", int(st.NUL), row.St.Nul}} {
			if f.g != f.s {
				r.Diverge("GetStat|"+f.n+"-differs|"+c.tags(), fmt.Sprintf("GetStat(%s).%s=%d, spec (gather_stats) says %d", eolShow(c.in), f.n, f.g, f.s),
					map[string]any{"abstract": row.S, "variant": c.vi})
			}
		}
	}
	// stream writers under every split into two writes (+ byte-wise)
	splitKey := func(k int) string {
		if k < 0 {
			return "bytewise"
		}
		// abstract symbols adjacent to the split
		l, rr := "^", "$"
		for i, b := range c.bounds {
			if b == k {
				if i > 0 {
					l = row.S[i-1]
				}
				if i < len(row.S) {
					rr = row.S[i]
				}
				return l + "|" + rr
			}
		}
		return "inside-run"
	}
	run := func(mk func(io.Writer) io.Writer, k int) ([]byte, error) {
		var o bytes.Buffer
		w := mk(&o)
		write := func(p []byte) error {
			n, err := w.Write(p)
			if err != nil {
				return err
			}
			if n != len(p) {
				return fmt.Errorf("short write count %d for %d bytes", n, len(p))
			}
			return nil
		}
		if k < 0 {
			if len(c.in) > 600 {
				return nil, nil
			}
			for i := range c.in {
				if err := write(c.in[i : i+1]); err != nil {
					return nil, err
				}
			}
			return o.Bytes(), nil
		}
		if err := write(c.in[:k]); err != nil {
			return nil, err
		}
		if err := write(c.in[k:]); err != nil {
			return nil, err
		}
		return o.Bytes(), nil
	}
	splits := append([]int{-1}, c.bounds...)
	// also a split in the middle of a multi-byte run
	for i := 1; i < len(c.bounds); i++ {
		if c.bounds[i]-c.bounds[i-1] > 1 {
			splits = append(splits, c.bounds[i-1]+1)
			break
		}
	}
	type wr struct {
		name string
		mk   func(io.Writer) io.Writer
		want []byte
		on   bool
	}
	for _, w := range []wr{
		// both writers document "assumes data is text": a lone CR makes content binary for git and go-git,
		// and git's own loops are only used on such content under an explicit attribute; judged on lonecr = 0
		// (NUL / control bytes do not matter to the loops and are kept in the domain)
		{"CRLFWriter", convert.NewCRLFWriter, c.out(row.Kl), row.St.Lonecr == 0},
		{"LFWriter", convert.NewLFWriter, c.out(row.Ks), row.St.Lonecr == 0},
	} {
		if !w.on {
			continue
		}
		for _, k := range splits {
			got, err := run(w.mk, k)
			if got == nil && err == nil {
				continue
			}
			r.Eval(1)
			if err != nil {
				r.Diverge(w.name+"|write-error|"+splitKey(k), fmt.Sprintf("%s on %s split at %d: %v", w.name, eolShow(c.in), k, err), map[string]any{"abstract": row.S, "split": k})
				continue
			}
			if !bytes.Equal(got, w.want) {
				r.Diverge(w.name+"|"+eolClass(got, w.want, c.in)+"|split="+splitKey(k)+"|"+c.tags(),
					fmt.Sprintf("%s(%s) written as [:%d]+[%d:] gives %s, spec (convert.c copy loop) gives %s", w.name, eolShow(c.in), k, k, eolShow(got), eolShow(w.want)),
					map[string]any{"abstract": row.S, "variant": c.vi, "split": k, "in": eolShow(c.in), "got": eolShow(got), "want": eolShow(w.want)})
			}
		}
	}
	r.Sample(map[string]any{"abstract": row.S, "binary": row.Bin, "class": row.Cls})
}

// ------------------------------------------------------------------ level 2: go-git

const eolBatch = 4000

type eolRepo struct {
	repo *git.Repository
	st   storage.Storer
	fs   billy.Filesystem
	w    *git.Worktree
}

func eolNewRepo(cfg string, disk bool) (*eolRepo, error) {
	var st storage.Storer
	var fs billy.Filesystem
	if disk {
		d := gitcli.TempDir("c31disk")
		fs = osfs.New(d)
		dot, err := fs.Chroot(".git")
		if err != nil {
			return nil, err
		}
		st = filesystem.NewStorage(dot, cache.NewObjectLRUDefault())
	} else {
		st = memory.NewStorage()
		fs = memfs.New()
	}
	repo, err := git.Init(st, git.WithWorkTree(fs))
	if err != nil {
		return nil, err
	}
	c, err := repo.Config()
	if err != nil {
		return nil, err
	}
	c.Core.AutoCRLF = cfg
	if err := repo.SetConfig(c); err != nil {
		return nil, err
	}
	w, err := repo.Worktree()
	if err != nil {
		return nil, err
	}
	return &eolRepo{repo, st, fs, w}, nil
}

func (e *eolRepo) putBlob(b []byte) (plumbing.Hash, error) {
	o := e.st.NewEncodedObject()
	o.SetType(plumbing.BlobObject)
	o.SetSize(int64(len(b)))
	w, err := o.Writer()
	if err != nil {
		return plumbing.ZeroHash, err
	}
	if _, err := w.Write(b); err != nil {
		return plumbing.ZeroHash, err
	}
	if err := w.Close(); err != nil {
		return plumbing.ZeroHash, err
	}
	return e.st.SetEncodedObject(o)
}

func (e *eolRepo) blob(h plumbing.Hash) ([]byte, error) {
	b, err := e.repo.BlobObject(h)
	if err != nil {
		return nil, err
	}
	rd, err := b.Reader()
	if err != nil {
		return nil, err
	}
	defer rd.Close()
	return io.ReadAll(rd)
}

// indexBlobs returns name -> blob content of the current index
func (e *eolRepo) indexBlobs() (map[string][]byte, error) {
	idx, err := e.st.Index()
	if err != nil {
		return nil, err
	}
	m := map[string][]byte{}
	for _, en := range idx.Entries {
		b, err := e.blob(en.Hash)
		if err != nil {
			return nil, fmt.Errorf("index entry %s: %v", en.Name, err)
		}
		m[en.Name] = b
	}
	return m, nil
}

func (e *eolRepo) commitOf(names []string, blobs [][]byte) (plumbing.Hash, error) {
	t := &object.Tree{}
	for i, n := range names {
		h, err := e.putBlob(blobs[i])
		if err != nil {
			return plumbing.ZeroHash, err
		}
		t.Entries = append(t.Entries, object.TreeEntry{Name: n, Mode: filemode.Regular, Hash: h})
	}
	sort.Slice(t.Entries, func(i, j int) bool { return t.Entries[i].Name < t.Entries[j].Name })
	to := e.st.NewEncodedObject()
	if err := t.Encode(to); err != nil {
		return plumbing.ZeroHash, err
	}
	th, err := e.st.SetEncodedObject(to)
	if err != nil {
		return plumbing.ZeroHash, err
	}
	sig := object.Signature{Name: "v", Email: "v@example.com", When: time.Unix(1000000000, 0).UTC()}
	cm := &object.Commit{Author: sig, Committer: sig, Message: "c31\n", TreeHash: th}
	co := e.st.NewEncodedObject()
	if err := cm.Encode(co); err != nil {
		return plumbing.ZeroHash, err
	}
	return e.st.SetEncodedObject(co)
}

func (e *eolRepo) setIndex(names []string, blobs [][]byte) error {
	idx := &index.Index{Version: 2}
	for i, n := range names {
		h, err := e.putBlob(blobs[i])
		if err != nil {
			return err
		}
		idx.Entries = append(idx.Entries, &index.Entry{Name: n, Hash: h, Mode: filemode.Regular})
	}
	sort.Slice(idx.Entries, func(i, j int) bool { return idx.Entries[i].Name < idx.Entries[j].Name })
	return e.st.SetIndex(idx)
}

func (e *eolRepo) writeFiles(names []string, data [][]byte) error {
	for i, n := range names {
		if err := util.WriteFile(e.fs, n, data[i], 0o644); err != nil {
			return err
		}
	}
	return nil
}

func (e *eolRepo) readFile(n string) ([]byte, error) {
	f, err := e.fs.Open(n)
	if err != nil {
		return nil, err
	}
	defer f.Close()
	return io.ReadAll(f)
}

func eolDiverge(r *rep.Report, op, cfg string, c *eolCase, extraKey string, got, want, in []byte, more map[string]any) {
	sig := op + "|" + eolClass(got, want, in) + "|autocrlf=" + cfg + "|" + extraKey
	cs := map[string]any{"abstract": c.row.S, "variant": c.vi, "autocrlf": cfg, "in": eolShow(in), "gogit": eolShow(got), "spec": eolShow(want)}
	for k, v := range more {
		cs[k] = v
	}
	r.Diverge(sig, fmt.Sprintf("%s with core.autocrlf=%s on %s: go-git gives %s, spec (convert.c) and git give %s", op, cfg, eolShow(in), eolShow(got), eolShow(want)), cs)
}

func eolGoGit(r *rep.Report, cfg string, sub []*eolCase, pair []int, all []*eolCase) error {
	for lo, hi := 0, 0; lo < len(sub); lo = hi {
		// a batch is up to eolBatch cases of one kind; "big" cases run on real files
		// (os files + loose objects: CopyBuffer really chunks at 32 KiB)
		disk := sub[lo].bigLen > 0
		for hi = lo; hi < len(sub) && hi-lo < eolBatch && (sub[hi].bigLen > 0) == disk; hi++ {
		}
		b := sub[lo:hi]
		names := make([]string, len(b))
		ins := make([][]byte, len(b))
		for i, c := range b {
			names[i] = c.name
			ins[i] = c.in
		}
		// flow A: add to a fresh index
		{
			e, err := eolNewRepo(cfg, disk)
			if err != nil {
				return err
			}
			if err := e.writeFiles(names, ins); err != nil {
				return err
			}
			if err := e.w.AddWithOptions(&git.AddOptions{All: true}); err != nil {
				return fmt.Errorf("go-git add -A (flow A, autocrlf=%s): %v", cfg, err)
			}
			got, err := e.indexBlobs()
			if err != nil {
				return err
			}
			for _, c := range b {
				r.Eval(1)
				want := c.out(c.row.G0[cfg])
				g, ok := got[c.name]
				if !ok {
					r.Diverge("Add|not-in-index|autocrlf="+cfg, "file missing from the index after Add{All}", map[string]any{"abstract": c.row.S})
					continue
				}
				if !bytes.Equal(g, want) {
					eolDiverge(r, "Add", cfg, c, "worktree="+c.tags()+"|index=absent", g, want, c.in, nil)
				}
			}
		}
		// flow B + C: checkout of a commit, then add of the unchanged worktree
		{
			e, err := eolNewRepo(cfg, disk)
			if err != nil {
				return err
			}
			h, err := e.commitOf(names, ins)
			if err != nil {
				return err
			}
			if err := e.w.Checkout(&git.CheckoutOptions{Hash: h, Force: true}); err != nil {
				return fmt.Errorf("go-git checkout (autocrlf=%s): %v", cfg, err)
			}
			for _, c := range b {
				r.Eval(1)
				want := c.out(c.row.Wt[cfg])
				g, err := e.readFile(c.name)
				if err != nil {
					r.Diverge("Checkout|file-missing|autocrlf="+cfg, "file not written by Checkout: "+err.Error(), map[string]any{"abstract": c.row.S})
					continue
				}
				if !bytes.Equal(g, want) {
					eolDiverge(r, "Checkout", cfg, c, "blob="+c.tags(), g, want, c.in, nil)
				}
			}
			// "unchanged content": every file is rewritten with the very bytes Checkout produced, so the
			// index's stat shortcut (size+mtime) cannot skip the conversion (git leg: checkout-index
			// without -u leaves the index without stat data, same effect)
			for _, c := range b {
				g, err := e.readFile(c.name)
				if err != nil {
					continue
				}
				if err := util.WriteFile(e.fs, c.name, g, 0o644); err != nil {
					return err
				}
			}
			if err := e.w.AddWithOptions(&git.AddOptions{All: true}); err != nil {
				return fmt.Errorf("go-git add -A (round trip, autocrlf=%s): %v", cfg, err)
			}
			got, err := e.indexBlobs()
			if err != nil {
				return err
			}
			for _, c := range b {
				r.Eval(1)
				want := c.out(c.row.Rt[cfg])
				g, ok := got[c.name]
				if !ok {
					r.Diverge("RoundTrip|not-in-index|autocrlf="+cfg, "file missing from the index after checkout + Add{All}", map[string]any{"abstract": c.row.S})
					continue
				}
				if !bytes.Equal(g, want) {
					eolDiverge(r, "RoundTrip", cfg, c, "blob="+c.tags(), g, want, c.in, nil)
				}
			}
		}
		// flow DE: add over an index entry holding another blob (the index rule of crlf_to_git)
		{
			e, err := eolNewRepo(cfg, disk)
			if err != nil {
				return err
			}
			idxBlobs := make([][]byte, len(b))
			for i := range b {
				idxBlobs[i] = all[pair[lo+i]].in
			}
			if err := e.setIndex(names, idxBlobs); err != nil {
				return err
			}
			if err := e.writeFiles(names, ins); err != nil {
				return err
			}
			if err := e.w.AddWithOptions(&git.AddOptions{All: true}); err != nil {
				return fmt.Errorf("go-git add -A (flow DE, autocrlf=%s): %v", cfg, err)
			}
			got, err := e.indexBlobs()
			if err != nil {
				return err
			}
			for i, c := range b {
				r.Eval(1)
				p := all[pair[lo+i]]
				col := c.row.G0
				if p.row.Hci { // column selected by the spec's own HasCRLFInIndex verdict of the indexed blob
					col = c.row.G1
				}
				want := c.out(col[cfg])
				g, ok := got[c.name]
				if !ok {
					r.Diverge("AddOver|not-in-index|autocrlf="+cfg, "file missing from the index after Add{All}", map[string]any{"abstract": c.row.S})
					continue
				}
				if !bytes.Equal(g, want) {
					eolDiverge(r, "AddOver", cfg, c, "worktree="+c.tags()+"|index="+p.row.Cls, g, want, c.in,
						map[string]any{"index_blob": eolShow(p.in), "index_abstract": p.row.S})
				}
			}
		}
	}
	return nil
}

// ------------------------------------------------------------------ git leg

type eolGitRepo struct{ dir string }

func eolGitInit(cfg string, attrs string) (*eolGitRepo, error) {
	d := gitcli.TempDir("c31git")
	if err := gitcli.Init(d, false); err != nil {
		return nil, err
	}
	g := &eolGitRepo{d}
	for _, kv := range [][2]string{{"core.autocrlf", cfg}, {"core.safecrlf", "false"}, {"core.eol", "lf"}} {
		if _, e, err := gitcli.Run(d, nil, "config", kv[0], kv[1]); err != nil {
			return nil, fmt.Errorf("git config: %v %s", err, e)
		}
	}
	if attrs != "" {
		if err := os.WriteFile(filepath.Join(d, ".git", "info", "attributes"), []byte(attrs), 0o644); err != nil {
			return nil, err
		}
	}
	return g, nil
}

func (g *eolGitRepo) run(stdin []byte, args ...string) (string, error) {
	t0 := time.Now()
	o, e, err := gitcli.Run(g.dir, stdin, args...)
	if os.Getenv("C31_TRACE") != "" {
		fmt.Fprintf(os.Stderr, "git %v: %v\n", args, time.Since(t0))
	}
	if err != nil {
		return "", fmt.Errorf("git %v: %v: %s", args, err, e)
	}
	return o, nil
}

// setIndex stores blobs (fast-import) and points the index at them without stat data
func (g *eolGitRepo) setIndex(names []string, blobs [][]byte) error {
	var fi, ii bytes.Buffer
	for i, b := range blobs {
		fmt.Fprintf(&fi, "blob\ndata %d\n", len(b))
		fi.Write(b)
		fi.WriteByte('\n')
		fmt.Fprintf(&ii, "100644 %s\t%s\n", blobSha(b), names[i])
	}
	if _, err := g.run(fi.Bytes(), "fast-import", "--quiet"); err != nil {
		return err
	}
	_, err := g.run(ii.Bytes(), "update-index", "--index-info")
	return err
}

func (g *eolGitRepo) writeFiles(names []string, data [][]byte) error {
	for i, n := range names {
		if err := os.WriteFile(filepath.Join(g.dir, n), data[i], 0o644); err != nil {
			return err
		}
	}
	return nil
}

// preload stores blobs in a pack.  Creating a loose object costs ~8 ms in this sandbox; `git add` does not
// write an object that already exists, so the inputs and the spec's expected results are stored up front
// (a result git computes differently is still written by git itself and shows up as a different id).
func (g *eolGitRepo) preload(blobs [][]byte) error {
	var fi bytes.Buffer
	seen := map[string]bool{}
	for _, b := range blobs {
		if seen[string(b)] {
			continue
		}
		seen[string(b)] = true
		fmt.Fprintf(&fi, "blob\ndata %d\n", len(b))
		fi.Write(b)
		fi.WriteByte('\n')
	}
	_, err := g.run(fi.Bytes(), "fast-import", "--quiet")
	return err
}

// indexShas: name -> blob id after `git add -A`
func (g *eolGitRepo) addAll() (map[string]string, error) {
	if _, err := g.run(nil, "add", "-A"); err != nil {
		return nil, err
	}
	o, err := g.run(nil, "ls-files", "-s", "-z")
	if err != nil {
		return nil, err
	}
	m := map[string]string{}
	for _, rec := range strings.Split(o, "\x00") {
		if rec == "" {
			continue
		}
		tab := strings.IndexByte(rec, '\t')
		f := strings.Fields(rec[:tab])
		m[rec[tab+1:]] = f[1]
	}
	return m, nil
}

func (g *eolGitRepo) cat(sha string) string {
	o, _, err := gitcli.Run(g.dir, nil, "cat-file", "blob", sha)
	if err != nil {
		return "<unreadable>"
	}
	return eolShow([]byte(o))
}

func eolGit(r *rep.Report, cfg string, sub []*eolCase, pair []int, all []*eolCase) (int, error) {
	names := make([]string, len(sub))
	ins := make([][]byte, len(sub))
	for i, c := range sub {
		names[i] = c.name
		ins[i] = c.in
	}
	files := 0
	var pre [][]byte
	for _, c := range sub {
		pre = append(pre, c.in, c.out(c.row.G0[cfg]), c.out(c.row.G1[cfg]), c.out(c.row.Rt[cfg]))
	}
	specErr := func(flow string, c *eolCase, want []byte, gitSays string, more map[string]any) {
		cs := map[string]any{"flow": flow, "autocrlf": cfg, "abstract": c.row.S, "variant": c.vi, "in": eolShow(c.in), "spec": eolShow(want), "git": gitSays}
		for k, v := range more {
			cs[k] = v
		}
		r.SpecError(cs)
	}
	// A: add into a fresh index
	{
		g, err := eolGitInit(cfg, "")
		if err != nil {
			return 0, err
		}
		if err := g.preload(pre); err != nil {
			return 0, err
		}
		if err := g.writeFiles(names, ins); err != nil {
			return 0, err
		}
		files += len(names)
		got, err := g.addAll()
		if err != nil {
			return 0, err
		}
		for _, c := range sub {
			want := c.out(c.row.G0[cfg])
			if got[c.name] != blobSha(want) {
				specErr("add-fresh", c, want, g.cat(got[c.name]), nil)
			}
		}
	}
	// B + C: checkout-index, ls-files --eol, then add of the unchanged files
	{
		g, err := eolGitInit(cfg, "")
		if err != nil {
			return 0, err
		}
		if err := g.setIndex(names, ins); err != nil {
			return 0, err
		}
		if _, err := g.run(nil, "checkout-index", "-a", "-f"); err != nil {
			return 0, err
		}
		files += len(names)
		for _, c := range sub {
			want := c.out(c.row.Wt[cfg])
			b, err := os.ReadFile(filepath.Join(g.dir, c.name))
			if err != nil {
				return 0, err
			}
			if !bytes.Equal(b, want) {
				specErr("checkout-index", c, want, eolShow(b), nil)
			}
		}
		o, err := g.run(nil, "ls-files", "--eol")
		if err != nil {
			return 0, err
		}
		cls := map[string]string{}
		for _, ln := range strings.Split(o, "\n") {
			tab := strings.IndexByte(ln, '\t')
			if tab < 0 {
				continue
			}
			f := strings.Fields(ln[:tab])
			cls[ln[tab+1:]] = strings.TrimPrefix(f[0], "i/")
		}
		for _, c := range sub {
			if cls[c.name] != c.row.Cls {
				specErr("ls-files-eol", c, nil, cls[c.name], map[string]any{"spec_class": c.row.Cls})
			}
		}
		got, err := g.addAll()
		if err != nil {
			return 0, err
		}
		for _, c := range sub {
			want := c.out(c.row.Rt[cfg])
			if got[c.name] != blobSha(want) {
				specErr("round-trip", c, want, g.cat(got[c.name]), nil)
			}
		}
	}
	// DE: add over an index entry holding another blob
	{
		g, err := eolGitInit(cfg, "")
		if err != nil {
			return 0, err
		}
		idxBlobs := make([][]byte, len(sub))
		for i := range sub {
			idxBlobs[i] = all[pair[i]].in
		}
		if err := g.setIndex(names, idxBlobs); err != nil {
			return 0, err
		}
		if err := g.preload(pre); err != nil {
			return 0, err
		}
		if err := g.writeFiles(names, ins); err != nil {
			return 0, err
		}
		files += len(names)
		got, err := g.addAll()
		if err != nil {
			return 0, err
		}
		for i, c := range sub {
			p := all[pair[i]]
			col := c.row.G0
			if p.row.Hci {
				col = c.row.G1
			}
			want := c.out(col[cfg])
			if got[c.name] != blobSha(want) {
				specErr("add-over-index", c, want, g.cat(got[c.name]), map[string]any{"index_blob": eolShow(p.in), "index_abstract": p.row.S, "spec_hci": p.row.Hci})
			}
		}
	}
	return files, nil
}

// eolGitText validates the bare copy loops (LFtoCRLF / CRLFtoLF as ToWorktreeText / ToGitText) against git
// with the attribute "text eol=crlf", where git neither guesses nor applies the index rule.
func eolGitText(r *rep.Report, cases []*eolCase) (int, error) {
	names := make([]string, len(cases))
	ins := make([][]byte, len(cases))
	for i, c := range cases {
		names[i] = c.name
		ins[i] = c.in
	}
	g, err := eolGitInit("false", "* text eol=crlf\n")
	if err != nil {
		return 0, err
	}
	if err := g.setIndex(names, ins); err != nil {
		return 0, err
	}
	if _, err := g.run(nil, "checkout-index", "-a", "-f"); err != nil {
		return 0, err
	}
	for _, c := range cases {
		want := c.out(c.row.Kw)
		b, err := os.ReadFile(filepath.Join(g.dir, c.name))
		if err != nil {
			return 0, err
		}
		if !bytes.Equal(b, want) {
			r.SpecError(map[string]any{"flow": "text-checkout", "abstract": c.row.S, "in": eolShow(c.in), "spec": eolShow(want), "git": eolShow(b)})
		}
	}
	g2, err := eolGitInit("false", "* text eol=crlf\n")
	if err != nil {
		return 0, err
	}
	var pre [][]byte
	for _, c := range cases {
		pre = append(pre, c.in, c.out(c.row.Kg))
	}
	if err := g2.preload(pre); err != nil {
		return 0, err
	}
	if err := g2.writeFiles(names, ins); err != nil {
		return 0, err
	}
	got, err := g2.addAll()
	if err != nil {
		return 0, err
	}
	for _, c := range cases {
		want := c.out(c.row.Kg)
		if got[c.name] != blobSha(want) {
			r.SpecError(map[string]any{"flow": "text-add", "abstract": c.row.S, "in": eolShow(c.in), "spec": eolShow(want), "git": g2.cat(got[c.name])})
		}
	}
	return 2 * len(cases), nil
}
