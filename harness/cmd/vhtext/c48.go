package main

import (
	"bytes"
	"encoding/json"
	"fmt"
	"math/rand"
	"os"
	"os/exec"
	"path/filepath"
	"sort"
	"strings"

	"verifharness/internal/gitcli"
	"verifharness/internal/rep"

	gconfig "github.com/go-git/go-git/v6/config"
	"github.com/go-git/go-git/v6/plumbing"
	fconfig "github.com/go-git/go-git/v6/plumbing/format/config"
)

// C48: rows of spec/rules/ConfigLex.tla.
//   read side : file (byte classes) + meaning computed by TLC  -> go-git format/config Decoder, git config --list --null
//   values    : boolean / integer tokens + git's interpretation -> go-git config.Unmarshal fields, git config --type
//   write side: values / subsection names enumerated by TLC     -> go-git Encoder / Config.Marshal output read back by
//               go-git and by git; must be the value itself (theorem RefRoundTrip: every such value is representable)

type cfgEnt struct {
	K []string
	V []string
}

type cfgRow struct {
	F     []string
	Err   bool
	Ents  []cfgEnt
	Tags  []string
	Multi bool // several headers: judged per variable (key -> ordered values), not as one global sequence
	Bykey []struct {
		K  []string
		Vs [][]string
	}
}

// rendering of byte classes; variant 0 canonical
type cfgVariant struct{ k, K, d, x byte }

// K is always the upper-case form of k: the spec folds K to k
var cfgVariants = []cfgVariant{{'k', 'K', '1', '_'}, {'a', 'A', '0', '/'}, {'z', 'Z', '9', ':'}, {'s', 'S', '7', '@'}, {'e', 'E', '2', '+'}, {'u', 'U', '5', ','}}

func (v cfgVariant) render(s []string) string {
	var b strings.Builder
	for _, c := range s {
		switch c {
		case "k":
			b.WriteByte(v.k)
		case "K":
			b.WriteByte(v.K)
		case "n":
			b.WriteByte('n')
		case "t":
			b.WriteByte('t')
		case "d":
			b.WriteByte(v.d)
		case "x":
			b.WriteByte(v.x)
		case "sp":
			b.WriteByte(' ')
		case "tab":
			b.WriteByte('\t')
		case "nl":
			b.WriteByte('\n')
		case "q":
			b.WriteByte('"')
		case "bs":
			b.WriteByte('\\')
		case "=", ";", "#", "[", "]", ".":
			b.WriteString(c)
		default:
			panic("unknown config symbol " + c)
		}
	}
	return b.String()
}

type cfgKV struct {
	Key     string
	Val     string
	NoValue bool
}

func cfgShowEnts(e []cfgKV) string {
	var p []string
	for _, x := range e {
		if x.NoValue {
			p = append(p, fmt.Sprintf("%q (no value)", x.Key))
		} else {
			p = append(p, fmt.Sprintf("%q=%q", x.Key, x.Val))
		}
	}
	return "[" + strings.Join(p, ", ") + "]"
}

// go-git: decode and flatten to git's --list vocabulary (section and key lower-cased, subsection verbatim)
func cfgGoGitDecode(data []byte) ([]cfgKV, error) {
	c := fconfig.New()
	if err := fconfig.NewDecoder(bytes.NewReader(data)).Decode(c); err != nil {
		return nil, err
	}
	var out []cfgKV
	for _, s := range c.Sections {
		for _, o := range s.Options {
			out = append(out, cfgKV{Key: strings.ToLower(s.Name) + "." + strings.ToLower(o.Key), Val: o.Value})
		}
		for _, ss := range s.Subsections {
			for _, o := range ss.Options {
				out = append(out, cfgKV{Key: strings.ToLower(s.Name) + "." + ss.Name + "." + strings.ToLower(o.Key), Val: o.Value})
			}
		}
	}
	return out, nil
}

// git: config --file f --list --null
func cfgGitList(dir string, data []byte) ([]cfgKV, bool, string, error) {
	f := filepath.Join(dir, "cfg")
	if err := os.WriteFile(f, data, 0o644); err != nil {
		return nil, false, "", err
	}
	c := exec.Command("git", "config", "--file", f, "--list", "--null")
	c.Dir = dir
	c.Env = gitcli.Env()
	var o, e bytes.Buffer
	c.Stdout, c.Stderr = &o, &e
	if err := c.Run(); err != nil {
		if _, ok := err.(*exec.ExitError); ok {
			return nil, false, strings.TrimSpace(e.String()), nil
		}
		return nil, false, "", err
	}
	var out []cfgKV
	recs := strings.Split(o.String(), "\x00")
	for _, r := range recs[:len(recs)-1] {
		if i := strings.IndexByte(r, '\n'); i >= 0 {
			out = append(out, cfgKV{Key: r[:i], Val: r[i+1:]})
		} else {
			out = append(out, cfgKV{Key: r, NoValue: true})
		}
	}
	return out, true, "", nil
}

func cfgSameEnts(a, b []cfgKV, strictNoValue bool) (bool, string) {
	if len(a) != len(b) {
		return false, "entry-count-differs"
	}
	for i := range a {
		if a[i].Key != b[i].Key {
			return false, "key-differs"
		}
		if a[i].Val != b[i].Val {
			return false, "value-differs"
		}
		if strictNoValue && a[i].NoValue != b[i].NoValue {
			return false, "novalue-differs"
		}
	}
	return true, ""
}

// cfgTopTag picks, from the rule tags the spec attached to a file, the one that names the most specific lexer
// rule exercised (error reasons first); it is the scenario key of a finding signature.
var cfgTagOrder = []string{
	"junk-after-key", "junk-in-header", "junk-after-subsection", "newline-in-subsection", "newline-in-header", "eof-in-header",
	"unknown-escape", "newline-in-quotes", "junk-at-line-start", "bad-header",
	"subsection-name-reused", "subsection-reopened", "continuation-at-eof", "entry-on-header-line", "dotted-section", "section-digit", "no-section",
	"subsection-escape", "subsection-space", "subsection-case", "escape-n", "escape-t", "escape-self", "continuation",
	"comment-char-in-quotes", "space-in-quotes", "quote", "comment-after-value", "inner-space", "trailing-space", "leading-space",
	"plain-section-between", "two-subsections", "valueless", "key-digit", "key-case", "section-case", "subsection", "comment-line",
}

func cfgTopTag(tags []string) string {
	has := map[string]bool{}
	for _, t := range tags {
		has[t] = true
	}
	for _, t := range cfgTagOrder {
		if has[t] {
			return t
		}
	}
	if len(tags) > 0 {
		return tags[0]
	}
	return "plain"
}

// cfgSameByKey compares two entry lists per variable: the same keys, each with the same ordered values.  go-git
// groups options by section, so across several headers only the per-variable order is meaningful.
func cfgSameByKey(a, b []cfgKV, strictNoValue bool) (bool, string) {
	group := func(e []cfgKV) map[string][]cfgKV {
		m := map[string][]cfgKV{}
		for _, x := range e {
			m[x.Key] = append(m[x.Key], x)
		}
		return m
	}
	ma, mb := group(a), group(b)
	for k := range ma {
		if _, ok := mb[k]; !ok {
			return false, "variable-under-wrong-key"
		}
	}
	for k := range mb {
		if _, ok := ma[k]; !ok {
			return false, "variable-under-wrong-key"
		}
	}
	for k := range ma {
		if ok, why := cfgSameEnts(ma[k], mb[k], strictNoValue); !ok {
			return false, why
		}
	}
	return true, ""
}

func init() { rep.Register("c48", c48) }

func c48(args []string) error {
	if len(args) < 5 {
		return fmt.Errorf("usage: c48 cfg_rows.ndjson cfg_wrows.ndjson cfg_bool.ndjson cfg_int.ndjson cfg_edit.ndjson")
	}
	r := rep.New()
	rnd := rand.New(rand.NewSource(rep.Seed()))
	gitOK := gitcli.Available()
	gitDir := ""
	if gitOK {
		gitDir = gitcli.TempDir("c48git")
	}
	gitProcs := 0
	if err := c48Read(r, rnd, args[0], gitOK, gitDir, &gitProcs); err != nil {
		return err
	}
	if err := c48Values(r, args[2], args[3], gitOK, gitDir, &gitProcs); err != nil {
		return err
	}
	if err := c48Write(r, rnd, args[1], gitOK, gitDir, &gitProcs); err != nil {
		return err
	}
	if err := c48Edit(r, args[4], gitOK, gitDir, &gitProcs); err != nil {
		return err
	}
	r.Extra["git_leg"] = gitOK
	r.Extra["git_processes"] = gitProcs
	return r.Emit()
}

// ------------------------------------------------------------------ read side

func c48Read(r *rep.Report, rnd *rand.Rand, path string, gitOK bool, gitDir string, gitProcs *int) error {
	var rows []*cfgRow
	if err := rep.ReadNDJSON(path, func(line []byte) error {
		row := &cfgRow{}
		if err := json.Unmarshal(line, row); err != nil {
			return err
		}
		rows = append(rows, row)
		return nil
	}); err != nil {
		return err
	}
	sort.Slice(rows, func(i, j int) bool { return strings.Join(rows[i].F, ",") < strings.Join(rows[j].F, ",") })

	type cs struct {
		row  *cfgRow
		v    cfgVariant
		vi   int
		data []byte
		want []cfgKV
		// go-git outcome
		gerr  error
		got   []cfgKV
		class string
	}
	var cases []*cs
	seen := map[string]bool{}
	mk := func(row *cfgRow, vi int) {
		v := cfgVariants[vi]
		c := &cs{row: row, v: v, vi: vi, data: []byte(v.render(row.F))}
		if seen[string(c.data)] {
			return
		}
		seen[string(c.data)] = true
		ents := row.Ents
		if row.Multi { // expected values per variable as grouped by the spec (ByKey)
			ents = nil
			for _, g := range row.Bykey {
				for _, val := range g.Vs {
					ents = append(ents, cfgEnt{K: g.K, V: val})
				}
			}
		}
		for _, e := range ents {
			kv := cfgKV{Key: v.render(e.K)}
			if len(e.V) == 1 && e.V[0] == "novalue" {
				kv.NoValue = true
			} else {
				kv.Val = v.render(e.V)
			}
			c.want = append(c.want, kv)
		}
		cases = append(cases, c)
	}
	for _, row := range rows {
		mk(row, 0)
		if rep.Thorough() || rnd.Intn(4) == 0 {
			mk(row, 1+rnd.Intn(len(cfgVariants)-1))
		}
	}
	var missIdx []int
	for i, c := range cases {
		r.Eval(1)
		c.got, c.gerr = cfgGoGitDecode(c.data)
		switch {
		case c.gerr != nil && c.row.Err:
		case c.gerr != nil:
			c.class = "rejects-valid"
		case c.row.Err:
			c.class = "accepts-invalid"
		default:
			// at the format level go-git has no representation for "key without value"; its boolean meaning is
			// judged in the values part (token "novalue")
			same := cfgSameEnts
			if c.row.Multi {
				same = cfgSameByKey
			}
			if ok, why := same(c.got, c.want, false); !ok {
				c.class = why
			}
		}
		if c.class != "" {
			missIdx = append(missIdx, i)
		}
		if i < 3 {
			r.Sample(map[string]any{"file": string(c.data), "spec_error": c.row.Err, "spec_entries": cfgShowEnts(c.want)})
		}
	}
	// git leg: seeded sample + cases where go-git disagrees with the spec.  Of the latter, up to 25 per signature
	// (the report keeps 25 per signature) in file order, so that the set of reported signatures does not depend on the seed.
	budget := 500
	if rep.Thorough() {
		budget = 3500
	}
	sigOf := func(c *cs) string {
		tags := append([]string{}, c.row.Tags...)
		sort.Strings(tags)
		return "Decode|" + c.class + "|" + cfgTopTag(tags)
	}
	sel := map[int]bool{}
	perSig := map[string]int{}
	for _, i := range missIdx {
		sg := sigOf(cases[i])
		if perSig[sg] < 25 {
			perSig[sg]++
			sel[i] = true
		}
	}
	for i, c := range cases {
		if c.row.Multi && c.vi == 0 { // the two-header family is small: git witnesses every canonical rendering
			sel[i] = true
		}
	}
	for _, i := range rnd.Perm(len(cases)) {
		if budget <= 0 {
			break
		}
		if !sel[i] {
			sel[i] = true
			budget--
		}
	}
	gitAgrees := map[int]bool{}
	if gitOK {
		var order []int
		for i := range sel {
			order = append(order, i)
		}
		sort.Ints(order)
		for _, i := range order {
			c := cases[i]
			ents, ok, msg, err := cfgGitList(gitDir, c.data)
			if err != nil {
				return err
			}
			*gitProcs++
			agree := true
			if ok == c.row.Err {
				agree = false
			} else if ok {
				cmp := cfgSameEnts
				if c.row.Multi {
					cmp = cfgSameByKey
				}
				if same, _ := cmp(ents, c.want, true); !same {
					agree = false
				}
			}
			gitAgrees[i] = agree
			if !agree {
				r.SpecError(map[string]any{"part": "read", "file": string(c.data), "abstract": c.row.F, "spec_error": c.row.Err,
					"spec_entries": cfgShowEnts(c.want), "git_ok": ok, "git_entries": cfgShowEnts(ents), "git_msg": msg})
			}
		}
	}
	unconfirmed := 0
	sort.Ints(missIdx)
	for _, i := range missIdx {
		c := cases[i]
		if gitOK {
			ag, asked := gitAgrees[i]
			if !asked {
				unconfirmed++
				continue
			}
			if !ag {
				continue
			}
		}
		tags := append([]string{}, c.row.Tags...)
		sort.Strings(tags)
		sig := sigOf(c)
		gg := "error: " + fmt.Sprint(c.gerr)
		if c.gerr == nil {
			gg = cfgShowEnts(c.got)
		}
		sp := "error"
		if !c.row.Err {
			sp = cfgShowEnts(c.want)
		}
		r.Diverge(sig, fmt.Sprintf("config file %q: go-git Decoder gives %s; spec (config.c) and git give %s", string(c.data), gg, sp),
			map[string]any{"file": string(c.data), "abstract": c.row.F, "tags": tags, "gogit": gg, "spec": sp, "git_confirmed": gitOK})
	}
	r.Distinct += len(cases)
	r.Extra["read_cases"] = len(cases)
	r.Extra["read_gogit_disagreements"] = len(missIdx)
	r.Extra["read_unconfirmed_not_reported"] = unconfirmed
	r.Extra["read_git_checked"] = len(gitAgrees)
	return nil
}

// ------------------------------------------------------------------ values (bool / int)

type cfgTok struct {
	T string
	B string
	I string
}

// settings go-git interprets as booleans, with accessors on the unmarshalled Config
var cfgBoolSettings = []struct {
	section, sub, key string
	get               func(c *gconfig.Config) (string, bool) // value ("true"/"false"/"unset"), ok
}{
	{"core", "", "bare", func(c *gconfig.Config) (string, bool) { return fmt.Sprint(c.Core.IsBare), true }},
	{"core", "", "filemode", func(c *gconfig.Config) (string, bool) { return fmt.Sprint(c.Core.FileMode), true }},
	{"tag", "", "gpgsign", func(c *gconfig.Config) (string, bool) {
		if !c.Tag.GpgSign.IsSet() {
			return "unset", true
		}
		return fmt.Sprint(c.Tag.GpgSign.IsTrue()), true
	}},
	{"commit", "", "gpgsign", func(c *gconfig.Config) (string, bool) {
		if !c.Commit.GpgSign.IsSet() {
			return "unset", true
		}
		return fmt.Sprint(c.Commit.GpgSign.IsTrue()), true
	}},
	{"extensions", "", "worktreeconfig", func(c *gconfig.Config) (string, bool) { return fmt.Sprint(c.Extensions.WorktreeConfig), true }},
	{"pack", "", "writereverseindex", func(c *gconfig.Config) (string, bool) { return fmt.Sprint(c.Pack.WriteReverseIndex), true }},
	{"remote", "origin", "mirror", func(c *gconfig.Config) (string, bool) {
		rc, ok := c.Remotes["origin"]
		if !ok {
			return "", false
		}
		return fmt.Sprint(rc.Mirror), true
	}},
}

func cfgTokenFile(section, sub, key, tok string, extra string) []byte {
	var b strings.Builder
	if sub != "" {
		fmt.Fprintf(&b, "[%s \"%s\"]\n", section, sub)
	} else {
		fmt.Fprintf(&b, "[%s]\n", section)
	}
	b.WriteString(extra)
	if tok == "novalue" {
		fmt.Fprintf(&b, "\t%s\n", key)
	} else {
		fmt.Fprintf(&b, "\t%s = %s\n", key, tok)
	}
	return []byte(b.String())
}

func cfgTokClass(t string) string {
	switch strings.ToLower(t) {
	case "novalue":
		return "no-value"
	case "":
		return "empty"
	case "true", "false":
		if t == strings.ToLower(t) {
			return "true-false-word"
		}
		return "true-false-word-other-case"
	case "yes", "no", "on", "off":
		return "yes-no-on-off-word"
	}
	if strings.Trim(t, "0123456789-") == "" {
		return "integer"
	}
	if strings.Trim(t, "0123456789-kKmMgG") == "" {
		return "integer-with-unit"
	}
	return "other-word"
}

func c48Values(r *rep.Report, boolPath, intPath string, gitOK bool, gitDir string, gitProcs *int) error {
	var btoks, itoks []cfgTok
	for _, p := range []struct {
		path string
		dst  *[]cfgTok
	}{{boolPath, &btoks}, {intPath, &itoks}} {
		if err := rep.ReadNDJSON(p.path, func(line []byte) error {
			var t cfgTok
			if err := json.Unmarshal(line, &t); err != nil {
				return err
			}
			*p.dst = append(*p.dst, t)
			return nil
		}); err != nil {
			return err
		}
	}
	sort.Slice(btoks, func(i, j int) bool { return btoks[i].T < btoks[j].T })
	sort.Slice(itoks, func(i, j int) bool { return itoks[i].T < itoks[j].T })
	gitType := func(data []byte, typ, key string) (string, error) {
		f := filepath.Join(gitDir, "cfgv")
		if err := os.WriteFile(f, data, 0o644); err != nil {
			return "", err
		}
		c := exec.Command("git", "config", "--file", f, "--type="+typ, key)
		c.Dir = gitDir
		c.Env = gitcli.Env()
		var o, e bytes.Buffer
		c.Stdout, c.Stderr = &o, &e
		*gitProcs++
		if err := c.Run(); err != nil {
			if _, ok := err.(*exec.ExitError); ok {
				return "error", nil
			}
			return "", err
		}
		return strings.TrimSpace(o.String()), nil
	}
	// git leg once per token (the interpretation does not depend on the setting's name)
	for _, t := range btoks {
		if !gitOK {
			break
		}
		g, err := gitType(cfgTokenFile("core", "", "bare", t.T, ""), "bool", "core.bare")
		if err != nil {
			return err
		}
		if g != t.B {
			r.SpecError(map[string]any{"part": "bool", "token": t.T, "spec": t.B, "git": g})
		}
	}
	for _, t := range itoks {
		if !gitOK {
			break
		}
		g, err := gitType(cfgTokenFile("pack", "", "window", t.T, ""), "int", "pack.window")
		if err != nil {
			return err
		}
		if g != t.I {
			r.SpecError(map[string]any{"part": "int", "token": t.T, "spec": t.I, "git": g})
		}
	}
	for _, s := range cfgBoolSettings {
		for _, t := range btoks {
			r.Eval(1)
			extra := ""
			if s.section == "remote" {
				extra = "\turl = https://example.com/x.git\n"
			}
			data := cfgTokenFile(s.section, s.sub, s.key, t.T, extra)
			c := gconfig.NewConfig()
			err := c.Unmarshal(data)
			got := "error"
			if err == nil {
				v, ok := s.get(c)
				if !ok {
					got = "setting-lost"
				} else {
					got = v
				}
			}
			want := t.B
			// a go-git field without "unset" state: an invalid value is an error in git; go-git keeping its default is
			// reported as a divergence of class "invalid-accepted"
			if got == want {
				continue
			}
			cls := "bool-misread:" + want + "-read-as-" + got
			if want == "error" {
				cls = "invalid-bool-accepted"
			} else if got == "error" {
				cls = "valid-bool-rejected"
			}
			name := s.section + "." + s.key
			r.Diverge("Unmarshal|"+cls+"|"+name+"|"+cfgTokClass(t.T),
				fmt.Sprintf("%s = %q: go-git Config.Unmarshal reads %s, spec (git_parse_maybe_bool) and git config --type=bool say %s", name, t.T, got, want),
				map[string]any{"file": string(data), "setting": name, "token": t.T, "gogit": got, "spec": want})
		}
	}
	for _, t := range itoks {
		r.Eval(1)
		data := cfgTokenFile("pack", "", "window", t.T, "")
		c := gconfig.NewConfig()
		err := c.Unmarshal(data)
		got := "error"
		if err == nil {
			got = fmt.Sprint(c.Pack.Window)
		}
		want := t.I
		if t.T == "novalue" || t.T == "" {
			continue // git: error for a missing / empty integer; go-git documents "" as "use the default" (not judged)
		}
		if got == want {
			continue
		}
		if strings.HasPrefix(want, "-") && got == "error" {
			continue // pack.window is unsigned in go-git: rejecting a negative window is not a misreading
		}
		cls := "int-misread"
		if want == "error" {
			cls = "invalid-int-accepted"
		} else if got == "error" {
			cls = "valid-int-rejected"
		}
		r.Diverge("Unmarshal|"+cls+"|pack.window|"+cfgTokClass(t.T),
			fmt.Sprintf("pack.window = %q: go-git Config.Unmarshal reads %s, spec (git_parse_int) and git config --type=int say %s", t.T, got, want),
			map[string]any{"file": string(data), "token": t.T, "gogit": got, "spec": want})
	}
	r.Extra["bool_tokens"] = len(btoks)
	r.Extra["int_tokens"] = len(itoks)
	r.Extra["bool_settings"] = len(cfgBoolSettings)
	return nil
}

// ------------------------------------------------------------------ write side

type cfgWRow struct {
	V       []string
	Tabfree bool
}

func cfgValTags(v []string) string {
	f := map[string]bool{}
	for i, c := range v {
		switch c {
		case "sp":
			if i == 0 || i == len(v)-1 {
				f["edge-space"] = true
			} else {
				f["inner-space"] = true
			}
		case "tab":
			f["tab"] = true
		case "nl":
			f["newline"] = true
		case "#", ";":
			f["comment-char"] = true
		case "q":
			f["quote"] = true
		case "bs":
			f["backslash"] = true
		case "K":
			f["upper-case"] = true
		}
	}
	if len(v) == 0 {
		f["empty"] = true
	}
	var out []string
	for k := range f {
		out = append(out, k)
	}
	sort.Strings(out)
	if len(out) == 0 {
		return "plain"
	}
	return strings.Join(out, "+")
}

func c48Write(r *rep.Report, rnd *rand.Rand, path string, gitOK bool, gitDir string, gitProcs *int) error {
	var rows []*cfgWRow
	if err := rep.ReadNDJSON(path, func(line []byte) error {
		row := &cfgWRow{}
		if err := json.Unmarshal(line, row); err != nil {
			return err
		}
		rows = append(rows, row)
		return nil
	}); err != nil {
		return err
	}
	sort.Slice(rows, func(i, j int) bool { return strings.Join(rows[i].V, ",") < strings.Join(rows[j].V, ",") })
	budget := 100
	if rep.Thorough() {
		budget = 600
	}
	gitPick := map[int]bool{}
	for _, i := range rnd.Perm(len(rows)) {
		if budget <= 0 {
			break
		}
		gitPick[i] = true
		budget--
	}
	v0 := cfgVariants[0]
	type flow struct {
		name string
		// build returns the bytes go-git writes and the entries that must be read back
		build func(val string) ([]byte, []cfgKV, error)
		ok    func(row *cfgWRow) bool
	}
	hasNL := func(row *cfgWRow) bool {
		for _, c := range row.V {
			if c == "nl" {
				return true
			}
		}
		return false
	}
	flows := []flow{
		{"Encoder.value", func(val string) ([]byte, []cfgKV, error) {
			c := fconfig.New()
			c.AddOption("k", "", "k", val)
			var b bytes.Buffer
			err := fconfig.NewEncoder(&b).Encode(c)
			return b.Bytes(), []cfgKV{{Key: "k.k", Val: val}}, err
		}, func(*cfgWRow) bool { return true }},
		{"Encoder.subsection", func(val string) ([]byte, []cfgKV, error) {
			c := fconfig.New()
			c.AddOption("k", val, "k", "x")
			var b bytes.Buffer
			err := fconfig.NewEncoder(&b).Encode(c)
			return b.Bytes(), []cfgKV{{Key: "k." + val + ".k", Val: "x"}}, err
		}, func(row *cfgWRow) bool { return len(row.V) > 0 && !hasNL(row) }}, // "" means "no subsection" in go-git's API; a name cannot hold a newline
		{"Config.Marshal.user.name", func(val string) ([]byte, []cfgKV, error) {
			c := gconfig.NewConfig()
			c.User.Name = val
			b, err := c.Marshal()
			return b, []cfgKV{{Key: "user.name", Val: val}}, err
		}, func(row *cfgWRow) bool { return len(row.V) > 0 }},
		{"Config.Marshal.branch", func(val string) ([]byte, []cfgKV, error) {
			c := gconfig.NewConfig()
			c.Branches[val] = &gconfig.Branch{Name: val, Remote: "origin", Merge: "refs/heads/x"}
			if err := c.Validate(); err != nil {
				return nil, nil, nil // go-git refuses the name: nothing is written
			}
			b, err := c.Marshal()
			return b, []cfgKV{{Key: "branch." + val + ".remote", Val: "origin"}, {Key: "branch." + val + ".merge", Val: "refs/heads/x"}}, err
		}, func(row *cfgWRow) bool { return len(row.V) > 0 && !hasNL(row) }},
		{"Config.Marshal.url.insteadOf", func(val string) ([]byte, []cfgKV, error) {
			c := gconfig.NewConfig()
			c.URLs = append(c.URLs, &gconfig.URL{Name: val, InsteadOfs: []string{val}})
			if err := c.Validate(); err != nil {
				return nil, nil, nil
			}
			b, err := c.Marshal()
			return b, []cfgKV{{Key: "url." + val + ".insteadof", Val: val}}, err
		}, func(row *cfgWRow) bool { return len(row.V) > 0 && !hasNL(row) }},
	}
	wcases := 0
	for ri, row := range rows {
		val := v0.render(row.V)
		for _, fl := range flows {
			if !fl.ok(row) {
				continue
			}
			r.Eval(1)
			wcases++
			out, want, err := fl.build(val)
			if err != nil {
				r.Diverge(fl.name+"|encode-error|"+cfgValTags(row.V), fmt.Sprintf("%s of %q failed: %v", fl.name, val, err), map[string]any{"value": val, "abstract": row.V})
				continue
			}
			if out == nil {
				continue
			}
			// keep only the entries under test (Marshal writes defaults such as core.bare)
			keep := func(e []cfgKV) []cfgKV {
				var o []cfgKV
				for _, x := range e {
					for _, w := range want {
						if strings.EqualFold(x.Key, w.Key) || (strings.HasPrefix(fl.name, "Config.Marshal") && !strings.HasPrefix(x.Key, "core.")) {
							o = append(o, x)
							break
						}
					}
				}
				return o
			}
			back, derr := cfgGoGitDecode(out)
			cls := ""
			if derr != nil {
				cls = "own-output-unreadable"
			} else if ok, why := cfgSameEnts(keep(back), want, false); !ok {
				cls = "reads-back-different:" + why
			}
			if cls != "" {
				r.Diverge(fl.name+"|gogit:"+cls+"|"+cfgValTags(row.V),
					fmt.Sprintf("%s(%q) wrote %q; go-git reads it back as %s (err %v), expected %s", fl.name, val, string(out), cfgShowEnts(keep(back)), derr, cfgShowEnts(want)),
					map[string]any{"value": val, "abstract": row.V, "written": string(out)})
			}
			if gitOK && gitPick[ri] {
				ents, ok, msg, err := cfgGitList(gitDir, out)
				if err != nil {
					return err
				}
				*gitProcs++
				gcls := ""
				if !ok {
					gcls = "git-rejects-output"
				} else if same, why := cfgSameEnts(keep(ents), want, true); !same {
					gcls = "git-reads-different:" + why
				}
				if gcls != "" {
					r.Diverge(fl.name+"|"+gcls+"|"+cfgValTags(row.V),
						fmt.Sprintf("%s(%q) wrote %q; git reads it as %s %s, expected %s", fl.name, val, string(out), cfgShowEnts(keep(ents)), msg, cfgShowEnts(want)),
						map[string]any{"value": val, "abstract": row.V, "written": string(out), "git_msg": msg})
				}
			}
		}
	}
	r.Distinct += len(rows)
	r.Extra["write_values"] = len(rows)
	r.Extra["write_cases"] = wcases
	return nil
}

// ------------------------------------------------------------------ edit side (load, change, write)

type cfgEditEnt struct {
	Var, Sp, Val string
}

type cfgEditRow struct {
	File []cfgEditEnt
	Var  string
	New  []string
	Want map[string][]string
}

var cfgEditKeys = map[string]map[string]string{
	"remote.url":    {"canon": "url", "upper": "URL", "other": "Url"},
	"remote.fetch":  {"canon": "fetch", "upper": "FETCH", "other": "Fetch"},
	"url.insteadof": {"canon": "insteadOf", "upper": "INSTEADOF", "other": "insteadof"},
	"branch.merge":  {"canon": "merge", "upper": "MERGE", "other": "Merge"},
	"branch.remote": {"canon": "remote", "upper": "REMOTE", "other": "Remote"},
}

const cfgEditBase = "ssh://git@base.example.com/"

var cfgEditGitKey = map[string]string{
	"remote.url": "remote.origin.url", "remote.fetch": "remote.origin.fetch", "url.insteadof": "url." + cfgEditBase + ".insteadof",
	"branch.merge": "branch.b.merge", "branch.remote": "branch.b.remote",
}

func cfgEditVal(v, id string) string {
	switch v {
	case "remote.url":
		return "https://" + id + ".example.com/r.git"
	case "remote.fetch":
		return "+refs/heads/" + id + ":refs/remotes/origin/" + id
	case "url.insteadof":
		return "https://" + id + ".mirror.example/"
	case "branch.merge":
		return "refs/heads/" + id
	}
	return id
}

func cfgEditVals(v string, ids []string) []string {
	out := []string{}
	for _, id := range ids {
		out = append(out, cfgEditVal(v, id))
	}
	return out
}

func cfgEditRender(row *cfgEditRow) []byte {
	sect := map[string][]string{}
	for _, e := range row.File {
		head := strings.SplitN(e.Var, ".", 2)[0]
		sect[head] = append(sect[head], fmt.Sprintf("\t%s = %s\n", cfgEditKeys[e.Var][e.Sp], cfgEditVal(e.Var, e.Val)))
	}
	var b strings.Builder
	b.WriteString("[core]\n\trepositoryformatversion = 0\n\tbare = false\n")
	for _, h := range []struct{ name, header string }{{"remote", "[remote \"origin\"]\n"}, {"url", "[url \"" + cfgEditBase + "\"]\n"}, {"branch", "[branch \"b\"]\n"}} {
		if len(sect[h.name]) > 0 {
			b.WriteString(h.header)
			for _, l := range sect[h.name] {
				b.WriteString(l)
			}
		}
	}
	return []byte(b.String())
}

// what go-git reads for each edit variable
func cfgEditRead(c *gconfig.Config) map[string][]string {
	out := map[string][]string{"remote.url": {}, "remote.fetch": {}, "url.insteadof": {}, "branch.merge": {}, "branch.remote": {}}
	if rc, ok := c.Remotes["origin"]; ok {
		out["remote.url"] = append(out["remote.url"], rc.URLs...)
		for _, f := range rc.Fetch {
			out["remote.fetch"] = append(out["remote.fetch"], string(f))
		}
	}
	for _, u := range c.URLs {
		if u.Name == cfgEditBase {
			out["url.insteadof"] = append(out["url.insteadof"], u.InsteadOfs...)
		}
	}
	if br, ok := c.Branches["b"]; ok {
		if br.Merge != "" {
			out["branch.merge"] = append(out["branch.merge"], string(br.Merge))
		}
		if br.Remote != "" {
			out["branch.remote"] = append(out["branch.remote"], br.Remote)
		}
	}
	return out
}

func cfgSameList(a, b []string) bool {
	if len(a) != len(b) {
		return false
	}
	for i := range a {
		if a[i] != b[i] {
			return false
		}
	}
	return true
}

func c48Edit(r *rep.Report, path string, gitOK bool, gitDir string, gitProcs *int) error {
	var rows []*cfgEditRow
	if err := rep.ReadNDJSON(path, func(line []byte) error {
		row := &cfgEditRow{}
		if err := json.Unmarshal(line, row); err != nil {
			return err
		}
		rows = append(rows, row)
		return nil
	}); err != nil {
		return err
	}
	keyOf := func(row *cfgEditRow) string { b, _ := json.Marshal([]any{row.File, row.Var, row.New}); return string(b) }
	sort.Slice(rows, func(i, j int) bool { return keyOf(rows[i]) < keyOf(rows[j]) })
	vars := []string{"remote.url", "remote.fetch", "url.insteadof", "branch.merge", "branch.remote"}
	for _, row := range rows {
		r.Eval(1)
		data := cfgEditRender(row)
		spell := map[string]bool{}
		for _, e := range row.File {
			if e.Var == row.Var {
				spell[e.Sp] = true
			}
		}
		var sps []string
		for k := range spell {
			sps = append(sps, k)
		}
		sort.Strings(sps)
		scen := row.Var + "|old-spelling=" + strings.Join(sps, "+")
		cs := map[string]any{"file": string(data), "edit": row.Var, "new": row.New, "abstract_file": row.File}
		c := gconfig.NewConfig()
		if err := c.Unmarshal(data); err != nil {
			r.Diverge("Rewrite|load-error|"+scen, fmt.Sprintf("config.Unmarshal of %q failed: %v", string(data), err), cs)
			continue
		}
		// the file as loaded must already read as the spec's GetAll of the file (case-insensitive keys)
		newVals := cfgEditVals(row.Var, row.New)
		switch row.Var {
		case "remote.url":
			c.Remotes["origin"].URLs = newVals
		case "remote.fetch":
			fs := []gconfig.RefSpec{}
			for _, v := range newVals {
				fs = append(fs, gconfig.RefSpec(v))
			}
			c.Remotes["origin"].Fetch = fs
		case "url.insteadof":
			for _, u := range c.URLs {
				if u.Name == cfgEditBase {
					u.InsteadOfs = newVals
				}
			}
		case "branch.merge":
			c.Branches["b"].Merge = plumbing.ReferenceName(newVals[0])
		case "branch.remote":
			c.Branches["b"].Remote = newVals[0]
		}
		out, err := c.Marshal()
		if err != nil {
			r.Diverge("Rewrite|marshal-error|"+scen, fmt.Sprintf("Config.Marshal after editing %s failed: %v", row.Var, err), cs)
			continue
		}
		cs["written"] = string(out)
		classify := func(v string, got, want []string) string {
			if v != row.Var {
				return "other-variable-changed"
			}
			if len(got) > len(want) {
				return "stale-value-kept"
			}
			if len(got) < len(want) {
				return "value-lost"
			}
			return "wrong-values"
		}
		back := gconfig.NewConfig()
		if err := back.Unmarshal(out); err != nil {
			r.Diverge("Rewrite|gogit:own-output-unreadable|"+scen, fmt.Sprintf("go-git cannot read the config it wrote after editing %s: %v", row.Var, err), cs)
		} else {
			got := cfgEditRead(back)
			for _, v := range vars {
				want := cfgEditVals(v, row.Want[v])
				if !cfgSameList(got[v], want) {
					r.Diverge("Rewrite|gogit:"+classify(v, got[v], want)+"|"+scen,
						fmt.Sprintf("load, set %s = %q, Marshal: go-git reads %s back as %q, spec (replace-all, case-insensitive keys) says %q", row.Var, newVals, v, got[v], want), cs)
				}
			}
		}
		if gitOK {
			ents, ok, msg, err := cfgGitList(gitDir, out)
			if err != nil {
				return err
			}
			*gitProcs++
			if !ok {
				r.Diverge("Rewrite|git-rejects-output|"+scen, "git cannot read the config go-git wrote: "+msg, cs)
				continue
			}
			got := map[string][]string{}
			for _, e := range ents {
				got[e.Key] = append(got[e.Key], e.Val)
			}
			for _, v := range vars {
				want := cfgEditVals(v, row.Want[v])
				g := got[cfgEditGitKey[v]]
				if g == nil {
					g = []string{}
				}
				if !cfgSameList(g, want) {
					r.Diverge("Rewrite|git:"+classify(v, g, want)+"|"+scen,
						fmt.Sprintf("load, set %s = %q, Marshal: git config --get-all %s gives %q, spec (replace-all, case-insensitive keys) says %q", row.Var, newVals, cfgEditGitKey[v], g, want), cs)
				}
			}
		}
	}
	r.Distinct += len(rows)
	r.Extra["edit_cases"] = len(rows)
	return nil
}
