// Command vhtext is the conformance harness for the text-rule properties
// (C31 line endings, C49 gitignore, C48 config): rows computed by TLC from the
// TLA+ rule modules under /verif/spec/rules are rendered to bytes, run through
// go-git and git, and compared three ways.  Last stdout line = JSON report.
package main

import "verifharness/internal/rep"

func main() { rep.Main() }
