package main

import (
	"bytes"
	"encoding/json"
	"fmt"
	"math/rand"
	"os"
	"os/exec"
	"path/filepath"
	"sort"
	"strconv"
	"strings"

	"verifharness/internal/gitcli"
	"verifharness/internal/rep"

	"github.com/go-git/go-billy/v6"
	"github.com/go-git/go-billy/v6/memfs"
	"github.com/go-git/go-billy/v6/util"
	"github.com/go-git/go-git/v6/plumbing/format/gitignore"
)

// C49: rows of spec/rules/GitIgnore.tla (a pattern set = info/exclude, root .gitignore, a/.gitignore
// + the verdict code of every query computed by TLC) are rendered to files and asked of
//   go-git: gitignore.RootPatterns / NewScope / Scope.Descend / Scope.Match (the walk Status uses)
//   git:    git check-ignore --no-index -v -n -z --stdin  (which file and line decided)
// The harness renders and compares; the rules live in TLA+.

type ignQuery struct {
	P []string `json:"p"`
	D bool     `json:"d"`
}

type ignRow struct {
	X, R, N [][]string
	V       []int
}

var ignSym = map[string]string{"a": "a", "b": "b", "*": "*", "?": "?", "/": "/", "!": "!", "**": "**", "[ab]": "[ab]", "bs": "\\", "sp": " "}
var ignComp = map[string]string{"a": "a", "b": "b", "ab": "ab", "as": "a "}

func ignLine(l []string) string {
	var b strings.Builder
	for _, s := range l {
		t, ok := ignSym[s]
		if !ok {
			panic("unknown pattern symbol " + s)
		}
		b.WriteString(t)
	}
	return b.String()
}

func ignFile(ls [][]string) string {
	var b strings.Builder
	for _, l := range ls {
		b.WriteString(ignLine(l))
		b.WriteByte('\n')
	}
	return b.String()
}

func ignPath(q ignQuery) []string {
	out := make([]string, len(q.P))
	for i, c := range q.P {
		out[i] = ignComp[c]
	}
	return out
}

// features of a pattern line, at the spec's symbol level (for signatures)
func ignFeatures(l []string) []string {
	f := map[string]bool{}
	n := len(l)
	for i, s := range l {
		switch s {
		case "**":
			f["starstar"] = true
		case "*":
			if (i > 0 && (l[i-1] == "*" || l[i-1] == "**")) || (i+1 < n && (l[i+1] == "*" || l[i+1] == "**")) {
				f["starstar"] = true
			} else {
				f["star"] = true
			}
		case "?":
			f["qmark"] = true
		case "[ab]":
			f["class"] = true
		case "bs":
			f["backslash"] = true
		case "sp":
			f["space"] = true
		case "!":
			if i == 0 {
				f["negated"] = true
			} else {
				f["bang-inside"] = true
			}
		case "/":
			switch {
			case i == n-1:
				f["dir-only"] = true
			case i == 0 || (i == 1 && l[0] == "!"):
				f["leading-slash"] = true
			default:
				f["inner-slash"] = true
			}
			if i+1 < n && l[i+1] == "/" {
				f["double-slash"] = true
			}
		}
	}
	var out []string
	for k := range f {
		out = append(out, k)
	}
	sort.Strings(out)
	return out
}

// ignTopFeature names the most specific syntactic feature of a pattern line (spec symbols).
func ignTopFeature(l []string) string {
	fs := map[string]bool{}
	for _, f := range ignFeatures(l) {
		fs[f] = true
	}
	n := len(l)
	if n >= 2 && l[n-2] == "/" && l[n-1] == "**" {
		fs["ends-slash-starstar"] = true
	}
	// a backslash in front of a slash: git's wildmatch takes it as a literal path separator
	for i := 0; i+1 < n; i++ {
		if l[i] == "bs" && l[i+1] == "/" && (i == 0 || l[i-1] != "bs") {
			fs["escaped-slash"] = true
		}
	}
	// a "**" followed by two or more further non-empty segments (**/x/y, a/**/x/y)
	for i, sym := range l {
		if sym != "**" {
			continue
		}
		segs := 0
		for j := i + 1; j+1 < n; j++ {
			if l[j] == "/" && l[j+1] != "/" {
				segs++
			}
		}
		if segs >= 2 {
			fs["starstar-two-segments"] = true
		}
	}
	for _, f := range []string{"escaped-slash", "double-slash", "ends-slash-starstar", "backslash", "space", "bang-inside", "starstar-two-segments", "starstar", "negated", "dir-only", "leading-slash", "inner-slash", "class", "qmark", "star"} {
		if fs[f] {
			return f
		}
	}
	return "literal"
}

func ignLineOf(r *ignRow, code int) []string {
	if code < 0 {
		code = -code
	}
	src, ln := code/10, code%10
	var ls [][]string
	switch src {
	case 1:
		ls = r.X
	case 2:
		ls = r.R
	case 3:
		ls = r.N
	}
	if ln >= 1 && ln <= len(ls) {
		return ls[ln-1]
	}
	return nil
}

// ignExplain names, for a signature only, the line go-git's own Pattern API lets decide: lines are tried in
// priority order on every leading directory (an Exclude there ends the walk) and then on the path itself.
// rel says whether that line decided at the path itself or at an ancestor directory.
func ignExplain(r *ignRow, path []string, isDir bool) ([]string, string) {
	type ent struct {
		line []string
		p    gitignore.Pattern
	}
	lists := func(under bool) []ent {
		var out []ent
		add := func(ls [][]string, dom []string) {
			for i := len(ls) - 1; i >= 0; i-- {
				out = append(out, ent{ls[i], gitignore.ParsePattern(ignLine(ls[i]), dom)})
			}
		}
		if under {
			add(r.N, []string{"a"})
		}
		add(r.R, nil)
		add(r.X, nil)
		return out
	}
	for k := 1; k <= len(path); k++ {
		sub := path[:k]
		d := isDir || k < len(path)
		for _, e := range lists(k >= 2 && path[0] == "a") {
			res := e.p.Match(sub, d)
			if res == gitignore.NoMatch {
				continue
			}
			if k == len(path) {
				return e.line, "at-path"
			}
			if res == gitignore.Exclude {
				return e.line, "at-ancestor"
			}
			break
		}
	}
	return nil, ""
}

func ignArrangement(r *ignRow) string {
	switch {
	case len(r.X) > 0:
		return "exclude+root"
	case len(r.N) > 0 && len(r.R) > 0:
		return "root+nested"
	case len(r.N) > 0:
		return "nested"
	case len(r.R) > 1:
		return "root2"
	}
	return "root"
}

func init() { rep.Register("c49", c49) }

type ignGoGit struct {
	fs billy.Filesystem
}

func ignMaterialise(r *ignRow) (billy.Filesystem, error) {
	fs := memfs.New()
	if err := fs.MkdirAll(".git/info", 0o755); err != nil {
		return nil, err
	}
	if len(r.X) > 0 {
		if err := util.WriteFile(fs, ".git/info/exclude", []byte(ignFile(r.X)), 0o644); err != nil {
			return nil, err
		}
	}
	if len(r.R) > 0 {
		if err := util.WriteFile(fs, ".gitignore", []byte(ignFile(r.R)), 0o644); err != nil {
			return nil, err
		}
	}
	if len(r.N) > 0 {
		if err := util.WriteFile(fs, "a/.gitignore", []byte(ignFile(r.N)), 0o644); err != nil {
			return nil, err
		}
	}
	return fs, nil
}

// ignScopeMatch performs the walk of utils/merkletrie/filesystem: root scope, Descend per directory
// (readOwn only where a .gitignore exists), Match on the entry.
func ignScopeMatch(fs billy.Filesystem, root *gitignore.Scope, path []string, isDir bool) (bool, error) {
	sc := root
	for k := 1; k < len(path); k++ {
		dir := append([]string(nil), path[:k]...)
		var readOwn func() ([]gitignore.Pattern, error)
		if fi, err := fs.Stat(fs.Join(append(append([]string(nil), dir...), gitignore.IgnoreFile)...)); err == nil && !fi.IsDir() {
			readOwn = func() ([]gitignore.Pattern, error) { return gitignore.DirPatterns(fs, dir) }
		}
		var err error
		sc, err = sc.Descend(dir, readOwn)
		if err != nil {
			return false, err
		}
	}
	return sc.Match(path, isDir), nil
}

type ignGit struct {
	dirD, dirF string // D: every query path is a directory; F: none is (only a/ when a/.gitignore exists)
}

func ignGitSetup(qs []ignQuery) (*ignGit, error) {
	g := &ignGit{dirD: gitcli.TempDir("c49D"), dirF: gitcli.TempDir("c49F")}
	for _, d := range []string{g.dirD, g.dirF} {
		if err := gitcli.Init(d, false); err != nil {
			return nil, err
		}
	}
	for _, q := range qs {
		if err := os.MkdirAll(filepath.Join(append([]string{g.dirD}, ignPath(q)...)...), 0o755); err != nil {
			return nil, err
		}
	}
	return g, nil
}

func ignWriteOrRemove(p string, ls [][]string) error {
	if len(ls) == 0 {
		err := os.Remove(p)
		if err != nil && !os.IsNotExist(err) {
			return err
		}
		return nil
	}
	return os.WriteFile(p, []byte(ignFile(ls)), 0o644)
}

// ask returns, per query index, the spec-style decision code git reports.
func (g *ignGit) ask(r *ignRow, qs []ignQuery) (map[int]int, error) {
	out := map[int]int{}
	for _, leg := range []struct {
		dir  string
		dirs bool
	}{{g.dirD, true}, {g.dirF, false}} {
		if err := ignWriteOrRemove(filepath.Join(leg.dir, ".git", "info", "exclude"), r.X); err != nil {
			return nil, err
		}
		if err := ignWriteOrRemove(filepath.Join(leg.dir, ".gitignore"), r.R); err != nil {
			return nil, err
		}
		if !leg.dirs { // tree F: "a" is a directory only when it holds a .gitignore
			if len(r.N) > 0 {
				if err := os.MkdirAll(filepath.Join(leg.dir, "a"), 0o755); err != nil {
					return nil, err
				}
			} else {
				os.Remove(filepath.Join(leg.dir, "a", ".gitignore"))
				if err := os.Remove(filepath.Join(leg.dir, "a")); err != nil && !os.IsNotExist(err) {
					return nil, err
				}
			}
		}
		if leg.dirs || len(r.N) > 0 {
			if err := ignWriteOrRemove(filepath.Join(leg.dir, "a", ".gitignore"), r.N); err != nil {
				return nil, err
			}
		}
		var in bytes.Buffer
		var idx []int
		for i, q := range qs {
			if q.D != leg.dirs || r.V[i] == 99 {
				continue
			}
			in.WriteString(strings.Join(ignPath(q), "/"))
			in.WriteByte(0)
			idx = append(idx, i)
		}
		c := exec.Command("git", "check-ignore", "--no-index", "-v", "-n", "-z", "--stdin")
		c.Dir = leg.dir
		c.Env = gitcli.Env()
		c.Stdin = &in
		var o, e bytes.Buffer
		c.Stdout, c.Stderr = &o, &e
		if err := c.Run(); err != nil {
			if ee, ok := err.(*exec.ExitError); !ok || ee.ExitCode() != 1 { // 1 = none of the paths is ignored
				return nil, fmt.Errorf("git check-ignore: %v: %s", err, e.String())
			}
		}
		f := strings.Split(o.String(), "\x00")
		if len(f) < 4*len(idx) {
			return nil, fmt.Errorf("git check-ignore: %d fields for %d queries (%q)", len(f), len(idx), o.String())
		}
		for k, i := range idx {
			src, line, pat := f[4*k], f[4*k+1], f[4*k+2]
			code := 0
			if src != "" {
				ln, _ := strconv.Atoi(line)
				switch src {
				case ".git/info/exclude":
					code = 10 + ln
				case ".gitignore":
					code = 20 + ln
				case "a/.gitignore":
					code = 30 + ln
				default:
					return nil, fmt.Errorf("git check-ignore: unexpected source %q", src)
				}
				if strings.HasPrefix(pat, "!") {
					code = -code
				}
			}
			out[i] = code
		}
	}
	return out, nil
}

func c49(args []string) error {
	if len(args) < 2 {
		return fmt.Errorf("usage: c49 ign_rows.ndjson ign_queries.ndjson")
	}
	r := rep.New()
	rnd := rand.New(rand.NewSource(rep.Seed()))
	var qs []ignQuery
	if err := rep.ReadNDJSON(args[1], func(line []byte) error {
		var q ignQuery
		if err := json.Unmarshal(line, &q); err != nil {
			return err
		}
		qs = append(qs, q)
		return nil
	}); err != nil {
		return err
	}
	var rows []*ignRow
	if err := rep.ReadNDJSON(args[0], func(line []byte) error {
		row := &ignRow{}
		if err := json.Unmarshal(line, row); err != nil {
			return err
		}
		if len(row.V) != len(qs) {
			return fmt.Errorf("row has %d verdicts for %d queries", len(row.V), len(qs))
		}
		rows = append(rows, row)
		return nil
	}); err != nil {
		return err
	}
	key := func(r *ignRow) string { return ignFile(r.X) + "\x00" + ignFile(r.R) + "\x00" + ignFile(r.N) }
	sort.Slice(rows, func(i, j int) bool { return key(rows[i]) < key(rows[j]) })

	// ---- go-git leg on every set
	type miss struct {
		qi  int
		got bool
	}
	misses := map[int][]miss{}
	for ri, row := range rows {
		fs, err := ignMaterialise(row)
		if err != nil {
			return err
		}
		rootPs, err := gitignore.RootPatterns(fs)
		if err != nil {
			return fmt.Errorf("RootPatterns: %v", err)
		}
		root := gitignore.NewScope(rootPs)
		for qi, q := range qs {
			if row.V[qi] == 99 {
				continue
			}
			r.Eval(1)
			got, err := ignScopeMatch(fs, root, ignPath(q), q.D)
			if err != nil {
				return fmt.Errorf("scope walk: %v", err)
			}
			if got != (row.V[qi] > 0) {
				misses[ri] = append(misses[ri], miss{qi, got})
			}
		}
		if ri < 3 {
			r.Sample(map[string]any{"exclude": ignFile(row.X), "root": ignFile(row.R), "nested": ignFile(row.N)})
		}
	}

	// ---- git leg: seeded sample of sets + sets on which go-git disagrees with the spec; of the latter up to 25 sets per
	// signature in table order, so that the set of reported signatures does not depend on the seed
	gitOK := gitcli.Available()
	budget := 600
	if rep.Thorough() {
		budget = 8000
	}
	sigOf := func(row *ignRow, m miss) string {
		q := qs[m.qi]
		cls := "ignored-but-git-does-not"
		if !m.got {
			cls = "not-ignored-but-git-does"
		}
		kind := "file"
		if q.D {
			kind = "dir"
		}
		line, rel := ignExplain(row, ignPath(q), q.D)
		var key string
		if line != nil {
			key = "gogit-rule=" + ignTopFeature(line) + "," + rel
		} else if c := row.V[m.qi]; c != 0 {
			key = "git-rule=" + ignTopFeature(ignLineOf(row, c))
		} else {
			key = "unexplained"
		}
		return "Scope.Match|" + cls + "|" + kind + "|" + key
	}
	sel := map[int]bool{}
	var missIdx []int
	for ri := range misses {
		missIdx = append(missIdx, ri)
	}
	sort.Ints(missIdx)
	perSig := map[string]int{}
	for _, ri := range missIdx {
		for _, m := range misses[ri] {
			sg := sigOf(rows[ri], m)
			if perSig[sg] < 25 && !sel[ri] {
				perSig[sg]++
				sel[ri] = true
			}
		}
	}
	for _, ri := range rnd.Perm(len(rows)) {
		if budget <= 0 {
			break
		}
		if !sel[ri] {
			sel[ri] = true
			budget--
		}
	}
	gitAns := map[int]map[int]int{}
	gitProcs := 0
	if gitOK {
		g, err := ignGitSetup(qs)
		if err != nil {
			return err
		}
		var order []int
		for ri := range sel {
			order = append(order, ri)
		}
		sort.Ints(order)
		for _, ri := range order {
			row := rows[ri]
			ans, err := g.ask(row, qs)
			if err != nil {
				return err
			}
			gitProcs += 2
			gitAns[ri] = ans
			for qi, code := range ans {
				if code != row.V[qi] {
					r.SpecError(map[string]any{"exclude": ignFile(row.X), "root": ignFile(row.R), "nested": ignFile(row.N),
						"path": strings.Join(ignPath(qs[qi]), "/"), "is_dir": qs[qi].D, "spec_code": row.V[qi], "git_code": code})
				}
			}
		}
	}

	// ---- divergences (only where git was asked and agrees with the spec, or git is absent)
	unconfirmed := 0
	for _, ri := range missIdx {
		row := rows[ri]
		ans, asked := gitAns[ri]
		if gitOK && !asked {
			unconfirmed += len(misses[ri])
			continue
		}
		for _, m := range misses[ri] {
			if asked && ans[m.qi] != row.V[m.qi] {
				continue // spec error, already recorded
			}
			q := qs[m.qi]
			kind := "file"
			if q.D {
				kind = "dir"
			}
			sig := sigOf(row, m)
			r.Diverge(sig, fmt.Sprintf("patterns exclude=%q root=%q a/=%q, %s %q: go-git ignored=%v, spec and git: code %d",
				ignFile(row.X), ignFile(row.R), ignFile(row.N), kind, strings.Join(ignPath(q), "/"), m.got, row.V[m.qi]),
				map[string]any{"exclude": row.X, "root": row.R, "nested": row.N, "path": q.P, "is_dir": q.D, "arrangement": ignArrangement(row),
					"gogit_ignored": m.got, "spec_code": row.V[m.qi], "git_confirmed": asked})
		}
	}
	r.Distinct = len(rows)
	r.Extra["git_leg"] = gitOK
	r.Extra["git_processes"] = gitProcs
	r.Extra["git_sets"] = len(gitAns)
	r.Extra["sets_with_gogit_disagreement"] = len(misses)
	r.Extra["unconfirmed_disagreements_not_reported"] = unconfirmed
	r.Extra["queries"] = len(qs)
	return r.Emit()
}
