package main

// Projection of a recorded operation to the abstract trace record that spec/impl/CrashFSTrace.tla replays
// through the CrashFS machine: objects become small integers, reference values become the tokens
// old / new / other relative to the before- and after-state, packs carry their object sets.

import (
	"encoding/binary"
	"sort"
	"strings"

	"verifharness/internal/fsutil"

	"github.com/go-git/go-billy/v6"
	"github.com/go-git/go-git/v6/plumbing"
)

type absNeed struct {
	Old []int `json:"old"`
	New []int `json:"new"`
}

type absStep struct {
	I    int               `json:"i"`
	Kind string            `json:"kind"`
	Cls  string            `json:"cls"`
	Src  string            `json:"src"`
	Ref  string            `json:"ref"`
	Obj  int               `json:"obj"`  // 0 = none / not an object of interest
	Pack string            `json:"pack"` // "" = none
	Val  string            `json:"val"`  // token written by a Write on a live file
	Last bool              `json:"last"` // last Write of a run of Writes to this file
	Objs []int             `json:"objs"` // Rename(->pack): objects of the pack
	Pk   map[string]string `json:"pk"`   // Rename(->packed-refs): name -> token
	Lab  string            `json:"lab"`
}

type absPack struct {
	Objs []int `json:"objs"`
}

type absTrace struct {
	Op     string             `json:"op"`
	IsRepo bool               `json:"isrepo"`
	Refs   []string           `json:"refs"`
	Both   []string           `json:"both"` // names present before and after
	Need   map[string]absNeed `json:"need"`
	OldSet []int              `json:"oldset"`
	F      map[string]string  `json:"f"`  // initial tokens of HEAD config index and every loose ref file
	Pk0    map[string]string  `json:"pk"` // initial packed-refs tokens
	Loose  []int              `json:"loose"`
	Packs  map[string]absPack `json:"packs"`
	Steps  []absStep          `json:"steps"`
}

func idxObjects(b []byte) []plumbing.Hash {
	if len(b) < 8+256*4 || string(b[:4]) != "\xfftOc" {
		return nil
	}
	n := int(binary.BigEndian.Uint32(b[8+255*4:]))
	off := 8 + 256*4
	var out []plumbing.Hash
	for i := 0; i < n && off+20 <= len(b); i++ {
		h, _ := plumbing.FromBytes(b[off : off+20])
		out = append(out, h)
		off += 20
	}
	return out
}

type idSpace struct {
	ids map[string]int
}

func (s *idSpace) of(h string) int {
	if v, ok := s.ids[h]; ok {
		return v
	}
	v := len(s.ids) + 1
	s.ids[h] = v
	return v
}

func sortedInts(m map[int]bool) []int {
	out := make([]int, 0, len(m))
	for k := range m {
		out = append(out, k)
	}
	sort.Ints(out)
	return out
}

func treeOf(fs billy.Filesystem) *fsutil.Tree {
	t, err := fsutil.Snapshot(fs)
	must(err)
	return t
}

func looseAndPacks(t *fsutil.Tree, ids *idSpace) ([]int, map[string]absPack) {
	loose := map[int]bool{}
	packs := map[string]absPack{}
	keys := make([]string, 0, len(t.Files))
	for k := range t.Files {
		keys = append(keys, k)
	}
	sort.Strings(keys)
	for _, k := range keys {
		cls, obj, _, pack := classify(k)
		switch cls {
		case "loose-object":
			loose[ids.of(obj)] = true
		case "idx":
			if _, ok := t.Files[strings.TrimSuffix(k, ".idx")+".pack"]; !ok {
				continue
			}
			m := map[int]bool{}
			for _, h := range idxObjects(t.Files[k]) {
				m[ids.of(h.String())] = true
			}
			packs[pack] = absPack{Objs: sortedInts(m)}
		}
	}
	return sortedInts(loose), packs
}

func tokenOf(v string, name string, before, after map[string]string) string {
	b, inB := before[name]
	a, inA := after[name]
	switch {
	case inB && v == b:
		return "old"
	case inA && v == a:
		return "new"
	}
	return "other"
}

func packedTokens(content []byte, before, after map[string]string) map[string]string {
	out := map[string]string{}
	for _, ln := range strings.Split(string(content), "\n") {
		if ln == "" || ln[0] == '#' || ln[0] == '^' {
			continue
		}
		fs := strings.Fields(ln)
		if len(fs) != 2 {
			continue
		}
		out[fs[1]] = tokenOf(fs[0], fs[1], before, after)
	}
	return out
}

func closureIDs(root billy.Filesystem, val string, ids *idSpace) []int {
	if val == "" || strings.HasPrefix(val, "ref: ") {
		return []int{}
	}
	_, st, err := openRepo(root)
	must(err)
	defer st.Close()
	set := map[plumbing.Hash]struct{}{}
	w := &walker{st: st, seen: map[plumbing.Hash]error{}}
	must(w.walk(plumbing.NewHash(val), set))
	m := map[int]bool{}
	for h := range set {
		m[ids.of(h.String())] = true
	}
	return sortedInts(m)
}

// abstractTrace builds the record for one recorded run.
func abstractTrace(p *c21plan) absTrace {
	ids := &idSpace{ids: map[string]int{}}
	beforeFS, err := p.under.Mem()
	must(err)
	afterFS := p.rec.root
	afterTree := treeOf(afterFS)
	tr := absTrace{Op: p.op.name, IsRepo: p.before.isRepo, Need: map[string]absNeed{}, F: map[string]string{}, Pk0: map[string]string{}, Refs: []string{}, Both: []string{}}
	names := map[string]bool{}
	for n := range p.before.refs {
		names[n] = true
	}
	for n := range p.after.refs {
		names[n] = true
	}
	for _, s := range p.rec.ctl.log {
		if s.Ref != "" {
			names[s.Ref] = true
		}
	}
	for n := range names {
		tr.Refs = append(tr.Refs, n)
	}
	sort.Strings(tr.Refs)
	old := map[int]bool{}
	for _, n := range tr.Refs {
		nd := absNeed{Old: []int{}, New: []int{}}
		if v, ok := p.before.refs[n]; ok {
			nd.Old = closureIDs(beforeFS, v, ids)
			for _, i := range nd.Old {
				old[i] = true
			}
		}
		if v, ok := p.after.refs[n]; ok {
			nd.New = closureIDs(afterFS, v, ids)
		}
		tr.Need[n] = nd
		_, b := p.before.refs[n]
		_, a := p.after.refs[n]
		if a && b {
			tr.Both = append(tr.Both, n)
		}
	}
	tr.OldSet = sortedInts(old)
	tr.Loose, tr.Packs = looseAndPacks(p.under, ids)
	_, afterPacks := looseAndPacks(afterTree, ids)
	for _, f := range []string{"HEAD", "config", "index"} {
		if _, ok := p.under.Files[".git/"+f]; ok {
			tr.F[f] = "old"
		} else {
			tr.F[f] = "absent"
		}
	}
	for _, n := range tr.Refs {
		if n == "HEAD" {
			continue
		}
		if _, ok := p.under.Files[".git/"+n]; ok {
			tr.F[n] = "old"
		} else {
			tr.F[n] = "absent"
		}
	}
	tr.Pk0 = packedTokens(p.under.Files[".git/packed-refs"], p.before.refs, p.after.refs)
	log := p.rec.ctl.log
	for i, s := range log {
		a := absStep{I: s.I, Kind: s.Kind, Cls: s.Cls, Src: s.Src, Ref: s.Ref, Pack: s.Pack, Lab: s.label(), Objs: []int{}, Pk: map[string]string{}}
		if s.Obj != "" {
			a.Obj = ids.of(s.Obj)
		}
		if s.Kind == "Write" {
			a.Last = i+1 >= len(log) || log[i+1].Kind != "Write" || log[i+1].Path != s.Path
			switch s.Cls {
			case "ref", "HEAD":
				a.Val = tokenOf(strings.TrimSpace(s.Data), s.Ref, p.before.refs, p.after.refs)
			default:
				a.Val = "new"
			}
		}
		if s.Kind == "Rename" && s.Cls == "pack" {
			if pk, ok := afterPacks[s.Pack]; ok {
				a.Objs = pk.Objs
			}
		}
		if s.Kind == "Rename" && s.Cls == "packed-refs" {
			a.Pk = packedTokens(afterTree.Files[".git/packed-refs"], p.before.refs, p.after.refs)
		}
		tr.Steps = append(tr.Steps, a)
	}
	return tr
}
