package main

import (
	"bytes"
	"encoding/json"
	"errors"
	"fmt"
	"math/rand"
	"os"
	"os/exec"
	"path/filepath"
	"strings"
	"sync"

	"verifharness/internal/fsutil"
	"verifharness/internal/gitcli"
	"verifharness/internal/rep"

	"github.com/go-git/go-billy/v6/osfs"
	git "github.com/go-git/go-git/v6"
)

type traceRec struct {
	Op     string            `json:"op"`
	Steps  []cStep           `json:"steps"`
	Before map[string]string `json:"before"`
	After  map[string]string `json:"after"`
}

type c21variant struct {
	stopAt, torn int
	git          bool
}

type c21plan struct {
	op            c21op
	under, peer   *fsutil.Tree
	rec           *c21run
	before, after *repoInfo
	variants      []c21variant
}

// variantsOf lists the crash points of one recorded operation.  Thorough: every prefix and, for every
// Write, the torn variants n/2 and n-1 (0 bytes is the previous prefix).  Quick: a run of >= 4 consecutive
// Writes to one file (a pack, idx or rev written in small pieces into a file that is not yet visible
// under its final name) is represented by its first, one seeded middle and its last Write.
func variantsOf(log []cStep, thorough bool, rng *rand.Rand) []c21variant {
	n := len(log)
	keep := make([]bool, n+1) // keep[k]: enumerate the crash after k completed steps
	tornOK := make([]bool, n+1)
	for k := 0; k <= n; k++ {
		keep[k], tornOK[k] = true, true
	}
	if !thorough {
		for i := 0; i < n; {
			j := i
			for j+1 < n && log[i].Kind == "Write" && log[j+1].Kind == "Write" && log[j+1].Path == log[i].Path {
				j++
			}
			if log[i].Kind == "Write" && j-i+1 >= 4 {
				// the run is log[i..j]; crash points strictly inside it are k = i+2 .. j (k = completed steps)
				mid := i + 2 + rng.Intn(j-i-1)
				for k := i + 2; k <= j; k++ {
					if k != mid {
						keep[k] = false
					}
				}
				for k := i + 1; k <= j-1; k++ { // torn variants of the interior Writes log[k]
					if k != mid {
						tornOK[k] = false
					}
				}
			}
			i = j + 1
		}
	}
	var vs []c21variant
	for k := 0; k <= n; k++ {
		if keep[k] {
			vs = append(vs, c21variant{stopAt: k + 1})
		}
		if k < n && tornOK[k] {
			s := log[k]
			if s.Kind == "Write" && s.N >= 2 {
				vs = append(vs, c21variant{stopAt: k + 1, torn: s.N / 2})
				if s.N-1 != s.N/2 {
					vs = append(vs, c21variant{stopAt: k + 1, torn: s.N - 1})
				}
			}
		}
	}
	return vs
}

func labelAt(log []cStep, k int) string { // label of the k-th step (1-based); "start"/"end" outside
	if k < 1 {
		return "start"
	}
	if k > len(log) {
		return "end"
	}
	return log[k-1].label()
}

func c21(args []string) error {
	if len(args) < 1 {
		return errors.New("usage: c21 <outdir> [op,op,...]")
	}
	outdir := args[0]
	only := map[string]bool{}
	if len(args) > 1 && args[1] != "" {
		for _, o := range strings.Split(args[1], ",") {
			only[o] = true
		}
	}
	seed := rep.Seed()
	rng := rand.New(rand.NewSource(seed))
	r := rep.New()
	gitOn := gitcli.Available() && os.Getenv("VHCRASH_NOGIT") == ""
	gitBudget := 60
	if rep.Thorough() {
		gitBudget = 800
	}

	// pass 1: before-state, recording run, after-state, crash points
	var plans []*c21plan
	var traces bytes.Buffer
	total := 0
	for _, op := range c21ops() {
		if len(only) > 0 && !only[op.name] {
			continue
		}
		p := &c21plan{op: op, under: op.under(seed)}
		if op.peer != nil {
			p.peer = op.peer(seed)
		}
		b, err := p.under.Mem()
		must(err)
		if p.before, err = describe(b); err != nil {
			return fmt.Errorf("%s: before-state is not sound: %v", op.name, err)
		}
		p.rec = runOp(op, p.under, p.peer, 0, 0)
		if p.rec.err != nil && !errors.Is(p.rec.err, git.NoErrAlreadyUpToDate) {
			return fmt.Errorf("%s: the operation fails without any crash: %v", op.name, p.rec.err)
		}
		if p.after, err = describe(p.rec.root); err != nil {
			return fmt.Errorf("%s: after-state is not sound: %v", op.name, err)
		}
		if len(p.rec.ctl.log) == 0 {
			return fmt.Errorf("%s: no mutating filesystem step recorded", op.name)
		}
		p.variants = variantsOf(p.rec.ctl.log, rep.Thorough(), rng)
		total += len(p.variants)
		plans = append(plans, p)
		b2, _ := json.Marshal(abstractTrace(p))
		traces.Write(append(b2, '\n'))
		if os.Getenv("VHCRASH_RAW") != "" {
			b3, _ := json.Marshal(traceRec{Op: op.name, Steps: p.rec.ctl.log, Before: p.before.refs, After: p.after.refs})
			os.WriteFile(filepath.Join(outdir, "c21_raw_"+op.name+".json"), b3, 0o644)
		}
	}
	if err := os.WriteFile(filepath.Join(outdir, "c21_traces.ndjson"), traces.Bytes(), 0o644); err != nil {
		return err
	}
	// git leg: one state of every abstract position (after, next, torn?) per operation — in the quick tier a
	// seeded choice of at most gitBudget positions — plus, in the thorough tier, a seeded sample of the rest
	nGit := 0
	type pos struct {
		p *c21plan
		i int
	}
	var reps []pos
	for _, p := range plans {
		seen := map[string]bool{}
		for i := range p.variants {
			v := &p.variants[i]
			cls := fmt.Sprintf("%s>%s>%v", labelAt(p.rec.ctl.log, v.stopAt-1), labelAt(p.rec.ctl.log, v.stopAt), v.torn > 0)
			if !seen[cls] {
				seen[cls] = true
				reps = append(reps, pos{p, i})
			} else if rep.Thorough() && rng.Intn(total) < gitBudget {
				v.git = gitOn
				nGit++
			}
		}
	}
	rng.Shuffle(len(reps), func(a, b int) { reps[a], reps[b] = reps[b], reps[a] })
	for n, q := range reps {
		if !rep.Thorough() && n >= gitBudget {
			break
		}
		q.p.variants[q.i].git = gitOn
		nGit++
	}
	if !gitOn {
		nGit = 0
	}

	// pass 2: every crash point, in parallel (each run has its own filesystem)
	type job struct {
		p *c21plan
		v c21variant
		i int
	}
	var jobs []job
	for _, p := range plans {
		for _, v := range p.variants {
			jobs = append(jobs, job{p, v, len(jobs)})
		}
	}
	facts := make([]stateFacts, len(jobs))
	trees := make([]*fsutil.Tree, len(jobs))
	notReached := make([]bool, len(jobs))
	var wg sync.WaitGroup
	ch := make(chan job)
	var firstErr error
	var emu sync.Mutex
	for wk := 0; wk < 8; wk++ {
		wg.Add(1)
		go func() {
			defer wg.Done()
			for j := range ch {
				p := j.p
				run := runOp(p.op, p.under, p.peer, j.v.stopAt, j.v.torn)
				f := project(run.root, p.before, p.after)
				f.ID, f.Op, f.K, f.Hung, f.Torn = j.i+1, p.op.name, j.v.stopAt-1, run.hung, j.v.torn
				// the abstract position is taken from the re-run's own log where possible
				lg := run.ctl.log
				f.After = "start"
				if len(lg) > 0 {
					f.After = lg[len(lg)-1].label()
				}
				f.Next = labelAt(p.rec.ctl.log, j.v.stopAt)
				if f.Torn > 0 {
					if !run.ctl.tornOK {
						notReached[j.i] = true
					}
					f.After = "Torn" + f.Next
				}
				if len(lg) != j.v.stopAt-1 && j.v.stopAt <= len(p.rec.ctl.log)+1 && !(len(lg) == len(p.rec.ctl.log) && j.v.stopAt == len(lg)+1) {
					notReached[j.i] = true
				}
				if run.err != nil {
					f.OpErr = short(run.err)
				}
				if j.v.git {
					t, err := fsutil.Snapshot(run.root)
					if err != nil {
						emu.Lock()
						firstErr = err
						emu.Unlock()
					}
					trees[j.i] = t
				}
				facts[j.i] = f
			}
		}()
	}
	for _, j := range jobs {
		ch <- j
	}
	close(ch)
	wg.Wait()
	if firstErr != nil {
		return firstErr
	}

	// pass 3: the git leg, one batch
	if gitOn {
		if err := gitBatch(func(i int) *c21plan { return jobs[i].p }, facts, trees); err != nil {
			return err
		}
	}

	// the same operations once on a real directory (osfs): do they perform the same abstract steps as on memfs?
	osDiff := map[string]any{}
	for _, p := range plans {
		dir := gitcli.TempDir("c21os")
		root := osfs.New(dir)
		if err := p.under.Materialise(root); err != nil {
			return err
		}
		run := runOpOn(root, p.op, p.peer, 0, 0)
		var a, b []string
		for _, s := range p.rec.ctl.log {
			a = append(a, s.label())
		}
		for _, s := range run.ctl.log {
			if s.Kind != "Chmod" { // memfs has no permissions to fix
				b = append(b, s.label())
			}
		}
		if run.err != nil && !errors.Is(run.err, git.NoErrAlreadyUpToDate) {
			osDiff[p.op.name] = "fails on osfs: " + short(run.err)
		} else if strings.Join(a, " ") != strings.Join(b, " ") {
			i := 0
			for i < len(a) && i < len(b) && a[i] == b[i] {
				i++
			}
			osDiff[p.op.name] = map[string]any{"memfs_steps": len(a), "osfs_steps": len(b), "first_difference_at": i + 1, "memfs": labelAt(p.rec.ctl.log, i+1), "osfs": labelAt(run.ctl.log, i+1)}
		}
		os.RemoveAll(dir)
	}
	r.Extra["c21_osfs_step_differences"] = osDiff

	// pass 4: write the fact records
	var out bytes.Buffer
	perOp := map[string]map[string]int{}
	distinct := map[string]bool{}
	for i, f := range facts {
		b, _ := json.Marshal(f)
		out.Write(append(b, '\n'))
		m := perOp[f.Op]
		if m == nil {
			m = map[string]int{"steps": len(jobs[i].p.rec.ctl.log)}
			perOp[f.Op] = m
		}
		m["crash_states"]++
		if f.Hung {
			m["no_return_after_crash"]++
		}
		if notReached[i] {
			m["position_differs_from_recording"]++
		}
		if f.GitRun {
			m["git_states"]++
		}
		distinct[f.Op+"|"+f.After+">"+f.Next] = true
		r.Eval(1)
		if i%131 == 7 {
			r.Sample(map[string]any{"op": f.Op, "k": f.K, "torn": f.Torn, "after": f.After, "next": f.Next, "opens": f.Opens, "lists": f.Lists, "git": f.GitRun, "err": f.Err})
		}
	}
	if err := os.WriteFile(filepath.Join(outdir, "c21_states.ndjson"), out.Bytes(), 0o644); err != nil {
		return err
	}
	r.Traces = len(plans)
	r.Distinct = len(distinct)
	r.Extra["c21_per_op"] = perOp
	r.Extra["c21_git_states"] = nGit
	r.Extra["c21_states"] = len(facts)
	return r.Emit()
}

// gitBatch materialises the selected crash states and asks git about all of them with one xargs batch.
func gitBatch(planOf func(i int) *c21plan, facts []stateFacts, trees []*fsutil.Tree) error {
	base := gitcli.TempDir("c21git")
	defer os.RemoveAll(base)
	var in bytes.Buffer
	n := 0
	for i, t := range trees {
		if t == nil {
			continue
		}
		dir := filepath.Join(base, fmt.Sprint(i))
		if err := os.MkdirAll(dir, 0o755); err != nil {
			return err
		}
		if err := t.Materialise(osfs.New(dir)); err != nil {
			return err
		}
		var old bytes.Buffer
		for h := range planOf(i).before.closure {
			old.WriteString(h.String() + "\n")
		}
		if err := os.WriteFile(dir+".old", old.Bytes(), 0o644); err != nil {
			return err
		}
		fmt.Fprintf(&in, "%d\x00", i)
		n++
	}
	if n == 0 {
		return nil
	}
	script := `d="$0/$1"; if [ ! -d "$d/.git" ]; then echo "$1 nogit"; exit 0; fi; cd "$d" || exit 0
git fsck --connectivity-only --no-dangling >"$d.fsck" 2>&1; a=$?
git show-ref --head >"$d.showref" 2>"$d.showref.err"; b=$?
git cat-file --batch-check <"$d.old" >"$d.cat" 2>&1; c=$?
echo "$1 $a $b $c"`
	c := exec.Command("xargs", "-0", "-n", "1", "-P", "16", "sh", "-c", script, base)
	c.Env = gitcli.Env()
	c.Stdin = &in
	var o, e bytes.Buffer
	c.Stdout, c.Stderr = &o, &e
	if err := c.Run(); err != nil {
		return fmt.Errorf("git batch: %v: %s", err, e.String())
	}
	seen := 0
	for _, ln := range strings.Split(o.String(), "\n") {
		fs := strings.Fields(ln)
		if len(fs) < 2 {
			continue
		}
		var i int
		fmt.Sscanf(fs[0], "%d", &i)
		seen++
		if fs[1] == "nogit" {
			continue // there is no .git directory at all: git cannot be asked
		}
		if len(fs) != 4 {
			return fmt.Errorf("git batch: bad line %q", ln)
		}
		d := filepath.Join(base, fs[0])
		rd := func(sfx string) string { b, _ := os.ReadFile(d + sfx); return string(b) }
		g := gitFacts{Fsck: fs[1] == "0"}
		if !g.Fsck {
			g.Err = "fsck: " + firstLine(rd(".fsck"))
		}
		se := rd(".showref.err")
		g.ShowRef = (fs[2] == "0" || fs[2] == "1") && !strings.Contains(se, "error") && !strings.Contains(se, "fatal") && !strings.Contains(se, "broken")
		if !g.ShowRef && g.Err == "" {
			g.Err = "show-ref: " + firstLine(se)
		}
		cat := rd(".cat")
		g.OldObjs = fs[3] == "0" && !strings.Contains(cat, "missing")
		if !g.OldObjs && g.Err == "" {
			g.Err = "cat-file: " + firstLine(cat)
		}
		facts[i].GitRun, facts[i].Git = true, g
	}
	if seen != n {
		return fmt.Errorf("git batch: %d results for %d states: %s", seen, n, e.String())
	}
	return nil
}
