package main

// Crash-point control over hookfs (Engine D): one hook serves as recorder of the mutating
// filesystem steps of a go-git operation, as crash-point stopper (from step k on every
// filesystem operation fails: the process "died") and as torn-write injector.

import (
	"errors"
	"os"
	"regexp"
	"strings"
	"sync"

	"verifharness/internal/hookfs"

	"github.com/go-git/go-billy/v6"
)

var errCrashed = errors.New("verif: process crashed (injected)")

// cStep is one recorded mutating filesystem step, already projected to the abstract vocabulary
// of spec/impl/CrashFS.tla (Kind, Cls); Path is kept for humans only and never enters a signature.
type cStep struct {
	I    int    `json:"i"`
	Kind string `json:"kind"` // CreateNew OpenTrunc OpenRW Write Truncate Rename Remove Mkdir TempFile Chmod Chtimes Symlink Sync
	Cls  string `json:"cls"`  // path class of the (target) path
	Src  string `json:"src"`  // path class of the rename source ("" otherwise)
	Path string `json:"path"`
	To   string `json:"to,omitempty"`
	N    int    `json:"n"`
	Obj  string `json:"obj,omitempty"` // object id (hex) for loose-object paths
	Ref  string `json:"ref,omitempty"` // reference name for ref paths
	Pack string `json:"pack,omitempty"`
	Data string `json:"-"` // payload of a Write to a reference file (to name the token written)
}

func (s cStep) label() string {
	if s.Kind == "Rename" {
		return "Rename(" + s.Src + "->" + s.Cls + ")"
	}
	return s.Kind + "(" + s.Cls + ")"
}

type crashCtl struct {
	mu     sync.Mutex
	base   billy.Filesystem // un-hooked filesystem (facts only)
	armed  bool
	n      int // mutating steps seen while armed
	stopAt int // the process dies when it is about to perform mutating step stopAt (1-based); 0 = never
	torn   int // >0: step stopAt is a Write of which only this many bytes reach the file
	dead   bool
	tornOK bool
	log    []cStep
	temps  map[string]string // temp path -> class
}

func newCtl(base billy.Filesystem, stopAt, torn int) *crashCtl {
	return &crashCtl{base: base, stopAt: stopAt, torn: torn, temps: map[string]string{}}
}

func (c *crashCtl) arm()    { c.mu.Lock(); c.armed = true; c.mu.Unlock() }
func (c *crashCtl) disarm() { c.mu.Lock(); c.armed = false; c.mu.Unlock() }
func (c *crashCtl) kill()   { c.mu.Lock(); c.dead = true; c.mu.Unlock() }
func (c *crashCtl) isDead() bool {
	c.mu.Lock()
	defer c.mu.Unlock()
	return c.dead
}

func (c *crashCtl) hook(op *hookfs.Op) error {
	c.mu.Lock()
	defer c.mu.Unlock()
	if c.dead {
		return errCrashed
	}
	if !c.armed || !op.Mutating {
		return nil
	}
	st := c.project(op)
	if st.Kind == "" { // opened for writing without any effect yet
		return nil
	}
	c.n++
	st.I = c.n
	if c.n == c.stopAt {
		c.dead = true
		if c.torn > 0 && op.Kind == "Write" && op.H != nil && c.torn < len(op.Data) {
			if _, err := op.H.File.Write(op.Data[:c.torn]); err == nil {
				c.tornOK = true
			}
		}
		return errCrashed
	}
	c.log = append(c.log, st)
	return nil
}

func (c *crashCtl) exists(p string) bool {
	_, err := c.base.Lstat(p)
	return err == nil
}

func (c *crashCtl) project(op *hookfs.Op) cStep {
	s := cStep{Path: op.Path, N: op.N}
	s.Cls, s.Obj, s.Ref, s.Pack = classify(op.Path)
	switch op.Kind {
	case "Create", "OpenFile":
		ex := c.exists(op.Path)
		switch {
		case !ex && op.Flag&os.O_CREATE != 0:
			s.Kind = "CreateNew"
		case !ex:
			s.Kind = "" // will fail
		case op.Flag&os.O_TRUNC != 0:
			s.Kind = "OpenTrunc"
		default:
			s.Kind = "OpenRW"
		}
	case "TempFile":
		s.Kind = "TempFile"
	case "Write", "WriteAt":
		s.Kind = "Write"
		if (s.Cls == "ref" || s.Cls == "HEAD") && len(op.Data) < 4096 {
			s.Data = string(op.Data)
		}
	case "Truncate":
		s.Kind = "Truncate"
	case "Rename":
		s.Kind = "Rename"
		s.Src = s.Cls
		s.To = op.Path2
		s.Cls, s.Obj, s.Ref, s.Pack = classify(op.Path2)
	case "Remove":
		s.Kind = "Remove"
	case "MkdirAll":
		if c.exists(op.Path) {
			s.Kind = ""
		} else {
			s.Kind = "Mkdir"
		}
	case "Chmod", "Chtimes", "Symlink", "Sync":
		s.Kind = op.Kind
	default:
		s.Kind = op.Kind
	}
	return s
}

var (
	reLoose = regexp.MustCompile(`^objects/([0-9a-f]{2})/([0-9a-f]{38,62})$`)
	rePack  = regexp.MustCompile(`^objects/pack/pack-([0-9a-f]{40,64})\.(pack|idx|rev|keep|promisor)$`)
)

// classify maps a root-relative path to its abstract class.
func classify(p string) (cls, obj, ref, pack string) {
	p = strings.TrimPrefix(p, "/")
	if p != ".git" && !strings.HasPrefix(p, ".git/") {
		return "worktree-file", "", "", ""
	}
	q := strings.TrimPrefix(strings.TrimPrefix(p, ".git"), "/")
	switch q {
	case "":
		return "gitdir", "", "", ""
	case "HEAD":
		return "HEAD", "", "HEAD", ""
	case "config":
		return "config", "", "", ""
	case "index":
		return "index", "", "", ""
	case "packed-refs":
		return "packed-refs", "", "", ""
	case "shallow":
		return "shallow", "", "", ""
	case "ORIG_HEAD", "FETCH_HEAD", "MERGE_HEAD":
		return "pseudo-ref", "", "", ""
	}
	if m := reLoose.FindStringSubmatch(q); m != nil {
		return "loose-object", m[1] + m[2], "", ""
	}
	if m := rePack.FindStringSubmatch(q); m != nil {
		return m[2], "", "", m[1]
	}
	base := q[strings.LastIndex(q, "/")+1:]
	switch {
	case strings.HasPrefix(q, "objects/") && strings.HasPrefix(base, "tmp_obj_"):
		return "obj-tmp", "", "", ""
	case strings.HasPrefix(q, "objects/pack/tmp_pack_"), strings.HasPrefix(q, "objects/pack/.tmp"), strings.HasPrefix(q, "objects/pack/tmp_"):
		return "pack-tmp", "", "", ""
	case strings.HasPrefix(q, "objects/"):
		if strings.Count(q, "/") <= 1 {
			return "objects-dir", "", "", ""
		}
		return "objects-other", "", "", ""
	case strings.HasPrefix(q, "refs/") && strings.Contains(base, ".lock"):
		return "ref-lock", "", "", ""
	case strings.HasPrefix(q, "refs/"):
		return "ref", "", q, ""
	case strings.HasPrefix(q, "logs/"):
		return "reflog", "", "", ""
	case strings.HasPrefix(base, "._packed-refs"), strings.HasPrefix(base, "packed-refs"):
		return "packed-refs-tmp", "", "", ""
	case strings.HasPrefix(base, "tmp"), strings.HasPrefix(base, ".tmp"):
		return "gitdir-tmp", "", "", ""
	}
	return "gitdir-other", "", "", ""
}
