// Command vhcrash: conformance harness for the crash / fault properties C21 (crash enumeration,
// Engine D) and C20 (index cache under faults, Engine A + D).
package main

import "verifharness/internal/rep"

func main() { rep.Main() }
