package main

// clockfs: a billy.Filesystem wrapper that replaces wall-clock modification times by a logical clock
// (DESIGN §4 "Determinism: no wall-clock; mtimes are chosen inputs").  Every mutation of a file stamps it
// with the next tick; SetMtime forces a chosen value (the "external rewrite that keeps the mtime" and
// "same size, later mtime" scenarios of C20).  memfs has no Chtimes, which is why this exists.

import (
	"io/fs"
	"os"
	"path"
	"sync"
	"time"

	"github.com/go-git/go-billy/v6"
)

type lclock struct {
	mu   sync.Mutex
	tick int64
	mt   map[string]time.Time
}

var clockEpoch = time.Unix(1_700_000_000, 0).UTC()

func (c *lclock) touch(p string) {
	c.mu.Lock()
	c.tick++
	c.mt[p] = clockEpoch.Add(time.Duration(c.tick) * time.Second)
	c.mu.Unlock()
}

func (c *lclock) get(p string) (time.Time, bool) {
	c.mu.Lock()
	defer c.mu.Unlock()
	t, ok := c.mt[p]
	return t, ok
}

type clockFS struct {
	billy.Filesystem
	c      *lclock
	prefix string
}

func newClockFS(base billy.Filesystem) *clockFS {
	return &clockFS{Filesystem: base, c: &lclock{mt: map[string]time.Time{}}}
}

func (f *clockFS) p(name string) string { return path.Join("/", f.prefix, name) }

// SetMtime forces the modification time of a root-relative path.
func (f *clockFS) SetMtime(name string, t time.Time) {
	f.c.mu.Lock()
	f.c.mt[f.p(name)] = t
	f.c.mu.Unlock()
}

type clockInfo struct {
	fs.FileInfo
	t time.Time
}

func (i clockInfo) ModTime() time.Time { return i.t }

func (f *clockFS) info(name string, fi fs.FileInfo, err error) (fs.FileInfo, error) {
	if err != nil {
		return fi, err
	}
	if t, ok := f.c.get(f.p(name)); ok {
		return clockInfo{fi, t}, nil
	}
	return clockInfo{fi, clockEpoch}, nil
}

func (f *clockFS) Stat(name string) (fs.FileInfo, error) {
	fi, err := f.Filesystem.Stat(name)
	return f.info(name, fi, err)
}

func (f *clockFS) Lstat(name string) (fs.FileInfo, error) {
	fi, err := f.Filesystem.Lstat(name)
	return f.info(name, fi, err)
}

func (f *clockFS) wrap(name string, fl billy.File, err error) (billy.File, error) {
	if err != nil {
		return nil, err
	}
	return &clockFile{File: fl, fs: f, path: f.p(name), rel: name}, nil
}

func (f *clockFS) Create(name string) (billy.File, error) {
	fl, err := f.Filesystem.Create(name)
	if err == nil {
		f.c.touch(f.p(name))
	}
	return f.wrap(name, fl, err)
}

func (f *clockFS) Open(name string) (billy.File, error) {
	fl, err := f.Filesystem.Open(name)
	return f.wrap(name, fl, err)
}

func (f *clockFS) OpenFile(name string, flag int, perm fs.FileMode) (billy.File, error) {
	_, statErr := f.Filesystem.Lstat(name)
	fl, err := f.Filesystem.OpenFile(name, flag, perm)
	if err == nil && (flag&os.O_TRUNC != 0 || (flag&os.O_CREATE != 0 && statErr != nil)) {
		f.c.touch(f.p(name))
	}
	return f.wrap(name, fl, err)
}

func (f *clockFS) TempFile(dir, prefix string) (billy.File, error) {
	fl, err := f.Filesystem.TempFile(dir, prefix)
	if err != nil {
		return nil, err
	}
	f.c.touch(f.p(fl.Name()))
	return f.wrap(fl.Name(), fl, nil)
}

func (f *clockFS) Rename(from, to string) error {
	err := f.Filesystem.Rename(from, to)
	if err == nil {
		f.c.mu.Lock()
		if t, ok := f.c.mt[f.p(from)]; ok {
			f.c.mt[f.p(to)] = t
			delete(f.c.mt, f.p(from))
		}
		f.c.mu.Unlock()
	}
	return err
}

func (f *clockFS) Remove(name string) error {
	err := f.Filesystem.Remove(name)
	if err == nil {
		f.c.mu.Lock()
		delete(f.c.mt, f.p(name))
		f.c.mu.Unlock()
	}
	return err
}

func (f *clockFS) Chroot(p string) (billy.Filesystem, error) {
	c, err := f.Filesystem.Chroot(p)
	if err != nil {
		return nil, err
	}
	return &clockFS{Filesystem: c, c: f.c, prefix: path.Join(f.prefix, p)}, nil
}

func (f *clockFS) Capabilities() billy.Capability { return billy.Capabilities(f.Filesystem) }

type clockFile struct {
	billy.File
	fs   *clockFS
	path string
	rel  string
}

func (f *clockFile) Write(p []byte) (int, error) {
	n, err := f.File.Write(p)
	f.fs.c.touch(f.path)
	return n, err
}

func (f *clockFile) WriteAt(p []byte, off int64) (int, error) {
	n, err := f.File.WriteAt(p, off)
	f.fs.c.touch(f.path)
	return n, err
}

func (f *clockFile) Truncate(n int64) error {
	err := f.File.Truncate(n)
	f.fs.c.touch(f.path)
	return err
}

func (f *clockFile) Stat() (fs.FileInfo, error) {
	fi, err := f.File.Stat()
	return f.fs.info(f.rel, fi, err)
}

func (f *clockFile) Lock() error {
	if l, ok := f.File.(billy.Locker); ok {
		return l.Lock()
	}
	return nil
}

func (f *clockFile) Unlock() error {
	if l, ok := f.File.(billy.Locker); ok {
		return l.Unlock()
	}
	return nil
}
