package main

// C20: through the filesystem storage, Index() always returns what decoding the on-disk index file returns.
// Engine A + D: histories of worktree operations come from TLC (spec/abstract/IndexStore.tla); each is replayed
// on a long-lived Storage/Worktree over hookfs; the last operation of a history is first run to count its
// filesystem steps n and then re-run with a transient failure injected at step k for k = 1..n; external
// rewrites (a second Storage) change only the size or only the mtime of the index file (logical clock).
// After the history the long-lived Storer.Index() and a decode by a brand-new Storage are projected to one
// observation record each; spec/abstract/IndexStoreTrace.tla judges View = Decode(disk) on every record.
//
//   vhcrash c20 <histories.ndjson> <outdir>     writes <outdir>/c20_obs.ndjson

import (
	"bytes"
	"encoding/json"
	"errors"
	"fmt"
	"math/rand"
	"os"
	"path/filepath"
	"sort"
	"strings"
	"sync"
	"time"

	"verifharness/internal/fsutil"
	"verifharness/internal/gitcli"
	"verifharness/internal/hookfs"
	"verifharness/internal/rep"

	"github.com/go-git/go-billy/v6"
	"github.com/go-git/go-billy/v6/memfs"
	"github.com/go-git/go-billy/v6/osfs"
	git "github.com/go-git/go-git/v6"
	"github.com/go-git/go-git/v6/plumbing"
	"github.com/go-git/go-git/v6/plumbing/cache"
	"github.com/go-git/go-git/v6/plumbing/filemode"
	"github.com/go-git/go-git/v6/plumbing/format/index"
	"github.com/go-git/go-git/v6/storage/filesystem"
)

func init() { rep.Register("c20", c20) }

var errInjected = errors.New("verif: injected I/O error")

type faultCtl struct {
	mu     sync.Mutex
	armed  bool
	n      int
	failAt int
	failed string // label of the step that was failed
	phase  string
	short  bool     // the failing step, if it is a Write, first writes half of its data (short write + error)
	kinds  []string // kinds of the steps seen (counting run)
}

func (c *faultCtl) hook(op *hookfs.Op) error {
	c.mu.Lock()
	defer c.mu.Unlock()
	if !c.armed {
		return nil
	}
	c.n++
	c.kinds = append(c.kinds, op.Kind)
	if c.n == c.failAt {
		cls, _, _, _ := classify(op.Path)
		c.failed = op.Kind + "(" + cls + ")"
		c.phase = phaseOf(cls, op.Mutating)
		if c.short && op.Kind == "Write" && op.H != nil && len(op.Data) >= 2 {
			_, _ = op.H.File.Write(op.Data[:len(op.Data)/2])
			c.failed = "Short" + c.failed
		}
		return errInjected
	}
	return nil
}

func phaseOf(cls string, mutating bool) string {
	switch cls {
	case "worktree-file":
		return "worktree"
	case "loose-object", "obj-tmp", "pack-tmp", "pack", "idx", "rev", "objects-dir", "objects-other":
		return "objects"
	case "index":
		return "index"
	case "ref", "HEAD", "packed-refs", "packed-refs-tmp":
		return "refs"
	}
	return "other"
}

// ---------------------------------------------------------------- world

type c20world struct {
	base   billy.Filesystem // memfs
	clk    *clockFS         // logical mtimes over base (what every reader sees)
	ctl    *faultCtl
	st     *filesystem.Storage // the long-lived storage under test (default index cache)
	r      *git.Repository
	w      *git.Worktree
	ver    int
	dotClk billy.Filesystem
}

func c20base(seed int64) *fsutil.Tree {
	root := memfs.New()
	dot, _ := root.Chroot(".git")
	st := filesystem.NewStorage(dot, cache.NewObjectLRUDefault())
	r, err := git.Init(st, git.WithWorkTree(root))
	must(err)
	w, err := r.Worktree()
	must(err)
	put(root, "c", fmt.Sprintf("c v1 %d\n", seed))
	put(root, "d/a", fmt.Sprintf("a v1 %d\n", seed))
	put(root, "d/b", fmt.Sprintf("b v1 %d\n", seed))
	put(root, "e/f", "f v1\n")
	must(w.AddWithOptions(&git.AddOptions{All: true}))
	c1, err := w.Commit("c1", &git.CommitOptions{Author: sigAt(1000)})
	must(err)
	must(w.Checkout(&git.CheckoutOptions{Branch: "refs/heads/dev", Create: true, Hash: c1}))
	put(root, "d/a", "a on dev\n")
	put(root, "g", "g on dev\n")
	must(w.AddWithOptions(&git.AddOptions{All: true}))
	_, err = w.Commit("cd", &git.CommitOptions{Author: sigAt(2000)})
	must(err)
	must(w.Checkout(&git.CheckoutOptions{Branch: "refs/heads/master", Force: true}))
	st.Close()
	t, err := fsutil.Snapshot(root)
	must(err)
	return t
}

func newC20World(t *fsutil.Tree) *c20world {
	base, err := t.Mem()
	must(err)
	wd := &c20world{base: base, clk: newClockFS(base), ctl: &faultCtl{}}
	hooked := hookfs.New(wd.clk, wd.ctl.hook)
	dot, _ := hooked.Chroot(".git")
	wd.dotClk, _ = wd.clk.Chroot(".git")
	wd.st = filesystem.NewStorage(dot, cache.NewObjectLRUDefault())
	wd.r, err = git.Open(wd.st, hooked)
	must(err)
	wd.w, err = wd.r.Worktree()
	must(err)
	// the long-lived storage has read (and cached) the index once before anything happens
	_, err = wd.st.Index()
	must(err)
	return wd
}

func (wd *c20world) edit(name string) {
	wd.ver++
	f, err := wd.clk.Create(name)
	must(err)
	fmt.Fprintf(f, "%s edit %d\n", name, wd.ver)
	must(f.Close())
}

func (wd *c20world) exists(name string) bool {
	_, err := wd.base.Lstat(name)
	return err == nil
}

// apply runs one abstract operation; the returned error is the operation's own outcome (any outcome is legal).
func (wd *c20world) apply(op string) error {
	w := wd.w
	switch op {
	case "AddFile":
		wd.edit("c")
		wd.ctl.arm()
		_, err := w.Add("c")
		return err
	case "AddDir":
		wd.edit("d/a")
		wd.edit("d/b")
		wd.ctl.arm()
		_, err := w.Add("d")
		return err
	case "AddAll":
		wd.edit("c")
		wd.edit("d/b")
		wd.edit(fmt.Sprintf("n%d", wd.ver))
		wd.ctl.arm()
		return w.AddWithOptions(&git.AddOptions{All: true})
	case "AddGlob":
		wd.edit("d/a")
		wd.edit("d/b")
		wd.ctl.arm()
		return w.AddGlob("d/*")
	case "Remove":
		wd.ctl.arm()
		_, err := w.Remove("e/f")
		return err
	case "Move":
		from, to := "c", "m"
		if !wd.exists("c") {
			from, to = "m", "c"
		}
		wd.ctl.arm()
		_, err := w.Move(from, to)
		return err
	case "Commit":
		wd.ver++
		wd.ctl.arm()
		_, err := w.Commit(fmt.Sprintf("commit %d", wd.ver), &git.CommitOptions{Author: sigAt(3000 + int64(wd.ver)), AllowEmptyCommits: true})
		return err
	case "ResetSparse":
		wd.ctl.arm()
		return w.Reset(&git.ResetOptions{Mode: git.HardReset, SparseDirs: []string{"d"}})
	case "ResetHard":
		wd.edit("d/a")
		wd.ctl.arm()
		return w.Reset(&git.ResetOptions{Mode: git.HardReset})
	case "ResetFiles":
		wd.edit("c")
		wd.ctl.arm()
		if _, err := w.Add("c"); err != nil {
			return err
		}
		return w.Reset(&git.ResetOptions{Mode: git.MixedReset, Files: []string{"c"}})
	case "Checkout":
		to := plumbing.ReferenceName("refs/heads/dev")
		if h, err := wd.r.Head(); err == nil && h.Name() == to {
			to = "refs/heads/master"
		}
		wd.ctl.arm()
		return w.Checkout(&git.CheckoutOptions{Branch: to, Force: true})
	case "CheckoutSparse":
		to := plumbing.ReferenceName("refs/heads/dev")
		if h, err := wd.r.Head(); err == nil && h.Name() == to {
			to = "refs/heads/master"
		}
		wd.ctl.arm()
		return w.Checkout(&git.CheckoutOptions{Branch: to, Force: true, SparseCheckoutDirectories: []string{"d"}})
	case "Status":
		wd.edit("d/b")
		wd.ctl.arm()
		_, err := w.Status()
		return err
	case "ExtSize", "ExtMtime", "ExtSubsec", "ExtBoth":
		return wd.external(op)
	case "ExtRemove": // another process deletes the index file (git rm --cached -r . && rm .git/index, a fresh checkout tool ...)
		return wd.clk.Remove(".git/index")
	}
	panic("unknown op " + op)
}

func (c *faultCtl) arm()    { c.mu.Lock(); c.armed = true; c.mu.Unlock() }
func (c *faultCtl) disarm() { c.mu.Lock(); c.armed = false; c.mu.Unlock() }

// external rewrites the index the way another process would: a second Storage with its own (empty) cache.
// ExtSize: one more entry, modification time forced back to the previous one (only the size changes).
// ExtMtime: the object id of the first entry is changed (same size), later modification time (whole seconds).
// ExtSubsec: the same rewrite, but the modification time moves by one nanosecond only (same second).
func (wd *c20world) external(kind string) error {
	fi, err := wd.dotClk.Stat("index")
	if err != nil {
		return err
	}
	ext := filesystem.NewStorage(wd.dotClk, cache.NewObjectLRUDefault())
	defer ext.Close()
	idx, err := ext.Index()
	if err != nil {
		return err
	}
	wd.ver++
	switch kind {
	case "ExtSize", "ExtBoth":
		var h plumbing.Hash
		if len(idx.Entries) > 0 {
			h = idx.Entries[0].Hash
		}
		idx.Entries = append(idx.Entries, &index.Entry{Name: fmt.Sprintf("zz%d", wd.ver), Hash: h, Mode: filemode.Regular})
	case "ExtMtime", "ExtSubsec":
		if len(idx.Entries) == 0 {
			return nil
		}
		e := *idx.Entries[0]
		e.Hash = plumbing.NewHash(fmt.Sprintf("%040x", wd.ver))
		idx.Entries[0] = &e
	}
	if err := ext.SetIndex(idx); err != nil {
		return err
	}
	switch kind {
	case "ExtSize":
		wd.clk.SetMtime(".git/index", fi.ModTime())
	case "ExtSubsec": // same size, same second, other nanoseconds (the smallest change a timestamp can show)
		wd.clk.SetMtime(".git/index", fi.ModTime().Add(time.Nanosecond))
	}
	return nil
}

// ---------------------------------------------------------------- observation

type idxEntry struct {
	Name  string `json:"name"`
	Hash  string `json:"hash"`
	Mode  string `json:"mode"`
	Size  int    `json:"size"`
	Stage int    `json:"stage"`
	Skip  bool   `json:"skip"`
	Ita   bool   `json:"ita"`
	Mtime int64  `json:"mtime"`
}

type idxView struct {
	Err     string     `json:"err"` // "" | error text class
	Version int        `json:"version"`
	Exts    string     `json:"exts"`
	Entries []idxEntry `json:"entries"`
}

func viewOf(idx *index.Index, err error) idxView {
	v := idxView{Entries: []idxEntry{}}
	if err != nil {
		v.Err = "error"
		return v
	}
	v.Version = int(idx.Version)
	if idx.Cache != nil {
		v.Exts += "T"
	}
	if idx.ResolveUndo != nil {
		v.Exts += "R"
	}
	if idx.EndOfIndexEntry != nil {
		v.Exts += "E"
	}
	for _, e := range idx.Entries {
		v.Entries = append(v.Entries, idxEntry{Name: e.Name, Hash: e.Hash.String(), Mode: e.Mode.String(), Size: int(e.Size),
			Stage: int(e.Stage), Skip: e.SkipWorktree, Ita: e.IntentToAdd, Mtime: e.ModifiedAt.UnixNano()})
	}
	sort.SliceStable(v.Entries, func(i, j int) bool {
		if v.Entries[i].Name != v.Entries[j].Name {
			return v.Entries[i].Name < v.Entries[j].Name
		}
		return v.Entries[i].Stage < v.Entries[j].Stage
	})
	return v
}

type c20obs struct {
	ID     int      `json:"id"`
	Hist   []string `json:"hist"`
	Op     string   `json:"op"`     // the last operation of the history
	Fault  string   `json:"fault"`  // "" | label of the failed step
	Phase  string   `json:"phase"`  // "" | phase of the failed step
	OpErr  bool     `json:"operr"`  // the operation returned an error
	Cached idxView  `json:"cached"` // Storer.Index() of the long-lived storage
	Fresh  idxView  `json:"fresh"`  // decode of the file by a brand-new storage
	Count  int      `json:"count"`  // identical observations collapsed
	K      int      `json:"k"`
}

func (wd *c20world) observe() (idxView, idxView) {
	wd.ctl.disarm()
	cached := viewOf(wd.st.Index())
	fresh := filesystem.NewStorage(wd.dotClk, cache.NewObjectLRUDefault())
	defer fresh.Close()
	return cached, viewOf(fresh.Index())
}

// runHist replays hist; the last operation fails at step failAt (0 = no fault). Returns the observation and the
// number of filesystem steps of the last operation.
func runHist(t *fsutil.Tree, hist []string, failAt int, short bool) (c20obs, []string, error) {
	wd := newC20World(t)
	defer wd.st.Close()
	o := c20obs{Hist: hist, Op: hist[len(hist)-1], K: failAt, Count: 1}
	for i, op := range hist {
		last := i == len(hist)-1
		wd.ctl.mu.Lock()
		wd.ctl.n, wd.ctl.failAt, wd.ctl.kinds = 0, 0, nil
		if last {
			wd.ctl.failAt, wd.ctl.short = failAt, short
		}
		wd.ctl.mu.Unlock()
		done := make(chan error, 1)
		go func() {
			defer func() {
				if p := recover(); p != nil {
					done <- fmt.Errorf("panic: %v", p)
				}
			}()
			done <- wd.apply(op)
		}()
		var err error
		select {
		case err = <-done:
		case <-time.After(30 * time.Second):
			return o, nil, fmt.Errorf("%v: %s did not return", hist, op)
		}
		wd.ctl.disarm()
		if last {
			o.OpErr = err != nil
		}
	}
	o.Fault, o.Phase = wd.ctl.failed, wd.ctl.phase
	kinds := wd.ctl.kinds
	o.Cached, o.Fresh = wd.observe()
	return o, kinds, nil
}

var dirOps = map[string]bool{"AddDir": true, "AddAll": true, "AddGlob": true, "ResetSparse": true, "ResetHard": true, "Checkout": true, "CheckoutSparse": true, "Status": true, "Commit": true}

func c20(args []string) error {
	if len(args) < 2 {
		return errors.New("usage: c20 <histories.ndjson> <outdir>")
	}
	seed := rep.Seed()
	rng := rand.New(rand.NewSource(seed))
	r := rep.New()
	var hists [][]string
	if err := rep.ReadNDJSON(args[0], func(b []byte) error {
		var h []string
		if err := json.Unmarshal(b, &h); err != nil {
			return err
		}
		if len(h) > 0 {
			hists = append(hists, h)
		}
		return nil
	}); err != nil {
		return err
	}
	sort.SliceStable(hists, func(i, j int) bool { return len(hists[i]) < len(hists[j]) })
	base := c20base(seed)
	// fault points of the last operation: every step for short histories, a seeded sample for the longest ones
	repeats, fullLen, sampleK := 3, 1, 6
	if rep.Thorough() {
		repeats, fullLen, sampleK = 4, 2, 3
	}
	type job struct {
		hist  []string
		k     int
		short bool
	}
	var jobs []job
	nFaultRuns := 0
	stepsOf := map[string]int{}
	for _, h := range hists {
		_, kinds, err := runHist(base, h, 0, false)
		if err != nil {
			return err
		}
		n := len(kinds)
		jobs = append(jobs, job{h, 0, false})
		last := h[len(h)-1]
		if strings.HasPrefix(last, "Ext") || n == 0 {
			continue
		}
		if len(h) == 1 {
			stepsOf[last] = n
		}
		ks := make([]int, 0, n)
		for k := 1; k <= n; k++ {
			ks = append(ks, k)
		}
		if len(h) > fullLen && len(ks) > sampleK {
			rng.Shuffle(len(ks), func(a, b int) { ks[a], ks[b] = ks[b], ks[a] })
			ks = ks[:sampleK]
			sort.Ints(ks)
		}
		rp := 1
		if dirOps[last] {
			rp = repeats // Go map iteration order changes the visiting order of files
			if len(h) > fullLen && rp > 2 {
				rp = 2
			}
		}
		for _, k := range ks {
			for q := 0; q < rp; q++ {
				jobs = append(jobs, job{h, k, false})
				nFaultRuns++
			}
			if kinds[k-1] == "Write" { // a write error may also be a short write
				jobs = append(jobs, job{h, k, true})
				nFaultRuns++
			}
		}
	}
	obs := make([]c20obs, len(jobs))
	var wg sync.WaitGroup
	ch := make(chan int)
	var mu sync.Mutex
	var firstErr error
	for wk := 0; wk < 8; wk++ {
		wg.Add(1)
		go func() {
			defer wg.Done()
			for i := range ch {
				o, _, err := runHist(base, jobs[i].hist, jobs[i].k, jobs[i].short)
				if err != nil {
					mu.Lock()
					firstErr = err
					mu.Unlock()
				}
				obs[i] = o
			}
		}()
	}
	for i := range jobs {
		ch <- i
	}
	close(ch)
	wg.Wait()
	if firstErr != nil {
		return firstErr
	}
	// collapse identical observations (same history, fault phase and both views)
	type key string
	seen := map[key]int{}
	var out []c20obs
	distinct := map[string]bool{}
	for _, o := range obs {
		kb, _ := json.Marshal([]any{o.Hist, o.Fault, o.Phase, o.OpErr, o.Cached, o.Fresh})
		if i, ok := seen[key(kb)]; ok {
			out[i].Count++
			continue
		}
		seen[key(kb)] = len(out)
		o.ID = len(out) + 1
		out = append(out, o)
		distinct[strings.Join(o.Hist, ",")+"|"+o.Fault] = true
	}
	var buf bytes.Buffer
	for i, o := range out {
		b, _ := json.Marshal(o)
		buf.Write(append(b, '\n'))
		if i%211 == 3 {
			r.Sample(map[string]any{"hist": o.Hist, "fault_at_step": o.K, "failed_step": o.Fault, "op_error": o.OpErr, "cached_entries": len(o.Cached.Entries), "disk_entries": len(o.Fresh.Entries)})
		}
	}
	if err := os.WriteFile(filepath.Join(args[1], "c20_obs.ndjson"), buf.Bytes(), 0o644); err != nil {
		return err
	}
	r.Eval(len(obs))
	r.Distinct = len(distinct)
	r.Traces = len(hists)
	r.Extra["c20_fault_runs"] = nFaultRuns
	r.Extra["c20_records"] = len(out)
	r.Extra["c20_steps_per_op"] = stepsOf
	// second witness for the reference reading: git ls-files -s on a sample of fault-free final states
	if gitcli.Available() {
		if err := c20git(r, base, hists, rng); err != nil {
			return err
		}
	}
	return r.Emit()
}

// c20git: the decode by a brand-new go-git storage is the reference reading of the property; git must read the
// same entries from the same file (otherwise the reference itself is wrong: SpecError).
func c20git(r *rep.Report, base *fsutil.Tree, hists [][]string, rng *rand.Rand) error {
	n := 12
	if rep.Thorough() {
		n = 60
	}
	checked := 0
	for _, i := range rng.Perm(len(hists)) {
		if checked >= n {
			break
		}
		h := hists[i]
		wd := newC20World(base)
		for _, op := range h {
			wd.ctl.mu.Lock()
			wd.ctl.n, wd.ctl.failAt = 0, 0
			wd.ctl.mu.Unlock()
			_ = wd.apply(op)
			wd.ctl.disarm()
		}
		_, fresh := wd.observe()
		wd.st.Close()
		if fresh.Err != "" {
			continue
		}
		t, err := fsutil.Snapshot(wd.base)
		if err != nil {
			return err
		}
		dir := gitcli.TempDir("c20git")
		if err := t.Materialise(osfs.New(dir)); err != nil {
			return err
		}
		so, se, err := gitcli.Run(dir, nil, "ls-files", "-s")
		os.RemoveAll(dir)
		if err != nil {
			r.SpecError(map[string]any{"hist": h, "git": firstLine(se)})
			continue
		}
		var want []string
		for _, e := range fresh.Entries {
			want = append(want, fmt.Sprintf("%s %s %d\t%s", e.Mode[1:], e.Hash, e.Stage, e.Name))
		}
		got := strings.Split(strings.TrimSpace(so), "\n")
		if strings.TrimSpace(so) == "" {
			got = nil
		}
		sort.Strings(want)
		sort.Strings(got)
		if strings.Join(want, "\n") != strings.Join(got, "\n") {
			r.SpecError(map[string]any{"hist": h, "go-git-decode": want, "git-ls-files": got})
		}
		checked++
	}
	r.Extra["c20_git_states"] = checked
	return nil
}
