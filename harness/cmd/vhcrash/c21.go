package main

// C21: a crash at any filesystem operation of a go-git mutation leaves a recoverable repository.
// Engine D: record the mutating filesystem steps of each operation once, then re-run it from the same
// snapshot with the process dying at step k for EVERY k (plus torn variants of every Write), and
// project each resulting directory to the fact record that spec/impl/CrashFSTrace.tla judges with
// the Recoverable predicate of CrashFS.tla.  The recorded step sequences are written as well and
// replayed by TLC through the abstract model (discipline guards, predicted windows).
//
//   vhcrash c21 <outdir> [op,op,...]    writes c21_states.ndjson (fact records) and c21_traces.ndjson (abstract traces) into outdir

import (
	"errors"
	"fmt"
	"io"
	"net/url"
	"sort"
	"strings"
	"time"

	"verifharness/internal/fsutil"
	"verifharness/internal/hookfs"
	"verifharness/internal/rep"

	"github.com/go-git/go-billy/v6"
	"github.com/go-git/go-billy/v6/memfs"
	"github.com/go-git/go-billy/v6/util"
	git "github.com/go-git/go-git/v6"
	"github.com/go-git/go-git/v6/config"
	"github.com/go-git/go-git/v6/plumbing"
	"github.com/go-git/go-git/v6/plumbing/cache"
	"github.com/go-git/go-git/v6/plumbing/client"
	"github.com/go-git/go-git/v6/plumbing/filemode"
	"github.com/go-git/go-git/v6/plumbing/format/index"
	"github.com/go-git/go-git/v6/plumbing/object"
	"github.com/go-git/go-git/v6/storage"
	"github.com/go-git/go-git/v6/storage/filesystem"
)

func init() { rep.Register("c21", c21) }

// ---------------------------------------------------------------- worlds

func sigAt(t int64) *object.Signature {
	return &object.Signature{Name: "A U Thor", Email: "author@example.com", When: time.Unix(t, 0).UTC()}
}

func openRepo(root billy.Filesystem) (*git.Repository, *filesystem.Storage, error) {
	dot, err := root.Chroot(".git")
	if err != nil {
		return nil, nil, err
	}
	st := filesystem.NewStorage(dot, cache.NewObjectLRUDefault())
	r, err := git.Open(st, root)
	return r, st, err
}

func must(err error) {
	if err != nil {
		panic(err)
	}
}

func put(fs billy.Filesystem, name, content string) {
	must(util.WriteFile(fs, name, []byte(content), 0o644))
}

// buildBase makes the before-state shared by most operations: two commits on master, a branch dev and
// an annotated tag on the first commit, a nested directory; optionally packed (objects and refs).
func buildBase(seed int64, packed bool) *fsutil.Tree {
	root := memfs.New()
	dot, _ := root.Chroot(".git")
	st := filesystem.NewStorage(dot, cache.NewObjectLRUDefault())
	r, err := git.Init(st, git.WithWorkTree(root))
	must(err)
	w, err := r.Worktree()
	must(err)
	put(root, "f", fmt.Sprintf("one %d\n", seed))
	put(root, "d/x", strings.Repeat(fmt.Sprintf("line %d\n", seed), 40))
	must(w.AddWithOptions(&git.AddOptions{All: true}))
	c1, err := w.Commit("c1", &git.CommitOptions{Author: sigAt(1000)})
	must(err)
	must(r.Storer.SetReference(plumbing.NewHashReference("refs/heads/dev", c1)))
	_, err = r.CreateTag("v1", c1, &git.CreateTagOptions{Tagger: sigAt(1001), Message: "v1"})
	must(err)
	put(root, "g", "two\n")
	put(root, "f", fmt.Sprintf("one %d\nmore\n", seed))
	must(w.AddWithOptions(&git.AddOptions{All: true}))
	_, err = w.Commit("c2", &git.CommitOptions{Author: sigAt(2000)})
	must(err)
	_, err = r.CreateRemote(&config.RemoteConfig{Name: "origin", URLs: []string{"file:///peer"}})
	must(err)
	if packed {
		must(r.RepackObjects(&git.RepackConfig{}))
		must(st.PackRefs())
	}
	st.Close()
	t, err := fsutil.Snapshot(root)
	must(err)
	return t
}

// ahead returns base plus one more commit on master (and a new branch `topic`) — the peer of fetch / push.
func ahead(base *fsutil.Tree) *fsutil.Tree {
	root, err := base.Mem()
	must(err)
	r, st, err := openRepo(root)
	must(err)
	w, err := r.Worktree()
	must(err)
	put(root, "h", "three\n")
	put(root, "d/y", "why\n")
	must(w.AddWithOptions(&git.AddOptions{All: true}))
	c3, err := w.Commit("c3", &git.CommitOptions{Author: sigAt(3000)})
	must(err)
	must(r.Storer.SetReference(plumbing.NewHashReference("refs/heads/topic", c3)))
	st.Close()
	t, err := fsutil.Snapshot(root)
	must(err)
	return t
}

type fixedLoader struct{ st storage.Storer }

func (l fixedLoader) Load(*url.URL) (storage.Storer, error) { return l.st, nil }

type c21env struct {
	root billy.Filesystem // hooked root of the repository under test (worktree; .git inside)
	peer billy.Filesystem // plain root of the peer repository (may be nil)
	ctl  *crashCtl
}

type c21op struct {
	name  string
	under func(seed int64) *fsutil.Tree // before-state of the repository under test
	peer  func(seed int64) *fsutil.Tree
	run   func(e *c21env) error
}

func withRepo(f func(e *c21env, r *git.Repository, w *git.Worktree, st *filesystem.Storage) error) func(e *c21env) error {
	return func(e *c21env) error {
		r, st, err := openRepo(e.root)
		if err != nil {
			return fmt.Errorf("open before-state: %w", err)
		}
		w, err := r.Worktree()
		if err != nil {
			return err
		}
		e.ctl.arm()
		defer e.ctl.disarm()
		return f(e, r, w, st)
	}
}

func peerStorage(root billy.Filesystem) storage.Storer {
	dot, _ := root.Chroot(".git")
	return filesystem.NewStorage(dot, cache.NewObjectLRUDefault())
}

func loose(seed int64) *fsutil.Tree  { return buildBase(seed, false) }
func packed(seed int64) *fsutil.Tree { return buildBase(seed, true) }

func withGarbage(seed int64) *fsutil.Tree {
	root, err := buildBase(seed, false).Mem()
	must(err)
	r, st, err := openRepo(root)
	must(err)
	for i := 0; i < 3; i++ {
		o := r.Storer.NewEncodedObject()
		o.SetType(plumbing.BlobObject)
		wr, _ := o.Writer()
		fmt.Fprintf(wr, "unreachable %d %d\n", i, seed)
		wr.Close()
		_, err := r.Storer.SetEncodedObject(o)
		must(err)
	}
	st.Close()
	t, err := fsutil.Snapshot(root)
	must(err)
	return t
}

func c21ops() []c21op {
	return []c21op{
		{name: "add", under: loose, run: withRepo(func(e *c21env, r *git.Repository, w *git.Worktree, _ *filesystem.Storage) error {
			_, err := w.Add("n")
			return err
		})},
		{name: "commit", under: loose, run: withRepo(func(e *c21env, r *git.Repository, w *git.Worktree, _ *filesystem.Storage) error {
			if _, err := w.Add("n"); err != nil {
				return err
			}
			_, err := w.Commit("c3", &git.CommitOptions{Author: sigAt(3000)})
			return err
		})},
		{name: "commit-packed", under: packed, run: withRepo(func(e *c21env, r *git.Repository, w *git.Worktree, _ *filesystem.Storage) error {
			if _, err := w.Add("n"); err != nil {
				return err
			}
			_, err := w.Commit("c3", &git.CommitOptions{Author: sigAt(3000)})
			return err
		})},
		{name: "checkout", under: loose, run: withRepo(func(e *c21env, r *git.Repository, w *git.Worktree, _ *filesystem.Storage) error {
			return w.Checkout(&git.CheckoutOptions{Branch: "refs/heads/dev", Force: true})
		})},
		{name: "reset-hard", under: loose, run: withRepo(func(e *c21env, r *git.Repository, w *git.Worktree, _ *filesystem.Storage) error {
			ref, err := r.Reference("refs/heads/dev", true)
			if err != nil {
				return err
			}
			return w.Reset(&git.ResetOptions{Mode: git.HardReset, Commit: ref.Hash()})
		})},
		{name: "reset-hard-packed", under: packed, run: withRepo(func(e *c21env, r *git.Repository, w *git.Worktree, _ *filesystem.Storage) error {
			ref, err := r.Reference("refs/heads/dev", true)
			if err != nil {
				return err
			}
			return w.Reset(&git.ResetOptions{Mode: git.HardReset, Commit: ref.Hash()})
		})},
		{name: "fetch", under: loose, peer: func(s int64) *fsutil.Tree { return ahead(loose(s)) },
			run: withRepo(func(e *c21env, r *git.Repository, w *git.Worktree, _ *filesystem.Storage) error {
				ps := peerStorage(e.peer)
				err := r.Fetch(&git.FetchOptions{RemoteName: "origin", ClientOptions: []client.Option{client.WithLoader(fixedLoader{ps})}})
				return err
			})},
		{name: "fetch-packed", under: packed, peer: func(s int64) *fsutil.Tree { return ahead(loose(s)) },
			run: withRepo(func(e *c21env, r *git.Repository, w *git.Worktree, _ *filesystem.Storage) error {
				ps := peerStorage(e.peer)
				return r.Fetch(&git.FetchOptions{RemoteName: "origin", Tags: plumbing.AllTags, ClientOptions: []client.Option{client.WithLoader(fixedLoader{ps})}})
			})},
		{name: "clone", under: func(int64) *fsutil.Tree { return &fsutil.Tree{Files: map[string][]byte{}} }, peer: func(s int64) *fsutil.Tree { return ahead(loose(s)) },
			run: func(e *c21env) error {
				dot, err := e.root.Chroot(".git")
				if err != nil {
					return err
				}
				e.ctl.arm()
				defer e.ctl.disarm()
				st := filesystem.NewStorage(dot, cache.NewObjectLRUDefault())
				ps := peerStorage(e.peer)
				_, err = git.Clone(st, e.root, &git.CloneOptions{URL: "file:///peer", ClientOptions: []client.Option{client.WithLoader(fixedLoader{ps})}})
				return err
			}},
		{name: "receive-pack", under: loose, peer: func(s int64) *fsutil.Tree { return ahead(loose(s)) },
			run: func(e *c21env) error {
				// the repository under test is the server: a go-git client pushes into it over the file transport
				pr, _, err := openRepo(e.peer)
				if err != nil {
					return err
				}
				dot, err := e.root.Chroot(".git")
				if err != nil {
					return err
				}
				srv := filesystem.NewStorage(dot, cache.NewObjectLRUDefault())
				e.ctl.arm()
				defer e.ctl.disarm()
				return pr.Push(&git.PushOptions{RemoteName: "origin",
					RefSpecs:      []config.RefSpec{"refs/heads/master:refs/heads/feature", "refs/heads/topic:refs/heads/dev"},
					ClientOptions: []client.Option{client.WithLoader(fixedLoader{srv})}})
			}},
		{name: "repack", under: loose, run: withRepo(func(e *c21env, r *git.Repository, w *git.Worktree, _ *filesystem.Storage) error {
			return r.RepackObjects(&git.RepackConfig{})
		})},
		{name: "repack-packed", under: func(s int64) *fsutil.Tree { return ahead(packed(s)) }, run: withRepo(func(e *c21env, r *git.Repository, w *git.Worktree, _ *filesystem.Storage) error {
			return r.RepackObjects(&git.RepackConfig{})
		})},
		{name: "prune", under: withGarbage, run: withRepo(func(e *c21env, r *git.Repository, w *git.Worktree, _ *filesystem.Storage) error {
			return r.Prune(git.PruneOptions{Handler: r.DeleteObject})
		})},
		{name: "pack-refs", under: loose, run: withRepo(func(e *c21env, r *git.Repository, w *git.Worktree, st *filesystem.Storage) error {
			return st.PackRefs()
		})},
		{name: "pack-refs-again", under: func(s int64) *fsutil.Tree { return ahead(packed(s)) }, run: withRepo(func(e *c21env, r *git.Repository, w *git.Worktree, st *filesystem.Storage) error {
			return st.PackRefs()
		})},
		{name: "remove-ref-packed", under: packed, run: withRepo(func(e *c21env, r *git.Repository, w *git.Worktree, st *filesystem.Storage) error {
			return st.RemoveReference("refs/heads/dev")
		})},
		{name: "set-ref-cas", under: loose, run: withRepo(func(e *c21env, r *git.Repository, w *git.Worktree, st *filesystem.Storage) error {
			old, err := st.Reference("refs/heads/master")
			if err != nil {
				return err
			}
			dev, err := st.Reference("refs/heads/dev")
			if err != nil {
				return err
			}
			return st.CheckAndSetReference(plumbing.NewHashReference("refs/heads/master", dev.Hash()), old)
		})},
		{name: "set-config", under: loose, run: withRepo(func(e *c21env, r *git.Repository, w *git.Worktree, st *filesystem.Storage) error {
			cfg, err := r.Config()
			if err != nil {
				return err
			}
			cfg.User.Name = "somebody"
			cfg.Remotes["second"] = &config.RemoteConfig{Name: "second", URLs: []string{"file:///elsewhere"}}
			return r.SetConfig(cfg)
		})},
		{name: "set-index", under: loose, run: withRepo(func(e *c21env, r *git.Repository, w *git.Worktree, st *filesystem.Storage) error {
			idx, err := st.Index()
			if err != nil {
				return err
			}
			idx.Entries = append(idx.Entries, &index.Entry{Name: "zz", Hash: idx.Entries[0].Hash, Mode: filemode.Regular})
			return st.SetIndex(idx)
		})},
	}
}

// ---------------------------------------------------------------- one run

type c21run struct {
	root billy.Filesystem // un-hooked filesystem of the repository under test after the run
	ctl  *crashCtl
	err  error
	hung bool
}

func runOp(op c21op, under, peer *fsutil.Tree, stopAt, torn int) *c21run {
	base, err := under.Mem()
	must(err)
	return runOpOn(base, op, peer, stopAt, torn)
}

// runOpOn runs op on a prepared filesystem (memfs for the enumeration, a real directory for the comparison run).
func runOpOn(base billy.Filesystem, op c21op, peer *fsutil.Tree, stopAt, torn int) *c21run {
	var err error
	ctl := newCtl(base, stopAt, torn)
	e := &c21env{root: hookfs.New(base, ctl.hook), ctl: ctl}
	if peer != nil {
		e.peer, err = peer.Mem()
		must(err)
	}
	if op.name != "clone" { // the new files an operation needs in the worktree
		put(base, "n", "new file\n")
	}
	done := make(chan error, 1)
	go func() {
		defer func() {
			if p := recover(); p != nil {
				done <- fmt.Errorf("panic: %v", p)
			}
		}()
		done <- op.run(e)
	}()
	res := &c21run{root: base, ctl: ctl}
	deadline := time.Now().Add(60 * time.Second)
	var deadSince time.Time
wait:
	for {
		select {
		case res.err = <-done:
			break wait
		case <-time.After(5 * time.Millisecond):
		}
		now := time.Now()
		if ctl.isDead() {
			if deadSince.IsZero() {
				deadSince = now
			} else if now.Sub(deadSince) > 400*time.Millisecond {
				// the process is dead anyway; a caller that waits for ever on its peer is not C21's business
				res.hung = true
				res.err = errors.New("operation did not return after the crash point")
				break wait
			}
		}
		if now.After(deadline) {
			res.hung = true
			res.err = errors.New("operation did not return within 60s")
			break wait
		}
	}
	ctl.kill() // whatever is still running cannot touch the filesystem any more
	return res
}

// ---------------------------------------------------------------- projection of a directory to facts

type refFact struct {
	Name    string `json:"name"`
	St      string `json:"st"`  // ok | dangling | unresolved
	Val     string `json:"val"` // before | after | both | foreign
	Closure bool   `json:"closure"`
	Err     string `json:"err,omitempty"`
}

type gitFacts struct {
	Fsck    bool   `json:"fsck"`
	ShowRef bool   `json:"showref"`
	OldObjs bool   `json:"oldobjs"`
	Err     string `json:"err,omitempty"`
}

type stateFacts struct {
	ID         int       `json:"id"`
	Op         string    `json:"op"`
	K          int       `json:"k"`    // steps completed
	Torn       int       `json:"torn"` // bytes of step k+1 that reached the file (0 = none)
	After      string    `json:"after"`
	Next       string    `json:"next"`
	IsRepo     bool      `json:"isrepo"`    // before-state was a repository
	HeadFinal  bool      `json:"headfinal"` // HEAD holds its after-state value
	Opens      bool      `json:"opens"`
	Lists      bool      `json:"lists"`
	Refs       []refFact `json:"refs"`
	Lost       []string  `json:"lost"` // names present before and after, absent now
	OldClosure bool      `json:"oldclosure"`
	Index      bool      `json:"index"`
	Config     bool      `json:"config"`
	GitRun     bool      `json:"gitrun"`
	Git        gitFacts  `json:"git"`
	Err        string    `json:"err,omitempty"`
	OpErr      string    `json:"operr,omitempty"`
	Hung       bool      `json:"hung"`
}

type repoInfo struct {
	isRepo  bool
	refs    map[string]string          // name -> printed value
	closure map[plumbing.Hash]struct{} // objects reachable from all references
}

type walker struct {
	st   storage.Storer
	seen map[plumbing.Hash]error
}

// walk reads every object reachable from h completely; the first error is returned.
func (w *walker) walk(h plumbing.Hash, out map[plumbing.Hash]struct{}) error {
	if err, ok := w.seen[h]; ok {
		if out != nil && err == nil {
			// (re-adding the closure of a memoised object is not needed: out is only used on fresh walkers)
			out[h] = struct{}{}
		}
		return err
	}
	w.seen[h] = nil
	err := w.visit(h, out)
	w.seen[h] = err
	return err
}

func (w *walker) visit(h plumbing.Hash, out map[plumbing.Hash]struct{}) error {
	o, err := w.st.EncodedObject(plumbing.AnyObject, h)
	if err != nil {
		return fmt.Errorf("%s: %w", h.String()[:7], err)
	}
	if out != nil {
		out[h] = struct{}{}
	}
	switch o.Type() {
	case plumbing.CommitObject:
		c, err := object.DecodeCommit(w.st, o)
		if err != nil {
			return fmt.Errorf("commit %s: %w", h.String()[:7], err)
		}
		if err := w.walk(c.TreeHash, out); err != nil {
			return err
		}
		for _, p := range c.ParentHashes {
			if err := w.walk(p, out); err != nil {
				return err
			}
		}
	case plumbing.TreeObject:
		t, err := object.DecodeTree(w.st, o)
		if err != nil {
			return fmt.Errorf("tree %s: %w", h.String()[:7], err)
		}
		for _, e := range t.Entries {
			if e.Mode == filemode.Submodule {
				continue
			}
			if err := w.walk(e.Hash, out); err != nil {
				return err
			}
		}
	case plumbing.TagObject:
		t, err := object.DecodeTag(w.st, o)
		if err != nil {
			return fmt.Errorf("tag %s: %w", h.String()[:7], err)
		}
		return w.walk(t.Target, out)
	default:
		rd, err := o.Reader()
		if err != nil {
			return fmt.Errorf("blob %s: %w", h.String()[:7], err)
		}
		n, err := io.Copy(io.Discard, rd)
		rd.Close()
		if err != nil {
			return fmt.Errorf("blob %s: %w", h.String()[:7], err)
		}
		if n != o.Size() {
			return fmt.Errorf("blob %s: short content", h.String()[:7])
		}
	}
	return nil
}

func listRefs(r *git.Repository) (map[string]*plumbing.Reference, error) {
	it, err := r.References()
	if err != nil {
		return nil, err
	}
	out := map[string]*plumbing.Reference{}
	err = it.ForEach(func(ref *plumbing.Reference) error {
		out[ref.Name().String()] = ref
		return nil
	})
	return out, err
}

func refVal(ref *plumbing.Reference) string {
	if ref.Type() == plumbing.SymbolicReference {
		return "ref: " + ref.Target().String()
	}
	return ref.Hash().String()
}

// describe reads a complete (not crashed) repository state.
func describe(root billy.Filesystem) (*repoInfo, error) {
	info := &repoInfo{refs: map[string]string{}, closure: map[plumbing.Hash]struct{}{}}
	if _, err := root.Stat(".git/HEAD"); err != nil {
		return info, nil
	}
	r, st, err := openRepo(root)
	if err != nil {
		return nil, err
	}
	defer st.Close()
	info.isRepo = true
	refs, err := listRefs(r)
	if err != nil {
		return nil, err
	}
	w := &walker{st: st, seen: map[plumbing.Hash]error{}}
	for n, ref := range refs {
		info.refs[n] = refVal(ref)
		if ref.Type() == plumbing.HashReference {
			if err := w.walk(ref.Hash(), info.closure); err != nil {
				return nil, fmt.Errorf("reference %s: %w", n, err)
			}
		}
	}
	return info, nil
}

func short(err error) string {
	s := err.Error()
	if len(s) > 160 {
		s = s[:160]
	}
	return s
}

// project evaluates the observable facts of a crashed directory with go-git only.
func project(root billy.Filesystem, before, after *repoInfo) stateFacts {
	f := stateFacts{IsRepo: before.isRepo, Lost: []string{}, Refs: []refFact{}}
	r, st, err := openRepo(root)
	if err != nil {
		f.Err = "open: " + short(err)
		return f
	}
	defer st.Close()
	f.Opens = true
	if _, err := r.Config(); err == nil {
		f.Config = true
	} else {
		f.Err = "config: " + short(err)
	}
	if _, err := st.Index(); err == nil {
		f.Index = true
	} else {
		f.Err = "index: " + short(err)
	}
	w := &walker{st: st, seen: map[plumbing.Hash]error{}}
	f.OldClosure = true
	for h := range before.closure {
		if err := w.walk(h, nil); err != nil {
			f.OldClosure = false
			f.Err = "before-closure: " + short(err)
			break
		}
	}
	if h, err := st.Reference(plumbing.HEAD); err == nil && refVal(h) == after.refs["HEAD"] {
		f.HeadFinal = true
	}
	refs, err := listRefs(r)
	if err != nil {
		f.Err = "references: " + short(err)
		return f
	}
	f.Lists = true
	names := make([]string, 0, len(refs))
	for n := range refs {
		names = append(names, n)
	}
	sort.Strings(names)
	for _, n := range names {
		ref := refs[n]
		rf := refFact{Name: n, St: "ok", Closure: true}
		v := refVal(ref)
		b, inB := before.refs[n]
		a, inA := after.refs[n]
		switch {
		case inB && b == v && inA && a == v:
			rf.Val = "both"
		case inB && b == v:
			rf.Val = "before"
		case inA && a == v:
			rf.Val = "after"
		default:
			rf.Val = "foreign"
		}
		h := ref.Hash()
		if ref.Type() == plumbing.SymbolicReference {
			res, err := r.Reference(ref.Name(), true)
			switch {
			case err == nil:
				h = res.Hash()
			case errors.Is(err, plumbing.ErrReferenceNotFound):
				if _, present := refs[ref.Target().String()]; present {
					rf.St = "unresolved"
				} else {
					rf.St = "dangling"
				}
				rf.Err = short(err)
			default:
				rf.St = "unresolved"
				rf.Err = short(err)
			}
		}
		if rf.St == "ok" {
			if err := w.walk(h, nil); err != nil {
				rf.Closure = false
				rf.Err = short(err)
			}
		}
		f.Refs = append(f.Refs, rf)
	}
	for n := range before.refs {
		if _, a := after.refs[n]; !a {
			continue
		}
		if _, now := refs[n]; !now {
			f.Lost = append(f.Lost, n)
		}
	}
	sort.Strings(f.Lost)
	return f
}

func firstLine(s string) string {
	s = strings.TrimSpace(s)
	if i := strings.IndexByte(s, '\n'); i >= 0 {
		s = s[:i]
	}
	if len(s) > 160 {
		s = s[:160]
	}
	return s
}
