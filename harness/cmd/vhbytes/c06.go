package main

import (
	"bytes"
	"encoding/hex"
	"encoding/json"
	"fmt"
	"io"
	"math/rand"
	"os"
	"os/exec"
	"path/filepath"
	"sort"
	"strings"
	"sync"
	"sync/atomic"
	"time"

	"verifharness/internal/gitcli"
	"verifharness/internal/rep"

	"github.com/go-git/go-git/v6/plumbing"
	"github.com/go-git/go-git/v6/plumbing/format/packfile"
	"github.com/go-git/go-git/v6/storage/memory"
)

// C06: rows computed by spec/rules/Delta.tla (git's patch-delta.c transcribed) are replayed into
// go-git's delta appliers and into git.  The expected verdict / bytes are the spec's; this file only
// renders the row to bytes, calls the code and compares.

type deltaSeg struct {
	K     string `json:"k"`
	Off   int    `json:"off"`
	Len   int    `json:"len"`
	Bytes []int  `json:"bytes"`
}

type deltaRow struct {
	S     int        `json:"s"`
	D     []int      `json:"d"`
	Ok    bool       `json:"ok"`
	Why   string     `json:"why"`
	Segs  []deltaSeg `json:"segs"`
	Kinds []string   `json:"kinds"`
	T     int        `json:"t"`
	Out   []int      `json:"out"`
	Term  bool       `json:"term"`
	Order string     `json:"order"` // order of the copies: fwd | back | back-fwd (Delta.tla Order)
}

const deltaHuge = 1 << 30 // Delta.tla Huge (saturated header value)
const deltaSmallSrc = 300 // Delta.tla SmallSrc

func ints2bytes(a []int) []byte {
	b := make([]byte, len(a))
	for i, v := range a {
		b[i] = byte(v)
	}
	return b
}

// expected result bytes of an accepted row: the spec's `out` for small sources, the spec's segments
// sliced from the (spec-defined) source for large ones.
func (row *deltaRow) expected(src []byte) []byte {
	if row.S <= deltaSmallSrc {
		return ints2bytes(row.Out)
	}
	var out []byte
	for _, s := range row.Segs {
		if s.K == "copy" {
			out = append(out, src[s.Off:s.Off+s.Len]...)
		} else {
			out = append(out, ints2bytes(s.Bytes)...)
		}
	}
	return out
}

type applier struct {
	name string
	f    func(src, delta []byte) ([]byte, error)
}

func memBlob(content []byte) *plumbing.MemoryObject {
	o := &plumbing.MemoryObject{}
	o.SetType(plumbing.BlobObject)
	_, _ = o.Write(content)
	o.SetSize(int64(len(content)))
	return o
}

func applyPatchDelta(src, delta []byte) ([]byte, error) { return packfile.PatchDelta(src, delta) }

func applyApplyDelta(src, delta []byte) ([]byte, error) {
	target := &plumbing.MemoryObject{}
	target.SetType(plumbing.BlobObject)
	if err := packfile.ApplyDelta(target, memBlob(src), bytes.NewBuffer(append([]byte{}, delta...))); err != nil {
		return nil, err
	}
	r, err := target.Reader()
	if err != nil {
		return nil, err
	}
	defer r.Close()
	return io.ReadAll(r)
}

// chunkReader hands out at most n bytes per Read (the streaming applier must not depend on chunking).
type chunkReader struct {
	b []byte
	n int
}

func (c *chunkReader) Read(p []byte) (int, error) {
	if len(c.b) == 0 {
		return 0, io.EOF
	}
	n := c.n
	if n > len(p) {
		n = len(p)
	}
	if n > len(c.b) {
		n = len(c.b)
	}
	copy(p, c.b[:n])
	c.b = c.b[n:]
	return n, nil
}

func applyReaderFromDelta(chunk int) func(src, delta []byte) ([]byte, error) {
	return func(src, delta []byte) ([]byte, error) {
		var rd io.Reader = bytes.NewReader(delta)
		if chunk > 0 {
			rd = &chunkReader{b: delta, n: chunk}
		}
		rc, err := packfile.ReaderFromDelta(memBlob(src), rd)
		if err != nil {
			return nil, err
		}
		out, err := io.ReadAll(rc)
		_ = rc.Close()
		if err != nil {
			return nil, err // partial output + error is a rejection
		}
		return out, nil
	}
}

func deltaPack(src, delta []byte, ofs bool) []byte {
	base := blobEntryCached(src)
	if ofs {
		return buildPack([][]byte{base, ofsDeltaEntry(len(base), delta)})
	}
	return buildPack([][]byte{base, refDeltaEntry(blobHash(src), delta)})
}

// Parser with a memory storage: the delta is resolved by patchDeltaWriter; the result is the
// object in the storage that is not the base (or the base itself when the result equals it).
func applyParserStorage(ofs bool) func(src, delta []byte) ([]byte, error) {
	return func(src, delta []byte) ([]byte, error) {
		st := memory.NewStorage()
		p := packfile.NewParser(bytes.NewReader(deltaPack(src, delta, ofs)), packfile.WithStorage(st))
		if _, err := p.Parse(); err != nil {
			return nil, err
		}
		h := blobHash(src)
		var res []byte
		found := false
		n := 0
		for oh, o := range st.Objects {
			n++
			if oh.String() == hex.EncodeToString(h[:]) {
				continue
			}
			r, err := o.Reader()
			if err != nil {
				return nil, err
			}
			b, err := io.ReadAll(r)
			r.Close()
			if err != nil {
				return nil, err
			}
			if int64(len(b)) != o.Size() {
				return nil, fmt.Errorf("stored object size %d != content length %d", o.Size(), len(b))
			}
			if bhh := blobHash(b); o.Hash().String() != hex.EncodeToString(bhh[:]) {
				return nil, fmt.Errorf("stored object hash does not match its content")
			}
			res, found = b, true
		}
		if n > 2 {
			return nil, fmt.Errorf("parser stored %d objects for a 2-entry pack", n)
		}
		if !found {
			return append([]byte{}, src...), nil
		}
		return res, nil
	}
}

type hashObserver struct{ hashes []plumbing.Hash }

func (o *hashObserver) OnHeader(uint32) error                                      { return nil }
func (o *hashObserver) OnInflatedObjectHeader(plumbing.ObjectType, int64, int64) error { return nil }
func (o *hashObserver) OnInflatedObjectContent(h plumbing.Hash, _ int64, _ uint32, _ []byte) error {
	o.hashes = append(o.hashes, h)
	return nil
}
func (o *hashObserver) OnFooter(plumbing.Hash) error { return nil }

// parserHash: Parser without storage (everything cached in memory); observable = the hash it reports
// for the delta entry.  Returns the hash as 20 raw bytes.
func parserHash(src, delta []byte) ([]byte, error) {
	ob := &hashObserver{}
	p := packfile.NewParser(bytes.NewReader(deltaPack(src, delta, true)), packfile.WithScannerObservers(ob))
	if _, err := p.Parse(); err != nil {
		return nil, err
	}
	if len(ob.hashes) != 2 {
		return nil, fmt.Errorf("observer saw %d objects", len(ob.hashes))
	}
	return ob.hashes[1].Bytes(), nil
}

func safeApply(f func(src, delta []byte) ([]byte, error), src, delta []byte) (out []byte, err error, panicked string) {
	defer func() {
		if x := recover(); x != nil {
			panicked = fmt.Sprint(x)
		}
	}()
	out, err = f(src, delta)
	return
}

func hexs(b []byte) string {
	if len(b) > 48 {
		return hex.EncodeToString(b[:48]) + fmt.Sprintf("...(%d bytes)", len(b))
	}
	return hex.EncodeToString(b)
}

func srcClass(n int) string {
	switch {
	case n == 0:
		return "empty"
	case n <= deltaSmallSrc:
		return "small"
	}
	return "over64k"
}

func kindsKey(k []string) string {
	if len(k) == 0 {
		return "none"
	}
	return strings.Join(k, "+")
}

func loadSources(path string) (map[int][]byte, error) {
	srcs := map[int][]byte{}
	err := rep.ReadNDJSON(path, func(line []byte) error {
		var s struct {
			N     int   `json:"n"`
			Bytes []int `json:"bytes"`
		}
		if err := json.Unmarshal(line, &s); err != nil {
			return err
		}
		srcs[s.N] = ints2bytes(s.Bytes)
		return nil
	})
	return srcs, err
}

func init() {
	rep.Register("c06", c06)
	rep.Register("c06probe", c06probe)
}

type gitJob struct {
	row *deltaRow
	src []byte
	d   []byte
	exp []byte
}

// c06 sources.ndjson[,more] rows1.ndjson [rows2.ndjson ...]
func c06(args []string) error {
	if len(args) < 2 {
		return fmt.Errorf("usage: c06 sources.ndjson rows.ndjson...")
	}
	r := rep.New()
	rnd := rand.New(rand.NewSource(rep.Seed()))
	srcs := map[int][]byte{}
	for _, a := range strings.Split(args[0], ",") {
		m, err := loadSources(a)
		if err != nil {
			return err
		}
		for k, v := range m {
			srcs[k] = v
		}
	}
	appliers := []applier{
		{"PatchDelta", applyPatchDelta},
		{"ApplyDelta", applyApplyDelta},
		{"ReaderFromDelta", applyReaderFromDelta(0)},
		{"ReaderFromDelta", applyReaderFromDelta(1)},
		{"Parser", applyParserStorage(false)},
		{"Parser", applyParserStorage(true)},
		{"ParserNoStorage", parserHash},
	}
	distinct := map[string]bool{}
	var jobs []gitJob
	whyCount := map[string]int{}
	accepted := 0
	for _, path := range args[1:] {
		err := rep.ReadNDJSON(path, func(line []byte) error {
			row := &deltaRow{}
			if err := json.Unmarshal(line, row); err != nil {
				return err
			}
			src, ok := srcs[row.S]
			if !ok {
				return fmt.Errorf("no source of length %d", row.S)
			}
			delta := ints2bytes(row.D)
			key := fmt.Sprintf("%d|%x", row.S, delta)
			if distinct[key] {
				return nil
			}
			distinct[key] = true
			whyCount[row.Why]++
			var exp []byte
			if row.Ok {
				exp = row.expected(src)
				accepted++
			}
			jobs = append(jobs, gitJob{row, src, delta, exp})
			return nil
		})
		if err != nil {
			return err
		}
	}

	tPhase := time.Now()
	phase := func(name string) {
		r.Extra["wall_"+name+"_s"] = float64(time.Since(tPhase)/1e6) / 1e3
		tPhase = time.Now()
	}
	phase("load")
	// ---- go-git leg: rows are evaluated by a few workers, results are merged in row order (deterministic report)
	type div struct {
		sig, what string
		c         map[string]any
	}
	results := make([][]div, len(jobs))
	evals := make([]int, len(jobs))
	seed := uint64(rep.Seed())
	var wg sync.WaitGroup
	spent := make([]int64, len(appliers))
	const nw = 6
	for w := 0; w < nw; w++ {
		wg.Add(1)
		go func(w int) {
			defer wg.Done()
			for i := w; i < len(jobs); i += nw {
				j := &jobs[i]
				row, src, delta, exp := j.row, j.src, j.d, j.exp
				big := row.S > deltaSmallSrc
				// the pack-parser legs cost a zlib round trip of the source: for the 64 KiB source they run on every
				// accepted row and on a seeded quarter of the rejected ones in the quick tier
				pick := (uint64(i)*2654435761+seed*40503)%4 == 0
				for ai, ap := range appliers {
					if big && !rep.Thorough() && !pick && ((strings.HasPrefix(ap.name, "Parser") && !row.Ok) || ai == 3) {
						continue
					}
					t0 := time.Now()
					out, err, pan := safeApply(ap.f, src, delta)
					atomic.AddInt64(&spent[ai], int64(time.Since(t0)))
					evals[i]++
					c := map[string]any{"applier": ap.name, "src_len": row.S, "delta": hex.EncodeToString(delta), "spec_ok": row.Ok, "spec_why": row.Why,
						"kinds": row.Kinds, "order": row.Order, "hdr_terminated": row.Term}
					if ap.name == "ParserNoStorage" && row.Ok && err == nil && pan == "" {
						// judged by the object id the parser reports for the delta entry
						h := blobHash(exp)
						if !bytes.Equal(out, h[:]) {
							c["gogit_id"] = hex.EncodeToString(out)
							results[i] = append(results[i], div{ap.name + "|wrong-bytes|kinds=" + kindsKey(row.Kinds) + ",order=" + row.Order,
								fmt.Sprintf("Parser (no storage) reports id %x, the bytes git produces have id %x: src[%d] delta %x", out, h, row.S, delta), c})
						}
						continue
					}
					switch {
					case pan != "":
						c["panic"] = pan
						results[i] = append(results[i], div{ap.name + "|panics|" + row.Why, fmt.Sprintf("%s panics on src[%d] delta %x: %s", ap.name, row.S, delta, pan), c})
					case row.Ok && err != nil:
						if !row.Term {
							// git accepts a size header that runs to the end of the delta with the continuation bit set;
							// Delta.tla marks those rows (term = FALSE): an applier may reject them, never answer differently.
							continue
						}
						c["gogit_err"] = err.Error()
						results[i] = append(results[i], div{ap.name + "|rejects-valid|src=" + srcClass(row.S) + ",kinds=" + kindsKey(row.Kinds),
							fmt.Sprintf("%s rejects a delta git applies: src[%d] delta %x -> %v (spec/git: %s)", ap.name, row.S, delta, err, hexs(exp)), c})
					case !row.Ok && err == nil:
						c["gogit_out"] = hexs(out)
						results[i] = append(results[i], div{ap.name + "|accepts-rejected|" + row.Why,
							fmt.Sprintf("%s succeeds (nil error, %d bytes %s) on a delta git rejects (%s): src[%d] delta %x", ap.name, len(out), hexs(out), row.Why, row.S, delta), c})
					case row.Ok && !bytes.Equal(out, exp):
						c["gogit_out"] = hexs(out)
						c["spec_out"] = hexs(exp)
						results[i] = append(results[i], div{ap.name + "|wrong-bytes|kinds=" + kindsKey(row.Kinds) + ",order=" + row.Order,
							fmt.Sprintf("%s produces %s, spec/git %s: src[%d] delta %x", ap.name, hexs(out), hexs(exp), row.S, delta), c})
					}
				}
			}
		}(w)
	}
	wg.Wait()
	phase("gogit")
	for i := range jobs {
		r.Eval(evals[i])
		for _, d := range results[i] {
			r.Diverge(d.sig, d.what, d.c)
		}
		if jobs[i].row.Ok {
			r.Sample(map[string]any{"src_len": jobs[i].row.S, "delta": hex.EncodeToString(jobs[i].d), "spec": hexs(jobs[i].exp), "kinds": jobs[i].row.Kinds})
		}
	}
	r.Distinct = len(distinct)
	r.Extra["rows"] = len(distinct)
	tm := map[string]float64{}
	for ai, ap := range appliers {
		tm[ap.name] += float64(spent[ai]/1e6) / 1e3
	}
	r.Extra["applier_cpu_s"] = tm
	r.Extra["rows_accepted_by_spec"] = accepted
	r.Extra["spec_reject_reasons"] = whyCount

	// ---- git leg (spec vs git): a disagreement is a SPEC-ERROR, never a violation
	if gitcli.Available() {
		st, err := deltaGitLeg(r, jobs, rnd)
		if err != nil {
			return err
		}
		r.Extra["git_leg"] = st
		phase("git")
	} else {
		r.Extra["git_leg"] = "git not available"
	}
	return r.Emit()
}

// deltaGitLeg asks git about every row (three-way rule: spec vs git).
//
// Bulk: for each source one or more packs "base blob + one OFS_DELTA per row" are written together with a
// hand-made idx in which a row the spec accepts is listed under the object id of the bytes the spec computed
// and a row the spec rejects under a unique fake id.  One `git fsck` then unpacks every entry with
// patch_delta(): "cannot unpack <id>" = git rejects that row, "packed <id> ... is corrupt" = git produced
// bytes that do not hash to <id>, silence = git produced exactly the expected bytes.  (Rows with equal
// expected bytes go to different packs; a row whose result equals its source takes the base's id and the
// base is then listed under a fake id.)
// Singles: rows whose declared target size is >= 2^21 (git allocates the declared size before validating,
// a failed allocation would kill the batch) and a seeded sample of all rows are asked one process per row
// with `git index-pack --stdin` (+ cat-file), the interface named by the property.
type fsckPack struct {
	srcLen      int
	oids        [][20]byte
	entries     []func(int) []byte
	used        map[[20]byte]bool
	baseClaimed bool
	rows        map[[20]byte]*gitJob
}

func deltaGitLeg(r *rep.Report, jobs []gitJob, rnd *rand.Rand) (map[string]any, error) {
	dir := gitcli.TempDir("c06git")
	repo := filepath.Join(dir, "r.git")
	if err := gitcli.Init(repo, true); err != nil {
		return nil, err
	}
	var bulk, single []gitJob
	for _, j := range jobs {
		if j.row.T >= 1<<21 {
			single = append(single, j)
		} else {
			bulk = append(bulk, j)
		}
	}
	procs := 1
	packs := map[int][]*fsckPack{}
	var all []*fsckPack
	fake := uint32(0)
	nextFake := func() [20]byte {
		fake++
		var o [20]byte
		o[0], o[1], o[2], o[3] = 0xfa, 0xce, 0xfa, 0xce
		o[16], o[17], o[18], o[19] = byte(fake>>24), byte(fake>>16), byte(fake>>8), byte(fake)
		return o
	}
	const capPerPack = 20000
	for k := range bulk {
		j := &bulk[k]
		baseOid := blobHash(j.src)
		var oid [20]byte
		if j.row.Ok {
			oid = blobHash(j.exp)
		} else {
			oid = nextFake()
		}
		var dst *fsckPack
		for _, p := range packs[j.row.S] {
			if len(p.entries) >= capPerPack {
				continue
			}
			if oid == baseOid {
				if p.baseClaimed {
					continue
				}
				p.baseClaimed = true
				p.oids[0] = nextFake()
				dst = p
				break
			}
			if !p.used[oid] {
				dst = p
				break
			}
		}
		if dst == nil {
			base := blobEntryCached(j.src)
			dst = &fsckPack{srcLen: j.row.S, used: map[[20]byte]bool{baseOid: true}, rows: map[[20]byte]*gitJob{}}
			dst.oids = append(dst.oids, baseOid)
			dst.entries = append(dst.entries, func(int) []byte { return base })
			if oid == baseOid {
				dst.baseClaimed = true
				dst.oids[0] = nextFake()
			}
			packs[j.row.S] = append(packs[j.row.S], dst)
			all = append(all, dst)
		}
		dst.used[oid] = true
		dst.oids = append(dst.oids, oid)
		d := j.d
		dst.entries = append(dst.entries, func(off int) []byte { return ofsDeltaEntry(off-12, d) })
		dst.rows[oid] = j
	}
	t0 := time.Now()
	for i, p := range all {
		pack, idx := packWithIdx(p.oids, p.entries)
		name := filepath.Join(repo, "objects", "pack", fmt.Sprintf("pack-%040d", i))
		if err := os.WriteFile(name+".pack", pack, 0o644); err != nil {
			return nil, err
		}
		if err := os.WriteFile(name+".idx", idx, 0o644); err != nil {
			return nil, err
		}
	}
	tBuild := time.Since(t0)
	t0 = time.Now()
	_, stderr, _ := gitcli.Run(repo, nil, "fsck", "--no-dangling", "--no-reflogs", "--no-progress")
	tFsck := time.Since(t0)
	rejected := map[string]bool{}
	corrupt := map[string]bool{}
	for _, ln := range strings.Split(stderr, "\n") {
		ln = strings.TrimSpace(ln)
		f := strings.Fields(ln)
		switch {
		case ln == "" || strings.HasPrefix(ln, "notice:") || ln == "error: failed to apply delta" || ln == "error: delta replay has gone wild" ||
			ln == "error: unexpected delta opcode 0":
		case strings.HasPrefix(ln, "error: cannot unpack ") && len(f) > 3:
			rejected[f[3]] = true
		case strings.HasPrefix(ln, "error: packed ") && strings.HasSuffix(ln, "is corrupt") && len(f) > 2:
			corrupt[f[2]] = true
		default:
			return nil, fmt.Errorf("git fsck: unexpected message %q", ln)
		}
	}
	asked := 0
	for _, p := range all {
		for oid, j := range p.rows {
			asked++
			h := hex.EncodeToString(oid[:])
			gitOK := !rejected[h]
			switch {
			case gitOK != j.row.Ok:
				r.SpecError(map[string]any{"via": "fsck", "src_len": j.row.S, "delta": hex.EncodeToString(j.d), "spec_ok": j.row.Ok, "spec_why": j.row.Why,
					"spec_out": hexs(j.exp), "git_ok": gitOK})
			case j.row.Ok && corrupt[h]:
				r.SpecError(map[string]any{"via": "fsck", "src_len": j.row.S, "delta": hex.EncodeToString(j.d), "spec_ok": true,
					"spec_out": hexs(j.exp), "git": "applies the delta but to different bytes"})
			case !j.row.Ok && !rejected[h]:
				r.SpecError(map[string]any{"via": "fsck", "src_len": j.row.S, "delta": hex.EncodeToString(j.d), "spec_ok": false, "git": "not reported"})
			}
		}
	}
	if asked != len(bulk) {
		return nil, fmt.Errorf("git leg: %d of %d rows placed", asked, len(bulk))
	}
	packsN := len(all)
	cleanObjects(repo)

	// index-pack, one process per row: all saturated-size rows (capped) + a seeded sample of the others
	limit := 40
	if rep.Thorough() {
		limit = 600
	}
	rnd.Shuffle(len(single), func(a, b int) { single[a], single[b] = single[b], single[a] })
	if len(single) > limit {
		single = single[:limit]
	}
	nHuge := len(single)
	perm := rnd.Perm(len(bulk))
	for pass := 0; pass < 2; pass++ { // accepted rows first (they are few), then rejected ones
		for _, k := range perm {
			if len(single) >= nHuge+limit {
				break
			}
			if bytes.Equal(bulk[k].exp, bulk[k].src) && bulk[k].row.Ok {
				continue // index-pack refuses a pack holding the same object twice
			}
			if (pass == 0) == bulk[k].row.Ok && (pass == 1 || rnd.Intn(3) == 0) {
				single = append(single, bulk[k])
			}
		}
	}
	t0 = time.Now()
	oks, idxs, err := gitIndexPackMany(dir, repo, single)
	if err != nil {
		return nil, err
	}
	procs += len(single) + 1
	for k, j := range single {
		ok := oks[k]
		good := ok == j.row.Ok
		if good && ok {
			h := blobHash(j.exp)
			good = bytes.Contains(idxs[k], h[:]) // the idx git wrote lists the object the spec expects
		}
		if !good {
			r.SpecError(map[string]any{"via": "index-pack", "src_len": j.row.S, "delta": hex.EncodeToString(j.d), "spec_ok": j.row.Ok, "spec_why": j.row.Why,
				"spec_out": hexs(j.exp), "git_ok": ok})
		}
	}
	tSingle := time.Since(t0)
	return map[string]any{"fsck_rows": len(bulk), "fsck_packs": packsN, "index_pack_rows": len(single), "declared_size_over_2^21_rows": nHuge, "git_processes": procs,
		"pack_build_s": tBuild.Seconds(), "fsck_s": tFsck.Seconds(), "index_pack_s": tSingle.Seconds()}, nil
}

func cleanObjects(repo string) {
	ents, _ := os.ReadDir(filepath.Join(repo, "objects"))
	for _, e := range ents {
		if len(e.Name()) == 2 {
			_ = os.RemoveAll(filepath.Join(repo, "objects", e.Name()))
		}
	}
	packs, _ := filepath.Glob(filepath.Join(repo, "objects", "pack", "*"))
	for _, p := range packs {
		_ = os.Remove(p)
	}
}

func looseObjects(repo string) []string {
	var out []string
	ents, _ := os.ReadDir(filepath.Join(repo, "objects"))
	for _, e := range ents {
		if len(e.Name()) != 2 {
			continue
		}
		fs, _ := os.ReadDir(filepath.Join(repo, "objects", e.Name()))
		for _, f := range fs {
			out = append(out, e.Name()+f.Name())
		}
	}
	sort.Strings(out)
	return out
}

// gitIndexPackMany runs `git index-pack -o k.idx k.pack` for every job from one small shell process (forking
// from the Go process is slow here) and returns per job: exit status ok, and the idx git wrote.
func gitIndexPackMany(dir, repo string, js []gitJob) ([]bool, [][]byte, error) {
	d := filepath.Join(dir, "single")
	if err := os.MkdirAll(d, 0o755); err != nil {
		return nil, nil, err
	}
	for k, j := range js {
		base := blobEntryCached(j.src)
		pack := buildPack([][]byte{base, ofsDeltaEntry(len(base), j.d)})
		if err := os.WriteFile(filepath.Join(d, fmt.Sprintf("%d.pack", k)), pack, 0o644); err != nil {
			return nil, nil, err
		}
	}
	script := fmt.Sprintf(`i=0; while [ $i -lt %d ]; do if git -c core.fsync=none index-pack -o %s/$i.idx %s/$i.pack >/dev/null 2>%s/$i.err; then echo "$i 1"; else echo "$i 0"; fi; i=$((i+1)); done`, len(js), d, d, d)
	c := exec.Command("sh", "-c", script)
	c.Dir = repo
	c.Env = gitcli.Env()
	outb, err := c.Output()
	if err != nil {
		return nil, nil, fmt.Errorf("index-pack loop: %v", err)
	}
	oks := make([]bool, len(js))
	idxs := make([][]byte, len(js))
	seen := 0
	for _, ln := range strings.Split(string(outb), "\n") {
		var k, v int
		if n, _ := fmt.Sscanf(ln, "%d %d", &k, &v); n != 2 {
			continue
		}
		seen++
		oks[k] = v == 1
		if v == 1 {
			idxs[k], _ = os.ReadFile(filepath.Join(d, fmt.Sprintf("%d.idx", k)))
		} else {
			e, _ := os.ReadFile(filepath.Join(d, fmt.Sprintf("%d.err", k)))
			if !strings.Contains(string(e), "failed to apply delta") && !strings.Contains(strings.ToLower(string(e)), "out of memory") {
				return nil, nil, fmt.Errorf("git index-pack failed for another reason than the delta: %s", e)
			}
		}
	}
	if seen != len(js) {
		return nil, nil, fmt.Errorf("index-pack loop: %d results for %d jobs", seen, len(js))
	}
	_ = os.RemoveAll(d)
	return oks, idxs, nil
}

func gitIndexPack(repo string, j gitJob) (bool, []byte, error) {
	cleanObjects(repo)
	base := blobEntryCached(j.src)
	pack := buildPack([][]byte{base, ofsDeltaEntry(len(base), j.d)})
	_, stderr, err := gitcli.Run(repo, pack, "-c", "core.fsync=none", "index-pack", "--stdin")
	return err == nil, []byte(stderr), nil
}

// c06probe <srclen|hex:..> <deltahex>: prints what every applier and git do (hand reproduction aid).
func c06probe(args []string) error {
	if len(args) < 2 {
		return fmt.Errorf("usage: c06probe <src hex> <delta hex>")
	}
	src, err := hex.DecodeString(args[0])
	if err != nil {
		return err
	}
	delta, err := hex.DecodeString(args[1])
	if err != nil {
		return err
	}
	for _, ap := range []applier{{"PatchDelta", applyPatchDelta}, {"ApplyDelta", applyApplyDelta}, {"ReaderFromDelta", applyReaderFromDelta(0)},
		{"Parser(ref)", applyParserStorage(false)}, {"Parser(ofs)", applyParserStorage(true)}, {"ParserNoStorage(id)", parserHash}} {
		out, err, pan := safeApply(ap.f, src, delta)
		fmt.Printf("%-22s out=%q err=%v panic=%q\n", ap.name, out, err, pan)
	}
	dir := gitcli.TempDir("c06probe")
	repo := filepath.Join(dir, "r.git")
	if err := gitcli.Init(repo, true); err != nil {
		return err
	}
	pack := buildPack([][]byte{blobEntry(src), refDeltaEntry(blobHash(src), delta)})
	_, stderr, err := gitcli.Run(repo, pack, "-c", "core.fsync=none", "index-pack", "--stdin")
	fmt.Printf("git index-pack: err=%v stderr=%q\n", err, stderr)
	if err == nil {
		out, _, _ := gitcli.Run(repo, nil, "cat-file", "--batch-all-objects", "--batch")
		fmt.Printf("git objects:\n%q\n", out)
	}
	fmt.Println("{}")
	return nil
}
