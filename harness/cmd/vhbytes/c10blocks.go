package main

import (
	"bytes"
	"crypto"
	"encoding/binary"
	"encoding/json"
	"fmt"
	"io"
	"os"
	"path/filepath"
	"strings"

	"verifharness/internal/gitcli"
	"verifharness/internal/rep"

	"github.com/go-git/go-billy/v6/osfs"
	"github.com/go-git/go-git/v6/plumbing"
	"github.com/go-git/go-git/v6/plumbing/format/idxfile"
	"github.com/go-git/go-git/v6/plumbing/format/revfile"
	ghash "github.com/go-git/go-git/v6/plumbing/hash"
	"github.com/go-git/go-git/v6/storage/filesystem/mmap"
	"github.com/go-git/go-git/v6/x/fdpool"
)

// C10, size class "several read blocks with a partial last block" (spec/abstract/IdxBlocks.tla): a layout names the
// number of entries and, by block position, which entries have a 64-bit offset; TLC computes the map's answers
// (count, set of big entries, by-offset order).  The harness renders entry p to (id, offset, crc) with fixed
// formulas, writes the index with go-git's Writer/Encode (+ revfile.Encode) and asks every implementation -- and
// `git show-index` as an independent reader of the written file -- for the whole map.

type blkHist struct {
	Lay struct {
		B     int    `json:"b"`
		K     int    `json:"k"`
		R     int    `json:"r"`
		Place string `json:"place"`
	} `json:"lay"`
	A struct {
		N     int   `json:"n"`
		Big   []int `json:"big"`
		ByOff []int `json:"byoff"`
		N64   int   `json:"n64"`
	} `json:"a"`
}

// rendering of entry p of an n-entry layout
func blkID(p, n int) plumbing.Hash {
	b := make([]byte, 20)
	spread := uint64(1<<32) / uint64(n+1)
	binary.BigEndian.PutUint32(b, uint32(uint64(p+1)*spread-1)) // increasing in p, reaches every fanout bucket
	for i := 4; i < 20; i++ {
		b[i] = byte(p*7 + i)
	}
	h, _ := plumbing.FromBytes(b)
	return h
}

func blkOff(p int, big bool) uint64 {
	if big {
		return 1<<31 + 262144*uint64(p-1) // exactly 2^31 for p = 1, beyond 2^32 from p = 8193 on
	}
	return 12 + 64*uint64(p)
}

func blkCRC(p int) uint32 { return uint32(uint64(p+1) * 2654435761) }

func (h *blkHist) key() string {
	rc := "mid"
	switch {
	case h.Lay.R == 0:
		rc = "0"
	case h.Lay.R == 1:
		rc = "1"
	case h.Lay.R == h.Lay.B-1:
		rc = "b-1"
	}
	return fmt.Sprintf("blocks:b=%d,k=%d,r=%s,place=%s", h.Lay.B, h.Lay.K, rc, h.Lay.Place)
}

func init() { rep.Register("c10blocks", c10blocks) }

type openedIdx struct {
	name string
	ix   idxfile.Index
	sc   *mmap.PackScanner
	cl   func()
}

func c10blocks(args []string) error {
	if len(args) < 1 {
		return fmt.Errorf("usage: c10blocks hist.ndjson")
	}
	r := rep.New()
	dir, err := os.MkdirTemp(rep.Scratch(), "c10b")
	if err != nil {
		return err
	}
	gitOK := gitcli.Available()
	nlay, gitAsked := 0, 0
	err = rep.ReadNDJSON(args[0], func(line []byte) error {
		h := &blkHist{}
		if err := json.Unmarshal(line, h); err != nil {
			return err
		}
		nlay++
		n := h.A.N
		big := make([]bool, n)
		for _, p := range h.A.Big {
			big[p] = true
		}
		key := h.key()
		// ---- write
		w := new(idxfile.Writer)
		_ = w.OnHeader(uint32(n))
		for p := n - 1; p >= 0; p-- { // insertion order must not matter
			w.Add(blkID(p, n), blkOff(p, big[p]), blkCRC(p))
		}
		_ = w.OnFooter(packHashC10)
		mi, err := w.Index()
		if err != nil {
			r.Diverge("Writer|Index|error|"+key, "idxfile.Writer.Index: "+err.Error(), h.Lay)
			return nil
		}
		var ib, rb bytes.Buffer
		if err := idxfile.Encode(&ib, ghash.New(crypto.SHA1), mi); err != nil {
			r.Diverge("Encode|idx|error|"+key, "idxfile.Encode: "+err.Error(), h.Lay)
			return nil
		}
		if err := revfile.Encode(&rb, ghash.New(crypto.SHA1), mi); err != nil {
			r.Diverge("Encode|rev|error|"+key, "revfile.Encode: "+err.Error(), h.Lay)
			return nil
		}
		idxb, revb := ib.Bytes(), rb.Bytes()
		// ---- open everywhere
		ops := []openedIdx{{name: "MemoryIndex(written)", ix: mi, cl: func() {}}}
		fail := func(name string, err error) {
			r.Diverge(name+"|open|error|"+key, fmt.Sprintf("%s rejects the index go-git wrote for %d entries (%d with 64-bit offsets, %s): %v", name, n, h.A.N64, key, err), h.Lay)
		}
		dec := idxfile.NewMemoryIndex(20)
		if err := idxfile.NewDecoder(memInput{bytes.NewReader(idxb), int64(len(idxb))}, ghash.New(crypto.SHA1)).Decode(dec); err != nil {
			fail("MemoryIndex", err)
		} else {
			ops = append(ops, openedIdx{name: "MemoryIndex", ix: dec, cl: func() {}})
		}
		for _, pool := range []*fdpool.Pool{nil, fdpool.New(1)} {
			li, err := idxfile.NewLazyIndexWithPool(
				func() (idxfile.ReadAtCloser, error) { return memRA{bytes.NewReader(idxb)}, nil },
				func() (idxfile.ReadAtCloser, error) { return memRA{bytes.NewReader(revb)}, nil }, packHashC10, pool)
			if err != nil {
				fail("LazyIndex", err)
				continue
			}
			ops = append(ops, openedIdx{name: "LazyIndex", ix: li, cl: func() { _ = li.Close() }})
		}
		for nm, b := range map[string][]byte{"p.idx": idxb, "p.rev": revb, "p.pack": dummyPack()} {
			if err := os.WriteFile(filepath.Join(dir, nm), b, 0o644); err != nil {
				return err
			}
		}
		bfs := osfs.New(dir)
		pf, e1 := bfs.Open("p.pack")
		xf, e2 := bfs.Open("p.idx")
		rf, e3 := bfs.Open("p.rev")
		if e1 != nil || e2 != nil || e3 != nil {
			return fmt.Errorf("open scratch files: %v %v %v", e1, e2, e3)
		}
		sc, err := mmap.NewPackScanner(20, pf, xf, rf)
		clf := func() { _ = pf.Close(); _ = xf.Close(); _ = rf.Close() }
		if err != nil {
			clf()
			fail("PackScanner", err)
		} else {
			ops = append(ops, openedIdx{name: "PackScanner", sc: sc, cl: func() { _ = sc.Close(); clf() }})
		}
		// ---- the same questions for every implementation
		for _, o := range ops {
			bad := map[string]bool{}
			div := func(q, what string) {
				if bad[q] {
					return // one case per query kind, implementation and layout
				}
				bad[q] = true
				r.Diverge(o.name+"|"+q+"|"+key, fmt.Sprintf("%s on %d entries (%s): %s", o.name, n, key, what), map[string]any{"layout": h.Lay, "n": n, "n64": h.A.N64})
			}
			func() {
				defer func() {
					if x := recover(); x != nil {
						div("panic", fmt.Sprint(x))
					}
				}()
				for p := 0; p < n; p++ {
					id, off := blkID(p, n), blkOff(p, big[p])
					cls := "small"
					if big[p] {
						cls = "big"
					}
					r.Eval(2)
					if o.sc != nil {
						if g, err := o.sc.FindOffset(id); err != nil || g != off {
							div("FindOffset|"+cls, fmt.Sprintf("entry %d: got %d, %v; map says %d", p, g, err, off))
						}
						if g, err := o.sc.FindHash(off); err != nil || g.Compare(id.Bytes()) != 0 {
							div("FindHash|"+cls, fmt.Sprintf("offset %d of entry %d: got %s, %v", off, p, g, err))
						}
						continue
					}
					r.Eval(3)
					if ok, err := o.ix.Contains(id); err != nil || !ok {
						div("Contains|present", fmt.Sprintf("entry %d: %v, %v", p, ok, err))
					}
					if !o.ix.MayContain(id) {
						div("MayContain|unsound", fmt.Sprintf("entry %d is present but MayContain is false", p))
					}
					if g, err := o.ix.FindOffset(id); err != nil || uint64(g) != off {
						div("FindOffset|"+cls, fmt.Sprintf("entry %d: got %d, %v; map says %d", p, g, err, off))
					}
					if g, err := o.ix.FindCRC32(id); err != nil || g != blkCRC(p) {
						div("FindCRC32|"+cls, fmt.Sprintf("entry %d: got %08x, %v; map says %08x", p, g, err, blkCRC(p)))
					}
					if g, err := o.ix.FindHash(int64(off)); err != nil || g.Compare(id.Bytes()) != 0 {
						div("FindHash|"+cls, fmt.Sprintf("offset %d of entry %d: got %s, %v", off, p, g, err))
					}
					if p%97 == 0 { // ids and offsets between the entries are absent
						ab := id.Bytes()
						ab[19] ^= 0x80
						aid, _ := plumbing.FromBytes(ab)
						if ok, err := o.ix.Contains(aid); err != nil || ok {
							div("Contains|absent", fmt.Sprintf("neighbour of entry %d: %v, %v", p, ok, err))
						}
						if _, err := o.ix.FindHash(int64(off + 1)); err == nil {
							div("FindHash|absent", fmt.Sprintf("offset %d (no entry) answered", off+1))
						}
					}
				}
				if o.sc != nil {
					return
				}
				if c, err := o.ix.Count(); err != nil || int(c) != n {
					div("Count", fmt.Sprintf("got %d, %v", c, err))
				}
				order := func(q string, it idxfile.EntryIter, err error, want func(i int) int) {
					if err != nil {
						div(q, "iterator: "+err.Error())
						return
					}
					defer it.Close()
					for i := 0; ; i++ {
						e, err := it.Next()
						if err == io.EOF {
							if i != n {
								div(q, fmt.Sprintf("iteration ends after %d of %d entries", i, n))
							}
							return
						}
						if err != nil {
							div(q, fmt.Sprintf("entry #%d: %v", i, err))
							return
						}
						if i >= n {
							div(q, "more entries than the map has")
							return
						}
						p := want(i)
						if e.Hash.Compare(blkID(p, n).Bytes()) != 0 || e.Offset != blkOff(p, big[p]) || e.CRC32 != blkCRC(p) {
							div(q, fmt.Sprintf("position %d: got %s@%d, map says entry %d = %s@%d", i, e.Hash, e.Offset, p, blkID(p, n), blkOff(p, big[p])))
							return
						}
					}
				}
				r.Eval(2)
				it, err := o.ix.Entries()
				order("Entries", it, err, func(i int) int { return i })
				it, err = o.ix.EntriesByOffset()
				order("EntriesByOffset", it, err, func(i int) int { return h.A.ByOff[i] })
			}()
			o.cl()
		}
		// ---- git reads the file go-git wrote (no pack needed): `git show-index` lists offset, id, crc in id order
		if gitOK && (nlay%3 == int(rep.Seed())%3 || rep.Thorough()) {
			gitAsked++
			out, stderr, err := gitcli.Run(dir, idxb, "show-index")
			r.Eval(1)
			if err != nil {
				r.Diverge("git-show-index|open|error|"+key, "git show-index rejects the idx go-git wrote: "+strings.TrimSpace(stderr), h.Lay)
			} else {
				lines := strings.Split(strings.TrimSpace(out), "\n")
				if n == 0 && strings.TrimSpace(out) == "" {
					lines = nil
				}
				ok := len(lines) == n
				for p := 0; ok && p < n; p++ {
					want := fmt.Sprintf("%d %s (%08x)", blkOff(p, big[p]), blkID(p, n), blkCRC(p))
					if lines[p] != want {
						ok = false
						r.Diverge("git-show-index|Entries|"+key, fmt.Sprintf("git reads entry %d of the written idx as %q, the map says %q", p, lines[p], want), h.Lay)
					}
				}
				if len(lines) != n {
					r.Diverge("git-show-index|Count|"+key, fmt.Sprintf("git lists %d entries, the map has %d", len(lines), n), h.Lay)
				}
			}
		}
		if len(r.Samples) < 3 {
			r.Sample(map[string]any{"layout": h.Lay, "entries": n, "big": h.A.N64, "idx_bytes": len(idxb), "implementations": len(ops)})
		}
		return nil
	})
	if err != nil {
		return err
	}
	r.Distinct = nlay
	r.Traces = nlay
	r.Extra["block_layouts"] = nlay
	r.Extra["block_layouts_read_by_git"] = gitAsked
	return r.Emit()
}
