package main

import (
	"bufio"
	"bytes"
	"encoding/json"
	"errors"
	"fmt"
	"io"
	"math/rand"
	"sort"
	"strings"

	"verifharness/internal/rep"

	"github.com/go-git/go-git/v6/plumbing/format/pktline"
	"github.com/go-git/go-git/v6/plumbing/protocol/packp/sideband"
)

// C34: behaviours of spec/abstract/PktStream.tla and Sideband.tla are replayed into go-git's pktline and
// sideband packages.  The expected observation of every reader call is the one TLC wrote into the history;
// this file renders packet kinds to bytes, turns the deliveries of the behaviour into cut points of the byte
// stream, runs the calls and projects Go results back to the spec's observation classes.

// cutReader never returns bytes across a cut point in one Read (and at most `max` bytes if max > 0).
type cutReader struct {
	b    []byte
	pos  int
	cuts []int // sorted absolute positions
	max  int
}

func (c *cutReader) Read(p []byte) (int, error) {
	if c.pos >= len(c.b) {
		return 0, io.EOF
	}
	if len(p) == 0 {
		return 0, nil
	}
	end := len(c.b)
	i := sort.SearchInts(c.cuts, c.pos+1)
	if i < len(c.cuts) && c.cuts[i] < end {
		end = c.cuts[i]
	}
	n := end - c.pos
	if n > len(p) {
		n = len(p)
	}
	if c.max > 0 && n > c.max {
		n = c.max
	}
	copy(p, c.b[c.pos:c.pos+n])
	c.pos += n
	return n, nil
}

type pktEvent struct {
	E  string `json:"e"`
	K  string `json:"k"`
	Op string `json:"op"`
	N  int    `json:"n"`
	X  *struct {
		R        string `json:"r"`
		Pay      string `json:"pay"`
		Consumed bool   `json:"consumed"`
	} `json:"x"`
}

var midSizes = func() []int {
	var v []int
	for _, b := range []int{256, 512, 1024, 2048, 4096, 8192, 16384, 32768} {
		for d := -6; d <= 2; d++ {
			v = append(v, b+d)
		}
	}
	return append(v, 3, 4, 5, 100, 996, 1000, 65000, 65510, 65514)
}()

func payloadOf(kind string, rnd *rand.Rand) []byte {
	n := map[string]int{"d0": 0, "d1": 1, "d2": 2, "dM1": pktline.MaxPayloadSize - 1, "dM": pktline.MaxPayloadSize}[kind]
	if kind == "err" {
		return []byte("ERR x\n")
	}
	// the class "dM1" (a data packet of at least 3 bytes that is not the maximum) is rendered as
	// max-1 half of the time and otherwise as one of many sizes around buffer-like boundaries, so
	// that size-dependent paths of the writer and reader (coalescing buffers, 1 KiB / 4 KiB / 32 KiB
	// chunking) are exercised by the same behaviours
	if kind == "dM1" && rnd.Intn(2) == 0 {
		n = midSizes[rnd.Intn(len(midSizes))]
	}
	b := make([]byte, n)
	for i := range b {
		b[i] = byte('a' + rnd.Intn(26))
	}
	return b
}

// render a packet: wire bytes, widths (in bytes) of its header and body units, payload as a reader must see it
func renderPkt(kind string, rnd *rand.Rand) (wire []byte, hdrUnits, bodyUnits []int, payload []byte, err error) {
	var buf bytes.Buffer
	hdrUnits = []int{1, 1, 1, 1}
	switch kind {
	case "d0", "d1", "d2", "dM1", "dM", "err":
		payload = payloadOf(kind, rnd)
		_, err = pktline.Write(&buf, payload)
	case "flush":
		err = pktline.WriteFlush(&buf)
	case "delim":
		err = pktline.WriteDelim(&buf)
	case "rend":
		err = pktline.WriteResponseEnd(&buf)
	case "b0003":
		buf.WriteString("0003")
	case "bzzzz":
		buf.WriteString("zzzz")
	case "bfff1":
		buf.WriteString("fff1")
	case "tb":
		buf.WriteString("0006x")
	case "th":
		buf.WriteString("00")
		hdrUnits = []int{1, 1}
	default:
		err = fmt.Errorf("unknown packet kind %q", kind)
	}
	wire = buf.Bytes()
	body := len(wire) - 4
	switch {
	case kind == "th":
	case body <= 2:
		for i := 0; i < body; i++ {
			bodyUnits = append(bodyUnits, 1)
		}
	default:
		bodyUnits = []int{1, body - 2, 1}
	}
	return
}

func classify(l int, err error) string {
	var el *pktline.ErrorLine
	switch {
	case errors.As(err, &el):
		return "errline"
	case errors.Is(err, pktline.ErrInvalidPktLen):
		return "invalid-length"
	case errors.Is(err, io.ErrUnexpectedEOF):
		return "unexpected-eof"
	case errors.Is(err, io.EOF):
		return "eof"
	case err != nil:
		return "other-error:" + err.Error()
	case l == pktline.Flush:
		return "flush"
	case l == pktline.Delim:
		return "delim"
	case l == pktline.ResponseEnd:
		return "rend"
	case l >= pktline.LenSize:
		return "data"
	}
	return fmt.Sprintf("length:%d", l)
}

func init() {
	rep.Register("c34pkt", c34pkt)
	rep.Register("c34sb", c34sb)
}

// c34pkt hist.ndjson : each line {"h":[events...]}
func c34pkt(args []string) error {
	if len(args) < 1 {
		return fmt.Errorf("usage: c34pkt hist.ndjson")
	}
	r := rep.New()
	rnd := rand.New(rand.NewSource(rep.Seed()))
	distinct := map[string]bool{}
	err := rep.ReadNDJSON(args[0], func(line []byte) error {
		var hh struct {
			H []pktEvent `json:"h"`
		}
		if err := json.Unmarshal(line, &hh); err != nil {
			return err
		}
		if distinct[string(line)] {
			return nil
		}
		distinct[string(line)] = true
		return replayPkt(r, rnd, hh.H)
	})
	if err != nil {
		return err
	}
	r.Distinct = len(distinct)
	r.Traces = len(distinct)
	return r.Emit()
}

type renderedPkt struct {
	kind      string
	wire      []byte
	hdr, body []int
	payload   []byte
	start     int
}

func replayPkt(r *rep.Report, rnd *rand.Rand, h []pktEvent) error {
	// 1. the byte stream: every "w" event, written with go-git's writer
	var pkts []renderedPkt
	var stream []byte
	for _, e := range h {
		if e.E != "w" {
			continue
		}
		w, hu, bu, pay, err := renderPkt(e.K, rnd)
		if err != nil {
			return err
		}
		pkts = append(pkts, renderedPkt{e.K, w, hu, bu, pay, len(stream)})
		stream = append(stream, w...)
	}
	// 2. cut points from the deliveries: the reader automaton of the spec is at packet `head`; a "call" starts at
	// the packet start, "c" events advance unit by unit, "r" completes (and moves on if the packet was consumed)
	var cuts []int
	head, unit := 0, 0
	usePeek := false
	for _, e := range h {
		switch e.E {
		case "call":
			unit = 0
			if e.Op == "peek" {
				usePeek = true
			}
		case "c":
			if head >= len(pkts) {
				return fmt.Errorf("delivery without a packet")
			}
			p := pkts[head]
			units := append(append([]int{}, p.hdr...), p.body...)
			off := 0
			for i := 0; i < unit+e.N && i < len(units); i++ {
				off += units[i]
			}
			unit += e.N
			cuts = append(cuts, p.start+off)
			// the bulk unit of a long payload gets an extra seeded cut inside
			if len(p.body) == 3 && unit > len(p.hdr)+1 && rnd.Intn(2) == 0 {
				cuts = append(cuts, p.start+4+1+rnd.Intn(p.body[1]))
			}
		case "r":
			if e.Op == "peek" {
				usePeek = true
			}
			if e.X != nil && e.X.Consumed && head < len(pkts) {
				head++
			}
			unit = 0
		}
	}
	sort.Ints(cuts)
	cr := &cutReader{b: stream, cuts: cuts}
	var rd io.Reader = cr
	var br *bufio.Reader
	if usePeek {
		br = bufio.NewReaderSize(cr, pktline.MaxSize+16)
		rd = br
	}
	sc := pktline.NewScanner(rd)
	// 3. the reader calls
	head = 0
	step := 0
	var kinds []string
	for _, p := range pkts {
		kinds = append(kinds, p.kind)
	}
	for _, e := range h {
		if e.E != "r" {
			continue
		}
		step++
		var want []byte
		kind := "eof"
		if head < len(pkts) {
			kind = pkts[head].kind
			want = pkts[head].payload
		}
		if kind != e.K {
			return fmt.Errorf("replay lost track: spec reads %s, harness is at %s", e.K, kind)
		}
		var got string
		var pay []byte
		func() {
			defer func() {
				if x := recover(); x != nil {
					got = fmt.Sprintf("panic:%v", x)
				}
			}()
			switch e.Op {
			case "read_full", "read_exact", "read_short", "read_tiny":
				sz := pktline.MaxSize
				switch e.Op {
				case "read_exact":
					sz = 4 + len(want)
				case "read_short":
					sz = 4 + len(want) - 1
					if sz < 4 {
						sz = 4
					}
				case "read_tiny":
					sz = 3
				}
				buf := make([]byte, sz)
				l, err := pktline.Read(rd, buf)
				got = classify(l, err)
				if l >= pktline.LenSize && l <= len(buf) {
					pay = buf[pktline.LenSize:l]
				}
			case "readline":
				l, p, err := pktline.ReadLine(rd)
				got = classify(l, err)
				pay = p
			case "scan":
				ok := sc.Scan()
				if ok {
					got = classify(sc.Len(), nil)
				} else if sc.Err() == nil {
					got = "eof"
				} else {
					got = classify(sc.Len(), sc.Err())
				}
				pay = sc.Bytes()
			case "peek":
				l, p, err := pktline.PeekLine(br)
				got = classify(l, err)
				pay = p
			default:
				got = "unknown-op"
			}
		}()
		r.Eval(1)
		x := e.X
		bad := ""
		if got != x.R {
			bad = "result"
		} else if (x.R == "data" || x.R == "errline") && !bytes.Equal(pay, want) {
			bad = "payload"
		}
		if bad != "" {
			c := map[string]any{"packets": kinds, "cuts": cuts, "step": step, "op": e.Op, "packet": e.K, "spec": x.R, "gogit": got,
				"payload_len_spec": len(want), "payload_len_gogit": len(pay)}
			r.Diverge(fmt.Sprintf("pktline.%s|%s:%s->%s|packet=%s", e.Op, bad, x.R, strings.SplitN(got, ":", 2)[0], e.K),
				fmt.Sprintf("%s on packet %s (stream %v, step %d): spec %s, go-git %s (payload %d vs %d bytes)", e.Op, e.K, kinds, step, x.R, got, len(want), len(pay)), c)
			return nil // the rest of the behaviour is out of sync
		}
		if x.Consumed && head < len(pkts) {
			head++
		}
	}
	if len(r.Samples) < 3 {
		r.Sample(map[string]any{"packets": kinds, "cuts": cuts, "reader_calls": step})
	}
	return nil
}

// ---------------------------------------------------------------------------- sideband

type sbHist struct {
	Piece  int `json:"piece"`
	Writes []struct {
		Ch int `json:"ch"`
		N  int `json:"n"`
	} `json:"writes"`
	Flush bool `json:"flush"`
	Reads []struct {
		B  int    `json:"b"`
		N  int    `json:"n"`
		St string `json:"st"`
	} `json:"reads"`
	Data   int    `json:"data"`
	Prog   int    `json:"prog"`
	Ending string `json:"ending"`
}

func c34sb(args []string) error {
	if len(args) < 1 {
		return fmt.Errorf("usage: c34sb hist.ndjson")
	}
	r := rep.New()
	rnd := rand.New(rand.NewSource(rep.Seed()))
	distinct := map[string]bool{}
	err := rep.ReadNDJSON(args[0], func(line []byte) error {
		var h sbHist
		if err := json.Unmarshal(line, &h); err != nil {
			return err
		}
		if distinct[string(line)] {
			return nil
		}
		distinct[string(line)] = true
		for _, mode := range []string{"whole", "bytewise", "random"} {
			if mode == "bytewise" && h.Piece > 2000 && !rep.Thorough() && rnd.Intn(8) != 0 {
				continue
			}
			if err := replaySB(r, rnd, &h, mode); err != nil {
				return err
			}
		}
		return nil
	})
	if err != nil {
		return err
	}
	r.Distinct = len(distinct)
	r.Traces = len(distinct)
	return r.Emit()
}

func replaySB(r *rep.Report, rnd *rand.Rand, h *sbHist, mode string) error {
	t := sideband.Sideband
	tname := "sideband"
	if h.Piece > 2000 {
		t = sideband.Sideband64k
		tname = "sideband64k"
	}
	// producer
	var wire bytes.Buffer
	m := sideband.NewMuxer(t, &wire)
	var data, prog []byte
	ended := false
	var wkey []string
	for _, w := range h.Writes {
		p := make([]byte, w.N)
		rnd.Read(p)
		n, err := m.WriteChannel(sideband.Channel(w.Ch), p)
		if err != nil || n != w.N {
			r.Diverge(fmt.Sprintf("Muxer.WriteChannel|short-write|%s", tname), fmt.Sprintf("WriteChannel(%d, %d bytes) = %d, %v", w.Ch, w.N, n, err), h)
			return nil
		}
		if w.Ch == 3 && w.N > 0 {
			ended = true
		}
		if !ended && w.Ch == 1 {
			data = append(data, p...)
		}
		if !ended && w.Ch == 2 {
			prog = append(prog, p...)
		}
		wkey = append(wkey, fmt.Sprintf("ch%d:%s", w.Ch, sizeClass(w.N, h.Piece)))
	}
	if len(data) != h.Data || len(prog) != h.Prog {
		return fmt.Errorf("rendering disagrees with the spec totals: %d/%d vs %d/%d", len(data), len(prog), h.Data, h.Prog)
	}
	if h.Flush {
		_ = pktline.WriteFlush(&wire)
	}
	// every packet the muxer produced must be a well-formed pkt-line of at most the advertised size
	if err := checkMuxed(wire.Bytes(), h.Piece+5); err != nil {
		r.Diverge(fmt.Sprintf("Muxer.WriteChannel|bad-framing|%s", tname), err.Error(), h)
		return nil
	}
	cr := &cutReader{b: wire.Bytes()}
	switch mode {
	case "bytewise":
		cr.max = 1
	case "random":
		for i := 0; i < 6; i++ {
			if wire.Len() > 0 {
				cr.cuts = append(cr.cuts, rnd.Intn(wire.Len()+1))
			}
		}
		sort.Ints(cr.cuts)
	}
	d := sideband.NewDemuxer(t, cr)
	var sink bytes.Buffer
	d.Progress = &sink
	off := 0
	for k, rd := range h.Reads {
		b := rd.B
		if b > len(data)+8 {
			b = len(data) + 8 // the final drain: any buffer larger than what is left
		}
		buf := make([]byte, b)
		var n int
		var err error
		pan := ""
		func() {
			defer func() {
				if x := recover(); x != nil {
					pan = fmt.Sprint(x)
				}
			}()
			n, err = d.Read(buf)
		}()
		r.Eval(1)
		st := "ok"
		switch {
		case pan != "":
			st = "panic"
		case err == io.EOF:
			st = "eof"
		case err != nil:
			st = "err"
		}
		good := st == rd.St && n == rd.N && off+n <= len(data) && bytes.Equal(buf[:n], data[off:off+n])
		if !good {
			what := "count"
			if st != rd.St {
				what = "status:" + rd.St + "->" + st
			} else if n == rd.N {
				what = "bytes"
			}
			r.Diverge(fmt.Sprintf("Demuxer.Read|%s|%s,buf=%s,chunking=%s", what, tname, sizeClass(rd.B, h.Piece), mode),
				fmt.Sprintf("%s writes %v flush=%v: read #%d with a %d-byte buffer returned (%d, %s) %.60q, spec (%d, %s); %d bytes delivered before",
					tname, wkey, h.Flush, k+1, b, n, st, fmt.Sprint(err), rd.N, rd.St, off),
				map[string]any{"hist": h, "mode": mode, "read": k + 1})
			return nil
		}
		off += n
	}
	if !bytes.Equal(sink.Bytes(), prog) {
		r.Diverge(fmt.Sprintf("Demuxer.Progress|bytes|%s,chunking=%s", tname, mode),
			fmt.Sprintf("%s writes %v: progress sink got %d bytes, spec %d", tname, wkey, sink.Len(), len(prog)), map[string]any{"hist": h, "mode": mode})
		return nil
	}
	if off != len(data) {
		r.Diverge(fmt.Sprintf("Demuxer.Read|total|%s,chunking=%s", tname, mode), fmt.Sprintf("delivered %d of %d bytes", off, len(data)), h)
	}
	if len(r.Samples) < 3 {
		r.Sample(map[string]any{"type": tname, "writes": wkey, "flush": h.Flush, "reads": len(h.Reads), "chunking": mode})
	}
	return nil
}

func sizeClass(n, piece int) string {
	switch {
	case n == 0:
		return "0"
	case n < piece-1:
		return "small"
	case n == piece-1:
		return "piece-1"
	case n == piece:
		return "piece"
	case n == piece+1:
		return "piece+1"
	case n >= 1000000:
		return "drain"
	}
	return "multi"
}

func checkMuxed(b []byte, maxPkt int) error {
	for len(b) > 0 {
		if len(b) < 4 {
			return fmt.Errorf("muxer output ends inside a length header")
		}
		l, err := pktline.ParseLength(b[:4])
		if err != nil {
			return fmt.Errorf("muxer wrote an invalid length: %v", err)
		}
		if l == 0 {
			b = b[4:]
			continue
		}
		if l > maxPkt || l < 6 || l > len(b) {
			return fmt.Errorf("muxer wrote a packet of length %d (max %d, %d bytes left)", l, maxPkt, len(b))
		}
		b = b[l:]
	}
	return nil
}
