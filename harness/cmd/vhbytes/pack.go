package main

import (
	"bytes"
	"compress/zlib"
	"crypto/sha1"
	"encoding/binary"
	"fmt"
	"hash/crc32"
	"io"
	"sort"
	"sync"
)

// Minimal pack writer used to wrap a delta into a real pack (rendering only).

var zwPool = sync.Pool{New: func() any { return zlib.NewWriter(io.Discard) }} // flate.NewWriter is expensive

func zlibBytes(b []byte) []byte {
	var buf bytes.Buffer
	zw := zwPool.Get().(*zlib.Writer)
	zw.Reset(&buf)
	_, _ = zw.Write(b)
	_ = zw.Close()
	zwPool.Put(zw)
	return buf.Bytes()
}

var (
	blobEntryCache = map[string][]byte{}
	blobEntryMu    sync.Mutex
)

// blobEntryCached: pack entry of a (source) blob; sources are few and up to 64 KiB, so cache by content.
func blobEntryCached(content []byte) []byte {
	if len(content) < 1024 {
		return blobEntry(content)
	}
	blobEntryMu.Lock()
	defer blobEntryMu.Unlock()
	k := string(content)
	if e, ok := blobEntryCache[k]; ok {
		return e
	}
	e := blobEntry(content)
	blobEntryCache[k] = e
	return e
}

// entryHeader: 3-bit type, size as 4 + 7*n bits, little endian groups.
func entryHeader(typ int, size int) []byte {
	c := byte(typ<<4) | byte(size&0x0f)
	size >>= 4
	var out []byte
	for size != 0 {
		out = append(out, c|0x80)
		c = byte(size & 0x7f)
		size >>= 7
	}
	return append(out, c)
}

func blobEntry(content []byte) []byte {
	return append(entryHeader(3, len(content)), zlibBytes(content)...)
}

func refDeltaEntry(base [20]byte, delta []byte) []byte {
	e := entryHeader(7, len(delta))
	e = append(e, base[:]...)
	return append(e, zlibBytes(delta)...)
}

// ofsDeltaEntry: negative offset in git's "offset encoding" (big endian groups of 7 bits, +1 per continuation).
func ofsDeltaEntry(back int, delta []byte) []byte {
	e := entryHeader(6, len(delta))
	var tmp [10]byte
	pos := len(tmp) - 1
	tmp[pos] = byte(back & 0x7f)
	back >>= 7
	for back != 0 {
		back--
		pos--
		tmp[pos] = 0x80 | byte(back&0x7f)
		back >>= 7
	}
	e = append(e, tmp[pos:]...)
	return append(e, zlibBytes(delta)...)
}

func buildPack(entries [][]byte) []byte {
	var buf bytes.Buffer
	buf.WriteString("PACK")
	_ = binary.Write(&buf, binary.BigEndian, uint32(2))
	_ = binary.Write(&buf, binary.BigEndian, uint32(len(entries)))
	for _, e := range entries {
		buf.Write(e)
	}
	s := sha1.Sum(buf.Bytes())
	buf.Write(s[:])
	return buf.Bytes()
}

func blobHash(content []byte) [20]byte {
	h := sha1.New()
	fmt.Fprintf(h, "blob %d\x00", len(content))
	h.Write(content)
	var out [20]byte
	copy(out[:], h.Sum(nil))
	return out
}

// ---- pack + idx written by hand so that git can be asked about many deltas in one process (git fsck
// unpacks every idx entry, reports "cannot unpack <oid>" / "packed <oid> ... is corrupt" and carries on)

type idxEnt struct {
	oid [20]byte
	off uint32
	crc uint32
}

// packWithIdx lays the entries out in a pack and writes the matching v2 idx (sorted oids, crc32, 31-bit offsets).
// entries[i] is the raw entry (header + compressed data) as a function of its own offset (OFS deltas need it).
func packWithIdx(oids [][20]byte, entries []func(off int) []byte) (pack, idx []byte) {
	var buf bytes.Buffer
	buf.WriteString("PACK")
	_ = binary.Write(&buf, binary.BigEndian, uint32(2))
	_ = binary.Write(&buf, binary.BigEndian, uint32(len(entries)))
	ents := make([]idxEnt, len(entries))
	for i, e := range entries {
		off := buf.Len()
		raw := e(off)
		ents[i] = idxEnt{oids[i], uint32(off), crc32.ChecksumIEEE(raw)}
		buf.Write(raw)
	}
	ps := sha1.Sum(buf.Bytes())
	buf.Write(ps[:])
	pack = buf.Bytes()

	sort.Slice(ents, func(a, b int) bool { return bytes.Compare(ents[a].oid[:], ents[b].oid[:]) < 0 })
	var ib bytes.Buffer
	ib.Write([]byte{0xff, 't', 'O', 'c', 0, 0, 0, 2})
	var fan [256]uint32
	for _, e := range ents {
		fan[e.oid[0]]++
	}
	acc := uint32(0)
	for i := 0; i < 256; i++ {
		acc += fan[i]
		_ = binary.Write(&ib, binary.BigEndian, acc)
	}
	for _, e := range ents {
		ib.Write(e.oid[:])
	}
	for _, e := range ents {
		_ = binary.Write(&ib, binary.BigEndian, e.crc)
	}
	for _, e := range ents {
		_ = binary.Write(&ib, binary.BigEndian, e.off)
	}
	ib.Write(ps[:])
	is := sha1.Sum(ib.Bytes())
	ib.Write(is[:])
	return pack, ib.Bytes()
}
