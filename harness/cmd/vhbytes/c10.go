package main

import (
	"bytes"
	"crypto"
	"crypto/sha1"
	"encoding/binary"
	"encoding/hex"
	"encoding/json"
	"errors"
	"fmt"
	"io"
	"io/fs"
	"math/rand"
	"os"
	"path/filepath"
	"strings"
	"time"

	"verifharness/internal/rep"

	"github.com/go-git/go-billy/v6/osfs"
	"github.com/go-git/go-git/v6/plumbing"
	ghash "github.com/go-git/go-git/v6/plumbing/hash"
	"github.com/go-git/go-git/v6/plumbing/format/idxfile"
	"github.com/go-git/go-git/v6/plumbing/format/revfile"
	"github.com/go-git/go-git/v6/storage/filesystem/mmap"
	"github.com/go-git/go-git/v6/x/fdpool"
)

// C10: every map of spec/abstract/IdxMap.tla is written with idxfile.Writer + Encode (+ revfile.Encode) and the
// answer table TLC computed is compared with the answers of MemoryIndex (as written and after Decode), LazyIndex
// (with and without an fd pool) and the mmap PackScanner.  Corruption classes named by the spec are applied to the
// encoded files; an implementation must never answer differently from the table without an error.

type idxEntryJ struct {
	ID  []int  `json:"id"`
	Off string `json:"off"`
	Crc string `json:"crc"`
}

type idxHist struct {
	M []idxEntryJ `json:"m"`
	A struct {
		Count   int         `json:"count"`
		Entries []idxEntryJ `json:"entries"`
		ByOff   []idxEntryJ `json:"byoff"`
		Find    []struct {
			ID  []int  `json:"id"`
			Has bool   `json:"has"`
			Off string `json:"off"`
			Crc string `json:"crc"`
		} `json:"find"`
		HashAt []struct {
			Off string `json:"off"`
			ID  []int  `json:"id"`
		} `json:"hashat"`
		Prefix []struct {
			P   []int   `json:"p"`
			IDs [][]int `json:"ids"`
		} `json:"prefix"`
		Corrupt []struct {
			C      string `json:"c"`
			Strict bool   `json:"strict"`
		} `json:"corrupt"`
	} `json:"a"`
}

var idxOffs = map[string]uint64{"o12": 12, "o2g-1": 1<<31 - 1, "o2g": 1 << 31, "o4g+5": 1<<32 + 5, "o1t": 1 << 40}
var idxCrcs = map[string]uint32{"c0": 0, "c1": 1, "cmid": 0x80000000, "cmax": 0xffffffff}

// id <<b1,b2,b3,t>> -> b1 b2 b3, 16 x 00, t (so that ff 00 .. 00 equals a zero-padded prefix; no id is all zero)
func renderID(a []int) plumbing.Hash {
	b := bytes.Repeat([]byte{0x00}, 20)
	b[0], b[1], b[2], b[19] = byte(a[0]), byte(a[1]), byte(a[2]), byte(a[3])
	h, _ := plumbing.FromBytes(b)
	return h
}

type memInput struct {
	*bytes.Reader
	n int64
}
type memInfo struct{ n int64 }

func (m memInfo) Name() string       { return "mem.idx" }
func (m memInfo) Size() int64        { return m.n }
func (m memInfo) Mode() fs.FileMode  { return 0o644 }
func (m memInfo) ModTime() time.Time { return time.Time{} }
func (m memInfo) IsDir() bool        { return false }
func (m memInfo) Sys() any           { return nil }
func (m memInput) Stat() (fs.FileInfo, error) { return memInfo{m.n}, nil }

type memRA struct{ *bytes.Reader }

func (memRA) Close() error { return nil }

// one answer of the sweep: query key -> rendered answer (or "error:...")
type sweep map[string]string

func entStr(e *idxfile.Entry) string {
	return fmt.Sprintf("%s@%d/%08x", e.Hash.String()[:6]+e.Hash.String()[38:], e.Offset, e.CRC32)
}

func iterStr(it idxfile.EntryIter, err error) string {
	if err != nil {
		return "error:" + err.Error()
	}
	defer it.Close()
	var out []string
	for i := 0; i < 1000; i++ {
		e, err := it.Next()
		if err == io.EOF {
			return strings.Join(out, ",")
		}
		if err != nil {
			return "error:" + err.Error()
		}
		out = append(out, entStr(e))
	}
	return "error:iterator does not end"
}

// expected answers rendered from the spec's table
func expectedSweep(h *idxHist) sweep {
	s := sweep{}
	es := func(e idxEntryJ) string {
		id := renderID(e.ID)
		return fmt.Sprintf("%s@%d/%08x", id.String()[:6]+id.String()[38:], idxOffs[e.Off], idxCrcs[e.Crc])
	}
	join := func(l []idxEntryJ) string {
		var o []string
		for _, e := range l {
			o = append(o, es(e))
		}
		return strings.Join(o, ",")
	}
	byID := map[string]idxEntryJ{}
	for _, e := range h.M {
		byID[fmt.Sprint(e.ID)] = e
	}
	s["Count"] = fmt.Sprint(h.A.Count)
	s["Entries"] = join(h.A.Entries)
	s["EntriesByOffset"] = join(h.A.ByOff)
	for _, f := range h.A.Find {
		k := fmt.Sprint(f.ID)
		if f.Has {
			s["Contains|"+k] = "true"
			s["FindOffset|"+k+"|"+f.Off] = fmt.Sprint(idxOffs[f.Off])
			s["FindCRC32|"+k+"|"+f.Crc] = fmt.Sprintf("%08x", idxCrcs[f.Crc])
			s["MayContain|"+k] = "true"
		} else {
			s["Contains|"+k] = "false"
			s["FindOffset|"+k+"|absent"] = "notfound"
			s["FindCRC32|"+k+"|absent"] = "notfound"
		}
	}
	for _, x := range h.A.HashAt {
		if len(x.ID) == 0 {
			s["FindHash|"+x.Off+"|absent"] = "notfound"
		} else {
			s["FindHash|"+x.Off+"|present"] = renderID(x.ID).String()
		}
	}
	for _, p := range h.A.Prefix {
		var l []idxEntryJ
		for _, id := range p.IDs {
			l = append(l, byID[fmt.Sprint(id)])
		}
		s[fmt.Sprintf("EntriesWithPrefix|%v|len=%d", p.P, len(p.P))] = join(l)
	}
	return s
}

func nf(err error) string {
	if errors.Is(err, plumbing.ErrObjectNotFound) || errors.Is(err, mmap.ErrObjectNotFound) || errors.Is(err, mmap.ErrOffsetNotFound) {
		return "notfound"
	}
	return "error:" + err.Error()
}

// the same questions asked of an idxfile.Index
func indexSweep(ix idxfile.Index, h *idxHist) sweep {
	s := sweep{}
	c, err := ix.Count()
	if err != nil {
		s["Count"] = "error:" + err.Error()
	} else {
		s["Count"] = fmt.Sprint(c)
	}
	s["Entries"] = iterStr(ix.Entries())
	s["EntriesByOffset"] = iterStr(ix.EntriesByOffset())
	for _, f := range h.A.Find {
		k := fmt.Sprint(f.ID)
		id := renderID(f.ID)
		ok, err := ix.Contains(id)
		if err != nil {
			s["Contains|"+k] = "error:" + err.Error()
		} else {
			s["Contains|"+k] = fmt.Sprint(ok)
		}
		sfx := "absent"
		csfx := "absent"
		if f.Has {
			sfx, csfx = f.Off, f.Crc
			s["MayContain|"+k] = fmt.Sprint(ix.MayContain(id))
		} else if !ix.MayContain(id) && ok {
			s["MayContain|"+k] = "false-but-contained"
		}
		o, err := ix.FindOffset(id)
		if err != nil {
			s["FindOffset|"+k+"|"+sfx] = nf(err)
		} else {
			s["FindOffset|"+k+"|"+sfx] = fmt.Sprint(uint64(o))
		}
		cr, err := ix.FindCRC32(id)
		if err != nil {
			s["FindCRC32|"+k+"|"+csfx] = nf(err)
		} else {
			s["FindCRC32|"+k+"|"+csfx] = fmt.Sprintf("%08x", cr)
		}
	}
	for _, x := range h.A.HashAt {
		sfx := "present"
		if len(x.ID) == 0 {
			sfx = "absent"
		}
		hh, err := ix.FindHash(int64(idxOffs[x.Off]))
		if err != nil {
			s["FindHash|"+x.Off+"|"+sfx] = nf(err)
		} else {
			s["FindHash|"+x.Off+"|"+sfx] = hh.String()
		}
	}
	for _, p := range h.A.Prefix {
		s[fmt.Sprintf("EntriesWithPrefix|%v|len=%d", p.P, len(p.P))] = iterStr(ix.EntriesWithPrefix(ints2bytes(p.P)))
	}
	return s
}

func scannerSweep(sc *mmap.PackScanner, h *idxHist) sweep {
	s := sweep{}
	for _, f := range h.A.Find {
		k := fmt.Sprint(f.ID)
		sfx := "absent"
		if f.Has {
			sfx = f.Off
		}
		o, err := sc.FindOffset(renderID(f.ID))
		if err != nil {
			s["FindOffset|"+k+"|"+sfx] = nf(err)
		} else {
			s["FindOffset|"+k+"|"+sfx] = fmt.Sprint(o)
		}
	}
	for _, x := range h.A.HashAt {
		sfx := "present"
		if len(x.ID) == 0 {
			sfx = "absent"
		}
		hh, err := sc.FindHash(idxOffs[x.Off])
		if err != nil {
			s["FindHash|"+x.Off+"|"+sfx] = nf(err)
		} else {
			s["FindHash|"+x.Off+"|"+sfx] = hh.String()
		}
	}
	return s
}

// queryClass: the part of a sweep key that goes into a signature (query kind + abstract class, no ids)
func queryClass(k string) string {
	f := strings.Split(k, "|")
	if len(f) >= 3 {
		return f[0] + "|" + f[2]
	}
	return f[0]
}

type idxFiles struct{ idx, rev, pack []byte }

var packHashC10 = func() plumbing.Hash {
	h, _ := plumbing.FromBytes(bytes.Repeat([]byte{0x77}, 20))
	return h
}()

type impl struct {
	name string
	open func(f idxFiles, dir string) (func(h *idxHist) sweep, func(), error)
}

func dummyPack() []byte {
	var b bytes.Buffer
	b.WriteString("PACK")
	_ = binary.Write(&b, binary.BigEndian, uint32(2))
	_ = binary.Write(&b, binary.BigEndian, uint32(0))
	b.Write(make([]byte, 20))
	s := sha1.Sum(b.Bytes()[:12])
	copy(b.Bytes()[12:], s[:])
	return b.Bytes()
}

func implsC10() []impl {
	lazy := func(pool *fdpool.Pool) func(f idxFiles, dir string) (func(h *idxHist) sweep, func(), error) {
		return func(f idxFiles, dir string) (func(h *idxHist) sweep, func(), error) {
			li, err := idxfile.NewLazyIndexWithPool(
				func() (idxfile.ReadAtCloser, error) { return memRA{bytes.NewReader(f.idx)}, nil },
				func() (idxfile.ReadAtCloser, error) { return memRA{bytes.NewReader(f.rev)}, nil }, packHashC10, pool)
			if err != nil {
				return nil, nil, err
			}
			return func(h *idxHist) sweep { return indexSweep(li, h) }, func() { _ = li.Close() }, nil
		}
	}
	return []impl{
		{"MemoryIndex", func(f idxFiles, dir string) (func(h *idxHist) sweep, func(), error) {
			mi := idxfile.NewMemoryIndex(20)
			if err := idxfile.NewDecoder(memInput{bytes.NewReader(f.idx), int64(len(f.idx))}, ghash.New(crypto.SHA1)).Decode(mi); err != nil {
				return nil, nil, err
			}
			return func(h *idxHist) sweep { return indexSweep(mi, h) }, func() {}, nil
		}},
		{"LazyIndex", lazy(nil)},
		{"LazyIndex", lazy(fdpool.New(1))},
		{"PackScanner", func(f idxFiles, dir string) (func(h *idxHist) sweep, func(), error) {
			if dir == "" {
				return nil, nil, errSkip
			}
			for n, b := range map[string][]byte{"p.idx": f.idx, "p.rev": f.rev, "p.pack": f.pack} {
				if err := os.WriteFile(filepath.Join(dir, n), b, 0o644); err != nil {
					return nil, nil, err
				}
			}
			bfs := osfs.New(dir)
			pf, err := bfs.Open("p.pack")
			if err != nil {
				return nil, nil, err
			}
			xf, err := bfs.Open("p.idx")
			if err != nil {
				return nil, nil, err
			}
			rf, err := bfs.Open("p.rev")
			if err != nil {
				return nil, nil, err
			}
			sc, err := mmap.NewPackScanner(20, pf, xf, rf)
			cl := func() { _ = pf.Close(); _ = xf.Close(); _ = rf.Close() }
			if err != nil {
				cl()
				return nil, nil, err
			}
			return func(h *idxHist) sweep { return scannerSweep(sc, h) }, func() { _ = sc.Close(); cl() }, nil
		}},
	}
}

var errSkip = errors.New("skip")

func init() { rep.Register("c10", c10) }

func c10(args []string) error {
	if len(args) < 1 {
		return fmt.Errorf("usage: c10 hist.ndjson")
	}
	r := rep.New()
	rnd := rand.New(rand.NewSource(rep.Seed()))
	dir, err := os.MkdirTemp(rep.Scratch(), "c10")
	if err != nil {
		return err
	}
	impls := implsC10()
	nmaps, ncorr := 0, 0
	outcomes := map[string]int{}
	err = rep.ReadNDJSON(args[0], func(line []byte) error {
		h := &idxHist{}
		if err := json.Unmarshal(line, h); err != nil {
			return err
		}
		nmaps++
		// ---- write: Writer -> MemoryIndex -> Encode (idx) + revfile.Encode
		w := new(idxfile.Writer)
		_ = w.OnHeader(uint32(len(h.M)))
		perm := rnd.Perm(len(h.M)) // insertion order must not matter
		for _, k := range perm {
			e := h.M[k]
			w.Add(renderID(e.ID), idxOffs[e.Off], idxCrcs[e.Crc])
		}
		_ = w.OnFooter(packHashC10)
		mi, err := w.Index()
		if err != nil {
			r.Diverge("Writer|Index|error", "idxfile.Writer.Index: "+err.Error(), h.M)
			return nil
		}
		var ib, rb bytes.Buffer
		if err := idxfile.Encode(&ib, ghash.New(crypto.SHA1), mi); err != nil {
			r.Diverge("Encode|idx|error", "idxfile.Encode: "+err.Error(), h.M)
			return nil
		}
		if err := revfile.Encode(&rb, ghash.New(crypto.SHA1), mi); err != nil {
			r.Diverge("Encode|rev|error", "revfile.Encode: "+err.Error(), h.M)
			return nil
		}
		files := idxFiles{ib.Bytes(), rb.Bytes(), dummyPack()}
		exp := expectedSweep(h)
		firstWrong := ""
		compare := func(name string, got sweep, full bool) (wrong, errs int) {
			firstWrong = ""
			for k, g := range got {
				e, ok := exp[k]
				if !ok {
					if strings.HasPrefix(k, "MayContain|") { // only reported when unsound
						wrong++
						r.Diverge(name+"|MayContain|unsound", name+" MayContain is false for an id Contains finds: "+k, h.M)
					}
					continue
				}
				if g == e {
					continue
				}
				if strings.HasPrefix(g, "error:") {
					errs++
					if full {
						r.Diverge(name+"|"+queryClass(k)+"|error", fmt.Sprintf("%s %s on map %v: %s, spec %q", name, k, mapStr(h), g, e), map[string]any{"map": h.M, "query": k, "spec": e, "got": g})
					}
					continue
				}
				wrong++
				if firstWrong == "" || k < firstWrong[:min(len(k), len(firstWrong))] {
					firstWrong = fmt.Sprintf("%s = %q, spec %q", k, g, e)
				}
				if full {
					r.Diverge(name+"|"+queryClass(k)+"|wrong-answer", fmt.Sprintf("%s %s on map %v: got %q, spec %q", name, k, mapStr(h), g, e), map[string]any{"map": h.M, "query": k, "spec": e, "got": g})
				}
			}
			if full {
				for k := range exp {
					if _, ok := got[k]; !ok && name != "PackScanner" {
						r.Diverge(name+"|"+queryClass(k)+"|unanswered", name+" did not answer "+k, h.M)
					}
				}
			}
			return
		}
		// the index as written (before any encoding)
		r.Eval(len(exp))
		compare("MemoryIndex(written)", indexSweep(mi, h), true)
		scanDir := ""
		if nmaps%8 == int(rep.Seed())%8 || rep.Thorough() && nmaps%2 == 0 {
			scanDir = dir // the mmap scanner needs real files: a seeded 1/8 of the maps (1/2 thorough)
		}
		for _, im := range impls {
			q, cl, err := im.open(files, scanDir)
			if err == errSkip {
				continue
			}
			if err != nil {
				r.Diverge(im.name+"|open|error|entries="+map[bool]string{true: "0", false: ">0"}[len(h.M) == 0], fmt.Sprintf("%s cannot open the files go-git wrote for map %v: %v", im.name, mapStr(h), err), h.M)
				continue
			}
			got := safeSweep(q, h)
			cl()
			r.Eval(len(got))
			compare(im.name, got, true)
		}
		if len(r.Samples) < 3 {
			r.Sample(map[string]any{"map": mapStr(h), "queries": len(exp), "idx_bytes": ib.Len()})
		}
		// ---- corruption classes (spec: never a different answer without an error; strict classes must be noticed)
		if nmaps%4 != int(rep.Seed())%4 && !rep.Thorough() {
			return nil
		}
		for _, c := range h.A.Corrupt {
			bad, applicable := corrupt(files, c.C, h)
			if !applicable {
				continue
			}
			for _, im := range impls {
				if strings.HasPrefix(c.C, "rev-") && im.name == "MemoryIndex" {
					continue // the decoder does not read the rev file
				}
				if c.C == "idx-checksum" && im.name != "MemoryIndex" {
					continue // only a full read can notice the trailing idx checksum
				}
				q, cl, err := im.open(bad, scanDir)
				if err == errSkip {
					continue
				}
				ncorr++
				outcome := ""
				if err != nil {
					outcome = "rejected"
				} else {
					got := safeSweep(q, h)
					cl()
					if p, ok := got["panic"]; ok {
						outcome = "panic"
						_ = p
					} else {
						wrong, errs := compare(im.name, got, false)
						switch {
						case wrong > 0:
							outcome = "wrong-answer"
						case errs > 0:
							outcome = "errors-on-use"
						default:
							outcome = "silent-same"
						}
					}
				}
				outcomes[im.name+"/"+c.C+"/"+outcome]++
				r.Eval(1)
				if outcome == "wrong-answer" || outcome == "panic" || (outcome == "silent-same" && c.Strict) {
					r.Diverge(im.name+"|corrupt:"+c.C+"|"+outcome,
						fmt.Sprintf("%s on files damaged by %s (map %v): %s instead of rejecting (%s)", im.name, c.C, mapStr(h), outcome, firstWrong),
						map[string]any{"map": h.M, "class": c.C, "outcome": outcome, "idx": hex.EncodeToString(bad.idx[:min(len(bad.idx), 64)])})
				}
			}
		}
		return nil
	})
	if err != nil {
		return err
	}
	r.Distinct = nmaps
	r.Traces = nmaps
	r.Extra["maps"] = nmaps
	r.Extra["corrupt_runs"] = ncorr
	r.Extra["corrupt_outcomes"] = outcomes
	return r.Emit()
}

func safeSweep(q func(h *idxHist) sweep, h *idxHist) (s sweep) {
	defer func() {
		if x := recover(); x != nil {
			s = sweep{"panic": fmt.Sprint(x)}
		}
	}()
	return q(h)
}

func mapStr(h *idxHist) string {
	var o []string
	for _, e := range h.M {
		o = append(o, fmt.Sprintf("%v@%s", e.ID, e.Off))
	}
	return "{" + strings.Join(o, " ") + "}"
}

// corrupt applies one corruption class of IdxMap.tla to the encoded files (rendering of the class name).
func corrupt(f idxFiles, class string, h *idxHist) (idxFiles, bool) {
	idx := append([]byte{}, f.idx...)
	rev := append([]byte{}, f.rev...)
	n := len(h.M)
	fan := func(i int) []byte { return idx[8+4*i : 12+4*i] }
	off32 := 8 + 1024 + n*20 + n*4
	switch class {
	case "bad-magic":
		idx[1] ^= 0x20
	case "bad-version":
		idx[7] = 3
	case "fanout-non-monotone":
		binary.BigEndian.PutUint32(fan(254), uint32(n+1))
	case "fanout-count-plus-one":
		binary.BigEndian.PutUint32(fan(255), uint32(n+1))
	case "truncated":
		if len(idx) < 8+1024+45 {
			idx = idx[:8+1024+10]
		} else {
			idx = idx[:len(idx)-45]
		}
	case "off64-index-out-of-range":
		found := false
		for i := 0; i < n; i++ {
			v := binary.BigEndian.Uint32(idx[off32+4*i:])
			if v&0x80000000 != 0 {
				binary.BigEndian.PutUint32(idx[off32+4*i:], v+7)
				found = true
				break
			}
		}
		if !found {
			return f, false
		}
	case "pack-checksum":
		idx[len(idx)-40] ^= 0xff
	case "idx-checksum":
		idx[len(idx)-1] ^= 0xff
	case "rev-bad-magic":
		rev[0] ^= 0x20
	case "rev-truncated":
		rev = rev[:10]
	default:
		return f, false
	}
	return idxFiles{idx, rev, f.pack}, true
}
